#!/bin/bash
# tools/mk_seed_wt.sh <name>: scratch worktree /tmp/seed-<name> of /repo HEAD with a configured and built _build
W=/tmp/seed-$1
git -C /repo worktree add -q "$W" HEAD || exit 1
cd "$W" && cmake -G Ninja -S . -B _build -DCMAKE_BUILD_TYPE=RelWithDebInfo -DCMAKE_CXX_FLAGS=-Wno-error >/dev/null 2>&1 && cmake --build _build -- -k 0 2>&1 | tail -1 && ctest --test-dir _build -j8 --timeout 900 2>&1 | grep "tests passed"
