#!/bin/bash
# tools/process_blue.sh <property> [check-property...]: applies each harmless refactor /tmp/blueout/<P>-h<n>/patch.diff in /tmp/blue-<P>,
# runs the named checks (default: the property's own) against the patched tree, reverts.  Expected: exit 0 everywhere.
P=$1; shift; CHECKS=${@:-$P}; W=/tmp/blue-$P
for S in /tmp/blueout/$P-h*; do
  [ -f $S/patch.diff ] || continue
  echo "=== $(basename $S): $(python3 -c "import json;print(json.load(open('$S/meta.json'))['title'][:150])")"
  ( cd $W && git apply $S/patch.diff ) || { echo "   PATCH DOES NOT APPLY"; continue; }
  for C in $CHECKS; do
    out=$(cd /verif && VERIF_REPO=$W timeout 3000 bin/check $C --tier quick 2>/tmp/blue_err.$$; echo "exit=$?")
    echo "   check $C: $(echo "$out" | grep -E '^(VIOLATION|KNOWN|ERROR|exit=)' | tr '\n' ' ')"
    echo "$out" | grep -q "exit=0" || tail -3 /tmp/blue_err.$$ | sed 's/^/      /'
  done
  ( cd $W && git checkout -- . )
done
rm -f /tmp/blue_err.$$
