#!/bin/bash
# tools/mk_blue.sh <property>: scratch worktree /tmp/blue-<P> and the prompt /tmp/blueprompts/<P>.txt (property text only)
P=$1; W=/tmp/blue-$P
git -C /repo worktree add -q "$W" HEAD || exit 1
( cd "$W" && cmake -G Ninja -S . -B _build -DCMAKE_BUILD_TYPE=RelWithDebInfo -DCMAKE_CXX_FLAGS=-Wno-error >/dev/null 2>&1 && cmake --build _build -- -k 0 2>&1 | tail -1 && ctest --test-dir _build -j4 --timeout 900 2>&1 | grep "tests passed" )
mkdir -p /tmp/blueprompts /tmp/blueout
python3 - "$P" <<'PY'
import json, sys
pid = sys.argv[1]
props = {json.loads(l)['id']: json.loads(l) for l in open('/verif/properties.jsonl')}
p = props[pid]
T = open('/verif/tools/blue_prompt.txt').read()
open('/tmp/blueprompts/%s.txt' % pid, 'w').write(T.format(wt='/tmp/blue-' + pid, id=pid, title=p['title'], statement=p['statement'],
     q=p['quantifier']['text'], files=', '.join(p['anchors']['files']), out='/tmp/blueout'))
PY
echo "prompt: /tmp/blueprompts/$P.txt"
