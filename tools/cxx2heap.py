#!/usr/bin/env python3
"""cxx2heap: the struct-walking flavour of tools/cxx2gal.py.  Same continuation-passing translation of statements, loops and
expressions (see cxx2gal.py), but memory is the OBJECT HEAP of coq/lib/CHeap.v: an object is a block with one cell per scalar
member in declaration order (nested records and arrays flattened), a pointer to a modelled record type is an `hptr`
(block, cell index), every other pointer is an opaque integer address.  `p->f`, `o.f`, `a[i]`, `&o` become cell addresses
computed with the record layouts that are RE-READ FROM THE CLASS DEFINITIONS by clang on every run; loads check the kind of the
cell (integer / pointer).  A member function gets its receiver as first parameter `this_ : hptr`; a call `o.m(args)` /
`p->m(args)` passes the address of the receiver object.

Subset beyond cxx2gal's: MemberExpr on records (arrow and dot), arrays of records or scalars inside records, calls of translated
member functions on sub-objects, pointer equality and truth of record pointers.  Not supported (raises Unsupported): virtual
calls, references to records as values, unions, bit fields, pointer arithmetic on record pointers other than array indexing."""
import os, re, json
import cxx2coq, cxx2gal
from cxx2coq import Unsupported, qual, norm_type, ctype
from cxx2gal import SKIP, CASTS, ite, pretty, TYPEDEFS


def c_unescape(lit):
    """the characters of a C string literal as clang prints it ("..." with C escapes)"""
    if not (lit.startswith('"') and lit.endswith('"')):
        raise Unsupported("string literal %s" % lit)
    body, out, i = lit[1:-1], "", 0
    simple = {"n": "\n", "t": "\t", "r": "\r", "\\": "\\", '"': '"', "'": "'", "0": "\0", "a": "\a", "b": "\b", "f": "\f", "v": "\v"}
    while i < len(body):
        ch = body[i]
        if ch != "\\":
            out += ch
            i += 1
            continue
        m = re.match(r"[0-7]{1,3}", body[i + 1:])
        if m:
            out += chr(int(m.group(0), 8))
            i += 1 + len(m.group(0))
            continue
        m = re.match(r"x([0-9a-fA-F]+)", body[i + 1:])
        if m:
            out += chr(int(m.group(1), 16))
            i += 1 + len(m.group(0))
            continue
        if body[i + 1] in simple:
            out += simple[body[i + 1]]
            i += 2
            continue
        raise Unsupported("escape in string literal %s" % lit)
    return out


def coq_text(t):
    """a Coq string expression for text t (control characters written as character codes)"""
    parts, cur = [], ""
    for ch in t:
        if 32 <= ord(ch) < 127:
            cur += ch
        else:
            if cur:
                parts.append(cxx2coq.coq_string(cur))
                cur = ""
            parts.append("String (Ascii.ascii_of_nat %d) EmptyString" % ord(ch))
    if cur or not parts:
        parts.append(cxx2coq.coq_string(cur))
    return "(" + " ++ ".join("(%s)" % p for p in parts) + ")%string"


class HeapFn(cxx2gal.LoopFn):
    MEM_T = "heap"

    # ------------------------------------------------------------------ types and layouts
    def callee_name(self, n):
        """the name of the called function; when the configuration has an entry "Class::name" for a member call whose object is of
        class Class, that qualified name (two members of different classes may share a name)"""
        name = super().callee_name(n)
        m = n
        while m.get("kind") in ("ImplicitCastExpr", "ParenExpr") and self.inner(m):
            m = self.inner(m)[0]
        if m.get("kind") == "MemberExpr" and self.inner(m):
            q = norm_type(qual(self.inner(m)[0]))
            q = re.sub(r"\bconst\b", "", q).replace("*", "").replace("&", "").strip()
            q = re.sub(r"^(struct|class)\s+", "", q).split("::")[-1]
            if "%s::%s" % (q, name) in self.calls:
                return "%s::%s" % (q, name)
        return name

    def rec_name(self, q):
        q = norm_type(q)
        q = re.sub(r"^(struct|class)\s+", "", q)
        if "::" in q and q not in self.tr.layouts and q.split("::")[-1] in self.tr.layouts:
            return q.split("::")[-1]         # a nested class, named with its qualification
        q = re.sub(r"\bconst\b", "", q).strip() if re.sub(r"\bconst\b", "", q).strip() in self.cfg.get("record_aliases", {}) else q
        return self.cfg.get("record_aliases", {}).get(q, q)      # a base class every object of which is (here) of one modelled derived class

    def is_record(self, q):
        return self.rec_name(q) in self.tr.layouts

    def is_rec_ptr(self, q):
        q = norm_type(q)
        if re.fullmatch(r".*\*\s*\*", q):
            return True                      # a pointer to a pointer: the address of a cell
        return q.endswith("*") and self.is_record(q[:-1])

    def is_ptr_to_cell(self, q):
        return bool(re.fullmatch(r".*\*\s*\*", norm_type(q)))

    def gvar(self, name):
        g = self.cfg.get("heap_globals", {}).get(name)
        if g is None:
            return None
        if g not in self.vars:
            self.vars[g] = "hptr"
            self.order.append(g)
            self.gparams.append(g)
        return g

    def coqtype_of(self, q):
        if q.strip().endswith("&") and self.is_record(q):
            return "hptr"                    # a reference to a modelled record: the address of the object
        if self.rec_name(q) in self.cfg.get("opaque_classes", []) and not q.strip().endswith("*"):
            return "Z"                       # an object of an opaque class (a text): the integer that identifies its value
        q = TYPEDEFS.get(norm_type(q), q)
        if self.is_rec_ptr(q):
            return "hptr"
        qn = re.sub(r"\bconst\b", "", norm_type(q)).strip()
        if qn in self.cfg.get("enums", []) or qn.split("::")[-1] in self.cfg.get("enums", []):
            return "Z"
        t = ctype(q)
        if t[0] in ("int", "bool", "enum", "ptr"):
            return "Z"
        raise Unsupported("variable of type %s" % q)

    def cells(self, q):
        if q.strip().endswith("&"):
            return 1                         # a reference member: one cell holding the address
        q = norm_type(q)
        m = re.fullmatch(r"(.+?)\s*\[(\d+)\]", q)
        if m:
            return int(m.group(2)) * self.cells(m.group(1))
        if self.is_record(q):
            return sum(self.cells(t) for _, t in self.tr.layouts[self.rec_name(q)])
        return 1

    def flat_types(self, q):
        """the types of the cells of an object of type q, in order"""
        if q.strip().endswith("&"):
            return [q]
        qn = norm_type(q)
        m = re.fullmatch(r"(.+?)\s*\[(\d+)\]", qn)
        if m:
            return self.flat_types(m.group(1)) * int(m.group(2))
        if self.is_record(qn):
            out = []
            for _, t in self.tr.layouts[self.rec_name(qn)]:
                out += self.flat_types(t)
            return out
        return [q]

    def field_offset(self, rec, field):
        off = 0
        for f, t in self.tr.layouts[self.rec_name(rec)]:
            if f == field:
                return off, t
            off += self.cells(t)
        raise Unsupported("record %s has no field %s" % (rec, field))

    def hoff(self, p, k, cont):
        """cell address p + k (k a Python int or a Coq term)"""
        if k == 0:
            return cont(p)
        t = self.tmp("q")
        return "(match hpadd mem %s %s with None => Oob | Some %s => %s end)" % (p, k, t, cont(t))

    # ------------------------------------------------------------------ lvalues
    def obj_addr(self, n, k):
        """address (hptr term) of the record object denoted by expression n (an lvalue of record type, or `this`)"""
        kd = n.get("kind")
        inn = self.inner(n)
        if kd in SKIP or (kd in CASTS and n.get("castKind") in ("NoOp", "UncheckedDerivedToBase", "DerivedToBase")):
            return self.obj_addr(inn[0], k)
        if kd == "UnaryOperator" and n.get("opcode") == "*":
            return self.E(inn[0], k)
        return self.L(n, lambda lv: k(lv[1]) if lv[0] == "cell" else self._bad("record object held in a variable"))

    def _bad(self, what):
        raise Unsupported(what)

    def L(self, n, k):
        kd = n.get("kind")
        inn = self.inner(n)
        if kd == "MemberExpr":
            base = inn[0] if inn else None
            if base is None:
                raise Unsupported("member without object")
            bq = qual(base)
            rec = norm_type(bq)
            if n.get("isArrow"):
                rec = norm_type(rec[:-1]) if rec.endswith("*") else rec

                def with_p(p):
                    off, ft = self.field_offset(rec, n["name"])
                    return self.hoff(p, off, lambda a: k(("cell", a, qual(n))))
                b = base
                while b.get("kind") in ("ImplicitCastExpr", "ParenExpr") and b.get("castKind") in (None, "NoOp", "LValueToRValue") and \
                        self.inner(b) and self.inner(b)[0].get("kind") == "CXXThisExpr":
                    b = self.inner(b)[0]
                if b.get("kind") == "CXXThisExpr":
                    return with_p(self.this_var())
                return self.E(base, with_p)

            def with_o(p):
                off, ft = self.field_offset(rec, n["name"])
                return self.hoff(p, off, lambda a: k(("cell", a, qual(n))))
            return self.obj_addr(base, with_o)
        if kd == "ArraySubscriptExpr":
            base, idx = inn
            b = base
            while b.get("kind") in SKIP:
                b = self.inner(b)[0]
            if b.get("kind") in CASTS and b.get("castKind") == "ArrayToPointerDecay":
                arr = self.inner(b)[0]
                step = self.cells(qual(n))

                def with_a(lv):
                    if lv[0] != "cell":
                        raise Unsupported("array held in a variable")

                    def with_i(i):
                        off = i if step == 1 else "(%s * %d)" % (i, step)
                        return self.hoff(lv[1], off, lambda a: k(("cell", a, qual(n))))
                    return self.E(idx, with_i)
                return self.L(arr, with_a)
            if self.coqtype_safe(qual(base)) == "hptr":
                step = self.cells(qual(n))
                return self.E(base, lambda p: self.E(idx, lambda i: self.hoff(p, i if step == 1 else "(%s * %d)" % (i, step),
                                                                              lambda a: k(("cell", a, qual(n))))))
            raise Unsupported("subscript on %s" % qual(base))
        if kd == "UnaryOperator" and n.get("opcode") == "*":
            if self.coqtype_safe(qual(inn[0])) == "hptr" or self.is_ptr_to_cell(qual(inn[0])):
                return self.E(inn[0], lambda p: k(("cell", p, qual(n))))
            raise Unsupported("dereference of an opaque pointer (%s)" % qual(inn[0]))
        if kd == "CXXThisExpr":
            raise Unsupported("this as an lvalue")
        if kd == "DeclRefExpr" and n["referencedDecl"].get("kind") == "VarDecl" and self.gvar(n["referencedDecl"]["name"]):
            return k(("cell", self.gvar(n["referencedDecl"]["name"]), qual(n)))     # a global object: its cells are in the heap
        if kd == "DeclRefExpr" and n["referencedDecl"].get("kind") == "ParmVarDecl":
            rq = (n["referencedDecl"].get("type") or {}).get("qualType", "")
            if rq.strip().endswith("&") and self.is_record(rq) and self.ident(n["referencedDecl"]["name"]) in self.vars:
                return k(("cell", self.ident(n["referencedDecl"]["name"]), qual(n)))   # a reference parameter: the object's address
        return super().L(n, k)

    def coqtype_safe(self, q):
        try:
            return self.coqtype_of(q)
        except Unsupported:
            return None

    def is_local_ref(self, tgt):
        """an assignment target that is a parameter or local variable (everything else is a store into the heap)"""
        return tgt.get("kind") == "DeclRefExpr" and tgt["referencedDecl"].get("kind") in ("ParmVarDecl", "VarDecl") and \
            tgt["referencedDecl"]["name"] not in self.cfg.get("heap_globals", {})

    def this_var(self):
        if "this_" not in self.vars:
            self.vars["this_"] = "hptr"
            self.order.insert(0, "this_")
            self.uses_this = True
        return "this_"

    def incdec(self, n, k):
        op = n["opcode"]
        post = bool(n.get("isPostfix"))
        x = self.inner(n)[0]

        def with_lv(lv):
            if lv[0] != "cell":
                return None
            if self.coqtype_of(lv[2]) == "hptr":
                raise Unsupported("++/-- on a record pointer held in an object")
            self.stores = True
            old, new = self.tmp("v"), self.tmp("v")
            return ("(match hload_int mem %s with None => Oob | Some %s => let %s := %s in match hstore mem %s (VInt %s) with None => Oob | Some mem => %s end end)"
                    % (lv[1], old, new, self.wrap_type(lv[2], "(%s %s 1)" % (old, "+" if op == "++" else "-")), lv[1], new,
                       k(old if post else new, lv)))
        xs = x
        while xs.get("kind") in SKIP:
            xs = self.inner(xs)[0]
        is_g = xs.get("kind") == "DeclRefExpr" and xs["referencedDecl"].get("kind") == "VarDecl" and \
            xs["referencedDecl"]["name"] in self.cfg.get("heap_globals", {})
        if is_g or xs.get("kind") in ("MemberExpr", "ArraySubscriptExpr") or (xs.get("kind") == "UnaryOperator" and xs.get("opcode") == "*"):
            return self.L(x, with_lv)
        return super().incdec(n, k)

    def is_opaque_obj(self, q):
        return self.rec_name(q) in self.cfg.get("opaque_classes", [])

    def rvalue(self, lv, k):
        if lv[0] == "var":
            return k(lv[1])
        if lv[0] != "cell":
            raise Unsupported("byte memory in a heap-flavour function")
        if self.is_opaque_obj(lv[2]):
            v = self.tmp("v")
            return "(match hload_int mem %s with None => Oob | Some %s => %s end)" % (lv[1], v, k(v))
        if self.is_record(lv[2]) or re.search(r"\[\d+\]$", norm_type(lv[2])):
            raise Unsupported("a record or array used as a value (%s)" % lv[2])
        v = self.tmp("v")
        if self.coqtype_of(lv[2]) == "hptr":
            return "(match hload_ptr mem %s with None => Oob | Some %s => %s end)" % (lv[1], v, k(v))
        return "(match hload_int mem %s with None => Oob | Some %s => %s end)" % (lv[1], v, k(v))

    def assign_opaque(self, lv, v, k):
        if lv[0] != "cell" or not self.is_opaque_obj(lv[2]):
            raise Unsupported("assignment between objects that are not opaque members")
        self.stores = True
        return "(match hstore mem %s (VInt %s) with None => Oob | Some mem => %s end)" % (lv[1], v, k(v))

    def assign(self, lv, v, k):
        if lv[0] == "var":
            return "(let %s := %s in %s)" % (lv[1], v, k(lv[1]))
        if lv[0] != "cell":
            raise Unsupported("byte memory in a heap-flavour function")
        self.stores = True
        con = "VPtr" if self.coqtype_of(lv[2]) == "hptr" else "VInt"
        return "(match hstore mem %s (%s %s) with None => Oob | Some mem => %s end)" % (lv[1], con, v, k(v))

    # ------------------------------------------------------------------ expressions
    def E(self, n, k):
        kd = n.get("kind")
        inn = self.inner(n)
        if kd in CASTS and n.get("castKind") == "BitCast" and self.coqtype_safe(qual(n)) == "hptr":
            # (Record*) (void*) allocator->alloc_memory(sizeof(Record), ...): a new record object
            x = inn[0]
            while x.get("kind") in SKIP or x.get("kind") in CASTS:
                x = self.inner(x)[0]
            if x.get("kind") in ("CallExpr", "CXXMemberCallExpr"):
                spec = self.calls.get(self.callee_name(self.inner(x)[0]))
                if isinstance(spec, dict) and spec.get("alloc") and spec.get("rec_event"):
                    # the allocator may refuse (oracle stream spec["may_fail"]: non-zero = refused, NULL); the event names the receiver
                    rec = norm_type(qual(n))[:-1]
                    cells = self.cells(rec)
                    self.stores = True
                    fl = self.tmp("o")
                    return self.recv_addr(self.inner(x)[0], lambda r: (
                        "(match %s with nil => Oob | cons %s %s => if z2b %s then let evs := evs ++ [%s] in %s else "
                        "(let pnew := HPtr (List.length mem) 0 in let mem := mem ++ [repeat (VInt 0) %d] in let evs := evs ++ [%s] in %s) end)") % (
                        spec["may_fail"], fl, spec["may_fail"], fl, spec["fail_event"].format(r=r), k("HNull"), cells,
                        spec["rec_event"].format(r=r, p="pnew"), k("pnew")))
                if isinstance(spec, dict) and spec.get("alloc"):
                    rec = norm_type(qual(n))[:-1]
                    cells = self.cells(rec)
                    self.stores = True
                    return self.E(self.inner(x)[1], lambda sz: (
                        "(let %s := HPtr (List.length mem) 0 in let mem := mem ++ [repeat (VInt 0) %d] in "
                        "let evs := evs ++ [HAllocRec nx %s %s] in let nx := nx + 1 in %s)") % ("pnew", cells, "pnew", sz, k("pnew")))
        if kd == "CXXNewExpr":
            # new T / new T(other) for a modelled record T: a fresh block (all cells zero / NULL -- the constructor's initialisers are
            # checked to say just that -- or a copy of the cells of `other`), the ghost event cfg["new_event"]
            rec = self.rec_name(norm_type(qual(n))[:-1])
            if rec not in self.tr.layouts or not self.cfg.get("new_event"):
                raise Unsupported("new of %s" % qual(n))
            ncells = self.cells(rec)
            ctor = inn[0] if inn else None
            while ctor is not None and ctor.get("kind") in SKIP:
                ctor = self.inner(ctor)[0]
            cargs = self.inner(ctor) if ctor is not None and ctor.get("kind") == "CXXConstructExpr" else []
            self.stores = True
            ev = self.cfg["new_event"].format(p="pnew")
            if not cargs:
                self.tr.check_zero_ctor(self.cfg["file"], rec)
                init = "[" + "; ".join("VPtr HNull" if self.is_rec_ptr(t) else "VInt 0" for t in self.flat_types(rec)) + "]"
                return "(let pnew := HPtr (List.length mem) 0 in let mem := mem ++ [%s] in let evs := evs ++ [%s] in %s)" % (init, ev, k("pnew"))
            if len(cargs) == 1 and self.rec_name(qual(cargs[0])) == rec:
                return self.obj_addr(cargs[0], lambda src: (
                    "(match hcells mem %s %d with None => Oob | Some cs_ => let pnew := HPtr (List.length mem) 0 in let mem := mem ++ [cs_] in "
                    "let evs := evs ++ [%s] in %s end)") % (src, ncells, ev, k("pnew")))
            # new T(a, b, ...): the constructor's initialisers, read from the source, say which member gets which argument (or zero)
            imap = self.tr.ctor_init_map(self.cfg["file"], rec, len(cargs))
            flat = self.flat_types(rec)
            names = [f for f, _ in self.tr.layouts[rec]]
            if len(flat) != len(names):
                raise Unsupported("new %s with constructor arguments: nested members" % rec)

            def goargs(i, acc):
                if i == len(cargs):
                    cells = []
                    for f, t in zip(names, flat):
                        src = imap.get(f)
                        if src is None or src == "zero":
                            cells.append("VPtr HNull" if self.is_rec_ptr(t) else "VInt 0")
                        else:
                            cells.append(("VPtr %s" if self.is_rec_ptr(t) else "VInt %s") % acc[src])
                    return "(let pnew := HPtr (List.length mem) 0 in let mem := mem ++ [[%s]] in let evs := evs ++ [%s] in %s)" % (
                        "; ".join(cells), ev, k("pnew"))
                return self.E(cargs[i], lambda v: goargs(i + 1, acc + [v]))
            return goargs(0, [])
        if kd == "CXXDeleteExpr":
            if not self.cfg.get("delete_event"):
                raise Unsupported("delete")
            dq = norm_type(qual(inn[0]))
            if self.rec_name(dq[:-1] if dq.endswith("*") else dq) not in self.tr.layouts:
                if not self.cfg.get("delete_opaque_event"):
                    raise Unsupported("delete of %s" % dq)
                return self.E(inn[0], lambda p: "(let evs := evs ++ [%s] in %s)" % (self.cfg["delete_opaque_event"].format(p=p), k("0")))
            return self.E(inn[0], lambda p: "(let evs := evs ++ [%s] in %s)" % (self.cfg["delete_event"].format(p=p), k("0")))
        if kd == "CXXConstructExpr" and self.is_opaque_obj(qual(n)) and len(inn) == 1:
            return self.E(inn[0], k)         # SimpleString x = <text>: the same text
        if kd in CASTS and n.get("castKind") == "ConstructorConversion":
            return self.E(inn[0], k)
        if kd in CASTS and n.get("castKind") == "BaseToDerived" and self.cfg.get("record_aliases") and \
                self.rec_name(norm_type(qual(inn[0])).rstrip("* ")) == self.rec_name(norm_type(qual(n)).rstrip("* ")):
            return self.E(inn[0], k)         # the base class is modelled AS this derived class (record_aliases): the same address
        if kd in CASTS and n.get("castKind") in ("DerivedToBase", "UncheckedDerivedToBase") and self.cfg.get("derived_as_base"):
            return self.E(inn[0], k)         # a pointer to a derived object used as a pointer to its (modelled) base: the same address
        if kd in ("CXXOperatorCallExpr", "CXXMemberCallExpr", "CallExpr"):
            try:
                tp = self.calls.get(self.callee_name(inn[0]))
            except Unsupported:
                tp = None
            if isinstance(tp, dict) and tp.get("text_pred"):
                # text == "literal" / text.startsWith("literal"): the predicate named in the spec applied to the text and the literal
                if kd == "CXXOperatorCallExpr":
                    ops = [inn[1], inn[2]]
                else:
                    callee = inn[0]
                    while callee.get("kind") in ("ImplicitCastExpr", "ParenExpr"):
                        callee = self.inner(callee)[0]
                    ops = [self.inner(callee)[0], inn[1]]
                lit, other = None, None
                for o in ops:
                    x = o
                    while x.get("kind") in SKIP or x.get("kind") in CASTS or (x.get("kind") == "CXXConstructExpr" and len(self.inner(x)) == 1):
                        if x.get("kind") in CASTS and x.get("castKind") == "LValueToRValue":
                            break
                        x = self.inner(x)[0]
                    if x.get("kind") == "StringLiteral" and lit is None:
                        lit = x
                    else:
                        other = o
                if lit is None or other is None:
                    raise Unsupported("text predicate %s needs one literal operand" % tp["text_pred"])
                return self.E(other, lambda v: k("(%s %s %s)" % (tp["text_pred"], v, coq_text(c_unescape(lit["value"])))))
            if isinstance(tp, dict) and tp.get("text_pred1"):
                # text.isEmpty(): the unary predicate named in the spec applied to the text
                callee = inn[0]
                while callee.get("kind") in ("ImplicitCastExpr", "ParenExpr"):
                    callee = self.inner(callee)[0]
                return self.E(self.inner(callee)[0], lambda v: k("(%s %s)" % (tp["text_pred1"], v)))
            if isinstance(tp, dict) and (tp.get("format_event") or tp.get("write_event")):
                # StringFromFormat("fmt", args...): a fresh text identity (ghost counter nx) defined by the ghost event
                # <format_event> id "fmt" [args]; writeToFile(x): the ghost event <write_event> arg.  An argument is JLit "literal",
                # JEnc t (encodeXmlText(t)...), JNum n (an integer) or JTxt t (another text)
                args = list(inn[1:])

                def strip(x):
                    while x.get("kind") in SKIP or x.get("kind") in CASTS or (x.get("kind") == "CXXConstructExpr" and len(self.inner(x)) == 1):
                        if x.get("kind") in CASTS and x.get("castKind") in ("LValueToRValue", "IntegralCast"):
                            break
                        x = self.inner(x)[0]
                    return x

                def one(a, kk):
                    x = strip(a)
                    if x.get("kind") == "StringLiteral":
                        return kk("JLit %s" % coq_text(c_unescape(x["value"])))
                    if x.get("kind") == "ConditionalOperator":
                        c, t, f = self.inner(x)
                        t, f = strip(t), strip(f)
                        if t.get("kind") == "StringLiteral" and f.get("kind") == "StringLiteral":
                            return self.E(c, lambda vc: kk("JLit (if z2b %s then %s else %s)" % (vc, coq_text(c_unescape(t["value"])), coq_text(c_unescape(f["value"])))))
                    if x.get("kind") == "CXXMemberCallExpr" and self.callee_name(self.inner(x)[0]) == "asCharString":
                        callee = self.inner(x)[0]
                        while callee.get("kind") in ("ImplicitCastExpr", "ParenExpr"):
                            callee = self.inner(callee)[0]
                        return one(self.inner(callee)[0], kk)
                    if x.get("kind") in ("CallExpr", "CXXMemberCallExpr") and self.callee_name(self.inner(x)[0]) == tp.get("enc", "encodeXmlText"):
                        return self.E(self.inner(x)[1], lambda v: kk("JEnc %s" % v))
                    if ctype(qual(a))[0] in ("int", "bool", "enum"):
                        return self.E(a, lambda v: kk("JNum %s" % v))
                    return self.E(a, lambda v: kk("JTxt %s" % v))

                def many(i, acc, kk):
                    if i == len(args):
                        return kk(acc)
                    return one(args[i], lambda v: many(i + 1, acc + [v], kk))
                if tp.get("write_event"):
                    return one(args[0], lambda v: "(let evs := evs ++ [%s (%s)] in %s)" % (tp["write_event"], v, k("0")))
                fmt = strip(args[0])
                if fmt.get("kind") != "StringLiteral":
                    raise Unsupported("format string is not a literal")
                t = self.tmp("t")
                return many(1, [], lambda acc: "(let %s := nx in let evs := evs ++ [%s %s %s [%s]] in let nx := nx + 1 in %s)" % (
                    t, tp["format_event"], t, coq_text(c_unescape(fmt["value"])), "; ".join(acc), k(t)))
            if isinstance(tp, dict) and tp.get("handler"):
                # a handler that may advance the index it gets by reference: the ghost event AHandler name index literal flags; its result
                # and the new index are the next pair of the oracle stream hres
                args = list(inn[1:])
                ix = args[tp.get("i_arg", 2)]
                while ix.get("kind") in SKIP or (ix.get("kind") in CASTS and ix.get("castKind") in ("NoOp",)):
                    ix = self.inner(ix)[0]
                by_value = ix.get("kind") in CASTS and ix.get("castKind") == "LValueToRValue"
                if by_value:
                    ix = self.inner(ix)[0]
                if ix.get("kind") != "DeclRefExpr":
                    raise Unsupported("handler index is not a variable")
                iv = self.ident(ix["referencedDecl"]["name"])
                lits, flags = [], []
                for a in args[tp.get("i_arg", 2) + 1:]:
                    x = a
                    while x.get("kind") in SKIP or x.get("kind") in CASTS or (x.get("kind") == "CXXConstructExpr" and len(self.inner(x)) == 1):
                        x = self.inner(x)[0]
                    if x.get("kind") == "StringLiteral":
                        lits.append(coq_text(c_unescape(x["value"])))
                    elif x.get("kind") == "CXXBoolLiteralExpr":
                        flags.append("1" if x["value"] else "0")
                    else:
                        raise Unsupported("handler argument of kind %s" % x.get("kind"))
                rv, ni = self.tmp("rv"), self.tmp("ni")
                ev = "AHandler %s %s %s [%s]" % (cxx2coq.coq_string(tp["handler"]), iv, lits[0] if lits else '""%string', "; ".join(flags))
                upd = "" if by_value else "let %s := %s in " % (iv, ni)
                return "(match hres with nil => Oob | cons (%s, %s) hres => let evs := evs ++ [%s] in %s%s end)" % (rv, ni, ev, upd, k(rv))
        if kd == "MemberExpr" and self.is_opaque_obj(qual(n)):
            return self.L(n, lambda lv: self.rvalue(lv, k))     # an object of an opaque class read as a value: the integer identifying it
        if kd == "CXXOperatorCallExpr" and n.get("inner") and isinstance(self.calls.get("operator="), dict) and \
                self.calls["operator="].get("assign_opaque") and self.callee_name(inn[0]) == "operator=":
            # opaqueMember = value: the cell takes the integer identifying the value
            return self.L(inn[1], lambda lv: self.E(inn[2], lambda v: (
                self.assign_opaque(lv, v, k))))
        if kd in ("CXXNullPtrLiteralExpr", "GNUNullExpr"):
            return k("0")
        if kd == "StringLiteral" and n.get("value") in self.cfg.get("string_literals", {}):
            return k(self.cfg["string_literals"][n["value"]])      # an opaque address standing for that text
        if kd == "StringLiteral" and "string_literal_default" in self.cfg:
            return k(self.cfg["string_literal_default"])           # a text the translated code only passes on (a file name)
        if kd == "CXXThisExpr":
            return k(self.this_var())
        if kd in CASTS:
            ck = n.get("castKind")
            if ck == "NullToPointer":
                return k("HNull" if self.coqtype_safe(qual(n)) == "hptr" else "0")
            if ck == "PointerToBoolean":
                if self.coqtype_safe(qual(inn[0])) == "hptr":
                    return self.E(inn[0], lambda v: k("(hp_bool %s)" % v))
                return self.E(inn[0], lambda v: k("(c_ne %s 0)" % v))
            if ck in ("PointerToIntegral", "IntegralToPointer"):
                if self.coqtype_safe(qual(inn[0])) == "hptr" or self.coqtype_safe(qual(n)) == "hptr":
                    raise Unsupported("conversion between a record pointer and an integer")
                return self.E(inn[0], lambda v: k(self.wrap_type(qual(n), v) if ctype(qual(n))[0] == "int" else v))
            if ck == "BitCast" and (self.coqtype_safe(qual(inn[0])) == "hptr") != (self.coqtype_safe(qual(n)) == "hptr"):
                raise Unsupported("cast between a record pointer and another pointer type")
            if ck == "ArrayToPointerDecay" and inn[0].get("kind") == "StringLiteral":
                return self.E(inn[0], k)
            if ck == "ArrayToPointerDecay":
                return self.L(inn[0], lambda lv: k(lv[1]) if lv[0] == "cell" else self._bad("array held in a variable"))
        if kd == "UnaryOperator" and n.get("opcode") == "&":
            x = inn[0]
            if self.is_record(qual(x)):
                return self.obj_addr(x, k)
            return self.L(x, lambda lv: k(lv[1]) if lv[0] == "cell" else self._bad("address of a variable"))
        if kd == "BinaryOperator" and n.get("opcode") in ("+", "-") and ctype(qual(n))[0] == "ptr" and self.coqtype_safe(qual(n)) == "Z":
            # arithmetic on an opaque byte address: plain 64-bit address arithmetic
            a, b = inn
            return self.E(a, lambda x: self.E(b, lambda y: k("(cw 64 false (%s %s %s))" % (x, n["opcode"], y))))
        if kd == "BinaryOperator" and n.get("opcode") in ("==", "!="):
            a, b = inn
            ta, tb = self.coqtype_safe(qual(a)), self.coqtype_safe(qual(b))
            if ta == "hptr" or tb == "hptr":
                f = "hp_eq" if n["opcode"] == "==" else "hp_ne"
                return self.E(a, lambda x: self.E(b, lambda y: k("(%s %s %s)" % (f, x, y))))
            if ctype(qual(a))[0] == "ptr" or ctype(qual(b))[0] == "ptr":       # opaque addresses
                f = "c_eq" if n["opcode"] == "==" else "c_ne"
                return self.E(a, lambda x: self.E(b, lambda y: k("(%s %s %s)" % (f, x, y))))
        op_event = False
        if kd == "CXXOperatorCallExpr" and inn:       # an overloaded operator configured as an event with argument values (backupOutput << text)
            try:
                sp = self.calls.get(self.callee_name(inn[0]))
                op_event = isinstance(sp, dict) and bool(sp.get("event")) and bool(sp.get("args"))
            except Unsupported:
                op_event = False
        if kd in ("CallExpr", "CXXMemberCallExpr") or op_event:
            try:
                spec0 = self.calls.get(self.callee_name(inn[0]))
            except Unsupported:
                spec0 = None
            if isinstance(spec0, dict) and spec0.get("alloc"):          # a byte buffer: an opaque fresh address
                a = self.tmp("a")
                return self.E(inn[1], lambda sz: "(let %s := nx in let evs := evs ++ [HAllocBuf nx %s] in let nx := nx + 1 in %s)" % (a, sz, k(a)))
            if isinstance(spec0, dict) and spec0.get("free"):
                x = inn[1]
                while x.get("kind") in SKIP or (x.get("kind") in CASTS and x.get("castKind") in ("BitCast", "NoOp")):
                    x = self.inner(x)[0]
                con = "HFreeRec" if self.coqtype_safe(qual(x)) == "hptr" else "HFreeBuf"
                return self.E(x, lambda p: self.E(inn[2], lambda sz: "(let evs := evs ++ [%s %s %s] in %s)" % (con, p, sz, k("0"))))
            if isinstance(spec0, dict) and spec0.get("print_event"):
                # output->print("literal") / print(number): the ghost event PText "literal" / PNum value
                a = inn[1]
                while a.get("kind") in SKIP or (a.get("kind") in CASTS and a.get("castKind") in ("ArrayToPointerDecay", "NoOp")):
                    a = self.inner(a)[0]
                ctext, cnum = spec0["print_event"] if isinstance(spec0["print_event"], list) else ("PText", "PNum")
                if a.get("kind") == "StringLiteral":
                    return "(let evs := evs ++ [%s %s] in %s)" % (ctext, coq_text(c_unescape(a["value"])), k("0"))
                return self.E(inn[1], lambda v: "(let evs := evs ++ [%s %s] in %s)" % (cnum, v, k("0")))
            if isinstance(spec0, dict) and spec0.get("recv_value"):
                # x.asCharString() on an opaque text: the text itself
                callee = inn[0]
                while callee.get("kind") in ("ImplicitCastExpr", "ParenExpr"):
                    callee = self.inner(callee)[0]
                return self.E(self.inner(callee)[0], k)
            if isinstance(spec0, dict) and spec0.get("recv_field"):
                # an accessor of a modelled record: the call is the receiver's field
                rec, fld = spec0["recv_field"]
                off, ft = self.field_offset(rec, fld)
                ld = "hload_ptr" if self.is_rec_ptr(ft) else "hload_int"
                v = self.tmp("v")
                return self.recv_addr(inn[0], lambda r: self.hoff(r, off, lambda q: "(match %s mem %s with None => Oob | Some %s => %s end)" % (ld, q, v, k(v))))
            if isinstance(spec0, dict) and spec0.get("fun"):
                # a pure function of the receiver and the arguments (a Section variable of the generated file)
                args = [inn[1:][i] for i in spec0.get("args", [])]

                def fargs(r):
                    def go(i, acc):
                        if i == len(args):
                            return k("(%s %s)" % (spec0["fun"], " ".join(([r] if r is not None else []) + acc)))
                        if self.is_record(qual(args[i])):      # an object of a modelled record handed over by reference: its address
                            return self.obj_addr(args[i], lambda v: go(i + 1, acc + [v]))
                        return self.E(args[i], lambda v: go(i + 1, acc + [v]))
                    return go(0, [])
                if spec0.get("recv"):
                    return self.recv_addr(inn[0], fargs)
                return fargs(None)
            if isinstance(spec0, dict) and spec0.get("event") and (spec0.get("args") or spec0.get("recv") or spec0.get("oracle")):
                # the event carries the receiver ({r}) and the values of the call's arguments (all, or the listed positions);
                # the call yields spec["value"]
                args = list(inn[1:])
                if isinstance(spec0.get("args"), list):
                    args = [args[i] for i in spec0["args"]]
                elif not spec0.get("args"):
                    args = []

                if spec0.get("strip_casts"):        # (char*) node, (char*) memory: the pointer itself
                    def unc(x):
                        while x.get("kind") in SKIP or (x.get("kind") in CASTS and x.get("castKind") in ("BitCast", "NoOp")):
                            x = self.inner(x)[0]
                        return x
                    args = [unc(x) for x in args]

                def evargs(r):
                    def go(i, acc):
                        if i == len(args):
                            if spec0.get("oracle"):      # the answer of the outside world: the next value of the oracle stream
                                g, v = spec0["oracle"], self.tmp("o")
                                return "(match %s with nil => Oob | cons %s %s => let evs := evs ++ [%s] in %s end)" % (
                                    g, v, g, spec0["event"].format(*acc, r=r, v=v), k(v))
                            return "(let evs := evs ++ [%s] in %s)" % (spec0["event"].format(*acc, r=r), k(spec0.get("value", "0")))
                        return self.E(args[i], lambda v: go(i + 1, acc + [v]))
                    return go(0, [])
                if spec0.get("recv"):
                    return self.recv_addr(inn[0], evargs)
                return evargs(None)
            if isinstance(spec0, dict) and spec0.get("event"):
                return "(let evs := evs ++ [%s] in %s)" % (spec0["event"], k(spec0.get("value", "0")))
            if isinstance(spec0, dict) and spec0.get("pop"):          # the next value of an oracle stream (a ghost list)
                g, r = spec0["pop"], self.tmp("o")
                return "(match %s with nil => Oob | cons %s %s => %s end)" % (g, r, g, k(r))
            if isinstance(spec0, dict) and spec0.get("ignore"):
                return k("0")
            if isinstance(spec0, dict) and spec0.get("abort"):          # leaves the function (the test is failed and exited)
                return "(let evs := evs ++ [%s] in %s)" % (spec0["abort"], self.ret("tt" if self.void else "0"))
        if kd == "UnaryExprOrTypeTraitExpr" and n.get("name") == "sizeof":
            q = norm_type((n.get("argType") or {}).get("desugaredQualType") or (n.get("argType") or {}).get("qualType") or
                          (qual(inn[0]) if inn else ""))
            if self.rec_name(q) in self.cfg.get("sizeof", {}):
                return k(self.cfg["sizeof"][self.rec_name(q)])
        if kd in ("CXXMemberCallExpr",):
            name = self.callee_name(inn[0])
            spec = self.calls.get(name)
            if isinstance(spec, dict) and spec.get("method"):
                callee = inn[0]
                while callee.get("kind") in ("ImplicitCastExpr", "ParenExpr"):
                    callee = self.inner(callee)[0]
                base = self.inner(callee)[0] if self.inner(callee) else None
                args = list(inn[1:])
                if isinstance(spec.get("args"), list):       # parameters of unmodelled classes are not passed on
                    args = [args[i] for i in spec["args"]]

                def with_recv(r):
                    def ev(i, acc):
                        if i == len(args):
                            return self.call(spec, acc, k)
                        if args[i].get("kind") == "CXXDefaultArgExpr":       # the declaration's default value, given in the configuration
                            dv = spec.get("defaults", {}).get(i)
                            if dv is None:
                                raise Unsupported("default argument %d of %s" % (i, name))
                            return ev(i + 1, acc + [dv])
                        return self.E(args[i], lambda v: ev(i + 1, acc + [v]))
                    return ev(0, [r])
                if base is None or base.get("kind") == "CXXThisExpr":
                    return with_recv(self.this_var())
                if callee.get("isArrow"):
                    return self.E(base, with_recv)
                return self.obj_addr(base, with_recv)
        return super().E(n, k)

    def recv_addr(self, callee, k):
        """the address of the object a member function is called on"""
        while callee.get("kind") in ("ImplicitCastExpr", "ParenExpr"):
            callee = self.inner(callee)[0]
        base = self.inner(callee)[0] if self.inner(callee) else None
        if base is None or base.get("kind") == "CXXThisExpr":
            return k(self.this_var())
        if callee.get("isArrow"):
            return self.E(base, k)
        if self.is_opaque_obj(qual(base)):       # an object of an opaque class: the integer that identifies it
            return self.E(base, k)
        return self.obj_addr(base, k)

    def call(self, spec, args, k):
        if isinstance(spec, str):
            return k("(" + spec.format(*args) + ")")
        if spec.get("virtual_null") and not getattr(self, "_in_vnull", False):
            # a virtual function with exactly two definitions: the terminator object's empty override, and this one
            self._in_vnull = True
            try:
                body = self.call(spec, args, k)
            finally:
                self._in_vnull = False
            return "(if z2b (hp_eq %s %s) then %s else %s)" % (args[0], spec["virtual_null"], k("tt"), body)
        fn = spec["fn"]
        r = self.tmp("r")
        gs = [g for g, _ in self.cfg.get("ghosts", [])]
        if spec.get("noghost"):      # a translated function of another generated file whose group has no ghost variables
            gs = []
        if gs:        # every translated function of a group with ghosts takes and returns them
            self.stores = True
            return "(match %s fuel0 mem %s %s with FOk (%s) => %s | FOob => Oob | FNoFuel => NoFuel end)" % (
                fn, " ".join(gs), " ".join(args), ", ".join([r, "mem"] + gs), k(r))
        if spec.get("writes"):
            self.stores = True
            return "(match %s fuel0 mem %s with FOk (%s, mem) => %s | FOob => Oob | FNoFuel => NoFuel end)" % (fn, " ".join(args), r, k(r))
        self.tr.__dict__.setdefault("pure_calls", {}).setdefault(fn, set()).add(self.coq)     # checked after the whole group is translated
        return "(match %s fuel0 mem %s with FOk %s => %s | FOob => Oob | FNoFuel => NoFuel end)" % (fn, " ".join(args), r, k(r))

    # ------------------------------------------------------------------ local objects of classes that are not modelled
    def ctor_spec(self, d):
        """the spec {"ctor_event": E, "eval_args": [i...]} of a local variable of an unmodelled class, or None"""
        if d.get("kind") != "VarDecl":
            return None
        spec = self.calls.get(self.rec_name(qual(d)))
        return spec if isinstance(spec, dict) and spec.get("ctor_event") else None

    def predeclare(self, n):
        if self.ctor_spec(n):
            return
        if n.get("kind") in ("VarDecl", "ParmVarDecl") and n.get("name"):
            try:
                self.declare(n["name"], qual(n))
            except Unsupported:
                if n.get("kind") != "ParmVarDecl":
                    raise
        for c in self.inner(n):
            self.predeclare(c)

    def S(self, stmts, k, ctx):
        if stmts and stmts[0].get("kind") == "DeclStmt" and any(self.ctor_spec(d) for d in self.inner(stmts[0])):
            decls = self.inner(stmts[0])
            if len(decls) != 1:
                raise Unsupported("several declarations next to a constructed object")
            spec = self.ctor_spec(decls[0])
            ctor = self.inner(decls[0])[0]
            while ctor.get("kind") in SKIP:
                ctor = self.inner(ctor)[0]
            if ctor.get("kind") != "CXXConstructExpr":
                raise Unsupported("initialiser of %s is not a constructor call" % decls[0].get("name"))
            args = self.inner(ctor)
            todo = []
            for i in spec.get("eval_args", []):
                a = args[i]
                while a.get("kind") in SKIP or a.get("kind") in CASTS or (a.get("kind") == "CXXConstructExpr" and len(self.inner(a)) == 1):
                    a = self.inner(a)[0]
                todo.append(a)
            rest = stmts[1:]

            def ev(i):
                if i == len(todo):
                    return "(let evs := evs ++ [%s] in %s)" % (spec["ctor_event"], self.S(rest, k, ctx))
                return self.E(todo[i], lambda _: ev(i + 1))
            return ev(0)
        return super().S(stmts, k, ctx)

    # ------------------------------------------------------------------ syntactic facts
    def scan(self, n, refs, assigned, declared, flags):
        if self.ctor_spec(n):
            for g, _ in self.cfg.get("ghosts", []):
                assigned.add(g)
                refs.add(g)
        kd = n.get("kind")
        if kd == "MemberExpr":
            flags.add("mem")
            # a member of `this` or of a pointer: reading needs the heap; assignment targets are found by the generic code below
        if kd == "CXXThisExpr":
            refs.add(self.this_var())
        if kd == "DeclRefExpr" and n["referencedDecl"].get("kind") == "VarDecl" and self.gvar(n["referencedDecl"]["name"]):
            refs.add(self.gvar(n["referencedDecl"]["name"]))
            flags.add("mem")
        if kd in ("BinaryOperator", "CompoundAssignOperator") and n.get("opcode", "").endswith("=") and \
                n.get("opcode") not in ("==", "!=", "<=", ">="):
            tgt = self.strip(self.inner(n)[0])
            if not self.is_local_ref(tgt):
                flags.add("store")
        if kd == "UnaryOperator" and n.get("opcode") in ("++", "--"):
            tgt = self.strip(self.inner(n)[0])
            if not self.is_local_ref(tgt):
                flags.add("store")
        if kd == "CXXOperatorCallExpr" and isinstance(self.calls.get("operator="), dict) and self.calls["operator="].get("assign_opaque"):
            flags.add("store")
            flags.add("mem")
        if kd in ("CXXNewExpr", "CXXDeleteExpr"):
            flags.add("store")
            flags.add("mem")
            for g, _ in self.cfg.get("ghosts", []):
                assigned.add(g)
                refs.add(g)
        if kd in ("CXXMemberCallExpr", "CallExpr"):
            try:
                spec = self.calls.get(self.callee_name(self.inner(n)[0]))
            except Unsupported:
                spec = None
            if isinstance(spec, str):          # a ghost constant named in the replacement text is a variable the enclosing loop reads
                for g, _ in self.cfg.get("ghosts", []):
                    if re.search(r"\b%s\b" % re.escape(g), spec):
                        refs.add(g)
            if isinstance(spec, dict) and spec.get("virtual_null"):
                refs.add(spec["virtual_null"])
            if isinstance(spec, dict) and spec.get("recv_field"):
                flags.add("mem")
            if isinstance(spec, dict) and spec.get("oracle"):
                flags.add("mem")
                for g, _ in self.cfg.get("ghosts", []):
                    assigned.add(g)
                    refs.add(g)
            if isinstance(spec, dict) and (spec.get("format_event") or spec.get("write_event")):
                flags.add("mem")
                for g, _ in self.cfg.get("ghosts", []):
                    assigned.add(g)
                    refs.add(g)
            if isinstance(spec, dict) and spec.get("handler"):
                for g, _ in self.cfg.get("ghosts", []):
                    assigned.add(g)
                    refs.add(g)
                a = self.inner(n)[1:][spec.get("i_arg", 2)]
                while a.get("kind") in SKIP or a.get("kind") in CASTS:
                    a = self.inner(a)[0]
                if a.get("kind") == "DeclRefExpr":
                    assigned.add(self.ident(a["referencedDecl"]["name"]))
                    refs.add(self.ident(a["referencedDecl"]["name"]))
            if isinstance(spec, dict) and spec.get("method"):
                flags.add("mem")
                flags.add("call")
                if spec.get("writes") or self.cfg.get("ghosts"):
                    flags.add("store")
            if isinstance(spec, dict) and (spec.get("method") or spec.get("alloc") or spec.get("free") or spec.get("event") or spec.get("abort")
                                           or spec.get("pop") or spec.get("print_event")):
                for g, _ in self.cfg.get("ghosts", []):
                    assigned.add(g)
                    refs.add(g)
                if spec.get("alloc"):
                    flags.add("store")
        # generic part, without the byte-memory treatment of MemberExpr
        inn = self.inner(n)
        if kd == "VarDecl":
            declared.add(self.ident(n["name"]))
        if kd == "DeclRefExpr" and n["referencedDecl"].get("kind") in ("ParmVarDecl", "VarDecl"):
            refs.add(self.ident(n["referencedDecl"]["name"]))
        tgt = None
        if kd in ("BinaryOperator", "CompoundAssignOperator") and n.get("opcode", "").endswith("=") and \
                n.get("opcode") not in ("==", "!=", "<=", ">="):
            tgt = self.strip(inn[0])
        if kd == "UnaryOperator" and n.get("opcode") in ("++", "--"):
            tgt = self.strip(inn[0])
        if tgt is not None and tgt.get("kind") == "DeclRefExpr":
            assigned.add(self.ident(tgt["referencedDecl"]["name"]))
        if kd in ("CallExpr", "CXXOperatorCallExpr"):
            try:
                spec = self.calls.get(self.callee_name(inn[0]))
            except Unsupported:
                spec = None
            if isinstance(spec, dict):
                flags.add("mem")
                flags.add("call")
                if spec.get("writes"):
                    flags.add("store")
        if kd in ("WhileStmt", "DoStmt", "ForStmt"):
            flags.add("call")
        for c in inn:
            self.scan(c, refs, assigned, declared, flags)

    # ------------------------------------------------------------------ whole function
    def translate(self):
        node = self.node
        params, body = [], None
        for c in self.inner(node):
            if c.get("kind") == "ParmVarDecl":
                params.append(c)
            elif c.get("kind") == "CompoundStmt":
                body = c
        if body is None:
            raise Unsupported("no body")
        ret = qual(node).split("(")[0].strip()
        ret = TYPEDEFS.get(norm_type(ret), ret)
        void = norm_type(ret) == "void"
        self.returns_self = False
        if self.cfg.get("returns_self") and ret.strip().endswith("&") and not void:
            void, self.returns_self = True, True          # `return *this;` (a fluent interface): nothing is returned here
        self.uses_this = False
        self.gparams = []
        self.void = void
        if node.get("kind") == "CXXMethodDecl" and node.get("storageClass") != "static":
            self.this_var()
        for g, t in self.cfg.get("ghosts", []):
            self.vars[g] = t
            self.order.append(g)
        self.predeclare(node)
        refs, assigned, declared, flags = set(), set(), set(), set()
        self.scan(body, refs, assigned, declared, flags)
        self.fn_stores = "store" in flags or bool(self.cfg.get("writes"))
        self.stores = False
        self.nloops = 0
        base = "unit" if void else self.coqtype_of(ret)
        self.rtype = "(%s * %s)" % (base, self.MEM_T) if self.fn_stores else base
        self.tr.__dict__.setdefault("storing", {})[self.coq] = self.fn_stores
        ghosts = self.cfg.get("ghosts", [])
        if ghosts:
            self.fn_stores = True
            self.rtype = "(%s)" % " * ".join([base, self.MEM_T] + [t for _, t in ghosts])
        end = (lambda: self.ret("tt")) if void else (lambda: "Oob")
        text = self.S([body], end, {})
        ps = ["(%s : %s)" % (g, t) for g, t in ghosts]
        if "this_" in self.vars:
            ps.append("(this_ : hptr)")
        for g in self.gparams:
            ps.append("(%s : hptr)" % g)
        for i, p in enumerate(params):
            if not p.get("name"):       # a parameter the function does not name (and so does not use): callers still pass a value
                t = self.coqtype_safe(qual(p)) if self.cfg.get("unnamed_params") else None
                if t:
                    ps.append("(unused_%d : %s)" % (i, t))
                continue
            nm = self.ident(p.get("name", "_"))
            if nm in self.vars:
                ps.append("(%s : %s)" % (nm, self.vars[nm]))
        hdr = "(* %s : %s *)\n" % (self.cfg["file"], self.cfg["name"])
        if self.cfg.get("recursive"):
            # a function that calls itself: a Fixpoint on the fuel; every call made by the body (also the one to itself) gets the predecessor
            return hdr + "".join(self.loops) + ("Fixpoint %s (fuel0 : nat) (mem : heap) %s {struct fuel0} : fres %s :=\n  match fuel0 with O => FNoFuel | S fuel0 =>\n"
                                                "  finish (R := %s) (A := unit)\n    %s\n  end.\n") % (
                self.coq, " ".join(ps), self.rtype, self.rtype, pretty(text))
        return hdr + "".join(self.loops) + ("Definition %s (fuel0 : nat) (mem : heap) %s : fres %s :=\n  finish (R := %s) (A := unit)\n    %s.\n") % (
            self.coq, " ".join(ps), self.rtype, self.rtype, pretty(text))


class HeapTranslator(cxx2coq.Translator):
    def __init__(self, repo, records):
        super().__init__(repo)
        self.layouts = {}
        # a third component "own" = model only the members the class declares itself (its base sub-object is not touched by the
        # translated functions)
        self.own_fields_only = set(r[0] for r in records if len(r) > 2 and r[2] == "own")
        for r in records:
            self.layouts[r[0]] = self.record_layout(r[1], r[0])

    def record_layout(self, path, rec):
        """[(field, type)] of the data members of class `rec`, in declaration order, read from clang's AST"""
        docs = cxx2coq.clang_docs(self.repo, path, rec)
        for d in docs:
            if d.get("kind") == "CXXRecordDecl" and d.get("name") == rec and d.get("completeDefinition"):
                if any(b for b in d.get("bases", [])) and rec not in self.own_fields_only:
                    bases = [self_t.get("type", {}).get("qualType") for self_t in d.get("bases", [])]
                    raise Unsupported("record %s has base classes %s" % (rec, bases))
                out = []
                for c in d.get("inner", []):
                    if c.get("kind") == "FieldDecl":
                        if c.get("isBitfield"):
                            raise Unsupported("bit field %s::%s" % (rec, c.get("name")))
                        out.append((c["name"], qual(c)))
                return out
        raise Unsupported("definition of record %s not found in %s" % (rec, path))

    def check_zero_ctor(self, path, rec):
        """the default constructor of record `rec` initialises every scalar member it names with 0 / false / NULL (other members are
        default-constructed objects of opaque classes: the empty text, identity 0)"""
        if rec in getattr(self, "_zero_ok", set()):
            return
        docs = list(cxx2coq.clang_docs(self.repo, path, rec))
        for d in list(docs):          # constructors defined inside the class
            if d.get("kind") == "CXXRecordDecl" and d.get("name") == rec:
                docs += [c for c in d.get("inner", []) if c.get("kind") == "CXXConstructorDecl"]
        found = False
        for d in docs:
            if d.get("kind") == "CXXConstructorDecl" and d.get("name") == rec and not [c for c in d.get("inner", []) if c.get("kind") == "ParmVarDecl"] \
                    and any(c.get("kind") == "CompoundStmt" for c in d.get("inner", [])):
                found = True
                for c in d.get("inner", []):
                    if c.get("kind") != "CXXCtorInitializer":
                        continue
                    x = (c.get("inner") or [{}])[0]
                    while x.get("kind") in SKIP or x.get("kind") in CASTS:
                        x = (x.get("inner") or [{}])[0]
                    zero = (x.get("kind") == "IntegerLiteral" and x.get("value") == "0") or \
                           (x.get("kind") == "CXXBoolLiteralExpr" and not x.get("value")) or \
                           x.get("kind") in ("CXXNullPtrLiteralExpr", "GNUNullExpr") or \
                           (x.get("kind") == "CXXConstructExpr" and all(a.get("kind") == "CXXDefaultArgExpr" for a in x.get("inner", [])))
                    if not zero:
                        raise Unsupported("constructor of %s initialises %s with something other than zero" % (rec, (c.get("anyInit") or {}).get("name")))
                body = [c for c in d.get("inner", []) if c.get("kind") == "CompoundStmt"][0]
                if body.get("inner"):
                    raise Unsupported("constructor of %s has a body" % rec)
        if not found:
            raise Unsupported("default constructor of %s not found" % rec)
        self._zero_ok = getattr(self, "_zero_ok", set()) | {rec}

    def ctor_init_map(self, path, rec, nargs):
        """the constructor of `rec` with nargs parameters (not the copy constructor): {member: index of the parameter it is initialised
        with | "zero"}; anything else in an initialiser, or a body, is unsupported"""
        key = (rec, nargs)
        cache = self.__dict__.setdefault("_ctor_maps", {})
        if key in cache:
            return cache[key]
        docs = list(cxx2coq.clang_docs(self.repo, path, rec))
        ctors = []

        def scan(d):
            for c in d.get("inner", []) or []:
                if c.get("kind") == "CXXRecordDecl":
                    if c.get("name") == rec:
                        ctors.extend(x for x in c.get("inner", []) if x.get("kind") == "CXXConstructorDecl")
                    scan(c)
        for d in docs:
            if d.get("kind") == "CXXConstructorDecl" and d.get("name") == rec:
                ctors.append(d)
            if d.get("kind") == "CXXRecordDecl" and d.get("name") == rec:
                ctors.extend(x for x in d.get("inner", []) if x.get("kind") == "CXXConstructorDecl")
            scan(d)
        found = None
        for d in ctors:
            params = [c for c in d.get("inner", []) if c.get("kind") == "ParmVarDecl"]
            if len(params) != nargs or d.get("isImplicit") or not any(c.get("kind") == "CompoundStmt" for c in d.get("inner", [])):
                continue
            if nargs == 1 and rec in qual(params[0]) and "&" in qual(params[0]):
                continue
            ids = {p_.get("id"): i for i, p_ in enumerate(params)}
            m = {}
            for c in d.get("inner", []):
                if c.get("kind") != "CXXCtorInitializer":
                    continue
                x = (c.get("inner") or [{}])[0]
                while x.get("kind") in SKIP or x.get("kind") in CASTS:
                    x = (x.get("inner") or [{}])[0]
                fld = (c.get("anyInit") or {}).get("name")
                if x.get("kind") == "DeclRefExpr" and (x.get("referencedDecl") or {}).get("id") in ids:
                    m[fld] = ids[x["referencedDecl"]["id"]]
                elif (x.get("kind") == "IntegerLiteral" and x.get("value") == "0") or (x.get("kind") == "CXXBoolLiteralExpr" and not x.get("value")) \
                        or x.get("kind") in ("CXXNullPtrLiteralExpr", "GNUNullExpr"):
                    m[fld] = "zero"
                else:
                    raise Unsupported("constructor of %s initialises %s with %s" % (rec, fld, x.get("kind")))
            body = [c for c in d.get("inner", []) if c.get("kind") == "CompoundStmt"][0]
            if body.get("inner"):
                raise Unsupported("constructor of %s has a body" % rec)
            if found is not None and found != m:
                raise Unsupported("two constructors of %s with %d parameters" % (rec, nargs))
            found = m
        if found is None:
            raise Unsupported("constructor of %s with %d parameters not found" % (rec, nargs))
        missing = [f for f, _ in self.layouts[rec] if f not in found]
        if missing:
            raise Unsupported("constructor of %s leaves %s uninitialised" % (rec, ", ".join(missing)))
        cache[key] = found
        return found

    def function(self, cfg):
        docs = cxx2coq.clang_docs(self.repo, cfg["file"], cfg["name"])
        want = cfg["name"].split("::")[-1]
        cands = [d for d in docs if d.get("kind") in ("FunctionDecl", "CXXMethodDecl") and d.get("name") == want and
                 any(c.get("kind") == "CompoundStmt" for c in d.get("inner", []))]
        if "signature" in cfg:
            cands = [d for d in cands if cfg["signature"] in qual(d)]
        if "class" in cfg:
            # the method of that class: its out-of-line definition names the parent by id; compare through the first declaration
            cands = [d for d in cands if self._parent_is(d, docs, cfg["class"])]
        if len(cands) != 1:
            raise Unsupported("%s: %d definitions found in %s" % (cfg["name"], len(cands), cfg["file"]))
        cfg = dict(cfg)
        ev = dict(cfg.get("enum_values", {}))
        for en in cfg.get("enums", []):
            ev.update(self.enum_table(cfg["file"], en))
        cfg["enum_values"] = ev
        return HeapFn(self, cfg, cands[0]).translate()

    @staticmethod
    def _parent_is(d, docs, cls):
        """the method belongs to class cls: its mangled name starts with the length-prefixed class and function names"""
        fn = d.get("name", "")
        m = d.get("mangledName", "")
        tail = "%d%s%d%s" % (len(cls), cls, len(fn), fn)
        if re.match(r"_ZNK?" + re.escape(tail), m):
            return True
        # a nested class: its enclosing classes come first, each with its length
        mm = re.match(r"_ZNK?((?:\d+[A-Za-z_]\w*?)+?)" + re.escape(tail), m)
        return bool(mm)


def compiler_sizeof(repo, path, rec):
    """sizeof(rec) as g++ computes it for the translation unit `path` of the repository (LP64): read off the diagnostic of an
    incomplete template instantiated with it (nothing is linked or run)"""
    import subprocess
    src = '#include "%s"\ntemplate <unsigned long N> struct VerifSizeProbe;\nVerifSizeProbe<sizeof(%s)> verif_size_probe;\n' % (os.path.join(repo, path), rec)
    p = subprocess.run(["g++", "-std=c++11", "-I" + os.path.join(repo, "include"), "-x", "c++", "-", "-fsyntax-only", "-w"], input=src, text=True,
                       stdout=subprocess.PIPE, stderr=subprocess.STDOUT)
    m = re.search(r"VerifSizeProbe<(\d+)", p.stdout)
    if not m:
        raise Unsupported("sizeof(%s): %s" % (rec, p.stdout[-300:]))
    return int(m.group(1))


def layouts_text(tr):
    out = ["(* record layouts re-read from the class definitions (cell index of every scalar member) *)"]
    for rec, fields in tr.layouts.items():
        off = 0
        probe = HeapFn(tr, {"coq": "x", "file": "", "name": ""}, {})
        for f, t in fields:
            out.append("Definition off_%s_%s : Z := %d.   (* %s *)" % (rec, f, off, norm_type(t)))
            off += probe.cells(t)
        out.append("Definition cells_%s : Z := %d." % (rec, off))
    return "\n".join(out) + "\n"


def generate_cached(h, repo, root, name, cfgs, header, records, footer=""):
    key = cxx2coq.source_hash(repo, name + json.dumps(cfgs, sort_keys=True) + json.dumps(records) + header + footer + open(__file__).read() +
                              open(cxx2gal.__file__).read())
    cdir = os.path.join(root, "build", "leafcache")
    os.makedirs(cdir, exist_ok=True)
    cp = os.path.join(cdir, "%s-%s.v" % (name, key))
    if os.path.exists(cp):
        return open(cp).read()
    out, ok = [header], True
    try:
        for m in set(re.findall(r"@sizeof:([\w/.]+):(\w+)@", header)):       # sizeof of a record, measured by the compiler
            header = header.replace("@sizeof:%s:%s@" % m, str(compiler_sizeof(repo, m[0], m[1])))
        out = [header]
        tr = HeapTranslator(repo, records)
        out.append(layouts_text(tr))
    except Unsupported as e:
        h.errors.append("cxx2heap: " + str(e))
        return "(* NOT TRANSLATED: %s *)\n" % str(e).replace("*)", "* )")
    from concurrent.futures import ThreadPoolExecutor

    def one(cfg):
        try:
            return tr.function(cfg), None
        except Unsupported as e:
            return "(* %s : NOT TRANSLATED: %s *)\n" % (cfg["name"], str(e).replace("*)", "* )")), "%s: %s" % (cfg["name"], e)
    with ThreadPoolExecutor(8) as ex:
        res = list(ex.map(one, cfgs))
    # a call translated as pure (the heap is not taken back from the callee) to a function of this group that stores: the
    # configuration must say "writes" for it -- otherwise the callee's stores would be silently dropped
    for fn, callers in sorted(getattr(tr, "pure_calls", {}).items()):
        if getattr(tr, "storing", {}).get(fn):
            res.append(("(* CONFIGURATION ERROR: %s stores into the heap but is called as a pure function by %s *)\n" % (fn, ", ".join(sorted(callers))),
                        "%s stores into the heap but its call entry lacks \"writes\" (callers: %s)" % (fn, ", ".join(sorted(callers)))))
    for text, err in res:
        out.append(text)
        if err:
            ok = False
            h.errors.append("cxx2heap: " + err)
    body = "\n".join(out) + footer
    if ok:
        tmp = cp + ".tmp%d" % os.getpid()
        open(tmp, "w").write(body)
        os.rename(tmp, cp)
        old = sorted((f for f in os.listdir(cdir) if f.startswith(name + "-")), key=lambda f: os.path.getmtime(os.path.join(cdir, f)))
        for f in old[:-3]:
            os.unlink(os.path.join(cdir, f))
    return body
