#!/usr/bin/env python3
"""tools/addprops.py <Cxx> "<Require line(s) to add>" "<comment>" <lemma> [<lemma> ...]
Appends to coq/Properties_<Cxx>.v, for every named lemma, `Theorem <Cxx>_<lemma> : <its statement>. Proof. exact <lemma>. Qed.
Print Assumptions ...` -- the statement is the one Coq prints for the lemma (Check) in the context of the properties file, so the
properties file shows the full statement and cannot drift from what was proved.  A lemma given as Module.name is stated as
<Cxx>_name.  Scopes: the file's own, then Z_scope is opened (the statements of the translated-source theorems are over Z)."""
import os, re, subprocess, sys
ROOT = os.path.dirname(os.path.dirname(os.path.abspath(__file__)))
COQ = os.path.join(ROOT, "coq")
prop, req, comment = sys.argv[1:4]
lemmas = sys.argv[4:]
pf = os.path.join(COQ, "Properties_%s.v" % prop)
src = open(pf).read()
body = src.rstrip("\n") + "\n\n" + req + "\nLocal Open Scope Z_scope.\nSet Printing Width 118.\nSet Printing Depth 100000.\n"
probe = body + "".join("Check %s.\n" % l for l in lemmas)
tmp = os.path.join(COQ, "Probe_%s_tmp.v" % prop)
open(tmp, "w").write(probe)
p = subprocess.run(["coqc", "-Q", ".", "CppUVerif", os.path.basename(tmp)], cwd=COQ, stdout=subprocess.PIPE, stderr=subprocess.STDOUT, text=True)
for ext in (".v", ".vo", ".glob", ".vok", ".vos"):
    try:
        os.unlink(tmp[:-2] + ext)
    except OSError:
        pass
try:
    os.unlink(os.path.join(COQ, ".Probe_%s_tmp.aux" % prop))
except OSError:
    pass
if p.returncode != 0:
    print(p.stdout[-3000:])
    sys.exit(1)
out = p.stdout
blocks = re.split(r"\n(?=\S)", out.strip())
found = {}
for b in blocks:
    m = re.match(r"([\w.']+)\n?\s+: (.*)$", b, flags=re.S)
    if m:
        found[m.group(1)] = m.group(2)
text = ["", "(* " + "-" * 110, "   " + comment, "   " + "-" * 110 + " *)", req, "Local Open Scope Z_scope."]
for l in lemmas:
    if l not in found:
        print("no statement printed for", l)
        sys.exit(1)
    short = os.environ.get("ADDPROPS_PREFIX", "") + l.split(".")[-1]       # ADDPROPS_PREFIX: keeps two developments' lemma names apart
    ty = "\n".join("  " + x.strip() for x in found[l].split("\n"))
    text.append("Theorem %s_%s :\n%s.\nProof. exact %s. Qed.\nPrint Assumptions %s_%s.\n" % (prop, short, ty, l, prop, short))
open(pf, "w").write(src.rstrip("\n") + "\n" + "\n".join(text))
p = subprocess.run(["coqc", "-Q", ".", "CppUVerif", "Properties_%s.v" % prop], cwd=COQ, stdout=subprocess.PIPE, stderr=subprocess.STDOUT, text=True)
bad = [x for x in p.stdout.split("\n") if x and not x.startswith("Closed under")]
print("Properties_%s.v: rc=%d, %d theorems; %s" % (prop, p.returncode, len(re.findall(r"^Theorem", open(pf).read(), flags=re.M)), bad[:10]))
if p.returncode != 0:
    open("/tmp/failed_Properties_%s.v" % prop, "w").write(open(pf).read())
    open(pf, "w").write(src)
    sys.exit(1)
