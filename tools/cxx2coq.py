#!/usr/bin/env python3
"""cxx2coq: a small translator from a loop-free subset of C++ function bodies (as parsed by clang: `-ast-dump=json`) to
Gallina over Z with explicit C integer semantics (coq/lib/CSem.v).  Used by the translator-lite plugins tools/gen/Leaf*.py
to regenerate, on every check run, Coq definitions of the leaf functions of /repo that the hand-written models mirror; the
`*_Tie.v` files prove the hand-written model functions equal to these generated definitions, so a change to a leaf function
of the source re-checks (and may break) a named theorem.

Subset: integer / bool / char / enum / pointer-as-address parameters, `this->field` and `ptr->field` reads (each becomes a
parameter), literals, casts (with the conversions clang makes explicit), arithmetic, comparison, logical and bitwise operators,
?:, sizeof (LP64 table, record types become parameters), calls that the caller maps to Coq functions, local variables with
assignment (as let), if/else, return.  Void functions are translated to the trace of calls they make (callee name, string
literals among the arguments, integer arguments).  Anything else raises Unsupported: extraction fails loudly.

Trusted: clang's parse and its explicit implicit-cast annotation, this file, LP64 type table.  Signed overflow / division by
zero / out-of-range shifts are undefined in C; the translation wraps (total functions) and does not flag them."""
import json, os, subprocess, hashlib, re

INT_TYPES = {
    "char": (8, True), "signed char": (8, True), "unsigned char": (8, False),
    "short": (16, True), "unsigned short": (16, False),
    "int": (32, True), "unsigned int": (32, False),
    "long": (64, True), "unsigned long": (64, False),
    "long long": (64, True), "unsigned long long": (64, False),
}
SIZEOF = {"char": 1, "signed char": 1, "unsigned char": 1, "short": 2, "unsigned short": 2, "int": 4, "unsigned int": 4,
          "long": 8, "unsigned long": 8, "long long": 8, "unsigned long long": 8, "double": 8, "float": 4, "bool": 1}
CONFIG_DEFS = ["-DCPPUTEST_USE_LONG_LONG=1", "-DCPPUTEST_HAVE_STRDUP", "-DCPPUTEST_HAVE_FORK", "-DCPPUTEST_HAVE_WAITPID",
               "-DCPPUTEST_HAVE_KILL", "-DCPPUTEST_HAVE_PTHREAD_MUTEX_LOCK", "-DCPPUTEST_HAVE_GETTIMEOFDAY"]


class Unsupported(Exception):
    pass


def clang_docs(repo, path, flt):
    cmd = ["clang++", "-std=c++17", "-fsyntax-only", "-w", "-I" + repo + "/include"] + CONFIG_DEFS + \
          ["-Xclang", "-ast-dump=json", "-Xclang", "-ast-dump-filter=" + flt, os.path.join(repo, path)]
    p = subprocess.run(cmd, stdout=subprocess.PIPE, stderr=subprocess.PIPE, text=True, timeout=300)
    if p.returncode != 0:
        raise Unsupported("clang failed on %s: %s" % (path, p.stderr[-500:]))
    dec = json.JSONDecoder()
    txt, i, docs = p.stdout, 0, []
    while True:
        while i < len(txt) and txt[i].isspace():
            i += 1
        if i >= len(txt):
            break
        o, i = dec.raw_decode(txt, i)
        docs.append(o)
    return docs


def qual(n):
    t = n.get("type", {})
    q = t.get("desugaredQualType") or t.get("qualType") or ""
    return q


def norm_type(q):
    q = re.sub(r"\b(const|volatile)\b", " ", q)
    q = re.sub(r"\s+", " ", q).strip()
    q = re.sub(r"\s*\*", " *", q)               # "T *const" and "T*" both read "T *"
    q = re.sub(r"\*\s+\*", "**", q).replace("* *", "**")
    q = q.rstrip("&").strip()
    return q


def ctype(q):
    """-> ('int', bits, signed) | ('bool',) | ('ptr',) | ('double',) | ('enum', name) | ('other', q)"""
    q = norm_type(q)
    if q in INT_TYPES:
        return ("int",) + INT_TYPES[q]
    if q == "bool":
        return ("bool",)
    if q == "double":
        return ("double",)
    if q.endswith("*") or q.endswith(")"):
        return ("ptr",)
    if q.startswith("enum "):
        return ("enum", q[5:])
    return ("other", q)


def bits_of(t):
    if t[0] == "int":
        return t[1], t[2]
    if t[0] == "bool":
        return 1, False
    if t[0] == "ptr":
        return 64, False
    if t[0] == "enum":
        return 32, False
    raise Unsupported("no integer representation for type %r" % (t,))


def fits(src, dst):
    (b1, s1), (b2, s2) = src, dst
    return (s1 == s2 and b1 <= b2) or ((not s1) and s2 and b1 < b2)


def coq_string(s):
    return '"' + s.replace('"', '""') + '"%string'


class Fn:
    def __init__(self, tr, cfg, node):
        self.tr, self.cfg, self.node = tr, cfg, node
        self.extra = []            # extra parameters discovered (fields, sizeof of records), in order of first use
        self.calls = cfg.get("calls", {})
        self.enum_cache = {}

    # ------------------------------------------------------------------ helpers
    def param(self, name):
        if name not in self.extra:
            self.extra.append(name)
        return name

    def wrap(self, n, s, src_t=None):
        t = ctype(qual(n))
        if t[0] == "bool" or t[0] == "double" or t[0] == "other":
            return s
        b, sg = bits_of(t)
        if re.fullmatch(r"\d+", s) and int(s) < 2 ** (b - (1 if sg else 0)):
            return s                          # a literal inside the target range
        if src_t is not None:
            try:
                if fits(bits_of(src_t), (b, sg)):
                    return s
            except Unsupported:
                pass
        return "(cw %d %s %s)" % (b, "true" if sg else "false", s)

    def inner(self, n):
        return [c for c in n.get("inner", []) if c.get("kind") not in ("FullComment",)]

    def callee_name(self, n):
        k = n.get("kind")
        if k in ("ImplicitCastExpr", "ParenExpr"):
            return self.callee_name(self.inner(n)[0])
        if k == "DeclRefExpr":
            return n["referencedDecl"]["name"]
        if k == "MemberExpr":
            return n["name"]
        raise Unsupported("callee of kind %s" % k)

    def enum_value(self, ref):
        name = ref["name"]
        if name in self.cfg.get("enum_values", {}):
            return self.cfg["enum_values"][name]
        return self.tr.enum_constant(self.cfg["file"], name)

    # ------------------------------------------------------------------ expressions
    def E(self, n):
        k = n.get("kind")
        inn = self.inner(n)
        if k in ("ParenExpr", "ConstantExpr", "ExprWithCleanups", "MaterializeTemporaryExpr", "CXXBindTemporaryExpr",
                 "SubstNonTypeTemplateParmExpr"):
            return self.E(inn[0])
        if k == "IntegerLiteral":
            v = int(n["value"])
            return str(v) if v >= 0 else "(%d)" % v
        if k == "CharacterLiteral":
            v = int(n["value"])
            return str(v) if v >= 0 else "(%d)" % v
        if k == "CXXBoolLiteralExpr":
            return "1" if n["value"] else "0"
        if k == "CXXNullPtrLiteralExpr" or k == "GNUNullExpr":
            return "0"
        if k in ("ImplicitCastExpr", "CStyleCastExpr", "CXXStaticCastExpr", "CXXFunctionalCastExpr", "CXXReinterpretCastExpr"):
            ck = n.get("castKind")
            x = inn[0]
            if ck in ("LValueToRValue", "NoOp", "FunctionToPointerDecay", "ArrayToPointerDecay", "BitCast", "NullToPointer"):
                return self.E(x)
            if ck in ("IntegralCast", "PointerToIntegral", "IntegralToPointer"):
                return self.wrap(n, self.E(x), ctype(qual(x)))
            if ck in ("IntegralToBoolean", "PointerToBoolean"):
                return "(c_ne %s 0)" % self.E(x)
            raise Unsupported("cast kind %s" % ck)
        if k == "DeclRefExpr":
            ref = n["referencedDecl"]
            rk = ref.get("kind")
            if rk in ("ParmVarDecl", "VarDecl"):
                if ref["name"] in self.cfg.get("globals", {}):
                    return self.cfg["globals"][ref["name"]]
                return self.ident(ref["name"])
            if rk == "EnumConstantDecl":
                v = self.enum_value(ref)
                return str(v) if v >= 0 else "(%d)" % v
            raise Unsupported("reference to %s %s" % (rk, ref.get("name")))
        if k == "MemberExpr":
            base = inn[0] if inn else None
            while base is not None and base.get("kind") in ("ImplicitCastExpr", "ParenExpr"):
                base = self.inner(base)[0]
            if base is None or base.get("kind") == "CXXThisExpr":
                return self.param("this_" + n["name"])
            if base.get("kind") == "DeclRefExpr":
                return self.param(base["referencedDecl"]["name"] + "_" + n["name"])
            raise Unsupported("member access on %s" % base.get("kind"))
        if k == "UnaryOperator":
            op = n["opcode"]
            x = self.E(inn[0])
            if op == "!":
                return "(c_lnot %s)" % x
            if op == "-":
                return self.wrap(n, "(- %s)" % x)
            if op == "~":
                return self.wrap(n, "(Z.lnot %s)" % x)
            if op == "+":
                return x
            raise Unsupported("unary %s in expression" % op)
        if k == "BinaryOperator":
            op = n["opcode"]
            a, b = inn
            ta = ctype(qual(a))
            if ta[0] == "double" or ctype(qual(b))[0] == "double":
                return self.dbl_binop(op, a, b)
            x, y = self.E(a), self.E(b)
            if op in ("+", "-", "*"):
                if ta[0] == "ptr" or ctype(qual(b))[0] == "ptr":
                    raise Unsupported("pointer arithmetic")
                return self.wrap(n, "(%s %s %s)" % (x, op, y))
            if op == "/":
                return self.wrap(n, "(c_div %s %s)" % (x, y))
            if op == "%":
                return self.wrap(n, "(c_rem %s %s)" % (x, y))
            if op == "<<":
                return self.wrap(n, "(Z.shiftl %s %s)" % (x, y))
            if op == ">>":
                return "(Z.shiftr %s %s)" % (x, y)
            if op == "&":
                return "(Z.land %s %s)" % (x, y)
            if op == "|":
                return "(Z.lor %s %s)" % (x, y)
            if op == "^":
                return "(Z.lxor %s %s)" % (x, y)
            cmpf = {"<": "c_lt", "<=": "c_le", ">": "c_gt", ">=": "c_ge", "==": "c_eq", "!=": "c_ne", "&&": "c_land", "||": "c_lor"}
            if op in cmpf:
                return "(%s %s %s)" % (cmpf[op], x, y)
            if op == ",":
                return y
            raise Unsupported("binary %s in expression" % op)
        if k == "ConditionalOperator":
            c, a, b = inn
            return "(if z2b %s then %s else %s)" % (self.E(c), self.E(a), self.E(b))
        if k in ("CallExpr", "CXXMemberCallExpr", "CXXOperatorCallExpr"):
            name = self.callee_name(inn[0])
            if name not in self.calls:
                raise Unsupported("call to unmapped function %s" % name)
            args = list(inn[1:])
            if k == "CXXMemberCallExpr":
                obj = self.inner(inn[0])
                if obj and obj[0].get("kind") != "CXXThisExpr":
                    args = [obj[0]] + args
            me = self

            class Lazy:                      # arguments are translated only when the template mentions them
                def __getitem__(self, i):
                    return me.E(args[i])
            import string
            return "(" + string.Formatter().vformat(self.calls[name], Lazy(), {}) + ")"
        if k == "UnaryExprOrTypeTraitExpr":
            if n.get("name") != "sizeof":
                raise Unsupported(n.get("name"))
            q = norm_type((n.get("argType") or {}).get("desugaredQualType") or (n.get("argType") or {}).get("qualType") or
                          (qual(inn[0]) if inn else ""))
            if q.endswith("*"):
                return "8"
            if q in SIZEOF:
                return str(SIZEOF[q])
            return self.param("sizeof_" + re.sub(r"\W", "_", q))
        if k == "CXXDefaultArgExpr":
            raise Unsupported("default argument")
        raise Unsupported("expression kind %s" % k)

    def dbl_binop(self, op, a, b):
        x, y = self.E(a), self.E(b)
        m = {"-": "(d_minus %s %s)", "<=": "(b2z (d_le %s %s))", "==": "(b2z (d_eq %s %s))", ">=": "(b2z (d_le %s %s))"}
        if op == ">=":
            x, y = y, x
        if op not in m:
            raise Unsupported("double operator %s" % op)
        return m[op] % (x, y)

    def ident(self, name):
        return name if name not in ("at", "as", "in", "fun", "let", "end", "fix", "using", "with", "match", "return", "if", "then", "else", "forall", "exists", "Type", "Prop", "Set") else name + "_"

    # ------------------------------------------------------------------ traces of void functions
    def events(self, n, out):
        """post-order list of Coq event terms for every call/construction under n"""
        k = n.get("kind")
        inn = self.inner(n)
        for c in inn:
            self.events(c, out)
        if k in ("CallExpr", "CXXMemberCallExpr", "CXXOperatorCallExpr", "CXXConstructExpr", "CXXTemporaryObjectExpr"):
            if k in ("CXXConstructExpr", "CXXTemporaryObjectExpr"):
                name = norm_type(qual(n))
                args = inn
                if n.get("elidable"):
                    return
                if len(args) == 1 and norm_type(qual(args[0])) == name:   # copy/move construction: not an event
                    return
            else:
                name = self.callee_name(inn[0])
                args = inn[1:]
            strs, ints = [], []
            for a in args:
                x = a
                while x.get("kind") in ("ImplicitCastExpr", "ParenExpr", "MaterializeTemporaryExpr", "CXXBindTemporaryExpr", "ExprWithCleanups"):
                    x = self.inner(x)[0]
                if x.get("kind") == "StringLiteral":
                    strs.append(json.loads(x["value"]) if x["value"].startswith('"') else x["value"])
                    continue
                if ctype(qual(a))[0] in ("int", "bool", "enum"):
                    try:
                        ints.append(self.E(a))
                    except Unsupported:
                        pass
            label = name + "".join(":" + s for s in strs)
            out.append("(%s, [%s])" % (coq_string(label), "; ".join(ints)))

    # ------------------------------------------------------------------ statements
    def S(self, stmts, void):
        if not stmts:
            if void:
                return "[]"
            raise Unsupported("control reaches the end of a non-void function")
        s, rest = stmts[0], stmts[1:]
        k = s.get("kind")
        if k == "CompoundStmt":
            return self.S(self.inner(s) + rest, void)
        if k == "NullStmt":
            return self.S(rest, void)
        if k == "ReturnStmt":
            inn = self.inner(s)
            if void:
                return "[]"
            return self.E(inn[0])
        if k == "IfStmt":
            inn = self.inner(s)
            if s.get("hasInit") or s.get("hasVar"):
                raise Unsupported("if with init/var")
            c = inn[0]
            th = inn[1]
            el = inn[2] if len(inn) > 2 else None
            pre = []
            if void:
                self.events(c, pre)
            body = "(if z2b %s then %s else %s)" % (self.E(c), self.S([th] + rest, void), self.S(([el] if el else []) + rest, void))
            return self.prepend(pre, body)
        if k == "DeclStmt":
            out = None
            decls = self.inner(s)
            pre = []
            lets = []
            for d in decls:
                if d.get("kind") != "VarDecl":
                    raise Unsupported("declaration %s" % d.get("kind"))
                di = self.inner(d)
                t = ctype(qual(d))
                if t[0] in ("int", "bool", "ptr", "enum", "double"):
                    lets.append((self.ident(d["name"]), self.E(di[0]) if di else "0"))
                elif void:
                    for c in di:
                        self.events(c, pre)
                else:
                    raise Unsupported("local of type %s" % qual(d))
            body = self.S(rest, void)
            for nm, e in reversed(lets):
                body = "(let %s := %s in %s)" % (nm, e, body)
            return self.prepend(pre, body)
        # expression statements
        if k in ("BinaryOperator", "CompoundAssignOperator") and s.get("opcode", "").endswith("=") and s.get("opcode") not in ("==", "!=", "<=", ">="):
            lhs, rhs = self.inner(s)
            if lhs.get("kind") == "DeclRefExpr" and lhs["referencedDecl"].get("kind") in ("VarDecl", "ParmVarDecl"):
                nm = self.ident(lhs["referencedDecl"]["name"])
                if s["opcode"] == "=":
                    e = self.E(rhs)
                else:
                    op = s["opcode"][:-1]
                    fake = {"kind": "BinaryOperator", "opcode": op, "type": s.get("computeResultType", s["type"]), "inner": [lhs, rhs]}
                    e = self.wrap(s, self.E(fake), None)
                return "(let %s := %s in %s)" % (nm, e, self.S(rest, void))
        if k == "UnaryOperator" and s.get("opcode") in ("++", "--"):
            x = self.inner(s)[0]
            if x.get("kind") == "DeclRefExpr":
                nm = self.ident(x["referencedDecl"]["name"])
                return "(let %s := %s in %s)" % (nm, self.wrap(s, "(%s %s 1)" % (nm, "+" if s["opcode"] == "++" else "-")), self.S(rest, void))
        if void:
            pre = []
            self.events(s, pre)
            return self.prepend(pre, self.S(rest, void))
        raise Unsupported("statement kind %s" % k)

    # ------------------------------------------------------------------ methods as state transformers (cfg mode = "state")
    def this_field(self, n):
        x = n
        while x.get("kind") in ("ParenExpr", "ImplicitCastExpr"):
            x = self.inner(x)[0]
        if x.get("kind") == "MemberExpr":
            base = self.inner(x)
            b = base[0] if base else None
            while b is not None and b.get("kind") in ("ImplicitCastExpr", "ParenExpr"):
                b = self.inner(b)[0]
            if b is None or b.get("kind") == "CXXThisExpr":
                return x["name"]
        return None

    def is_assign(self, s):
        return s.get("kind") in ("BinaryOperator", "CompoundAssignOperator") and s.get("opcode", "").endswith("=") and \
            s.get("opcode") not in ("==", "!=", "<=", ">=")

    def written_fields(self, n, acc):
        if self.is_assign(n):
            f = self.this_field(self.inner(n)[0])
            if f and f not in acc:
                acc.append(f)
        if n.get("kind") == "UnaryOperator" and n.get("opcode") in ("++", "--"):
            f = self.this_field(self.inner(n)[0])
            if f and f not in acc:
                acc.append(f)
        for c in self.inner(n):
            self.written_fields(c, acc)

    def traced(self, n, out):
        """events for the calls under n whose callee is listed in cfg['trace'] (post-order)"""
        for c in self.inner(n):
            self.traced(c, out)
        if n.get("kind") in ("CallExpr", "CXXMemberCallExpr", "CXXOperatorCallExpr"):
            name = self.callee_name(self.inner(n)[0])
            if name in self.cfg.get("trace", []):
                ints = []
                for a in self.inner(n)[1:]:
                    x = a
                    while x.get("kind") in ("ImplicitCastExpr", "ParenExpr", "ConstantExpr"):
                        x = self.inner(x)[0]
                    is_enum = x.get("kind") == "DeclRefExpr" and x.get("referencedDecl", {}).get("kind") == "EnumConstantDecl"
                    if is_enum or ctype(qual(a))[0] in ("int", "bool", "enum"):
                        try:
                            ints.append(self.E(a))
                        except Unsupported:
                            pass
                out.append("(%s, [%s])" % (coq_string(name), "; ".join(ints)))

    def with_events(self, evs, body):
        for e in reversed(evs):
            body = "(let tr := tr ++ [%s] in %s)" % (e, body)
        return body

    def exit_expr(self, ret):
        parts = ["tr"] + ([ret] if ret is not None else []) + ["this_" + f for f in self.fields]
        return "(" + ", ".join(parts) + ")"

    def SS(self, stmts):
        if not stmts:
            if not self.void:
                raise Unsupported("control reaches the end of a non-void function")
            return self.exit_expr(None)
        s, rest = stmts[0], stmts[1:]
        k = s.get("kind")
        if k == "CompoundStmt":
            return self.SS(self.inner(s) + rest)
        if k == "NullStmt":
            return self.SS(rest)
        if k == "ReturnStmt":
            inn = self.inner(s)
            evs = []
            self.traced(s, evs)
            ret = None
            if inn:
                try:
                    ret = self.E(inn[0])
                except Unsupported:
                    # a non-integer result (e.g. a text): 1 = produced by a traced call, 0 = a literal
                    if not self.cfg.get("ret_flag"):
                        raise
                    ret = "1" if evs else "0"
            return self.with_events(evs, self.exit_expr(ret))
        if k == "IfStmt":
            inn = self.inner(s)
            if s.get("hasInit") or s.get("hasVar"):
                raise Unsupported("if with init/var")
            evs = []
            self.traced(inn[0], evs)
            body = "(if z2b %s then %s else %s)" % (self.E(inn[0]), self.SS([inn[1]] + rest), self.SS(([inn[2]] if len(inn) > 2 else []) + rest))
            return self.with_events(evs, body)
        if k == "DeclStmt":
            evs, lets = [], []
            for d in self.inner(s):
                if d.get("kind") != "VarDecl":
                    raise Unsupported("declaration %s" % d.get("kind"))
                di = self.inner(d)
                t = ctype(qual(d))
                if t[0] in ("int", "bool", "ptr", "enum", "double"):
                    for c in di:
                        self.traced(c, evs)
                    lets.append((self.ident(d["name"]), self.E(di[0]) if di else "0"))
                elif "va_list" in qual(d) or "va_list" in (d.get("type", {}).get("qualType") or ""):
                    pass                      # the variadic cursor: its uses (va_start/va_end, pass-through) carry no integer data
                elif di:
                    # an object local (e.g. `TestFailure f(&test, detector->report(p))`): only the traced calls in its initialiser count
                    for c in di:
                        self.traced(c, evs)
            body = self.SS(rest)
            for nm, e in reversed(lets):
                body = "(let %s := %s in %s)" % (nm, e, body)
            return self.with_events(evs, body)
        if self.is_assign(s):
            lhs, rhs = self.inner(s)
            evs = []
            self.traced(rhs, evs)
            f = self.this_field(lhs)
            nm = None
            if f:
                nm = "this_" + f
            elif lhs.get("kind") == "DeclRefExpr" and lhs["referencedDecl"].get("kind") in ("VarDecl", "ParmVarDecl"):
                nm = self.ident(lhs["referencedDecl"]["name"])
            if nm:
                if s["opcode"] == "=":
                    e = self.E(rhs)
                else:
                    fake = {"kind": "BinaryOperator", "opcode": s["opcode"][:-1], "type": s.get("computeResultType", s["type"]), "inner": [lhs, rhs]}
                    e = self.wrap(s, self.E(fake), None)
                return self.with_events(evs, "(let %s := %s in %s)" % (nm, e, self.SS(rest)))
            x = lhs
            while x.get("kind") in ("ParenExpr",):
                x = self.inner(x)[0]
            if x.get("kind") == "ArraySubscriptExpr" and s["opcode"] == "=":
                arr, idx = self.inner(x)
                af = self.this_field(arr)
                if af:
                    evs.append("(%s, [%s; %s])" % (coq_string("store:" + af), self.E(idx), self.E(rhs)))
                    return self.with_events(evs, self.SS(rest))
            raise Unsupported("assignment to %s" % lhs.get("kind"))
        if k == "UnaryOperator" and s.get("opcode") in ("++", "--"):
            x = self.inner(s)[0]
            f = self.this_field(x)
            nm = ("this_" + f) if f else (self.ident(x["referencedDecl"]["name"]) if x.get("kind") == "DeclRefExpr" else None)
            if nm:
                return "(let %s := %s in %s)" % (nm, self.wrap(s, "(%s %s 1)" % (nm, "+" if s["opcode"] == "++" else "-")), self.SS(rest))
        if k in ("CallExpr", "CXXMemberCallExpr", "CXXOperatorCallExpr"):
            name = self.callee_name(self.inner(s)[0])
            evs = []
            self.traced(s, evs)
            if evs or name in self.cfg.get("ignore_calls", []):
                return self.with_events(evs, self.SS(rest))
            raise Unsupported("call statement to %s (list it in trace or ignore_calls)" % name)
        if k in ("VAArgExpr",):
            return self.SS(rest)
        if k in ("ExprWithCleanups", "CXXBindTemporaryExpr", "MaterializeTemporaryExpr", "ParenExpr", "ImplicitCastExpr"):
            return self.SS(self.inner(s)[:1] + rest)
        raise Unsupported("statement kind %s in a state-mode function" % k)

    @staticmethod
    def prepend(evs, body):
        for e in reversed(evs):
            body = "(%s :: %s)" % (e, body)
        return body

    # ------------------------------------------------------------------ whole function
    def translate(self):
        node = self.node
        params = []
        body = None
        for c in self.inner(node):
            if c.get("kind") == "ParmVarDecl":
                params.append(c)
            elif c.get("kind") == "CompoundStmt":
                body = c
        if body is None:
            raise Unsupported("no body")
        rq = qual(node)
        ret = rq.split("(")[0].strip()
        void = norm_type(ret) == "void"
        state = self.cfg.get("mode") == "state"
        if state:
            self.void = void
            self.fields = []
            self.written_fields(body, self.fields)
            for f in self.fields:
                self.param("this_" + f)
            text = "(let tr : list cevent := [] in %s)" % self.SS([body])
        else:
            text = self.S([body], void)
        used = []
        for p in params:
            t = ctype(qual(p))
            nm = self.ident(p.get("name", "_"))
            if t[0] == "ptr" and not re.search(r"(?<![\w.])%s(?![\w])" % re.escape(nm), text):
                continue                      # a pointer used only through its fields (or not at all): the fields are parameters
            if t[0] in ("int", "bool", "ptr", "enum"):
                used.append("(%s : Z)" % nm)
            elif t[0] == "double":
                used.append("(%s : dbl)" % nm)
            elif re.search(r"\b%s\b" % re.escape(nm), text) and not any(e.startswith(nm + "_") for e in self.extra):
                used.append("(%s : %s)" % (nm, self.cfg.get("param_types", {}).get(nm, "Z")))
            # object/reference parameters that are only passed on to mapped calls keep their configured Coq type
            elif nm in self.cfg.get("param_types", {}):
                used.append("(%s : %s)" % (nm, self.cfg["param_types"][nm]))
        for e in self.extra + list(self.cfg.get("extra_params", [])):
            used.append("(%s : %s)" % (e, self.cfg.get("param_types", {}).get(e, "Z")))
        rt = "list cevent" if void else self.cfg.get("ret", "dbl" if ctype(ret)[0] == "double" else "Z")
        if state:
            shape = "(trace%s%s)" % ("" if void else ", result", "".join(", " + f for f in self.fields))
            return "(* %s : %s -- as a state transformer, returns %s *)\nDefinition %s %s :=\n  %s.\n" % (
                self.cfg["file"], self.cfg["name"], shape, self.cfg["coq"], " ".join(used), text)
        return "(* %s : %s *)\nDefinition %s %s : %s :=\n  %s.\n" % (self.cfg["file"], self.cfg["name"], self.cfg["coq"], " ".join(used), rt, text)


class Translator:
    def __init__(self, repo, cache_dir=None):
        self.repo = repo
        self.cache_dir = cache_dir
        self._enum = {}

    def enum_constant(self, path, name):
        """value of an enumerator visible in the translation unit `path` (enumerators without initialiser count up)"""
        key = (path, name)
        if key in self._enum:
            return self._enum[key]
        docs = clang_docs(self.repo, path, name)
        for d in docs:
            if d.get("kind") == "EnumConstantDecl" and d.get("name") == name:
                v = self._const_value(d)
                if v is not None:
                    self._enum[key] = v
                    return v
        # implicit value: need the whole enum; find it through the parent by dumping enums that contain the name
        raise Unsupported("enumerator %s has no explicit constant value in the AST; give it in cfg['enum_values'] or cfg['enums']" % name)

    def enum_table(self, path, enum_name):
        docs = clang_docs(self.repo, path, enum_name)
        for d in docs:
            if d.get("kind") == "EnumDecl" and d.get("name") == enum_name and d.get("inner"):
                out, cur = {}, -1
                for c in d["inner"]:
                    if c.get("kind") != "EnumConstantDecl":
                        continue
                    v = self._const_value(c)
                    cur = v if v is not None else cur + 1
                    out[c["name"]] = cur
                return out
        raise Unsupported("enum %s not found in %s" % (enum_name, path))

    @staticmethod
    def _const_value(d):
        for c in d.get("inner", []):
            x = c
            while x is not None:
                if "value" in x and x.get("kind") in ("ConstantExpr", "IntegerLiteral"):
                    return int(x["value"])
                x = (x.get("inner") or [None])[0]
        return None

    def function(self, cfg):
        docs = clang_docs(self.repo, cfg["file"], cfg["name"])
        want = cfg["name"].split("::")[-1]
        cands = [d for d in docs if d.get("kind") in ("FunctionDecl", "CXXMethodDecl") and d.get("name") == want and
                 any(c.get("kind") == "CompoundStmt" for c in d.get("inner", []))]
        if "signature" in cfg:
            cands = [d for d in cands if cfg["signature"] in qual(d)]
        if len(cands) != 1:
            raise Unsupported("%s: %d definitions found in %s" % (cfg["name"], len(cands), cfg["file"]))
        cfg = dict(cfg)
        ev = dict(cfg.get("enum_values", {}))
        for en in cfg.get("enums", []):
            ev.update(self.enum_table(cfg["file"], en))
        cfg["enum_values"] = ev
        return Fn(self, cfg, cands[0]).translate()


def source_hash(repo, extra=""):
    h = hashlib.sha256()
    for top in ("src", "include"):
        for dp, dn, fn in os.walk(os.path.join(repo, top)):
            dn.sort()
            for f in sorted(fn):
                p = os.path.join(dp, f)
                h.update(p[len(repo):].encode())
                h.update(open(p, "rb").read())
    h.update(open(__file__, "rb").read())
    h.update(extra.encode())
    return h.hexdigest()[:20]


def generate_cached(h, repo, root, name, cfgs, header):
    """body of Gen_<name>.v; cached on the content of /repo's src+include, this translator and the configuration"""
    key = source_hash(repo, name + json.dumps(cfgs, sort_keys=True) + header)
    cdir = os.path.join(root, "build", "leafcache")
    os.makedirs(cdir, exist_ok=True)
    cp = os.path.join(cdir, "%s-%s.v" % (name, key))
    if os.path.exists(cp):
        return open(cp).read()
    tr = Translator(repo)
    out = [header]
    ok = True
    from concurrent.futures import ThreadPoolExecutor

    def one(cfg):
        try:
            return tr.function(cfg), None
        except Unsupported as e:
            return "(* %s : NOT TRANSLATED: %s *)\n" % (cfg["name"], str(e).replace("*)", "* )")), "%s: %s" % (cfg["name"], e)
    with ThreadPoolExecutor(8) as ex:
        res = list(ex.map(one, cfgs))
    for text, err in res:
        out.append(text)
        if err:
            ok = False
            h.errors.append("cxx2coq: " + err)
    body = "\n".join(out)
    if ok:
        tmp = cp + ".tmp%d" % os.getpid()
        open(tmp, "w").write(body)
        os.rename(tmp, cp)
        old = sorted((f for f in os.listdir(cdir) if f.startswith(name + "-")), key=lambda f: os.path.getmtime(os.path.join(cdir, f)))
        for f in old[:-3]:
            os.unlink(os.path.join(cdir, f))
    return body
