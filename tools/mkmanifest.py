#!/usr/bin/env python3
"""Regenerates MANIFEST.json from checks/Cxx.py (one module per claimed property) and properties.jsonl."""
import os, sys, json, importlib, glob, subprocess
ROOT = os.path.dirname(os.path.dirname(os.path.abspath(__file__)))
sys.path.insert(0, os.path.join(ROOT, "tools")); sys.path.insert(0, os.path.join(ROOT, "checks"))
ids = [json.loads(l)["id"] for l in open(os.path.join(ROOT, "properties.jsonl"))]
import srctie_texts


def has_tie(pid):
    """the tie text is only claimed while the theorems are really in the properties file"""
    try:
        t = open(os.path.join(ROOT, "coq", "Properties_%s.v" % pid)).read()
    except OSError:
        return False
    return pid in srctie_texts.SRC_TIE and ("gen.Gen_Loop" in t or "gen.Gen_Heap" in t or "gen.Gen_Plug" in t)
NOT_APPLICABLE = {}  # property -> reason (kept current by hand; see DESIGN.md)
PENDING = "check not built yet in this development (time); the design for it is in DESIGN.md section 6 -- no claim is made"
checks = []
na = []
for pid in ids:
    if os.path.exists(os.path.join(ROOT, "checks", pid + ".py")):
        P = importlib.import_module(pid)
        if not getattr(P, "READY", False):
            na.append({"property_id": pid, "reason": "check under construction: " + PENDING})
            continue
        checks.append({
            "property_id": pid,
            "quick_cmd": "bin/check %s --tier quick" % pid,
            "thorough_cmd": "bin/check %s --tier thorough" % pid,
            "evidence_file": "/verif/evidence/%s.json" % pid,
            "replay_cmd_template": "bin/check %s --replay {path}" % pid,
            "engine": "coq-model+correspondence",
            "level_claimed": {"category": "proof", "text": P.LEVEL_TEXT + (srctie_texts.SRC_TIE[pid] if has_tie(pid) else ""), "design_ref": "DESIGN.md section 6, %s" % pid},
            "level_note": P.LEVEL_NOTE,
            "technique": P.TECHNIQUE + (srctie_texts.TECH if has_tie(pid) else ""),
        })
    else:
        na.append({"property_id": pid, "reason": NOT_APPLICABLE.get(pid, PENDING)})
hooks = subprocess.run(["git", "-C", "/repo", "log", "--format=%H %s", "--grep=^hook:"], capture_output=True, text=True).stdout.split("\n")
man = {
    "version": 1,
    "setup_cmd": "tools/setup.sh",
    "hooks": {"guard": "CPPUTEST_VERIF_HOOKS",
              "enable": "checks compile /repo/src/**/*.cpp themselves with -DCPPUTEST_VERIF_HOOKS (tools/vlib.py build_lib); the repository's own CMake build never defines it",
              "baseline_off_cmd": "tools/baseline_off.sh",
              "source_commits": [h.split()[0] for h in hooks if h.strip()],
              "add_only": True},
    "engines": [{"name": "coq-model+correspondence", "path": "tools/vlib.py",
                 "serves_properties": [c["property_id"] for c in checks],
                 "kind_free_text": "Coq 8.16.1 theorems over an executable Gallina model; model extracted to OCaml and compared with the implementation "
                                   "(harness linked against /repo built now) on generated scenarios; extracted spec evaluated on the implementation's observations"}],
    "checks": checks,
    "not_applicable": na,
    "notes": "All numeric tokens in scenario/replay files are hexadecimal. Exit 2 = /repo or the framework does not build (no verdict).",
}
json.dump(man, open(os.path.join(ROOT, "MANIFEST.json"), "w"), indent=1)
print("claimed:", [c["property_id"] for c in checks])
