#!/usr/bin/env python3
"""cxx2gal: translator for C/C++ functions WITH LOOPS AND BYTE POINTERS (clang's JSON AST -> Gallina), the companion of
tools/cxx2coq.py (which handles the loop-free leaves).  Used by the plugins tools/gen/Loop*.py to regenerate, on every check
run, coq/gen/Gen_Loop<X>.v from /repo's current source; coq/<X>_SrcTie.v proves the hand-written model functions (and hence
their textbook specifications) equal to these generated definitions.

Target vocabulary: coq/lib/CMem.v (mem = list of byte blocks, ptr = Null | Ptr block offset, load/store/padd with bounds
checks, result type cres with Oob and NoFuel) and coq/lib/CSem.v (C integer semantics over Z: cw wraps every arithmetic result
to the type clang gives the node).

Method: continuation-passing translation done here in Python.  Every C variable keeps its name and is re-bound by `let` when
assigned (Gallina lets shadow); `mem` is one more variable, re-bound by every store.  Expressions with side effects
(`*p++`, `--n != 0 && *s1`, `*++s1 = *++s2`) become sequences of lets/matches in evaluation order; `&&`, `||`, `?:` are lazy.
Every loop becomes a top-level `Fixpoint <fn>_loop<i> (fuel0 fuel : nat) <variables it reads> {struct fuel}` whose result is
`Go <tuple of the variables it assigns>` (loop left normally or by break), `Done r` (a `return` inside the loop), `Oob`
(a load/store/pointer step outside the block) or `NoFuel`; inner loops and calls to other translated functions are started
with the constant `fuel0`.  A function f(args) becomes `src_f (fuel0 : nat) (mem : mem) args : fres R` (R is paired with the
final memory when the function stores).

Subset: integer/char/bool/enum/pointer-to-byte variables and parameters, `this->field` reads of such types (parameters),
literals, casts, arithmetic/comparison/logical/bitwise operators, ?:, `=` and op-assignments to variables and through `*p` /
`p[i]`, ++/-- (prefix, postfix) on integer and pointer variables, pointer +/- integer, pointer ==/!=, calls mapped by the
plugin (pure template, or another translated function), declarations, if/else, while, do-while, for, break, continue, return.
Anything else raises Unsupported: reported as a translator error of that plugin, never defaulted.

Trusted: clang's parse with its explicit conversions, this file, CMem/CSem.  Signed overflow wraps (not flagged); evaluation
order of `a = b` is right operand first (C++17); the two operands of other binary operators left to right."""
import os, re, json, string
import cxx2coq
from cxx2coq import Unsupported, qual, norm_type, ctype, bits_of, fits

SKIP = ("ParenExpr", "ConstantExpr", "ExprWithCleanups", "MaterializeTemporaryExpr", "CXXBindTemporaryExpr",
        "SubstNonTypeTemplateParmExpr")
CASTS = ("ImplicitCastExpr", "CStyleCastExpr", "CXXStaticCastExpr", "CXXFunctionalCastExpr", "CXXReinterpretCastExpr",
         "CXXConstCastExpr")
KEYWORDS = ("at", "as", "in", "fun", "let", "end", "fix", "using", "with", "match", "return", "if", "then", "else", "forall",
            "exists", "Type", "Prop", "Set", "mem", "fuel", "fuel0", "load", "store", "padd", "block", "view", "memory", "ptr", "cres", "fres",
            "finish", "upd", "Go", "Done", "Oob", "NoFuel", "Null", "Ptr", "schar", "uchar", "byte_of", "cw", "nat", "Z", "N", "list", "length")


TYPEDEFS = {"size_t": "unsigned long", "ssize_t": "long", "uint8_t": "unsigned char", "uint32_t": "unsigned int",
            "uint64_t": "unsigned long", "int32_t": "int", "int64_t": "long", "cpputest_ulonglong": "unsigned long long",
            "cpputest_longlong": "long long"}


def ite(c, a, b):
    """(if z2b c then a() else b()); a and b are thunks so that no code is generated for a branch that cannot be taken"""
    if c == "0":
        return b()
    if c == "1":
        return a()
    return "(if z2b %s then %s else %s)" % (c, a(), b())


def pretty(text, width=118):
    """line breaks before match/if/let sub-terms, indented by parenthesis depth (layout only)"""
    out, depth, i, n = [], 0, 0, len(text)
    base = 4
    while i < n:
        ch = text[i]
        if ch == "(" and (text.startswith("(match ", i) or text.startswith("(if ", i) or text.startswith("(let ", i)):
            if out and "".join(out).strip():
                out.append("\n" + " " * (base + depth))
        if ch == "(":
            depth += 1
        elif ch == ")":
            depth -= 1
        out.append(ch)
        i += 1
    return "".join(out)


def pointee(q):
    q = norm_type(q)
    if not q.endswith("*"):
        raise Unsupported("not a pointer type: %s" % q)
    return norm_type(q[:-1])


class LoopFn:
    MEM_T = "memory"

    def __init__(self, tr, cfg, node):
        self.tr, self.cfg, self.node = tr, cfg, node
        self.calls = cfg.get("calls", {})
        self.coq = cfg["coq"]
        self.loops = []
        self.ntmp = 0
        self.vars = {}            # C name -> ('Z' | 'ptr')
        self.order = []           # declaration order
        self.fields = []          # this->field parameters discovered

    # ------------------------------------------------------------------ helpers
    def inner(self, n):
        return [c for c in n.get("inner", []) if c.get("kind") not in ("FullComment",)]

    def ident(self, name):
        return name + "_" if name in KEYWORDS else name

    def tmp(self, base="t"):
        self.ntmp += 1
        return "%s%d" % (base, self.ntmp)

    def coqtype_of(self, q):
        q = TYPEDEFS.get(norm_type(q), q)
        qn = re.sub(r"\bconst\b", "", norm_type(q)).strip()
        if qn in self.cfg.get("enums", []) or qn.split("::")[-1] in self.cfg.get("enums", []):
            return "Z"
        t = ctype(q)
        if t[0] in ("int", "bool", "enum"):
            return "Z"
        if t[0] == "ptr":
            return "ptr"
        if re.fullmatch(r"(un)?(signed )?char\s*\[\d+\]", norm_type(q)):
            return "ptr"                   # a local byte array: the pointer to its block
        raise Unsupported("variable of type %s" % q)

    def declare(self, name, q):
        nm = self.ident(name)
        ty = self.coqtype_of(q)
        if nm in self.vars and self.vars[nm] != ty:
            raise Unsupported("two variables called %s with different types" % name)
        if nm not in self.vars:
            self.vars[nm] = ty
            self.order.append(nm)
        return nm

    def wrap(self, n, s, src_t=None):
        t = ctype(qual(n))
        if t[0] in ("bool", "double", "other", "ptr"):
            return s
        b, sg = bits_of(t)
        if re.fullmatch(r"\d+", s) and int(s) < 2 ** (b - (1 if sg else 0)):
            return s
        if src_t is not None:
            try:
                if fits(bits_of(src_t), (b, sg)):
                    return s
            except Unsupported:
                pass
        return "(cw %d %s %s)" % (b, "true" if sg else "false", s)

    def wrap_type(self, q, s):
        t = ctype(q)
        if t[0] in ("bool", "ptr"):
            return s
        b, sg = bits_of(t)
        return "(cw %d %s %s)" % (b, "true" if sg else "false", s)

    def callee_name(self, n):
        k = n.get("kind")
        if k in ("ImplicitCastExpr", "ParenExpr"):
            return self.callee_name(self.inner(n)[0])
        if k == "DeclRefExpr":
            return n["referencedDecl"]["name"]
        if k == "MemberExpr":
            return n["name"]
        raise Unsupported("callee of kind %s" % k)

    def obj_prefix_of(self, x):
        while x is not None and x.get("kind") in ("ImplicitCastExpr", "ParenExpr", "MaterializeTemporaryExpr", "CXXBindTemporaryExpr"):
            x = self.inner(x)[0] if self.inner(x) else None
        if x is None or x.get("kind") == "CXXThisExpr":
            return "this"
        if x.get("kind") == "UnaryOperator" and x.get("opcode") == "*":
            return self.obj_prefix_of(self.inner(x)[0])
        if x.get("kind") == "DeclRefExpr" and x["referencedDecl"].get("kind") in ("ParmVarDecl", "VarDecl"):
            return x["referencedDecl"]["name"]
        raise Unsupported("member call on an object expression of kind %s" % x.get("kind"))

    def obj_prefix(self, callee):
        """'this' or the name of the parameter a member function is called on"""
        x = callee
        while x.get("kind") in ("ImplicitCastExpr", "ParenExpr"):
            x = self.inner(x)[0]
        if x.get("kind") != "MemberExpr":
            raise Unsupported("member call through %s" % x.get("kind"))
        inn = self.inner(x)
        return self.obj_prefix_of(inn[0] if inn else None)

    def field_var(self, prefix, field, ty):
        nm = "%s_%s" % (prefix, field)
        if nm not in self.vars:
            self.vars[nm] = ty
            self.order.append(nm)
            self.fields.append(nm)
        return nm

    def strip(self, n):
        while n.get("kind") in SKIP or (n.get("kind") in CASTS and n.get("castKind") in ("NoOp", "BitCast")):
            n = self.inner(n)[0]
        return n

    # ------------------------------------------------------------------ lvalues
    def L(self, n, k):
        """k receives ('var', coqname, qualtype) or ('mem', pointer term, element qualtype)"""
        kd = n.get("kind")
        inn = self.inner(n)
        if kd in SKIP or (kd in CASTS and n.get("castKind") == "NoOp"):
            return self.L(inn[0], k)
        if kd == "DeclRefExpr":
            ref = n["referencedDecl"]
            if ref.get("kind") in ("ParmVarDecl", "VarDecl"):
                nm = self.ident(ref["name"])
                if nm not in self.vars:
                    raise Unsupported("variable %s is not a parameter or local of the function" % ref["name"])
                return k(("var", nm, qual(n)))
            raise Unsupported("lvalue reference to %s" % ref.get("kind"))
        if kd == "MemberExpr":
            base = inn[0] if inn else None
            while base is not None and base.get("kind") in ("ImplicitCastExpr", "ParenExpr"):
                base = self.inner(base)[0]
            if base is None or base.get("kind") == "CXXThisExpr":
                nm = "this_" + n["name"]
                if nm not in self.vars:
                    self.declare(nm, qual(n))
                    self.fields.append(nm)
                return k(("var", nm, qual(n)))
            raise Unsupported("member access on %s" % base.get("kind"))
        if kd == "UnaryOperator" and n.get("opcode") == "*":
            y = inn[0]
            while y.get("kind") in SKIP or y.get("kind") in CASTS:
                y = self.inner(y)[0]
            if y.get("kind") == "CallExpr" and self.callee_name(self.inner(y)[0]) == "__errno_location" and "errno_" in self.vars:
                return k(("var", "errno_", qual(n)))          # errno: a ghost variable set by the oracle of the failing call
            return self.E(inn[0], lambda p: k(("mem", p, qual(n))))
        if kd == "UnaryOperator" and n.get("opcode") in ("++", "--") and not n.get("isPostfix"):
            return self.incdec(n, lambda v, lv: k(lv))
        if kd == "ArraySubscriptExpr":
            def with_base(p):
                def with_idx(i):
                    t = self.tmp("q")
                    return "(match padd mem %s %s with None => Oob | Some %s => %s end)" % (p, i, t, k(("mem", t, qual(n))))
                return self.E(inn[1], with_idx)
            return self.E(inn[0], with_base)
        raise Unsupported("lvalue of kind %s" % kd)

    def rvalue(self, lv, k):
        if lv[0] == "var":
            return k(lv[1])
        t = ctype(lv[2])
        if t[0] != "int" or t[1] != 8:
            if t[0] == "bool":
                c = self.tmp("c")
                return "(match load mem %s with None => Oob | Some %s => %s end)" % (lv[1], c, k("(c_ne (uchar %s) 0)" % c))
            raise Unsupported("load of a %s through a pointer (only bytes are modelled)" % lv[2])
        c = self.tmp("c")
        conv = "schar" if t[2] else "uchar"
        return "(match load mem %s with None => Oob | Some %s => %s end)" % (lv[1], c, k("(%s %s)" % (conv, c)))

    def assign(self, lv, v, k):
        if lv[0] == "var":
            return "(let %s := %s in %s)" % (lv[1], v, k(lv[1]))
        t = ctype(lv[2])
        if not (t[0] == "int" and t[1] == 8):
            raise Unsupported("store of a %s through a pointer (only bytes are modelled)" % lv[2])
        self.stores = True
        return "(match store mem %s (byte_of %s) with None => Oob | Some mem => %s end)" % (lv[1], v, k(v))

    def incdec(self, n, k):
        """k(value of the expression, lvalue)"""
        op = n["opcode"]
        post = bool(n.get("isPostfix"))
        x = self.inner(n)[0]

        def with_lv(lv):
            if lv[0] != "var":
                raise Unsupported("++/-- through a pointer")
            nm = lv[1]
            if self.vars[nm] == "ptr":
                step = "1" if op == "++" else "(-1)"
                if post:
                    t = self.tmp("p")
                    return "(let %s := %s in match padd mem %s %s with None => Oob | Some %s => %s end)" % (t, nm, nm, step, nm, k(t, lv))
                return "(match padd mem %s %s with None => Oob | Some %s => %s end)" % (nm, step, nm, k(nm, lv))
            new = self.wrap_type(lv[2], "(%s %s 1)" % (nm, "+" if op == "++" else "-"))
            if post:
                t = self.tmp("v")
                return "(let %s := %s in let %s := %s in %s)" % (t, nm, nm, new, k(t, lv))
            return "(let %s := %s in %s)" % (nm, new, k(nm, lv))
        return self.L(x, with_lv)

    # ------------------------------------------------------------------ expressions (CPS)
    def E(self, n, k):
        kd = n.get("kind")
        inn = self.inner(n)
        if kd in SKIP:
            return self.E(inn[0], k)
        if kd in ("IntegerLiteral", "CharacterLiteral"):
            v = int(n["value"])
            return k(str(v) if v >= 0 else "(%d)" % v)
        if kd == "CXXBoolLiteralExpr":
            return k("1" if n["value"] else "0")
        if kd in ("CXXNullPtrLiteralExpr", "GNUNullExpr"):
            return k("Null")
        if kd in CASTS:
            ck = n.get("castKind")
            x = inn[0]
            if ck == "LValueToRValue":
                y = x
                while y.get("kind") in SKIP:
                    y = self.inner(y)[0]
                if y.get("kind") == "DeclRefExpr" and y["referencedDecl"].get("name") in self.cfg.get("globals", {}) and \
                        self.ident(y["referencedDecl"]["name"]) not in self.vars:
                    return k(self.cfg["globals"][y["referencedDecl"]["name"]])
                if y.get("kind") == "BinaryOperator" and y.get("opcode") == "=":      # a = (b = c): the value just assigned
                    return self.E(y, k)
                if y.get("kind") == "ConditionalOperator":      # c ? a : b on two lvalues, read at once: the value of the chosen one
                    c, a, b = self.inner(y)
                    lv2rv = lambda z: {"kind": "ImplicitCastExpr", "castKind": "LValueToRValue", "type": z.get("type"), "inner": [z]}
                    return self.E(c, lambda vc: ite(vc, lambda: self.E(lv2rv(a), k), lambda: self.E(lv2rv(b), k)))
                return self.L(x, lambda lv: self.rvalue(lv, k))
            if ck in ("NoOp", "BitCast"):
                return self.E(x, k)
            if ck == "ArrayToPointerDecay":
                y = x
                while y.get("kind") in SKIP:
                    y = self.inner(y)[0]
                if y.get("kind") == "DeclRefExpr" and self.ident(y["referencedDecl"].get("name", "")) in self.vars and \
                        y["referencedDecl"].get("name") not in self.cfg.get("global_arrays", []):
                    return k(self.ident(y["referencedDecl"]["name"]))          # a local array: the variable holds the pointer
                if y.get("kind") == "DeclRefExpr" and y["referencedDecl"].get("name") in self.cfg.get("global_arrays", []):
                    # a constant global array: a pointer parameter of the translation (its content is a hypothesis of the theorems)
                    return k(self.field_var("global", y["referencedDecl"]["name"], "ptr"))
                raise Unsupported("array to pointer decay of %s" % y.get("kind"))
            if ck == "NullToPointer":
                return k("Null")
            if ck == "IntegralCast":
                return self.E(x, lambda v: k(self.wrap(n, v, ctype(qual(x)))))
            if ck == "IntegralToBoolean":
                return self.E(x, lambda v: k("(c_ne %s 0)" % v))
            if ck == "PointerToBoolean":
                return self.E(x, lambda v: k("(p_bool %s)" % v))
            raise Unsupported("cast kind %s" % ck)
        if kd == "DeclRefExpr":
            ref = n["referencedDecl"]
            if ref.get("kind") == "EnumConstantDecl":
                v = self.tr.enum_constant(self.cfg["file"], ref["name"]) if ref["name"] not in self.cfg.get("enum_values", {}) \
                    else self.cfg["enum_values"][ref["name"]]
                return k(str(v) if v >= 0 else "(%d)" % v)
            if ref["name"] in self.cfg.get("globals", {}) and self.ident(ref["name"]) not in self.vars:
                return k(self.cfg["globals"][ref["name"]])
            return self.L(n, lambda lv: self.rvalue(lv, k))
        if kd == "UnaryOperator":
            op = n["opcode"]
            if op in ("++", "--"):
                return self.incdec(n, lambda v, lv: k(v))
            if op == "*":
                return self.L(n, lambda lv: self.rvalue(lv, k))
            if op == "&":
                def addr(lv):
                    if lv[0] != "mem":
                        raise Unsupported("address of a variable")
                    return k(lv[1])
                return self.L(inn[0], addr)
            if op == "!":
                return self.E(inn[0], lambda v: k("(c_lnot %s)" % v))
            if op == "-":
                return self.E(inn[0], lambda v: k(self.wrap(n, "(- %s)" % v)))
            if op == "~":
                return self.E(inn[0], lambda v: k(self.wrap(n, "(Z.lnot %s)" % v)))
            if op == "+":
                return self.E(inn[0], k)
            raise Unsupported("unary %s" % op)
        if kd in ("BinaryOperator", "CompoundAssignOperator"):
            op = n["opcode"]
            a, b = inn
            if op == "=":
                return self.E(b, lambda v: self.L(a, lambda lv: self.assign(lv, v, k)))
            if kd == "CompoundAssignOperator":
                bop = op[:-1]

                def with_lv(lv):
                    if lv[0] != "var":
                        raise Unsupported("op-assignment through a pointer")
                    if self.vars[lv[1]] == "ptr":
                        if bop not in ("+", "-"):
                            raise Unsupported("pointer %s" % op)
                        return self.E(b, lambda v: "(match padd mem %s %s with None => Oob | Some %s => %s end)" % (
                            lv[1], v if bop == "+" else "(- %s)" % v, lv[1], k(lv[1])))
                    cq = (n.get("computeResultType") or n["type"])
                    cq = cq.get("desugaredQualType") or cq.get("qualType")
                    lq = (n.get("computeLHSType") or n["type"])
                    lq = lq.get("desugaredQualType") or lq.get("qualType")

                    def with_rhs(v):
                        lhs = lv[1]
                        if ctype(lq) != ctype(lv[2]):
                            lhs = self.wrap_type(lq, lhs)
                        r = self.arith(bop, lhs, v, cq)
                        r = self.wrap_type(lv[2], r)
                        return self.assign(lv, r, k)
                    return self.E(b, with_rhs)
                return self.L(a, with_lv)
            if op == ",":
                return self.E(a, lambda _: self.E(b, k))
            if op == "&&":
                return self.E(a, lambda va: ite(va, lambda: self.E(b, lambda vb: k(vb)), lambda: k("0")))
            if op == "||":
                return self.E(a, lambda va: ite(va, lambda: k("1"), lambda: self.E(b, lambda vb: k(vb))))
            ta, tb = ctype(qual(a)), ctype(qual(b))
            if ta[0] == "double" or tb[0] == "double":
                raise Unsupported("double arithmetic")
            if ta[0] == "ptr" or tb[0] == "ptr":
                if op in ("==", "!="):
                    return self.E(a, lambda x: self.E(b, lambda y: k("(%s %s %s)" % ("p_eq" if op == "==" else "p_ne", x, y))))
                if op in ("+", "-") and ta[0] == "ptr" and tb[0] != "ptr":
                    def with_p(p):
                        def with_i(i):
                            t = self.tmp("q")
                            return "(match padd mem %s %s with None => Oob | Some %s => %s end)" % (
                                p, i if op == "+" else "(- %s)" % i, t, k(t))
                        return self.E(b, with_i)
                    return self.E(a, with_p)
                raise Unsupported("pointer operator %s" % op)
            q = qual(n)
            return self.E(a, lambda x: self.E(b, lambda y: k(self.arith(op, x, y, q))))
        if kd == "ConditionalOperator":
            c, a, b = inn
            return self.E(c, lambda vc: ite(vc, lambda: self.E(a, k), lambda: self.E(b, k)))
        if kd in ("CallExpr", "CXXMemberCallExpr", "CXXOperatorCallExpr"):
            name = self.callee_name(inn[0])
            if name not in self.calls:
                raise Unsupported("call to unmapped function %s" % name)
            args = list(inn[1:])
            spec = self.calls[name]
            if isinstance(spec, dict) and spec.get("event"):          # a ghost event, receiver and arguments not evaluated
                g = spec.get("to", "evs")
                return "(let %s := %s ++ [%s] in %s)" % (g, g, spec["event"], k("0"))
            if isinstance(spec, dict) and spec.get("fresh_block"):
                # an allocation answered by the outside world: the oracle stream holds None (refused: NULL) or the initial bytes of the
                # new block, whose number must be the size asked for; the ghost event records the request
                st = spec["fresh_block"]
                ob, bl = self.tmp("o"), self.tmp("b")
                self.stores = True
                return self.E(args[spec.get("size_arg", 0)], lambda sz: (
                    "(match %s with nil => Oob | cons %s %s => match %s with None => let evs := evs ++ [%s] in %s | Some %s => "
                    "if Z.of_nat (List.length %s) =? %s then let pnew := Ptr (List.length mem) 0 in let mem := mem ++ [%s] in "
                    "let evs := evs ++ [%s] in %s else Oob end end)") % (
                    st, ob, st, ob, spec["fb_event"].format(sz, "0"), k("Null"), bl, bl, sz, bl, spec["fb_event"].format(sz, "1"), k("pnew")))
            if isinstance(spec, dict) and spec.get("pop"):            # the next value of an oracle stream (a ghost list)
                g, r = spec["pop"], self.tmp("o")
                return "(match %s with nil => Oob | cons %s %s => %s end)" % (g, r, g, k(r))
            if isinstance(spec, dict) and spec.get("wait"):
                # waitpid(pid, &status, options): the next (result, status, errno) of the oracle stream; status and errno are assigned
                w = spec["wait"]
                r = self.tmp("o")
                return "(match %s with nil => Oob | cons (%s, st_, er_) %s => let %s := st_ in let %s := er_ in %s end)" % (
                    w["stream"], r, w["stream"], w["status"], w["errno"], k(r))
            if isinstance(spec, dict) and spec.get("add_failure"):
                # result->addFailure(TestFailure(shell, "text")): the ghost event ("addFailure:text", [])
                lits = []

                def find(x):
                    if x.get("kind") == "StringLiteral":
                        lits.append(json.loads(x["value"]) if x["value"].startswith('"') else x["value"])
                    for c in self.inner(x):
                        find(c)
                find(args[0])
                g = spec.get("to", "evs")
                label = "addFailure:" + (lits[0] if lits else "?")
                return "(let %s := %s ++ [(%s, nil)] in %s)" % (g, g, cxx2coq.coq_string(label), k("0"))
            if isinstance(spec, dict) and (spec.get("event_args") or spec.get("abort_args")):
                nm = spec.get("event_args") or spec.get("abort_args")
                g = spec.get("to", "evs")

                def ev2(i, acc):
                    if i == len(args):
                        body = self.ret("tt" if self.cur_void else "0") if spec.get("abort_args") else k("0")
                        return "(let %s := %s ++ [(%s, [%s])] in %s)" % (g, g, cxx2coq.coq_string(nm), "; ".join(acc), body)
                    return self.E(args[i], lambda v: ev2(i + 1, acc + [v]))
                return ev2(0, [])
            if isinstance(spec, dict) and spec.get("trace_fn"):
                g = spec.get("to", "evs")

                def ev3(i, acc):
                    if i == len(args):
                        return "(let %s := %s ++ (%s) in %s)" % (g, g, spec["trace_fn"].format(*acc), k("0"))
                    return self.E(args[i], lambda v: ev3(i + 1, acc + [v]))
                return ev3(0, [])
            if isinstance(spec, dict) and spec.get("fail_ctor"):
                # failWith(SomeFailure(this, file, line, ...), terminator): the ghost event AFail "SomeFailure" file line; the test is left
                c = args[0]
                while c.get("kind") in SKIP or c.get("kind") in CASTS:
                    c = self.inner(c)[0]
                if c.get("kind") not in ("CXXTemporaryObjectExpr", "CXXConstructExpr"):
                    raise Unsupported("failWith argument of kind %s" % c.get("kind"))
                cls = norm_type(qual(c))
                cargs = self.inner(c)
                g = spec.get("to", "evs")
                return self.E(cargs[1], lambda f: self.E(cargs[2], lambda l: "(let %s := %s ++ [AFail %s %s %s] in %s)" % (
                    g, g, cxx2coq.coq_string(cls), f, l, self.ret("tt"))))
            if isinstance(spec, dict) and spec.get("cstr_op"):
                # an operation of SimpleString objects built from C strings, replaced by its textbook meaning on the strings at the pointers
                ops = []
                if kd == "CXXMemberCallExpr":
                    callee = inn[0]
                    while callee.get("kind") in ("ImplicitCastExpr", "ParenExpr"):
                        callee = self.inner(callee)[0]
                    ops.append(self.inner(callee)[0])
                ops += args

                def cptr(x):
                    while True:
                        if x.get("kind") in SKIP or x.get("kind") in CASTS or x.get("kind") in ("CXXConstructExpr", "CXXTemporaryObjectExpr"):
                            if x.get("kind") in CASTS and x.get("castKind") == "LValueToRValue":
                                return x
                            x = self.inner(x)[0]
                            continue
                        return x

                def ev(i, acc):
                    if i == len(ops):
                        return k("(" + spec["cstr_op"].format(*acc) + ")")
                    return self.E(cptr(ops[i]), lambda v: ev(i + 1, acc + [v]))
                return ev(0, [])
            if kd == "CXXOperatorCallExpr" and isinstance(spec, dict) and spec.get("operands_fields"):
                # a free operator on objects: each operand contributes the named fields
                vals = []
                for a in args:
                    pre = self.obj_prefix_of(a)
                    vals += [self.field_var(pre, f, t) for f, t in spec["operands_fields"]]
                return self.call(spec, vals, k)
            if isinstance(spec, dict) and (spec.get("field") or spec.get("obj")):
                pre = self.obj_prefix(inn[0])
                if spec.get("field"):          # an accessor: the call is the object's field
                    f, t = spec["field"]
                    return k(self.field_var(pre, f, t))
                objargs = [self.field_var(pre, f, t) for f, t in spec["obj"]]

                def eval_margs(i, acc):
                    if i == len(args):
                        return self.call(spec, acc, k)
                    return self.E(args[i], lambda v: eval_margs(i + 1, acc + [v]))
                return eval_margs(0, objargs)

            def eval_args(i, acc):
                if i == len(args):
                    return self.call(spec, acc, k)
                return self.E(args[i], lambda v: eval_args(i + 1, acc + [v]))
            return eval_args(0, [])
        if kd == "UnaryExprOrTypeTraitExpr" and n.get("name") == "sizeof":
            q = norm_type((n.get("argType") or {}).get("desugaredQualType") or (n.get("argType") or {}).get("qualType") or
                          (qual(inn[0]) if inn else ""))
            if q.endswith("*"):
                return k("8")
            if q in cxx2coq.SIZEOF:
                return k(str(cxx2coq.SIZEOF[q]))
            m = re.fullmatch(r"(.+?)\s*\[(\d+)\]", q)
            if m and norm_type(m.group(1)) in cxx2coq.SIZEOF:
                return k(str(cxx2coq.SIZEOF[norm_type(m.group(1))] * int(m.group(2))))
            raise Unsupported("sizeof %s" % q)
        raise Unsupported("expression kind %s" % kd)

    def arith(self, op, x, y, q):
        """integer binary operator whose result has C type q"""
        def w(s):
            return self.wrap_type(q, s)
        if op in ("+", "-", "*"):
            return w("(%s %s %s)" % (x, op, y))
        if op == "/":
            return w("(c_div %s %s)" % (x, y))
        if op == "%":
            return w("(c_rem %s %s)" % (x, y))
        if op == "<<":
            return w("(Z.shiftl %s %s)" % (x, y))
        if op == ">>":
            return "(Z.shiftr %s %s)" % (x, y)
        if op == "&":
            return "(Z.land %s %s)" % (x, y)
        if op == "|":
            return "(Z.lor %s %s)" % (x, y)
        if op == "^":
            return "(Z.lxor %s %s)" % (x, y)
        cmpf = {"<": "c_lt", "<=": "c_le", ">": "c_gt", ">=": "c_ge", "==": "c_eq", "!=": "c_ne"}
        if op in cmpf:
            return "(%s %s %s)" % (cmpf[op], x, y)
        raise Unsupported("binary %s" % op)

    def call(self, spec, args, k):
        if isinstance(spec, str):                       # pure template over the argument values
            return k("(" + spec.format(*args) + ")")
        if spec.get("ghost"):                           # an effect on a ghost variable (e.g. text handed to the output)
            g = spec["ghost"]
            return "(match %s with None => Oob | Some %s => %s end)" % (spec["update"].format(*args), g, k("0"))
        fn = spec["fn"]
        r = self.tmp("r")
        if spec.get("ghosts"):          # a translated function of the same group: it takes and returns the ghost variables
            gs = [g for g, _ in self.cfg.get("ghosts", [])]
            self.stores = True
            return "(match %s fuel0 mem %s %s with FOk (%s) => %s | FOob => Oob | FNoFuel => NoFuel end)" % (
                fn, " ".join(gs), " ".join(args), ", ".join([r, "mem"] + gs), k(r))
        if spec.get("writes"):
            self.stores = True
            return "(match %s fuel0 mem %s with FOk (%s, mem) => %s | FOob => Oob | FNoFuel => NoFuel end)" % (fn, " ".join(args), r, k(r))
        return "(match %s fuel0 mem %s with FOk %s => %s | FOob => Oob | FNoFuel => NoFuel end)" % (fn, " ".join(args), r, k(r))

    # ------------------------------------------------------------------ syntactic facts about a sub-tree
    def scan(self, n, refs, assigned, declared, flags):
        kd = n.get("kind")
        inn = self.inner(n)
        if kd == "VarDecl":
            declared.add(self.ident(n["name"]))
            if re.fullmatch(r"(un)?(signed )?char\s*\[\d+\]", norm_type(qual(n))):
                flags.add("store")
        if kd == "DeclRefExpr" and n["referencedDecl"].get("kind") in ("ParmVarDecl", "VarDecl"):
            if n["referencedDecl"]["name"] in self.cfg.get("global_arrays", []):
                refs.add(self.field_var("global", n["referencedDecl"]["name"], "ptr"))
            else:
                refs.add(self.ident(n["referencedDecl"]["name"]))
        if kd == "MemberExpr":
            base = inn[0] if inn else None
            while base is not None and base.get("kind") in ("ImplicitCastExpr", "ParenExpr"):
                base = self.inner(base)[0]
            if base is None or base.get("kind") == "CXXThisExpr":
                refs.add("this_" + n["name"])
        tgt = None
        if kd in ("BinaryOperator", "CompoundAssignOperator") and n.get("opcode", "").endswith("=") and \
                n.get("opcode") not in ("==", "!=", "<=", ">="):
            tgt = self.strip(inn[0])
        if kd == "UnaryOperator" and n.get("opcode") in ("++", "--"):
            tgt = self.strip(inn[0])
        if tgt is not None:
            while tgt.get("kind") == "UnaryOperator" and tgt.get("opcode") in ("++", "--"):
                tgt = self.strip(self.inner(tgt)[0])
            if tgt.get("kind") == "DeclRefExpr":
                assigned.add(self.ident(tgt["referencedDecl"]["name"]))
            elif tgt.get("kind") == "MemberExpr":
                assigned.add("this_" + tgt["name"])
            else:
                flags.add("store")
        if kd == "UnaryOperator" and n.get("opcode") == "*":
            y = inn[0]
            while y.get("kind") in SKIP or y.get("kind") in CASTS:
                y = self.inner(y)[0]
            if y.get("kind") == "CallExpr" and "errno_" in self.vars:
                try:
                    if self.callee_name(self.inner(y)[0]) == "__errno_location":
                        refs.add("errno_")
                        return
                except Unsupported:
                    pass
            flags.add("mem")
        if kd == "ArraySubscriptExpr":
            flags.add("mem")
        if kd == "UnaryOperator" and n.get("opcode") in ("++", "--") and ctype(qual(n))[0] == "ptr":
            flags.add("mem")
        if kd in ("BinaryOperator", "CompoundAssignOperator") and ctype(qual(n))[0] == "ptr" and n.get("opcode") in ("+", "-", "+=", "-="):
            flags.add("mem")
        if kd in ("CallExpr", "CXXMemberCallExpr", "CXXOperatorCallExpr"):
            try:
                spec = self.calls.get(self.callee_name(inn[0]))
            except Unsupported:
                spec = None
            if isinstance(spec, dict) and spec.get("ghost"):
                flags.add("mem")
                assigned.add(spec["ghost"])
                refs.add(spec["ghost"])
            if isinstance(spec, dict) and (spec.get("event") or spec.get("fail_ctor") or spec.get("add_failure") or spec.get("event_args")
                                           or spec.get("abort_args") or spec.get("trace_fn")):
                assigned.add(spec.get("to", "evs"))
                refs.add(spec.get("to", "evs"))
            if isinstance(spec, dict) and (spec.get("fresh_block") or spec.get("ghosts")):
                flags.add("mem")
                flags.add("store")
                for gname, _ in self.cfg.get("ghosts", []):
                    assigned.add(gname)
                    refs.add(gname)
            if isinstance(spec, dict) and spec.get("pop"):
                assigned.add(spec["pop"])
                refs.add(spec["pop"])
            if isinstance(spec, dict) and spec.get("wait"):
                for v in (spec["wait"]["stream"], spec["wait"]["status"], spec["wait"]["errno"]):
                    assigned.add(v)
                    refs.add(v)
            if isinstance(spec, dict) and spec.get("cstr_op"):
                flags.add("mem")
            if isinstance(spec, dict) and spec.get("fn"):
                flags.add("mem")
                flags.add("call")
                if spec.get("writes"):
                    flags.add("store")
            if isinstance(spec, dict) and (spec.get("field") or spec.get("obj")):
                try:
                    pre = self.obj_prefix(inn[0])
                    for f, t in ([spec["field"]] if spec.get("field") else spec["obj"]):
                        refs.add(self.field_var(pre, f, t))
                except Unsupported:
                    pass
        if kd in ("WhileStmt", "DoStmt", "ForStmt"):
            flags.add("call")
        for c in inn:
            self.scan(c, refs, assigned, declared, flags)

    def predeclare(self, n):
        if n.get("kind") in ("VarDecl", "ParmVarDecl") and n.get("name"):
            try:
                self.declare(n["name"], qual(n))
            except Unsupported:
                if n.get("kind") != "ParmVarDecl":      # an object parameter is only reachable through its mapped fields
                    raise
        for c in self.inner(n):
            self.predeclare(c)

    # ------------------------------------------------------------------ statements (CPS)
    def S(self, stmts, k, ctx):
        if not stmts:
            return k()
        s, rest = stmts[0], stmts[1:]
        kd = s.get("kind")
        inn = self.inner(s)
        nxt = lambda: self.S(rest, k, ctx)
        if kd == "CompoundStmt":
            return self.S(inn + rest, k, ctx)
        if kd == "NullStmt":
            return nxt()
        if kd == "ReturnStmt":
            if not inn:
                return self.ret("tt")
            if getattr(self, "returns_self", False):
                x = inn[0]
                while x.get("kind") in SKIP or x.get("kind") in CASTS:
                    x = self.inner(x)[0]
                if x.get("kind") == "UnaryOperator" and x.get("opcode") == "*" and self.inner(x)[0].get("kind") == "CXXThisExpr":
                    return self.ret("tt")
                raise Unsupported("a function returning a reference returns something other than *this")
            return self.E(inn[0], lambda v: self.ret(v))
        if kd == "BreakStmt":
            if not ctx.get("brk"):
                raise Unsupported("break outside a loop")
            return ctx["brk"]()
        if kd == "ContinueStmt":
            if not ctx.get("cont"):
                raise Unsupported("continue outside a loop")
            return ctx["cont"]()
        if kd == "IfStmt":
            if s.get("hasInit") or s.get("hasVar"):
                raise Unsupported("if with init/var")
            th = inn[1]
            el = inn[2] if len(inn) > 2 else None
            c0 = inn[0]
            while c0.get("kind") in SKIP or (c0.get("kind") in CASTS and c0.get("castKind") in ("NoOp", "IntegralToBoolean")):
                c0 = self.inner(c0)[0]
            if c0.get("kind") == "BinaryOperator" and c0.get("opcode") in ("&&", "||"):
                # the lazy operator would copy what follows once per operand: when that part contains a loop and the condition has no
                # side effect, the condition is evaluated to a boolean first (a join point)
                dup = (([el] if el else []) + rest) if c0["opcode"] == "&&" else [th]
                r2, a2, d2, f2 = set(), set(), set(), set()
                self.scan(inn[0], r2, a2, d2, f2)
                if any(self.is_large(x) for x in dup) and not a2 and "store" not in f2 and "call" not in f2:
                    c = self.tmp("b")
                    joined = self.E(inn[0], lambda v: "(Go %s)" % v)
                    return "(match (%s : cres %s Z) with Go %s => %s | Done r => Done r | Oob => Oob | NoFuel => NoFuel end)" % (
                        joined, self.rtype, c, ite(c, lambda: self.S([th], nxt, ctx), lambda: self.S([el] if el else [], nxt, ctx)))
            if rest and not self.always_jumps(th) and (el is None or not self.always_jumps(el)) and not self.has_jump(s):
                # both branches can fall through to a non-empty rest: a join point instead of two copies of the rest
                refs, assigned, declared, flags = set(), set(), set(), set()
                self.scan(s, refs, assigned, declared, flags)
                assigned -= declared
                state = (["mem"] if "store" in flags else []) + [v for v in self.order if v in assigned]
                st = ("(" + ", ".join(state) + ")") if len(state) != 1 else state[0]
                sty = " * ".join((self.MEM_T if v == "mem" else self.vars[v]) for v in state) if state else "unit"
                if not state:
                    st = "tt"
                go = lambda: "(Go %s)" % st
                joined = self.E(inn[0], lambda c: ite(c, lambda: self.S([th], go, ctx), lambda: self.S([el] if el else [], go, ctx)))
                return "(match (%s : cres %s (%s)) with Go %s => %s | Done r => Done r | Oob => Oob | NoFuel => NoFuel end)" % (
                    joined, self.rtype, sty, st if state else "_", nxt())
            return self.E(inn[0], lambda c: ite(c, lambda: self.S([th], nxt, ctx), lambda: self.S([el] if el else [], nxt, ctx)))
        if kd == "DeclStmt":
            decls = inn

            def go(i):
                if i == len(decls):
                    return nxt()
                d = decls[i]
                if d.get("kind") != "VarDecl":
                    raise Unsupported("declaration %s" % d.get("kind"))
                nm = self.declare(d["name"], qual(d))
                di = self.inner(d)
                am = re.fullmatch(r"(un)?(signed )?char\s*\[(\d+)\]", norm_type(qual(d)))
                if am:
                    if di:
                        raise Unsupported("initialised local array")
                    self.stores = True
                    return "(let %s := Ptr (List.length mem) 0 in let mem := mem ++ [repeat 0%%N %s] in %s)" % (nm, am.group(3), go(i + 1))
                if not di:
                    return "(let %s := %s in %s)" % (nm, "Null" if self.vars[nm] == "ptr" else "0", go(i + 1))
                return self.E(di[0], lambda v: "(let %s := %s in %s)" % (nm, v, go(i + 1)))
            return go(0)
        if kd in ("WhileStmt", "DoStmt", "ForStmt"):
            return self.loop(s, nxt, ctx)
        # expression statement
        return self.Edrop(s, nxt)

    def Edrop(self, n, k):
        """evaluate for the side effects only (a postfix ++/-- whose value is dropped is the prefix one)"""
        x = n
        while x.get("kind") in SKIP:
            x = self.inner(x)[0]
        if x.get("kind") == "UnaryOperator" and x.get("opcode") in ("++", "--") and x.get("isPostfix"):
            x = dict(x)
            x["isPostfix"] = False
        return self.E(x, lambda _: k())

    def always_jumps(self, s):
        kd = s.get("kind")
        if kd in ("ReturnStmt", "BreakStmt", "ContinueStmt"):
            return True
        if kd == "CompoundStmt":
            inn = self.inner(s)
            return bool(inn) and self.always_jumps(inn[-1])
        if kd == "IfStmt":
            inn = self.inner(s)
            return len(inn) > 2 and self.always_jumps(inn[1]) and self.always_jumps(inn[2])
        return False

    def is_large(self, s):
        """contains a loop, a call or a conditional: too much to copy once per operand of a lazy operator"""
        if s.get("kind") in ("WhileStmt", "DoStmt", "ForStmt", "IfStmt", "CallExpr", "CXXMemberCallExpr", "CXXOperatorCallExpr"):
            return True
        return any(self.is_large(c) for c in self.inner(s))

    def has_loop(self, s):
        if s.get("kind") in ("WhileStmt", "DoStmt", "ForStmt"):
            return True
        return any(self.has_loop(c) for c in self.inner(s))

    def has_return(self, s):
        if s.get("kind") == "ReturnStmt":
            return True
        return any(self.has_return(c) for c in self.inner(s))

    def has_jump(self, s):
        """a break/continue that belongs to an enclosing loop"""
        kd = s.get("kind")
        if kd in ("BreakStmt", "ContinueStmt"):
            return True
        if kd in ("WhileStmt", "DoStmt", "ForStmt"):
            return False
        return any(self.has_jump(c) for c in self.inner(s))

    def ret(self, v):
        gs = [g for g, _ in self.cfg.get("ghosts", [])]
        if gs:
            return "(Done (%s))" % ", ".join([v, "mem"] + gs)
        return "(Done (%s, mem))" % v if self.fn_stores else "(Done %s)" % v

    def loop(self, s, nxt, ctx):
        kd = s.get("kind")
        inn = self.inner(s)
        raw = s.get("inner", [])
        if kd == "WhileStmt":
            init, cond, inc, body = None, inn[0], None, inn[1]
        elif kd == "DoStmt":
            init, cond, inc, body = None, inn[1], None, inn[0]
        else:
            # clang: ForStmt inner = [init, condition variable, cond, inc, body], absent parts are {}
            parts = [c if c.get("kind") else None for c in raw]
            if len(parts) != 5:
                raise Unsupported("for statement with %d parts" % len(parts))
            init, cv, cond, inc, body = parts
            if cv is not None:
                raise Unsupported("for with a condition variable")
        if init is not None:
            return self.S([init], lambda: self.loop_core(kd, cond, inc, body, nxt), ctx)
        return self.loop_core(kd, cond, inc, body, nxt)

    def loop_core(self, kd, cond, inc, body, nxt):
        refs, assigned, declared, flags = set(), set(), set(), set()
        for part in (cond, inc, body):
            if part is not None:
                self.scan(part, refs, assigned, declared, flags)
        refs -= declared
        assigned -= declared
        has_ret = any(part is not None and self.has_return(part) for part in (cond, inc, body))
        if has_ret and self.fn_stores:
            flags.add("mem")                      # a return inside the loop hands back the memory (and the ghosts)
            for g, _ in self.cfg.get("ghosts", []):
                refs.add(g)
        state = [v for v in self.order if v in assigned]
        consts = [v for v in self.order if v in refs and v not in assigned]
        need_mem = "mem" in flags or "store" in flags
        mem_state = "store" in flags
        if mem_state:
            state = ["mem"] + state
        elif need_mem:
            consts = ["mem"] + consts
        self.nloops += 1
        name = "%s_loop%d" % (self.coq, self.nloops)

        def ty(v):
            return self.MEM_T if v == "mem" else self.vars[v]
        st_tuple = "(" + ", ".join(state) + ")" if len(state) != 1 else state[0]
        if not state:
            st_tuple = "tt"
        st_type = " * ".join(ty(v) for v in state) if state else "unit"
        rec = "(%s fuel0 fuel %s)" % (name, " ".join(consts + state))
        go = "(Go %s)" % st_tuple
        lctx = {"brk": lambda: go}
        if kd == "DoStmt":
            test = lambda: self.E(cond, lambda c: ite(c, lambda: rec, lambda: go)) if cond is not None else rec
            lctx["cont"] = test
            it = self.S([body], test, lctx)
        else:
            after = (lambda: self.Edrop(inc, lambda: rec)) if inc is not None else (lambda: rec)
            lctx["cont"] = after
            run = lambda: self.S([body], after, lctx)
            it = self.E(cond, lambda c: ite(c, run, lambda: go)) if cond is not None else run()
        params = " ".join("(%s : %s)" % (v, ty(v)) for v in consts + state)
        text = ("Fixpoint %s (fuel0 fuel : nat) %s {struct fuel} : cres %s (%s) :=\n  match fuel with O => NoFuel | S fuel =>\n    %s\n  end.\n"
                % (name, params, self.rtype, st_type, pretty(it)))
        self.loops.append(text)
        return "(match %s fuel0 fuel0 %s with Go %s => %s | Done r => Done r | Oob => Oob | NoFuel => NoFuel end)" % (
            name, " ".join(consts + state), st_tuple if state else "_", nxt())

    # ------------------------------------------------------------------ one loop of a function, on its own
    def find_loops(self, n, acc):
        if n.get("kind") in ("WhileStmt", "DoStmt", "ForStmt"):
            acc.append(n)
        for c in self.inner(n):
            self.find_loops(c, acc)

    def translate_loop(self, index):
        """the index-th loop (pre-order) of the function as a definition of its own: parameters = the variables it reads (for an object
        `x` whose mapped accessor is called, the field variable, e.g. x_buffer_), result = the final values of the variables it assigns"""
        loops = []
        self.find_loops(self.node, loops)
        if index >= len(loops):
            raise Unsupported("the function has only %d loops" % len(loops))
        lp = loops[index]
        # declare exactly the scalar / pointer variables the loop mentions
        decls = {}

        def collect(n):
            if n.get("kind") in ("VarDecl", "ParmVarDecl") and n.get("name"):
                decls[n["name"]] = n
            for c in self.inner(n):
                collect(c)
        collect(self.node)
        used = set()

        def uses(n):
            if n.get("kind") == "DeclRefExpr" and n["referencedDecl"].get("kind") in ("ParmVarDecl", "VarDecl"):
                used.add(n["referencedDecl"]["name"])
            for c in self.inner(n):
                uses(c)
        uses(lp)
        for nm in decls:
            if nm in used:
                try:
                    self.declare(nm, qual(decls[nm]))
                except Unsupported:
                    pass                       # an object: only reachable through its mapped accessors
        self.cur_void = True
        self.fn_stores = False
        self.stores = False
        self.nloops = 0
        refs, assigned, declared, flags = set(), set(), set(), set()
        self.scan(lp, refs, assigned, declared, flags)
        if "store" in flags:
            raise Unsupported("a loop that stores cannot be extracted")
        assigned -= declared
        state = [v for v in self.order if v in assigned]
        self.rtype = " * ".join(self.vars[v] for v in state) if state else "unit"
        st_tuple = "(" + ", ".join(state) + ")" if len(state) != 1 else state[0]
        if not state:
            st_tuple = "tt"
        # the for-init runs inside: its variables start from what it assigns
        text = self.loop(lp, lambda: "(Done %s)" % st_tuple, {})
        refs2, a2, d2, f2 = set(), set(), set(), set()
        self.scan(lp, refs2, a2, d2, f2)
        free = [v for v in self.order if v in (refs2 | a2) and v not in d2]
        ps = " ".join("(%s : %s)" % (v, self.vars[v]) for v in free)
        hdr = "(* %s : %s, loop %d *)\n" % (self.cfg["file"], self.cfg["name"], index + 1)
        return hdr + "".join(self.loops) + ("Definition %s (fuel0 : nat) (mem : " + self.MEM_T + ") %s : fres (%s) :=\n  finish (R := (%s)) (A := unit)\n    %s.\n") % (
            self.coq, ps, self.rtype, self.rtype, pretty(text))

    # ------------------------------------------------------------------ whole function
    def translate(self):
        if "loop_index" in self.cfg:
            return self.translate_loop(self.cfg["loop_index"])
        node = self.node
        params, body = [], None
        for c in self.inner(node):
            if c.get("kind") == "ParmVarDecl":
                params.append(c)
            elif c.get("kind") == "CompoundStmt":
                body = c
        if body is None:
            raise Unsupported("no body")
        ret = qual(node).split("(")[0].strip()
        ret = TYPEDEFS.get(norm_type(ret), ret)
        void = norm_type(ret) == "void"
        for g, t in self.cfg.get("ghosts", []):
            self.vars[g] = t
            self.order.append(g)
        self.cur_void = void
        self.predeclare(node)
        refs, assigned, declared, flags = set(), set(), set(), set()
        self.scan(body, refs, assigned, declared, flags)
        self.fn_stores = "store" in flags or bool(self.cfg.get("writes"))
        self.stores = False
        self.nloops = 0
        base = "unit" if void else self.coqtype_of(ret)
        self.rtype = "(%s * %s)" % (base, self.MEM_T) if self.fn_stores else base
        ghosts = self.cfg.get("ghosts", [])
        if ghosts:
            self.fn_stores = True
            self.rtype = "(%s)" % " * ".join([base, self.MEM_T] + [t for _, t in ghosts])
        end = (lambda: self.ret("tt")) if void else (lambda: "Oob")       # falling off the end of a non-void function
        text = self.S([body], end, {})
        # parameters: the fields of `this`, the fields of the object parameters (in parameter order), then the ordinary parameters
        pnames = [p.get("name", "_") for p in params]

        def fkey(f):
            if f.startswith("global_"):
                return (-1, self.fields.index(f))
            pre = next((q for q in ["this"] + pnames if f.startswith(q + "_")), "this")
            return (0 if pre == "this" else 1 + pnames.index(pre), self.fields.index(f))
        ps = ["(%s : %s)" % (g, t) for g, t in self.cfg.get("ghosts", [])]
        for f in sorted(self.fields, key=fkey):
            ps.append("(%s : %s)" % (f, self.vars[f]))
        for p in params:
            nm = self.ident(p.get("name", "_"))
            if nm in self.vars:
                ps.append("(%s : %s)" % (nm, self.vars[nm]))
        hdr = "(* %s : %s *)\n" % (self.cfg["file"], self.cfg["name"])
        return hdr + "".join(self.loops) + ("Definition %s (fuel0 : nat) (mem : " + self.MEM_T + ") %s : fres %s :=\n  finish (R := %s) (A := unit)\n    %s.\n") % (
            self.coq, " ".join(ps), self.rtype, self.rtype, pretty(text))


class LoopTranslator(cxx2coq.Translator):
    def function(self, cfg):
        docs = cxx2coq.clang_docs(self.repo, cfg["file"], cfg["name"])
        want = cfg["name"].split("::")[-1]
        cands = [d for d in docs if d.get("kind") in ("FunctionDecl", "CXXMethodDecl", "CXXConstructorDecl") and d.get("name") == want and
                 any(c.get("kind") == "CompoundStmt" for c in d.get("inner", []))]
        if "signature" in cfg:
            cands = [d for d in cands if cfg["signature"] in qual(d)]
        if len(cands) != 1:
            raise Unsupported("%s: %d definitions found in %s" % (cfg["name"], len(cands), cfg["file"]))
        cfg = dict(cfg)
        ev = dict(cfg.get("enum_values", {}))
        for en in cfg.get("enums", []):
            ev.update(self.enum_table(cfg["file"], en))
        cfg["enum_values"] = ev
        return LoopFn(self, cfg, cands[0]).translate()


def generate_cached(h, repo, root, name, cfgs, header):
    """body of Gen_<name>.v; cached on the content of /repo's src+include, both translators and the configuration"""
    key = cxx2coq.source_hash(repo, name + json.dumps(cfgs, sort_keys=True) + header + open(__file__).read())
    cdir = os.path.join(root, "build", "leafcache")
    os.makedirs(cdir, exist_ok=True)
    cp = os.path.join(cdir, "%s-%s.v" % (name, key))
    if os.path.exists(cp):
        return open(cp).read()
    tr = LoopTranslator(repo)
    out, ok = [header], True
    from concurrent.futures import ThreadPoolExecutor

    def one(cfg):
        try:
            return tr.function(cfg), None
        except Unsupported as e:
            return "(* %s : NOT TRANSLATED: %s *)\n" % (cfg["name"], str(e).replace("*)", "* )")), "%s: %s" % (cfg["name"], e)
    with ThreadPoolExecutor(8) as ex:
        res = list(ex.map(one, cfgs))
    for text, err in res:
        out.append(text)
        if err:
            ok = False
            h.errors.append("cxx2gal: " + err)
    body = "\n".join(out)
    if ok:
        tmp = cp + ".tmp%d" % os.getpid()
        open(tmp, "w").write(body)
        os.rename(tmp, cp)
        old = sorted((f for f in os.listdir(cdir) if f.startswith(name + "-")), key=lambda f: os.path.getmtime(os.path.join(cdir, f)))
        for f in old[:-3]:
            os.unlink(os.path.join(cdir, f))
    return body


if __name__ == "__main__":
    import sys

    class HH:
        errors = []
    repo = os.environ.get("VERIF_REPO", "/repo")
    tr = LoopTranslator(repo)
    print(tr.function({"file": sys.argv[1], "name": sys.argv[2], "coq": "src_" + sys.argv[2].split("::")[-1],
                       "calls": json.loads(sys.argv[3]) if len(sys.argv) > 3 else {}}))
