#!/bin/bash
# tools/process_red.sh <property> [round] : confirm /tmp/redout<round>/<P>-{1,2,3} in /tmp/red<round>-<P>, run the check against each, print a summary
P=$1; R=${2:-}; W=/tmp/red$R-$P
for n in 1 2 3; do
  S=/tmp/redout$R/$P-$n
  [ -f $S/patch.diff ] || { echo "$P-$n: no patch"; continue; }
  echo "=== $P-$n: $(python3 -c "import json;print(json.load(open('$S/meta.json'))['title'])")"
  tools/confirm_seed.sh $W $S 2>&1 | sed 's/^/   /'
  tools/try_seed.sh $P $W $S quick 2>&1 | sed 's/^/   /'
done
