"""Looping functions of /repo translated to Gallina by tools/cxx2gal.py (clang AST -> fuelled Fixpoints over the byte memory of
coq/lib/CMem.v), one generated file per property (gen/Gen_LoopCxx.v).  The Cxx_SrcTie.v files prove the hand-written model
functions equal to these definitions, so the specification theorems of the models hold of the translated source."""
import os, sys
sys.path.insert(0, os.path.dirname(os.path.abspath(__file__)))
import cxx2gal

SS = "src/CppUTest/SimpleString.cpp"
GROUPS = {
    "C13": [
        dict(file=SS, name="SimpleString::StrLen", coq="src_StrLen"),
        dict(file=SS, name="SimpleString::StrCmp", coq="src_StrCmp"),
        dict(file=SS, name="SimpleString::StrNCmp", coq="src_StrNCmp"),
        dict(file=SS, name="SimpleString::MemCmp", coq="src_MemCmp"),
        dict(file=SS, name="SimpleString::StrNCpy", coq="src_StrNCpy"),
        dict(file=SS, name="SimpleString::StrStr", coq="src_StrStr",
             calls={"StrNCmp": {"fn": "src_StrNCmp"}, "StrLen": {"fn": "src_StrLen"}}),
        dict(file=SS, name="SimpleString::AtoU", coq="src_AtoU", calls={"isSpace": "leaf_isSpace {0}", "isDigit": "leaf_isDigit {0}"}),
        dict(file=SS, name="SimpleString::AtoI", coq="src_AtoI", calls={"isSpace": "leaf_isSpace {0}", "isDigit": "leaf_isDigit {0}"}),
    ],
}
HEADERS = {
    "C13": "From CppUVerif Require Import lib.CSem lib.CMem gen.Gen_LeafC13.\nLocal Open Scope Z_scope.\n"
           "(* translated by tools/cxx2gal.py from clang's AST of the functions named below: loops are Fixpoints on fuel, "
           "pointers are (block, offset), every load/store/pointer step is bounds-checked (Oob) *)\n",
}


def generate(h, prop):
    repo = os.environ.get("VERIF_REPO", "/repo")
    root = os.path.dirname(os.path.dirname(os.path.abspath(__file__)))
    return cxx2gal.generate_cached(h, repo, root, "Loop" + prop, GROUPS[prop], HEADERS[prop])
