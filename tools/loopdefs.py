"""Looping functions of /repo translated to Gallina by tools/cxx2gal.py (clang AST -> fuelled Fixpoints over the byte memory of
coq/lib/CMem.v), one generated file per property (gen/Gen_LoopCxx.v).  The Cxx_SrcTie.v files prove the hand-written model
functions equal to these definitions, so the specification theorems of the models hold of the translated source."""
import os, sys
sys.path.insert(0, os.path.dirname(os.path.abspath(__file__)))
import cxx2gal

SS = "src/CppUTest/SimpleString.cpp"
GROUPS = {
    "C13": [
        dict(file=SS, name="SimpleString::StrLen", coq="src_StrLen"),
        dict(file=SS, name="SimpleString::StrCmp", coq="src_StrCmp"),
        dict(file=SS, name="SimpleString::StrNCmp", coq="src_StrNCmp"),
        dict(file=SS, name="SimpleString::MemCmp", coq="src_MemCmp"),
        dict(file=SS, name="SimpleString::StrNCpy", coq="src_StrNCpy"),
        dict(file=SS, name="SimpleString::StrStr", coq="src_StrStr",
             calls={"StrNCmp": {"fn": "src_StrNCmp"}, "StrLen": {"fn": "src_StrLen"}}),
        dict(file=SS, name="SimpleString::AtoU", coq="src_AtoU", calls={"isSpace": "leaf_isSpace {0}", "isDigit": "leaf_isDigit {0}"}),
        dict(file=SS, name="SimpleString::AtoI", coq="src_AtoI", calls={"isSpace": "leaf_isSpace {0}", "isDigit": "leaf_isDigit {0}"}),
    ],
}
BUF = [["buffer_", "ptr"]]
SSM = {"getBuffer": {"field": ["buffer_", "ptr"]}, "asCharString": {"field": ["buffer_", "ptr"]},
       "size": {"fn": "src_size", "obj": BUF}, "at": {"fn": "src_at", "obj": BUF}, "findFrom": {"fn": "src_findFrom", "obj": BUF},
       "StrLen": {"fn": "src_StrLen"}, "StrCmp": {"fn": "src_StrCmp"}, "StrNCmp": {"fn": "src_StrNCmp"}, "StrStr": {"fn": "src_StrStr"},
       "StrNCpy": {"fn": "src_StrNCpy", "writes": True},
       "isControl": "leaf_isControl {0}", "isControlWithShortEscapeSequence": "leaf_isControlWithShortEscapeSequence {0}",
       "ToLower": "leaf_ToLower {0}"}
NPOS = {"npos": "18446744073709551615"}
GROUPS["C13"] += [
    dict(file=SS, name="SimpleString::size", coq="src_size", calls=SSM),
    dict(file=SS, name="SimpleString::isEmpty", coq="src_isEmpty", calls=SSM),
    dict(file=SS, name="SimpleString::at", coq="src_at", calls=SSM),
    dict(file=SS, name="SimpleString::contains", coq="src_contains", calls=SSM),
    dict(file=SS, name="SimpleString::startsWith", coq="src_startsWith", calls=SSM),
    dict(file=SS, name="SimpleString::endsWith", coq="src_endsWith", calls=SSM),
    dict(file=SS, name="SimpleString::count", coq="src_count", calls=SSM),
    dict(file=SS, name="SimpleString::findFrom", coq="src_findFrom", calls=SSM, globals=NPOS),
    dict(file=SS, name="SimpleString::find", coq="src_find", calls=SSM, globals=NPOS),
    dict(file=SS, name="SimpleString::replace", signature="void (char, char)", coq="src_replaceChar", calls=SSM),
    dict(file=SS, name="SimpleString::copyToBuffer", coq="src_copyToBuffer", calls=SSM),
    dict(file=SS, name="SimpleString::getPrintableSize", coq="src_getPrintableSize", calls=SSM),
    dict(file=SS, name="operator==", signature="bool (const SimpleString &, const SimpleString &)", coq="src_equal", calls=SSM),
]
MLD = "src/CppUTest/MemoryLeakDetector.cpp"
GROUPS["C06"] = [
    dict(file=MLD, name="MemoryLeakDetector::addMemoryCorruptionInformation", coq="src_addGuard", global_arrays=["GuardBytes"]),
    dict(file=MLD, name="MemoryLeakDetector::validMemoryCorruptionInformation", coq="src_validGuard", global_arrays=["GuardBytes"]),
]
HEADERS = {
    "C06": "From CppUVerif Require Import lib.CSem lib.CMem.\nLocal Open Scope Z_scope.\n"
           "(* translated by tools/cxx2gal.py; the constant array GuardBytes is the pointer parameter global_GuardBytes *)\n",
    "C13": "From CppUVerif Require Import lib.CSem lib.CMem gen.Gen_LeafC13.\nLocal Open Scope Z_scope.\n"
           "(* translated by tools/cxx2gal.py from clang's AST of the functions named below: loops are Fixpoints on fuel, "
           "pointers are (block, offset), every load/store/pointer step is bounds-checked (Oob) *)\n",
}


def generate(h, prop):
    repo = os.environ.get("VERIF_REPO", "/repo")
    root = os.path.dirname(os.path.dirname(os.path.abspath(__file__)))
    return cxx2gal.generate_cached(h, repo, root, "Loop" + prop, GROUPS[prop], HEADERS[prop])
