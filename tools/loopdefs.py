"""Looping functions of /repo translated to Gallina by tools/cxx2gal.py (clang AST -> fuelled Fixpoints over the byte memory of
coq/lib/CMem.v), one generated file per property (gen/Gen_LoopCxx.v).  The Cxx_SrcTie.v files prove the hand-written model
functions equal to these definitions, so the specification theorems of the models hold of the translated source."""
import os, sys
sys.path.insert(0, os.path.dirname(os.path.abspath(__file__)))
import cxx2gal

SS = "src/CppUTest/SimpleString.cpp"
GROUPS = {
    "C13": [
        dict(file=SS, name="SimpleString::StrLen", coq="src_StrLen"),
        dict(file=SS, name="SimpleString::StrCmp", coq="src_StrCmp"),
        dict(file=SS, name="SimpleString::StrNCmp", coq="src_StrNCmp"),
        dict(file=SS, name="SimpleString::MemCmp", coq="src_MemCmp"),
        dict(file=SS, name="SimpleString::StrNCpy", coq="src_StrNCpy"),
        dict(file=SS, name="SimpleString::StrStr", coq="src_StrStr",
             calls={"StrNCmp": {"fn": "src_StrNCmp"}, "StrLen": {"fn": "src_StrLen"}}),
        dict(file=SS, name="SimpleString::AtoU", coq="src_AtoU", calls={"isSpace": "leaf_isSpace {0}", "isDigit": "leaf_isDigit {0}"}),
        dict(file=SS, name="SimpleString::AtoI", coq="src_AtoI", calls={"isSpace": "leaf_isSpace {0}", "isDigit": "leaf_isDigit {0}"}),
    ],
}
BUF = [["buffer_", "ptr"]]
SSM = {"getBuffer": {"field": ["buffer_", "ptr"]}, "asCharString": {"field": ["buffer_", "ptr"]},
       "size": {"fn": "src_size", "obj": BUF}, "at": {"fn": "src_at", "obj": BUF}, "findFrom": {"fn": "src_findFrom", "obj": BUF},
       "StrLen": {"fn": "src_StrLen"}, "StrCmp": {"fn": "src_StrCmp"}, "StrNCmp": {"fn": "src_StrNCmp"}, "StrStr": {"fn": "src_StrStr"},
       "StrNCpy": {"fn": "src_StrNCpy", "writes": True},
       "isControl": "leaf_isControl {0}", "isControlWithShortEscapeSequence": "leaf_isControlWithShortEscapeSequence {0}",
       "ToLower": "leaf_ToLower {0}"}
NPOS = {"npos": "18446744073709551615"}
GROUPS["C13"] += [
    dict(file=SS, name="SimpleString::size", coq="src_size", calls=SSM),
    dict(file=SS, name="SimpleString::isEmpty", coq="src_isEmpty", calls=SSM),
    dict(file=SS, name="SimpleString::at", coq="src_at", calls=SSM),
    dict(file=SS, name="SimpleString::contains", coq="src_contains", calls=SSM),
    dict(file=SS, name="SimpleString::startsWith", coq="src_startsWith", calls=SSM),
    dict(file=SS, name="SimpleString::endsWith", coq="src_endsWith", calls=SSM),
    dict(file=SS, name="SimpleString::count", coq="src_count", calls=SSM),
    dict(file=SS, name="SimpleString::findFrom", coq="src_findFrom", calls=SSM, globals=NPOS),
    dict(file=SS, name="SimpleString::find", coq="src_find", calls=SSM, globals=NPOS),
    dict(file=SS, name="SimpleString::replace", signature="void (char, char)", coq="src_replaceChar", calls=SSM),
    dict(file=SS, name="SimpleString::copyToBuffer", coq="src_copyToBuffer", calls=SSM),
    dict(file=SS, name="SimpleString::getPrintableSize", coq="src_getPrintableSize", calls=SSM),
    dict(file=SS, name="operator==", signature="bool (const SimpleString &, const SimpleString &)", coq="src_equal", calls=SSM),
]
MLD = "src/CppUTest/MemoryLeakDetector.cpp"
GROUPS["C06"] = [
    dict(file=MLD, name="MemoryLeakDetector::addMemoryCorruptionInformation", coq="src_addGuard", global_arrays=["GuardBytes"]),
    dict(file=MLD, name="MemoryLeakDetector::validMemoryCorruptionInformation", coq="src_validGuard", global_arrays=["GuardBytes"]),
]
UT = "src/CppUTest/Utest.cpp"
_C03C = {"countCheck": {"event": "ACount"}, "getTestResult": "0", "failWith": {"fail_ctor": True},
         "StrCmp": {"fn": "src_StrCmp"}, "StrNCmp": {"fn": "src_StrNCmp"}, "MemCmp": {"fn": "src_MemCmp"},
         "equalsNoCase": {"cstr_op": "eq_nocase_at mem {0} {1}"}, "contains": {"cstr_op": "contains_at mem {0} {1}"},
         "containsNoCase": {"cstr_op": "contains_nocase_at mem {0} {1}"}}
GROUPS["C03"] = [dict(file=UT, name="UtestShell::" + n, coq="src_" + n, calls=_C03C, ghosts=[["evs", "list aev"]]) for n in
                 ["assertTrue", "fail", "assertCstrEqual", "assertCstrNEqual", "assertCstrNoCaseEqual", "assertCstrContains",
                  "assertCstrNoCaseContains", "assertLongsEqual", "assertUnsignedLongsEqual", "assertLongLongsEqual",
                  "assertUnsignedLongLongsEqual", "assertSignedBytesEqual", "assertPointersEqual", "assertFunctionPointersEqual",
                  "assertBinaryEqual", "assertBitsEqual", "assertEquals", "assertCompare"]]
TF = "src/CppUTest/TestFailure.cpp"
_C14C = {"at": {"fn": "src_at", "obj": BUF}, "ToLower": "leaf_ToLower {0}"}
GROUPS["C14"] = [
    dict(file=TF, name="CheckEqualFailure::CheckEqualFailure", coq="src_scan_CheckEqual_raw", loop_index=0, calls=_C14C),
    dict(file=TF, name="CheckEqualFailure::CheckEqualFailure", coq="src_scan_CheckEqual_printable", loop_index=1, calls=_C14C),
    dict(file=TF, name="StringEqualFailure::StringEqualFailure", coq="src_scan_StringEqual_raw", loop_index=0, calls=_C14C),
    dict(file=TF, name="StringEqualFailure::StringEqualFailure", coq="src_scan_StringEqual_printable", loop_index=1, calls=_C14C),
    dict(file=TF, name="StringEqualNoCaseFailure::StringEqualNoCaseFailure", coq="src_scan_NoCase_raw", loop_index=0, calls=_C14C),
    dict(file=TF, name="StringEqualNoCaseFailure::StringEqualNoCaseFailure", coq="src_scan_NoCase_printable", loop_index=1, calls=_C14C),
    dict(file=TF, name="BinaryEqualFailure::BinaryEqualFailure", coq="src_scan_Binary", loop_index=0, calls=_C14C),
]
UPL = "src/Platforms/Gcc/UtestPlatform.cpp"
GROUPS["C11"] = [
    dict(file=UPL, name="GccPlatformSpecificRunTestInASeperateProcess", coq="src_runInSeparateProcess",
         ghosts=[["evs", "list cevent"], ["forks", "list Z"], ["counts", "list Z"], ["waits", "list (Z * Z * Z)"], ["errno_", "Z"]],
         calls={"PlatformSpecificFork": {"pop": "forks"}, "getFailureCount": {"pop": "counts"},
                "PlatformSpecificWaitPid": {"wait": {"stream": "waits", "status": "status", "errno": "errno_"}},
                "addFailure": {"add_failure": True}, "kill": {"event_args": "kill"}, "_exit": {"abort_args": "_exit"},
                "runOneTestInCurrentProcess": {"event": '("runOneTestInCurrentProcess"%string, nil)'},
                "SetTestFailureByStatusCode": {"trace_fn": "leaf_SetTestFailureByStatusCode {2}"}}),
]
TC = "src/CppUTest/TeamCityTestOutput.cpp"
GROUPS["C20"] = [
    dict(file=TC, name="TeamCityTestOutput::printEscaped", coq="src_printEscaped", ghosts=[["out", "list N"]],
         calls={"printBuffer": {"ghost": "out", "update": "emit mem {0} out"}}),
]
HEADERS = {
    "C14": "From CppUVerif Require Import lib.CSem lib.CMem gen.Gen_LeafC13 gen.Gen_LoopC13.\nLocal Open Scope Z_scope.\n"
           "(* translated by tools/cxx2gal.py: the first-difference scans of the failure constructors of TestFailure.cpp, each loop on its own "
           "(parameters = the variables the loop reads; x.at(i) is the translated SimpleString::at on x's buffer_) *)\n",
    "C11": "From Coq Require Import String.\nFrom CppUVerif Require Import lib.CSem lib.CMem gen.Gen_LeafC11.\nLocal Open Scope Z_scope.\n"
           "(* translated by tools/cxx2gal.py: the parent/child code of GccPlatformSpecificRunTestInASeperateProcess; fork(), "
           "getFailureCount() and waitpid() take the next value of the ghost streams forks / counts / waits (a waitpid outcome is "
           "(result, status, errno)); addFailure, kill, _exit and the run of the test in the child are ghost events; "
           "SetTestFailureByStatusCode is the translated leaf of gen/Gen_LeafC11.v *)\n",
    "C03": "From Coq Require Import String.\nFrom CppUVerif Require Import lib.CSem lib.CMem lib.CEmit gen.Gen_LeafC13 gen.Gen_LoopC13.\nLocal Open Scope Z_scope.\n"
           "(* translated by tools/cxx2gal.py: the assert entry points of UtestShell; countCheck() is the ghost event ACount, "
           "failWith(XFailure(this, file, line, ...), terminator) the ghost event AFail \"XFailure\" file line after which the function is left "
           "(the terminator exits the test); StrCmp / StrNCmp / MemCmp are the translated functions of gen/Gen_LoopC13.v; the three "
           "operations on temporary SimpleString objects are replaced by their textbook meaning (lib/CEmit.v) *)\n",
    "C20": "From CppUVerif Require Import lib.CSem lib.CMem lib.CEmit.\nLocal Open Scope Z_scope.\n"
           "(* translated by tools/cxx2gal.py; the text handed to printBuffer is appended to the ghost variable out (emit), the local "
           "array str[3] is a fresh block *)\n",
    "C06": "From CppUVerif Require Import lib.CSem lib.CMem.\nLocal Open Scope Z_scope.\n"
           "(* translated by tools/cxx2gal.py; the constant array GuardBytes is the pointer parameter global_GuardBytes *)\n",
    "C13": "From CppUVerif Require Import lib.CSem lib.CMem gen.Gen_LeafC13.\nLocal Open Scope Z_scope.\n"
           "(* translated by tools/cxx2gal.py from clang's AST of the functions named below: loops are Fixpoints on fuel, "
           "pointers are (block, offset), every load/store/pointer step is bounds-checked (Oob) *)\n",
}


def generate(h, prop):
    repo = os.environ.get("VERIF_REPO", "/repo")
    root = os.path.dirname(os.path.dirname(os.path.abspath(__file__)))
    return cxx2gal.generate_cached(h, repo, root, "Loop" + prop, GROUPS[prop], HEADERS[prop])


# ------------------------------------------------------------------ struct-walking functions (tools/cxx2heap.py, coq/lib/CHeap.v)
import cxx2heap
MLH = "include/CppUTest/MemoryLeakDetector.h"
_LIST = {n: {"fn": "src_list_" + n, "method": True} for n in
         ["isInPeriod", "isInAllocationStage", "getLeakFrom", "getLeakForAllocationStageFrom", "getFirstLeak", "getFirstLeakForAllocationStage",
          "getNextLeak", "getNextLeakForAllocationStage", "getTotalLeaks", "retrieveNode"]}
for n in ["clearAllAccounting", "addNewNode", "removeNode"]:
    _LIST[n] = {"fn": "src_list_" + n, "method": True, "writes": True}
_TABLE = dict(_LIST)
_TABLE["hash"] = {"fn": "src_table_hash", "method": True}
HEAP_RECORDS = {"C04": [["MemoryLeakDetectorNode", MLD], ["MemoryLeakDetectorList", MLD], ["MemoryLeakDetectorTable", MLD]]}
HEAP_GROUPS = {
    "C04": [dict(file=MLD, name="MemoryLeakDetectorList::" + n, coq="src_list_" + n, calls=_LIST, enums=["MemLeakPeriod"]) for n in
            ["isInPeriod", "isInAllocationStage", "getLeakFrom", "getLeakForAllocationStageFrom", "getFirstLeak",
             "getFirstLeakForAllocationStage", "getNextLeak", "getNextLeakForAllocationStage", "getTotalLeaks", "retrieveNode",
             "clearAllAccounting", "addNewNode", "removeNode"]] +
           [dict(file=MLD, name="MemoryLeakDetectorTable::" + n, coq="src_table_" + n, calls=_TABLE, enums=["MemLeakPeriod"]) for n in
            ["hash", "clearAllAccounting", "addNewNode", "removeNode", "retrieveNode", "getTotalLeaks", "getFirstLeak",
             "getFirstLeakForAllocationStage", "getNextLeak", "getNextLeakForAllocationStage"]],
}
HEAP_FOOTERS = {}
HEAP_HEADERS = {
    "C04": "From CppUVerif Require Import lib.CSem lib.CMem lib.CHeap.\nLocal Open Scope Z_scope.\n"
           "(* translated by tools/cxx2heap.py from clang's AST: the whole of MemoryLeakDetectorList and MemoryLeakDetectorTable; objects are "
           "blocks of cells (one per scalar member), record pointers are hptr, char* addresses are opaque integers *)\n",
}


def generate_heap(h, prop):
    repo = os.environ.get("VERIF_REPO", "/repo")
    root = os.path.dirname(os.path.dirname(os.path.abspath(__file__)))
    return cxx2heap.generate_cached(h, repo, root, "Heap" + prop, HEAP_GROUPS[prop], HEAP_HEADERS[prop], HEAP_RECORDS[prop],
                                    HEAP_FOOTERS.get(prop, ""))

# ------------------------------------------------------------------ C18: the string buffer cache
SSC = "src/CppUTest/SimpleStringInternalCache.cpp"
_C18M = ["isCached", "getIndexForCache", "getCacheNodeFromSize", "createSimpleStringMemoryBlock", "destroySimpleStringMemoryBlock",
         "destroySimpleStringMemoryBlockList", "addToSimpleStringMemoryBlockList", "hasFreeBlocksOfSize", "reserveCachedBlockFrom",
         "allocateNewCacheBlockFrom", "printDeallocatingUnknownMemory", "releaseCachedBlockFrom", "releaseNonCachedMemory", "alloc",
         "dealloc", "clearCache", "clearAllIncludingCurrentlyUsedMemory"]
_C18C = {n: {"fn": "src_cache_" + n, "method": True} for n in _C18M}
_C18C.update({"alloc_memory": {"alloc": True}, "free_memory": {"free": True}, "print": {"event": "HWarn"}})
HEAP_RECORDS["C18"] = [["SimpleStringMemoryBlock", SSC], ["SimpleStringInternalCacheNode", SSC], ["SimpleStringInternalCache", SSC]]
HEAP_GROUPS["C18"] = [dict(file=SSC, name="SimpleStringInternalCache::" + n, coq="src_cache_" + n, calls=_C18C,
                           ghosts=[["evs", "list hev"], ["nx", "Z"]],
                           sizeof={"SimpleStringMemoryBlock": "sizeof_SimpleStringMemoryBlock",
                                   "SimpleStringInternalCacheNode": "sizeof_SimpleStringInternalCacheNode"}) for n in _C18M]
HEAP_HEADERS["C18"] = ("From CppUVerif Require Import lib.CSem lib.CMem lib.CHeap.\nLocal Open Scope Z_scope.\n"
                       "(* translated by tools/cxx2heap.py: every member function of SimpleStringInternalCache except constructor, destructor, "
                       "setAllocator and createInternalCacheNodes/destroyInternalCacheNode; the calls on the underlying allocator are ghost events (evs) "
                       "numbered by the ghost counter nx; sizeof of the two records are parameters of the file *)\n"
                       "Definition sizeof_SimpleStringMemoryBlock : Z := 16.\nDefinition sizeof_SimpleStringInternalCacheNode : Z := 24.\n")

# ------------------------------------------------------------------ C15: FailableMemoryAllocator and its pending-failure list
TMA = "src/CppUTest/TestMemoryAllocator.cpp"
_C15N = ["init", "failAtAllocNumber", "failNthAllocAt", "shouldFail"]
_C15A = ["failAllocNumber", "failNthAllocAt", "alloc_memory", "clearFailedAllocs"]
_C15C = {"init": {"fn": "src_fnode_init", "method": True}, "failAtAllocNumber": {"fn": "src_fnode_failAtAllocNumber", "method": True},
         "shouldFail": {"fn": "src_fnode_shouldFail", "method": True},
         # file names are compared by StrCmp; here a file name is an opaque integer that identifies the text (see C15_HeapTie.v)
         "StrCmp": "c_ne {0} {1}",
         "allocMemoryLeakNode": {"alloc": True}, "free_memory": {"free": True}}
_C15CN = dict(_C15C); _C15CN["failNthAllocAt"] = {"fn": "src_fnode_failNthAllocAt", "method": True}
_C15CA = dict(_C15CN); _C15CA["alloc_memory"] = {"alloc": True}
HEAP_RECORDS["C15"] = [["LocationToFailAllocNode", TMA], ["FailableMemoryAllocator", TMA, "own"]]
_G15 = [["evs", "list hev"], ["nx", "Z"]]
HEAP_GROUPS["C15"] = ([dict(file=TMA, name="LocationToFailAllocNode::" + n, coq="src_fnode_" + n, calls=_C15CN, ghosts=_G15) for n in _C15N] +
                      [dict(file=TMA, name="FailableMemoryAllocator::" + n, coq="src_fail_" + n, calls=_C15CA, ghosts=_G15,
                            sizeof={"LocationToFailAllocNode": "sizeof_LocationToFailAllocNode"}) for n in _C15A])
HEAP_HEADERS["C15"] = ("From CppUVerif Require Import lib.CSem lib.CMem lib.CHeap.\nLocal Open Scope Z_scope.\n"
                       "(* translated by tools/cxx2heap.py: LocationToFailAllocNode (every member function) and the list-walking member functions of "
                       "FailableMemoryAllocator; a source file name is an opaque integer (StrCmp(a, b) != 0 is a <> b); the allocations it "
                       "lets through and the nodes it obtains / releases are ghost events *)\nDefinition sizeof_LocationToFailAllocNode : Z := 32.\n")

# ------------------------------------------------------------------ C17: the pointer table of SetPointerPlugin
TPL = "src/CppUTest/TestPlugin.cpp"
_G17 = [["evs", "list hev"], ["nx", "Z"]]
_C17C = {"fail": {"abort": "HFail"}, "getCurrent": "0"}
HEAP_RECORDS["C17"] = [["cpputest_pair", TPL]]
HEAP_GROUPS["C17"] = [
    dict(file=TPL, name="CppUTestStore", coq="src_CppUTestStore", calls=_C17C, ghosts=_G17,
         heap_globals={"pointerTableIndex": "g_pointerTableIndex", "setlist": "g_setlist"}),
    dict(file=TPL, name="SetPointerPlugin::postTestAction", coq="src_SetPointer_postTestAction", calls=_C17C, ghosts=_G17,
         heap_globals={"pointerTableIndex": "g_pointerTableIndex", "setlist": "g_setlist"}),
]
HEAP_HEADERS["C17"] = ("From CppUVerif Require Import lib.CSem lib.CMem lib.CHeap.\nLocal Open Scope Z_scope.\n"
                       "(* translated by tools/cxx2heap.py: CppUTestStore and SetPointerPlugin::postTestAction; the file-static pointerTableIndex and "
                       "setlist[MAX_SET] are heap objects reached through the pointer parameters g_pointerTableIndex / g_setlist; a `void**` is the "
                       "address of a cell; FAIL(...) is the ghost event HFail and leaves the function *)\n")

# ------------------------------------------------------------------ C02: the registered-test list and the shuffle / reverse array
UTS = "src/CppUTest/Utest.cpp"
TRG = "src/CppUTest/TestRegistry.cpp"
_G02 = [["rands", "list Z"]]
_C02C = {"getNext": {"fn": "src_shell_getNext", "method": True}, "addTest": {"fn": "src_shell_addTest", "method": True},
         "countTests": {"fn": "src_shell_countTests", "method": True},
         "swap": {"fn": "src_array_swap", "method": True}, "relinkTestsInOrder": {"fn": "src_array_relinkTestsInOrder", "method": True},
         "get": {"fn": "src_array_get", "method": True},
         "PlatformSpecificRand": {"pop": "rands"}, "PlatformSpecificSrand": {"ignore": True}}
_C02R = dict(_C02C); _C02R["addTest"] = {"fn": "src_shell_addTest", "method": True}
HEAP_RECORDS["C02"] = [["UtestShell", UTS], ["UtestShellPointerArray", UTS], ["TestRegistry", TRG, "own"]]
HEAP_GROUPS["C02"] = (
    [dict(file=UTS, name="UtestShell::getNext", coq="src_shell_getNext", calls=_C02C, ghosts=_G02),
     dict(file=UTS, name="UtestShell::addTest", coq="src_shell_addTest", calls=_C02C, ghosts=_G02),
     dict(file=UTS, name="UtestShell::countTests", coq="src_shell_countTests", calls=_C02C, ghosts=_G02, recursive=True)] +
    [dict(file=UTS, name="UtestShellPointerArray::" + n, coq="src_array_" + n, calls=_C02C, ghosts=_G02) for n in
     ["swap", "get", "getFirstTest", "relinkTestsInOrder", "reverse", "shuffle"]] +
    [dict(file=TRG, name="TestRegistry::" + n, coq="src_registry_" + n, calls=_C02C, ghosts=_G02) for n in
     ["addTest", "getFirstTest", "getTestWithNext", "countTests"]])
HEAP_HEADERS["C02"] = ("From CppUVerif Require Import lib.CSem lib.CMem lib.CHeap.\nLocal Open Scope Z_scope.\n"
                       "(* translated by tools/cxx2heap.py: the list of registered tests (UtestShell::next_, TestRegistry::tests_) and the pointer array "
                       "that shuffles and reverses it; PlatformSpecificRand() takes the next value of the ghost stream rands; virtual addTest / "
                       "countTests are the UtestShell definitions (no class of the repository overrides them) *)\n")

# ------------------------------------------------------------------ C07: the leak plugin's per-test actions and the detector functions they call
MLP = "src/CppUTest/MemoryLeakWarningPlugin.cpp"
MLPH = "include/CppUTest/MemoryLeakWarningPlugin.h"
_G07 = [["evs", "list pev"], ["counts", "list Z"], ["overloaded", "Z"]]
_DET = {n: {"fn": "src_det_" + n, "method": True, "writes": True} for n in
        ["startChecking", "stopChecking", "enable", "disable", "markCheckingPeriodLeaksAsNonCheckingPeriod", "clearAllAccounting"]}
_DET["totalMemoryLeaks"] = {"fn": "src_det_totalMemoryLeaks", "method": True}
_C07T = {n: {"fn": "src_table_" + n, "method": True, "noghost": True} for n in ["getTotalLeaks", "getFirstLeak", "getNextLeak"]}
_C07T["clearAllAccounting"] = {"fn": "src_table_clearAllAccounting", "method": True, "writes": True, "noghost": True}
_C07D = dict(_C07T)
_C07D["clear"] = {"event": "PClearBuffer"}                       # outputBuffer_.clear()
_C07P = dict(_DET)
_C07P.update({"getFailureCount": {"pop": "counts"}, "areNewDeleteOverloaded": "overloaded",
              "report": {"event": "PReport {0}", "args": True, "value": "1"},    # the text of the report: an opaque non-null address
              "TestFailure": {"ctor_event": "PFailure", "eval_args": [1]}, "addFailure": {"ignore": True},
              "print": {"event": "PWarn"}, "StringFromFormat": {"ignore": True}, "asCharString": {"ignore": True}})
HEAP_RECORDS["C07"] = HEAP_RECORDS["C04"] + [["MemoryLeakDetector", MLD], ["MemoryLeakWarningPlugin", MLP, "own"]]
HEAP_GROUPS["C07"] = (
    [dict(file=MLD, name="MemoryLeakDetector::" + n, coq="src_det_" + n, calls=_C07D, enums=["MemLeakPeriod"], ghosts=_G07,
          extern=["src_table_getTotalLeaks", "src_table_getFirstLeak", "src_table_getNextLeak", "src_table_clearAllAccounting"]) for n in
     ["startChecking", "stopChecking", "enable", "disable", "totalMemoryLeaks", "markCheckingPeriodLeaksAsNonCheckingPeriod", "clearAllAccounting"]] +
    [dict(file=MLP, name="MemoryLeakWarningPlugin::" + n, coq="src_plugin_" + n, calls=_C07P, enums=["MemLeakPeriod"], ghosts=_G07, string_literals={'""': "0"}) for n in
     ["ignoreAllLeaksInTest", "expectLeaksInTest", "preTestAction", "postTestAction", "FinalReport"]])
HEAP_HEADERS["C07"] = ("From CppUVerif Require Import lib.CSem lib.CMem lib.CHeap gen.Gen_HeapC04.\nLocal Open Scope Z_scope.\n"
                       "(* translated by tools/cxx2heap.py: the per-test actions of MemoryLeakWarningPlugin and the MemoryLeakDetector member functions they "
                       "call; the table functions are the translated ones of gen/Gen_HeapC04.v; result.getFailureCount() takes the next value of the "
                       "ghost stream counts; areNewDeleteOverloaded() is the ghost constant overloaded; report(period) is the ghost event PReport period "
                       "and yields an opaque non-null text address; constructing the TestFailure that is handed to result.addFailure is the ghost event "
                       "PFailure; outputBuffer_ is one opaque cell and its clear() the event PClearBuffer *)\n"
                       "Inductive pev := PClearBuffer | PReport (period : Z) | PFailure | PWarn.\n")

# ------------------------------------------------------------------ C02 (second file): TestRegistry::runAllTests, the loop that visits every registered test
_G02R = [["evs", "list rev"], ["shoulds", "list Z"]]
_C02RC = {"getNext": {"recv_field": ["UtestShell", "next_"]}, "getGroup": {"recv_field": ["UtestShell", "group_"]},
          "operator!=": "c_ne {0} {1}",            # group texts are compared; a group name is an opaque integer that identifies its text
          "setRunInSeperateProcess": {"fn": "src_shell_setRunInSeperateProcess", "method": True},
          "setRunIgnored": {"event": "RSetRunIgnored {r}", "recv": True},                # virtual: only IgnoredUtestShell acts on it
          "shouldRun": {"pop": "shoulds"},                                                 # the filters' answer for this test (C12 / C02 model)
          "testShouldRun": {"fn": "src_registry_testShouldRun", "method": True, "args": [0]}, "endOfGroup": {"fn": "src_registry_endOfGroup", "method": True},
          "testsStarted": {"event": "RTestsStarted"}, "testsEnded": {"event": "RTestsEnded"},
          "currentGroupStarted": {"event": "RGroupStarted {0}", "args": [0]}, "currentGroupEnded": {"event": "RGroupEnded {0}", "args": [0]},
          "currentTestStarted": {"event": "RTestStarted {0}", "args": [0]}, "currentTestEnded": {"event": "RTestEnded {0}", "args": [0]},
          "countTest": {"event": "RCountTest"}, "countFilteredOut": {"event": "RFilteredOut"},
          "runOneTest": {"event": "RRunOne {r} {0}", "recv": True, "args": [0]}}
HEAP_RECORDS["C02R"] = HEAP_RECORDS["C02"]
HEAP_GROUPS["C02R"] = (
    [dict(file=UTS, name="UtestShell::setRunInSeperateProcess", coq="src_shell_setRunInSeperateProcess", calls=_C02RC, ghosts=_G02R)] +
    [dict(file=TRG, name="TestRegistry::" + n, coq="src_registry_" + n, calls=_C02RC, ghosts=_G02R) for n in
     ["testShouldRun", "endOfGroup", "runAllTests"]])
HEAP_HEADERS["C02R"] = ("From CppUVerif Require Import lib.CSem lib.CMem lib.CHeap.\nLocal Open Scope Z_scope.\n"
                        "(* translated by tools/cxx2heap.py: TestRegistry::runAllTests with testShouldRun and endOfGroup; every call on the TestResult and the "
                        "virtual calls on the test are ghost events (rev) carrying the test they are about (runOneTest also the plugin chain handed "
                        "over); test->shouldRun(filters) takes the next value of the ghost stream shoulds; getNext() / getGroup() read the fields; two group "
                        "names are compared as opaque integers that identify their text *)\n"
                        "Inductive rev := RTestsStarted | RTestsEnded | RCountTest | RFilteredOut | RGroupStarted (t : hptr) | RGroupEnded (t : hptr) | "
                        "RTestStarted (t : hptr) | RTestEnded (t : hptr) | RRunOne (t : hptr) (plugins : Z) | RSetRunIgnored (t : hptr).\n")

# ------------------------------------------------------------------ C01: the counters of TestResult, the summary line, the runner's repeat loop and exit value
TRS = "src/CppUTest/TestResult.cpp"
TOU = "src/CppUTest/TestOutput.cpp"
CLR = "src/CppUTest/CommandLineTestRunner.cpp"
_G01 = [["evs", "list qev"], ["fcounts", "list Z"], ["isfails", "list Z"]]
_RGET = ["getTestCount", "getRunCount", "getCheckCount", "getFilteredOutCount", "getIgnoredCount", "getFailureCount", "isFailure",
         "getTotalExecutionTime"]
_RCNT = ["countTest", "countRun", "countCheck", "countFilteredOut", "countIgnored", "addFailure"]
_C01R = {n: {"fn": "src_result_" + n, "method": True} for n in _RGET + _RCNT}
_C01R["addFailure"] = {"fn": "src_result_addFailure", "method": True, "args": []}
_C01R.update({"printFailure": {"event": "QPrintFailure"}, "print": {"print_event": True}})
_C01RUN = {"initializeTestRun": {"event": "QInit"}, "getRepeatCount": "repeat", "isListingTestGroupNames": "listing1",
           "isListingTestGroupAndCaseNames": "listing2", "isListingTestLocations": "listing3", "isReversing": "reversing",
           "isShuffling": "shuffling", "getShuffleSeed": "seed",
           "listTestGroupNames": {"event": "QList 1"}, "listTestGroupAndCaseNames": {"event": "QList 2"}, "listTestLocations": {"event": "QList 3"},
           "reverseTests": {"event": "QReverse"}, "shuffleTests": {"event": "QShuffle {0}", "args": [0]},
           "printTestRun": {"event": "QPrintTestRun {0} {1}", "args": [0, 1]}, "print": {"print_event": True},
           "TestResult": {"ctor_event": "QNewResult", "eval_args": []}, "runAllTests": {"event": "QRunAll"},
           "getFailureCount": {"pop": "fcounts"}, "isFailure": {"pop": "isfails"}}
_G01RUN = _G01 + [[g, "Z"] for g in ["repeat", "listing1", "listing2", "listing3", "reversing", "shuffling", "seed"]]
HEAP_RECORDS["C01"] = [["TestResult", TRS], ["TestOutput", TOU]]
HEAP_GROUPS["C01"] = (
    [dict(file=TRS, name="TestResult::" + n, coq="src_result_" + n, calls=_C01R, ghosts=_G01) for n in _RGET + _RCNT] +
    [dict(file=TOU, name="TestOutput::printTestsEnded", **{"class": "TestOutput"}, coq="src_output_printTestsEnded", calls=_C01R, ghosts=_G01)])
HEAP_RECORDS["C01X"] = []
HEAP_GROUPS["C01X"] = [dict(file=CLR, name="CommandLineTestRunner::runAllTests", coq="src_runner_runAllTests", calls=_C01RUN, ghosts=_G01RUN)]
_QEV = ("Inductive qev := PText (s : string) | PNum (n : Z) | QPrintFailure | QInit | QList (k : Z) | QReverse | QShuffle (seed : Z) | "
        "QPrintTestRun (i n : Z) | QNewResult | QRunAll.\n")
HEAP_HEADERS["C01"] = ("From CppUVerif Require Import lib.CSem lib.CMem lib.CHeap.\nLocal Open Scope Z_scope.\n"
                       "(* translated by tools/cxx2heap.py: the counters of TestResult (count..., addFailure, get..., isFailure) and the summary printed by "
                       "TestOutput::printTestsEnded; the reference member output_ is one opaque cell, print(\"text\") / print(number) are the ghost events "
                       "PText / PNum, printFailure the event QPrintFailure *)\n" + _QEV)
HEAP_HEADERS["C01X"] = ("From CppUVerif Require Import lib.CSem lib.CMem lib.CHeap gen.Gen_HeapC01.\nLocal Open Scope Z_scope.\n"
                        "(* translated by tools/cxx2heap.py: CommandLineTestRunner::runAllTests (list modes, reverse, the repeat loop, the value returned); "
                        "the parsed arguments are the ghost constants repeat / listing1..3 / reversing / shuffling / seed; the calls on the registry and the "
                        "output are ghost events; the TestResult of a repetition is not modelled here: its getFailureCount() / isFailure() after the "
                        "run take the next values of the ghost streams fcounts / isfails *)\n")

# ------------------------------------------------------------------ C20 (second file): the service-message writers of TeamCityTestOutput
TFL = "src/CppUTest/TestFailure.cpp"
_G20 = [["evs", "list tev"], ["willruns", "list Z"]]
_PE20 = {"print_event": ["TText", "TNum"]}
_C20C = {"print": _PE20, "printEscaped": {"event": "TEsc {0}", "args": True}, "asCharString": {"recv_value": True},
         "getName": {"recv_field": ["UtestShell", "name_"]}, "getGroup": {"recv_field": ["UtestShell", "group_"]},
         "willRun": {"pop": "willruns"},
         "getCurrentTestTotalExecutionTime": {"recv_field": ["TestResult", "currentTestTotalExecutionTime_"]},
         "getTestNameOnly": {"recv_field": ["TestFailure", "testNameOnly_"]}, "getTestFileName": {"recv_field": ["TestFailure", "testFileName_"]},
         "getFileName": {"recv_field": ["TestFailure", "fileName_"]}, "getMessage": {"recv_field": ["TestFailure", "message_"]},
         "getTestLineNumber": {"recv_field": ["TestFailure", "testLineNumber_"]}, "getFailureLineNumber": {"recv_field": ["TestFailure", "lineNumber_"]},
         "isOutsideTestFile": {"fn": "src_failure_isOutsideTestFile", "method": True},
         "isInHelperFunction": {"fn": "src_failure_isInHelperFunction", "method": True},
         "operator!=": "c_ne {0} {1}", "operator=": {"assign_opaque": True}}
HEAP_RECORDS["C20"] = [["UtestShell", UTS], ["TestResult", TRS], ["TestFailure", TFL], ["TeamCityTestOutput", TC, "own"]]
HEAP_GROUPS["C20"] = (
    [dict(file=TFL, name="TestFailure::" + n, coq="src_failure_" + n, calls=_C20C, ghosts=_G20, opaque_classes=["SimpleString"]) for n in ["isOutsideTestFile", "isInHelperFunction"]] +
    [dict(file=TC, name="TeamCityTestOutput::" + n, coq="src_teamcity_" + n, calls=_C20C, ghosts=_G20, opaque_classes=["SimpleString"]) for n in
     ["printCurrentTestStarted", "printCurrentTestEnded", "printCurrentGroupStarted", "printCurrentGroupEnded", "printFailure"]])
HEAP_HEADERS["C20"] = ("From CppUVerif Require Import lib.CSem lib.CMem lib.CHeap.\nLocal Open Scope Z_scope.\n"
                       "(* translated by tools/cxx2heap.py: the five service-message writers of TeamCityTestOutput; a text (test name, group, file name, "
                       "message: SimpleString members and the char* names of a test) is one opaque cell holding an integer that identifies it; "
                       "print(\"literal\") / print(number) / printEscaped(text) are the ghost events TText / TNum / TEsc; the virtual test.willRun() takes "
                       "the next value of the ghost stream willruns; the getters of UtestShell, TestResult and TestFailure read the fields they return *)\n"
                       "Inductive tev := TText (s : string) | TNum (n : Z) | TEsc (text : Z).\n")

# ------------------------------------------------------------------ C12: the prefix dispatch of CommandLineArguments::parse
CLA = "src/CppUTest/CommandLineArguments.cpp"
_G12 = [["evs", "list aev12"], ["hres", "list (Z * Z)"]]
_H12 = ["setRepeatCount", "addGroupFilter", "addGroupDotNameFilter", "addStrictGroupFilter", "addExcludeGroupFilter", "addExcludeStrictGroupFilter",
        "addNameFilter", "addStrictNameFilter", "addExcludeNameFilter", "addExcludeStrictNameFilter", "setShuffle",
        "addTestToRunBasedOnVerboseOutput", "setOutputType", "parseAllArguments", "setPackageName"]
_C12C = {n: {"handler": n} for n in _H12}
_C12C.update({"operator==": {"text_pred": "arg_is"}, "startsWith": {"text_pred": "arg_starts"}})
HEAP_RECORDS["C12"] = [["CommandLineArguments", CLA]]
HEAP_GROUPS["C12"] = [dict(file=CLA, name="CommandLineArguments::parse", coq="src_args_parse", calls=_C12C, ghosts=_G12,
                           opaque_classes=["SimpleString"])]
HEAP_HEADERS["C12"] = ("From CppUVerif Require Import lib.CSem lib.CMem lib.CHeap.\nLocal Open Scope Z_scope.\n"
                       "(* translated by tools/cxx2heap.py: CommandLineArguments::parse, the loop over argv and its chain of prefix tests. An argument is an "
                       "opaque integer that identifies its text; `argument == \"lit\"` and `argument.startsWith(\"lit\")` are the Section variables arg_is / "
                       "arg_starts applied to it (the theorems assume they decide equality with / prefix of the literal); every value-taking option is "
                       "handed to its handler: the ghost event AHandler name index literal flags, whose result and new index (the handlers get the index "
                       "by reference and advance it when the value is the next argument) are the next pair of the oracle stream hres; the flag options "
                       "store into the members of the object *)\n"
                       "Inductive aev12 := AHandler (name : string) (index : Z) (opt : string) (flags : list Z).\n"
                       "Section Parse.\nVariable arg_is : Z -> string -> Z.\nVariable arg_starts : Z -> string -> Z.\n")
HEAP_FOOTERS["C12"] = "\nEnd Parse.\n"

# ------------------------------------------------------------------ C16: the collection of results and the writers of JUnitTestOutput
JUO = "src/CppUTest/JUnitTestOutput.cpp"
_G16 = [["evs", "list jev"], ["nx", "Z"], ["times", "list Z"], ["willruns", "list Z"], ["timestr", "Z"]]
_C16M = ["resetTestGroupResult", "writeXmlHeader", "writeTestSuiteSummary", "writeProperties", "writeFailure", "writeTestCases", "writeFileEnding",
         "writeTestGroupToFile"]
_C16C = {n: {"fn": "src_junit_" + n, "method": True} for n in _C16M}
_C16C["writeFailure"] = {"fn": "src_junit_writeFailure", "method": True}
_C16C.update({
    "getGroup": {"recv_field": ["UtestShell", "group_"]}, "getName": {"recv_field": ["UtestShell", "name_"]},
    "getFile": {"recv_field": ["UtestShell", "file_"]}, "getLineNumber": {"recv_field": ["UtestShell", "lineNumber_"]},
    "willRun": {"pop": "willruns"}, "GetPlatformSpecificTimeInMillis": {"pop": "times"}, "GetPlatformSpecificTimeString": "timestr",
    "getCurrentTestTotalExecutionTime": {"recv_field": ["TestResult", "currentTestTotalExecutionTime_"]},
    "getCurrentGroupTotalExecutionTime": {"recv_field": ["TestResult", "currentGroupTotalExecutionTime_"]},
    "getCheckCount": {"recv_field": ["TestResult", "checkCount_"]},
    "getFileName": {"recv_field": ["TestFailure", "fileName_"]}, "getMessage": {"recv_field": ["TestFailure", "message_"]},
    "getFailureLineNumber": {"recv_field": ["TestFailure", "lineNumber_"]},
    "operator=": {"assign_opaque": True}, "isEmpty": {"text_pred1": "text_empty"},
    "StringFromFormat": {"format_event": "JFormat"}, "writeToFile": {"write_event": "JWrite"}, "asCharString": {"recv_value": True},
    "openFileForWrite": {"event": "JOpen {0}", "args": True}, "createFileName": "{0}", "closeFile": {"event": "JClose"}})
HEAP_RECORDS["C16"] = [["UtestShell", UTS], ["TestResult", TRS], ["TestFailure", TFL], ["JUnitTestCaseResultNode", JUO],
                       ["JUnitTestGroupResult", JUO], ["JUnitTestOutputImpl", JUO], ["JUnitTestOutput", JUO, "own"]]
HEAP_GROUPS["C16"] = [dict(file=JUO, name="JUnitTestOutput::" + n, coq="src_junit_" + n, calls=_C16C, ghosts=_G16, opaque_classes=["SimpleString"],
                           string_literals={'""': "0"}, new_event="JNew {p}", delete_event="JDelete {p}") for n in
                      _C16M + ["printCurrentTestStarted", "printCurrentTestEnded", "printCurrentGroupEnded", "printFailure"]]
HEAP_HEADERS["C16"] = ("From CppUVerif Require Import lib.CSem lib.CMem lib.CHeap.\nLocal Open Scope Z_scope.\n"
                       "(* translated by tools/cxx2heap.py: JUnitTestOutput's collection of results (test started / ended / failure, reset between groups) and "
                       "its writers. A text is one opaque cell holding an integer that identifies it (0 = the empty text); new / delete of a result node "
                       "or of the kept failure are the ghost events JNew / JDelete (a new node has all cells zero, as its constructor says; the kept "
                       "failure is a copy of the cells of the one reported); StringFromFormat(\"fmt\", args) yields a fresh text identity (ghost counter nx) "
                       "defined by the event JFormat id fmt args; writeToFile(x) is the event JWrite x; an argument is JLit \"literal\" | JEnc t "
                       "(encodeXmlText(t)) | JNum n | JTxt t; openFileForWrite(createFileName(g)) is JOpen g; the clock and willRun() are ghost "
                       "streams; isEmpty() on a text is the Section variable text_empty *)\n"
                       "Inductive jarg := JLit (s : string) | JEnc (text : Z) | JNum (n : Z) | JTxt (text : Z).\n"
                       "Inductive jev := JNew (p : hptr) | JDelete (p : hptr) | JFormat (id : Z) (fmt : string) (args : list jarg) | JWrite (a : jarg) | "
                       "JOpen (group : Z) | JClose.\n"
                       "Section JUnit.\nVariable text_empty : Z -> Z.\n")
HEAP_FOOTERS["C16"] = "\nEnd JUnit.\n"

# ------------------------------------------------------------------ C04 (second file): MemoryLeakDetector's allocation / release / reallocation paths
_G04D = [["evs", "list dev"], ["allocs", "list Z"], ["nodefails", "list Z"], ["inlines", "list hptr"], ["reallocs", "list Z"], ["guards", "list Z"]]
_D = "src_det_"
_C04D = {n: {"fn": "src_table_" + n, "method": True, "noghost": True} for n in ["retrieveNode", "getFirstLeakForAllocationStage", "getNextLeakForAllocationStage"]}
for n in ["addNewNode", "removeNode"]:
    _C04D[n] = {"fn": "src_table_" + n, "method": True, "writes": True, "noghost": True}
_DM = ["storeLeakInformation", "reallocateMemoryAndLeakInformation", "invalidateMemory", "matchingAllocation", "checkForCorruption",
       "allocateMemoryWithAccountingInformation", "reallocateMemoryWithAccountingInformation", "createMemoryLeakAccountingInformation",
       "allocMemory", "deallocMemory", "reallocMemory", "deallocAllMemoryInCurrentAllocationStage"]
for n in _DM:
    _C04D[n] = {"fn": _D + n, "method": True}
_C04D["deallocMemory"]["defaults"] = {4: "0"}          # bool allocatNodesSeperately = false (MemoryLeakDetector.h)
_C04D.update({
    "init": {"fn": "src_node_init", "method": True},
    "calculateVoidPointerAlignedSize": {"fn": _D + "calculateVoidPointerAlignedSize", "method": True, "static": True},
    "sizeLeavesRoomForAccountingInformation": {"fn": _D + "sizeLeavesRoomForAccountingInformation", "method": True, "static": True},
    "sizeOfMemoryWithCorruptionInfo": {"fn": _D + "sizeOfMemoryWithCorruptionInfo", "method": True, "static": True},
    "getNodeFromMemoryPointer": {"event": "DInline {0} {1} {v}", "args": [0, 1], "oracle": "inlines"},
    "alloc_memory": {"event": "DAllocCall {r} {0} {v}", "recv": True, "args": [0], "oracle": "allocs"},
    "free_memory": {"event": "DFreeCall {r} {0} {1}", "recv": True, "args": [0, 1], "strip_casts": True},
    "allocMemoryLeakNode": {"alloc": True, "rec_event": "DNodeAlloc {r} {p}", "fail_event": "DNodeRefused {r}", "may_fail": "nodefails"},
    "freeMemoryLeakNode": {"event": "DNodeFree {r} {0}", "recv": True, "args": [0], "strip_casts": True},
    "PlatformSpecificRealloc": {"event": "DRealloc {0} {1} {v}", "args": [0, 1], "oracle": "reallocs"},
    "PlatformSpecificMemset": {"event": "DPoison {0} {1}", "args": [0, 2]},
    "addMemoryCorruptionInformation": {"event": "DGuardWrite {0}", "args": [0]},
    "validMemoryCorruptionInformation": {"event": "DGuardCheck {0} {v}", "args": [0], "oracle": "guards"},
    "hasBeenDestroyed": {"fun": "destroyed", "recv": True}, "actualAllocator": {"fun": "actual", "recv": True},
    "isOfEqualType": {"fun": "equal_type", "recv": True, "args": [0]},
    "reportAllocationDeallocationMismatchFailure": {"event": "DReport 2 {0}", "args": [0]},
    "reportMemoryCorruptionFailure": {"event": "DReport 3 {0}", "args": [0]},
    "reportDeallocateNonAllocatedMemoryFailure": {"event": "DReport 1 HNull"}})
HEAP_RECORDS["C04D"] = HEAP_RECORDS["C04"] + [["MemoryLeakDetector", MLD]]
_D04 = dict(calls=_C04D, enums=["MemLeakPeriod"], ghosts=_G04D, sizeof={"MemoryLeakDetectorNode": "sizeof_MemoryLeakDetectorNode"},
            globals={"memory_corruption_buffer_size": "3"}, string_literal_default="0", unnamed_params=True)
HEAP_GROUPS["C04D"] = (
    [dict(file=MLD, name="MemoryLeakDetectorNode::init", coq="src_node_init", **_D04)] +
    [dict(file=MLD, name=n, coq=_D + n, **_D04) for n in ["calculateVoidPointerAlignedSize", "sizeLeavesRoomForAccountingInformation"]] +
    [dict(file=MLD, name="MemoryLeakDetector::sizeOfMemoryWithCorruptionInfo", coq=_D + "sizeOfMemoryWithCorruptionInfo", **_D04)] +
    [dict(file=MLD, name="MemoryLeakDetector::" + n, coq=_D + n, **_D04) for n in
     ["storeLeakInformation", "allocateMemoryWithAccountingInformation", "reallocateMemoryWithAccountingInformation",
      "createMemoryLeakAccountingInformation", "reallocateMemoryAndLeakInformation", "invalidateMemory", "matchingAllocation", "checkForCorruption"]] +
    [dict(file=MLD, name="MemoryLeakDetector::allocMemory", signature="const char *, size_t, bool", coq=_D + "allocMemory", **_D04),
     dict(file=MLD, name="MemoryLeakDetector::deallocMemory", signature="const char *, size_t, bool", coq=_D + "deallocMemory", **_D04),
     dict(file=MLD, name="MemoryLeakDetector::reallocMemory", coq=_D + "reallocMemory", **_D04),
     dict(file=MLD, name="MemoryLeakDetector::deallocAllMemoryInCurrentAllocationStage", coq=_D + "deallocAllMemoryInCurrentAllocationStage", **_D04)])
HEAP_HEADERS["C04D"] = ("From CppUVerif Require Import lib.CSem lib.CMem lib.CHeap gen.Gen_HeapC04.\nLocal Open Scope Z_scope.\n"
                        "(* translated by tools/cxx2heap.py: MemoryLeakDetector's allocMemory / deallocMemory / reallocMemory and the functions they are made of. "
                        "A block of user memory is an opaque byte address (arithmetic on it is 64-bit address arithmetic); the table functions are the "
                        "translated ones of gen/Gen_HeapC04.v. The outside world answers through oracle streams, every answer recorded in a ghost event: "
                        "allocator->alloc_memory (allocs: the address or 0), allocMemoryLeakNode (nodefails: non-zero = refused; else a fresh record "
                        "block), getNodeFromMemoryPointer = the record that lives inside the block at that address (inlines), PlatformSpecificRealloc "
                        "(reallocs), validMemoryCorruptionInformation (guards; its byte loop is translated and proved in gen/Gen_LoopC06.v). free_memory, "
                        "freeMemoryLeakNode, the guard write, the 0xCD poisoning and the three misuse reports (1 non-allocated, 2 mismatch, 3 corruption) "
                        "are events. actualAllocator(), isOfEqualType() and hasBeenDestroyed() of an allocator are the Section variables actual / "
                        "equal_type / destroyed *)\n"
                        "Inductive dev := DAllocCall (allocator size result : Z) | DFreeCall (allocator addr size : Z) | DNodeAlloc (allocator : Z) (p : hptr) | "
                        "DNodeRefused (allocator : Z) | DNodeFree (allocator : Z) (p : hptr) | DInline (addr size : Z) (p : hptr) | "
                        "DRealloc (addr size result : Z) | DGuardWrite (addr : Z) | DGuardCheck (addr ok : Z) | DPoison (addr size : Z) | DReport (kind : Z) (node : hptr).\n"
                        "Definition sizeof_MemoryLeakDetectorNode : Z := @sizeof:src/CppUTest/MemoryLeakDetector.cpp:MemoryLeakDetectorNode@.\n"
                        "Section Detector.\nVariable actual : Z -> Z.\nVariable equal_type : Z -> Z -> Z.\nVariable destroyed : Z -> Z.\n")
HEAP_FOOTERS["C04D"] = "\nEnd Detector.\n"

# ------------------------------------------------------------------ C17 (second file): the plugin chain (install / remove / lookup / the pre and post recursions)
_G17P = [["evs", "list pcev"], ["g_null", "hptr"]]
_PL = "src_plugin_"
_C17P = {n: {"fn": _PL + n, "method": True} for n in ["addPlugin", "getNext", "getName", "removePluginByName", "getPluginByName"]}
_C17P.update({
    "getPluginByName": {"fn": _PL + "getPluginByName", "method": True},
    "instance": "g_null",                                           # NullTestPlugin::instance(): the one terminator object
    "getName": {"recv_field": ["TestPlugin", "name_"]}, "getNext": {"recv_field": ["TestPlugin", "next_"]},
    "operator==": "c_eq {0} {1}",                                   # names are compared; a name is an integer that identifies its text
    "preTestAction": {"event": "PPre {r}", "recv": True}, "postTestAction": {"event": "PPost {r}", "recv": True},
    # the two virtual recursions: NullTestPlugin overrides them with an empty body, no other class of the repository does
    "runAllPreTestAction": {"fn": _PL + "runAllPreTestAction", "method": True, "args": [], "virtual_null": "g_null"},
    "runAllPostTestAction": {"fn": _PL + "runAllPostTestAction", "method": True, "args": [], "virtual_null": "g_null"}})
HEAP_RECORDS["C17P"] = [["TestPlugin", TPL, "own"], ["TestRegistry", TRG, "own"]]
_P17 = dict(calls=_C17P, ghosts=_G17P, opaque_classes=["SimpleString"], derived_as_base=True)
HEAP_GROUPS["C17P"] = (
    [dict(file=TPL, name="TestPlugin::addPlugin", coq=_PL + "addPlugin", **{"class": "TestPlugin"}, **_P17),
     dict(file=TPL, name="TestPlugin::runAllPreTestAction", coq=_PL + "runAllPreTestAction", recursive=True, **{"class": "TestPlugin"}, **_P17),
     dict(file=TPL, name="TestPlugin::runAllPostTestAction", coq=_PL + "runAllPostTestAction", recursive=True, **{"class": "TestPlugin"}, **_P17),
     dict(file=TPL, name="TestPlugin::getPluginByName", coq=_PL + "getPluginByName", recursive=True, **{"class": "TestPlugin"}, **_P17),
     dict(file=TPL, name="TestPlugin::removePluginByName", coq=_PL + "removePluginByName", **{"class": "TestPlugin"}, **_P17),
     dict(file=TPL, name="TestPlugin::disable", coq=_PL + "disable", **{"class": "TestPlugin"}, **_P17),
     dict(file=TPL, name="TestPlugin::enable", coq=_PL + "enable", **{"class": "TestPlugin"}, **_P17)] +
    [dict(file=TRG, name="TestRegistry::" + n, coq="src_registry_" + n, **_P17) for n in
     ["resetPlugins", "installPlugin", "getFirstPlugin", "getPluginByName", "removePluginByName", "countPlugins"]])
HEAP_HEADERS["C17P"] = ("From CppUVerif Require Import lib.CSem lib.CMem lib.CHeap.\nLocal Open Scope Z_scope.\n"
                        "(* translated by tools/cxx2heap.py: the plugin chain of TestPlugin / TestRegistry. NullTestPlugin::instance() is the ghost constant "
                        "g_null (the one terminator object); the virtual runAllPreTestAction / runAllPostTestAction resolve to NullTestPlugin's empty "
                        "override when the receiver is g_null and to TestPlugin's definition otherwise (no other class of the repository overrides them); "
                        "a plugin's own preTestAction / postTestAction are the ghost events PPre / PPost carrying the plugin; a name is an integer that "
                        "identifies its text *)\n"
                        "Inductive pcev := PPre (p : hptr) | PPost (p : hptr).\n")

# ------------------------------------------------------------------ C15 / C05: the C allocation wrappers of TestHarness_c.cpp (countdown, malloc, calloc, strdup, strndup)
THC = "src/CppUTest/TestHarness_c.cpp"
_G15H = [["malloc_out_of_memory_counter", "Z"], ["malloc_count", "Z"], ["evs", "list hcev"], ["blocks", "list (option (list N))"]]
_H = "src_c_"
_C15H = {n: {"fn": _H + n, "ghosts": True} for n in ["countdown", "cpputest_malloc_location", "test_harness_c_strlen", "strdup_alloc"]}
_C15H.update({"cpputest_malloc_set_out_of_memory": {"event": "COutOfMemoryOn"},
              "cpputest_malloc_location_with_leak_detection": {"fresh_block": "blocks", "size_arg": 0, "fb_event": "CMalloc {0} {1}"},
              "PlatformSpecificMemCpy": {"fn": "mem_copy", "writes": True}, "PlatformSpecificMemset": {"fn": "mem_set", "writes": True}})
GROUPS["C15"] = [dict(file=THC, name=n, coq=_H + n, calls=_C15H, ghosts=_G15H, enum_values={"NO_COUNTDOWN": -1, "OUT_OF_MEMORRY": 0}) for n in
                 ["countdown", "cpputest_malloc_set_out_of_memory_countdown", "cpputest_malloc_location", "test_harness_c_strlen", "strdup_alloc",
                  "cpputest_strdup_location", "cpputest_strndup_location", "cpputest_calloc_location"]]
HEADERS["C15"] = ("From CppUVerif Require Import lib.CSem lib.CMem lib.CMemOps.\nLocal Open Scope Z_scope.\n"
                  "(* translated by tools/cxx2gal.py: the C allocation wrappers of TestHarness_c.cpp. The file-static malloc_out_of_memory_counter and "
                  "malloc_count are ghost variables of the same names; cpputest_malloc_set_out_of_memory() is the ghost event COutOfMemoryOn; the "
                  "allocation behind the wrappers (cpputest_malloc_location_with_leak_detection) is answered by the oracle stream blocks: None = "
                  "NULL, Some bytes = a new block with those (arbitrary) initial bytes, whose number must be the size asked for; the request is "
                  "recorded as CMalloc size answered; PlatformSpecificMemCpy / PlatformSpecificMemset are mem_copy / mem_set of lib/CMemOps.v *)\n"
                  "Inductive hcev := COutOfMemoryOn | CMalloc (size answered : Z).\n")

# ------------------------------------------------------------------ C08: the expectation list (MockExpectedCallsList): counting, searching, adding, pruning
MEL = "src/CppUTestExt/MockExpectedCallsList.cpp"
_G08L = [["evs", "list lev"], ["answers", "list Z"]]
_L = "src_mlist_"
_C08Q0 = ["isOutOfOrder", "isFulfilled", "isMatchingActualCallAndFinalized", "isMatchingActualCall", "canMatchActualCalls",
          "areParametersMatchingActualCall", "getActualCallsFulfilled"]
_C08Q1 = ["relatesTo", "hasInputParameterWithName", "hasOutputParameterWithName", "hasInputParameter", "hasOutputParameter", "relatesToObject"]
_C08L = {"addExpectedCall": {"fn": _L + "addExpectedCall", "method": True}, "pruneEmptyNodeFromList": {"fn": _L + "pruneEmptyNodeFromList", "method": True}}
_C08L.update({q: {"event": 'LAsk "%s" {r} {v}' % q, "recv": True, "oracle": "answers"} for q in _C08Q0})
_C08L.update({q: {"event": 'LAskArg "%s" {r} {0} {v}' % q, "recv": True, "args": [0], "oracle": "answers"} for q in _C08Q1})
_C08L.update({"resetActualCallMatchingState": {"event": 'LTell "resetActualCallMatchingState" {r}', "recv": True},
              "wasPassedToObject": {"event": 'LTell "wasPassedToObject" {r}', "recv": True},
              "inputParameterWasPassed": {"event": 'LTellArg "inputParameterWasPassed" {r} {0}', "recv": True, "args": [0]},
              "outputParameterWasPassed": {"event": 'LTellArg "outputParameterWasPassed" {r} {0}', "recv": True, "args": [0]}})
_C08M = ["pruneEmptyNodeFromList", "addExpectedCall", "hasCallsOutOfOrder", "size", "isEmpty", "amountOfActualCallsFulfilledFor",
         "amountOfUnfulfilledExpectations", "hasFinalizedMatchingExpectations", "hasUnfulfilledExpectations", "hasExpectationWithName",
         "addPotentiallyMatchingExpectations", "addExpectationsRelatedTo", "addExpectations", "onlyKeepExpectationsRelatedTo",
         "onlyKeepOutOfOrderExpectations", "onlyKeepUnmatchingExpectations", "onlyKeepExpectationsWithInputParameterName",
         "onlyKeepExpectationsWithOutputParameterName", "onlyKeepExpectationsWithInputParameter", "onlyKeepExpectationsWithOutputParameter",
         "onlyKeepExpectationsOnObject", "removeFirstFinalizedMatchingExpectation", "getFirstMatchingExpectation",
         "removeFirstMatchingExpectation", "deleteAllExpectationsAndClearList", "resetActualCallMatchingState", "wasPassedToObject",
         "parameterWasPassed", "outputParameterWasPassed", "hasUnmatchingExpectationsBecauseOfMissingParameters"]
MAC = "src/CppUTestExt/MockActualCall.cpp"
_A = "src_acall_"
_C08AM = ["setState", "setName", "isFulfilled", "hasFailed", "failTest", "callHasSucceeded", "completeCallWhenMatchIsFound",
          "discardCurrentlyMatchingExpectations", "withName", "checkInputParameter", "checkOutputParameter", "onObject", "checkExpectations"]
_C08A = dict(_C08L)
_C08A.update({"MockExpectedCallsList::" + n: {"fn": _L + n, "method": True} for n in _C08M})
_C08A.update({"MockCheckedActualCall::" + n: {"fn": _A + n, "method": True} for n in _C08AM})
_C08A.update({
    "MockCheckedActualCall::failTest": {"fn": _A + "failTest", "method": True, "args": []},       # the failure object is the ghost event before it
    "MockFailureReporter::failTest": {"event": "LReport"},
    "MockCheckedActualCall::getName": {"recv_field": ["MockCheckedActualCall", "functionName_"]},
    "MockNamedValue::getName": {"fun": "value_name", "recv": True},
    "MockCheckedActualCall::getTest": "0",
    "MockCheckedActualCall::copyOutputParameters": {"event": "LCopyOutputs {0}", "args": [0]},
    "callWasMade": {"event": 'LTellArg "callWasMade" {r} {0}', "recv": True, "args": [0]},
    "finalizeActualCallMatch": {"event": 'LTell "finalizeActualCallMatch" {r}', "recv": True},
    "operator=": {"assign_opaque": True}, "fail": {"abort": "LAbort"}, "getCurrent": "0",
    "MockUnexpectedCallHappenedFailure": {"ctor_event": 'LFailure "MockUnexpectedCallHappenedFailure"', "eval_args": []},
    "MockUnexpectedInputParameterFailure": {"ctor_event": 'LFailure "MockUnexpectedInputParameterFailure"', "eval_args": []},
    "MockUnexpectedOutputParameterFailure": {"ctor_event": 'LFailure "MockUnexpectedOutputParameterFailure"', "eval_args": []},
    "MockUnexpectedObjectFailure": {"ctor_event": 'LFailure "MockUnexpectedObjectFailure"', "eval_args": []},
    "MockExpectedParameterDidntHappenFailure": {"ctor_event": 'LFailure "MockExpectedParameterDidntHappenFailure"', "eval_args": []},
    "MockExpectedObjectDidntHappenFailure": {"ctor_event": 'LFailure "MockExpectedObjectDidntHappenFailure"', "eval_args": []}})
HEAP_RECORDS["C08L"] = [["MockExpectedCallsListNode", MEL], ["MockExpectedCallsList", MEL, "own"], ["MockCheckedActualCall", MAC, "own"]]
HEAP_GROUPS["C08L"] = (
    [dict(file=MEL, name="MockExpectedCallsList::" + n, coq=_L + n, calls=_C08L, ghosts=_G08L,
          opaque_classes=["SimpleString", "MockNamedValue"], new_event="LNew {p}", delete_event="LDelete {p}",
          delete_opaque_event="LDeleteCall {p}", **{"class": "MockExpectedCallsList"}) for n in _C08M] +
    [dict(file=MAC, name="MockCheckedActualCall::" + n, coq=_A + n, calls=_C08A, ghosts=_G08L, enums=["ActualCallState"],
          opaque_classes=["SimpleString", "MockNamedValue"], returns_self=True, **{"class": "MockCheckedActualCall"}) for n in _C08AM])
HEAP_HEADERS["C08L"] = ("From Coq Require Import String.\nFrom CppUVerif Require Import lib.CSem lib.CMem lib.CHeap.\nLocal Open Scope Z_scope.\n"
                        "(* translated by tools/cxx2heap.py: the expectation list of the mocking engine, MockExpectedCallsList (every member except the "
                        "constructor, the destructor and the three ...ToString reports), and the matching steps of an actual call, MockCheckedActualCall "
                        "(withName, checkInputParameter, checkOutputParameter, onObject, checkExpectations and the functions they are made of). "
                        "A node is a heap block (expectedCall_, next_); an expectation "
                        "(a pointer to MockCheckedExpectedCall) is an opaque integer that identifies it (0 = NULL), a name / a named value / an object pointer "
                        "likewise. Every question the list asks an expectation is answered by the oracle stream `answers` and recorded, with the "
                        "expectation asked, the argument and the answer, in the ghost events LAsk / LAskArg; what the list or the actual call tells an "
                        "expectation is the event LTell / LTellArg; new / delete of a node are LNew / LDelete (the node constructor's initialisers are read "
                        "from the source: expectedCall_ := the argument, next_ := NULL); delete of an expectation is LDeleteCall. The list's own virtual members "
                        "addExpectedCall and pruneEmptyNodeFromList are called directly (no class of the repository overrides them). In the actual call: "
                        "constructing a failure object is the event LFailure <class>, handing it to the reporter LReport, the FAIL of the impossible branch "
                        "LAbort; copyOutputParameters(e) is the event LCopyOutputs e (not translated); the name of a named value is the Section variable "
                        "value_name; a member function returning *this returns nothing here *)\n"
                        "Inductive lev := LAsk (q : string) (e : Z) (ans : Z) | LAskArg (q : string) (e : Z) (arg : Z) (ans : Z) | LTell (what : string) (e : Z) | "
                        "LTellArg (what : string) (e : Z) (arg : Z) | LNew (p : hptr) | LDelete (p : hptr) | LDeleteCall (e : Z) | "
                        "LFailure (cls : string) | LReport | LAbort | LCopyOutputs (e : Z).\n"
                        "Section ActualCall.\nVariable value_name : Z -> Z.\n")
HEAP_FOOTERS["C08L"] = "\nEnd ActualCall.\n"

# ------------------------------------------------------------------ C08: the expectation object (MockCheckedExpectedCall): the questions the list asks and the tells it receives
MEC = "src/CppUTestExt/MockExpectedCall.cpp"
MNV = "src/CppUTestExt/MockNamedValue.cpp"
_E = "src_exp_"
_C08EM = ["getName", "item", "hasInputParameterWithName", "hasOutputParameterWithName", "areParametersMatchingActualCall", "isFulfilled",
          "canMatchActualCalls", "isMatchingActualCall", "isMatchingActualCallAndFinalized", "finalizeActualCallMatch", "wasPassedToObject",
          "resetActualCallMatchingState", "callWasMade", "inputParameterWasPassed", "outputParameterWasPassed", "hasInputParameter",
          "hasOutputParameter", "relatesTo", "relatesToObject", "isOutOfOrder", "getActualCallsFulfilled"]
_C08E = {"MockCheckedExpectedCall::" + n: {"fn": _E + n, "method": True} for n in _C08EM}
_C08E.update({
    "MockExpectedFunctionParameter::setMatchesActualCall": {"fn": "src_eparam_setMatchesActualCall", "method": True, "writes": True},
    "MockCheckedExpectedCall::resetActualCallMatchingState": {"fn": _E + "resetActualCallMatchingState", "method": True, "writes": True},
    "MockExpectedFunctionParameter::isMatchingActualCall": {"fn": "src_eparam_isMatchingActualCall", "method": True},
    "MockNamedValueListNode::next": {"fn": "src_pnode_next", "method": True}, "MockNamedValueListNode::item": {"fn": "src_pnode_item", "method": True},
    "MockNamedValueListNode::getName": {"fn": "src_pnode_getName", "method": True},
    "MockNamedValueList::begin": {"fn": "src_plist_begin", "method": True},
    "MockNamedValueList::getValueByName": {"fn": "src_plist_getValueByName", "method": True},
    "MockNamedValue::getName": {"fun": "param_name", "recv": True},
    "MockNamedValue::equals": {"fun": "param_equals", "recv": True, "args": [0]},
    "MockNamedValue::compatibleForCopying": {"fun": "param_compatible", "recv": True, "args": [0]},
    "operator==": "c_eq {0} {1}"})
HEAP_RECORDS["C08E"] = [["MockExpectedFunctionParameter", MEC, "own"], ["MockNamedValueListNode", MNV], ["MockNamedValueList", MNV, "own"],
                        ["MockCheckedExpectedCall", MEC, "own"]]
_PE = dict(calls=_C08E, ghosts=[], opaque_classes=["SimpleString"], record_aliases={"MockNamedValue": "MockExpectedFunctionParameter"},
           enum_values={"NO_EXPECTED_CALL_ORDER": 0})
HEAP_GROUPS["C08E"] = (
    [dict(file=MEC, name="MockCheckedExpectedCall::MockExpectedFunctionParameter::" + n, coq="src_eparam_" + n,
          **{"class": "MockExpectedFunctionParameter"}, **_PE) for n in ["setMatchesActualCall", "isMatchingActualCall"]] +
    [dict(file=MNV, name="MockNamedValueListNode::" + n, coq="src_pnode_" + n, **{"class": "MockNamedValueListNode"}, **_PE)
     for n in ["next", "item", "getName"]] +
    [dict(file=MNV, name="MockNamedValueList::" + n, coq="src_plist_" + n, **{"class": "MockNamedValueList"}, **_PE)
     for n in ["begin", "getValueByName"]] +
    [dict(file=MEC, name="MockCheckedExpectedCall::" + n, coq=_E + n, **{"class": "MockCheckedExpectedCall"}, **_PE) for n in _C08EM])
HEAP_HEADERS["C08E"] = ("From Coq Require Import String.\nFrom CppUVerif Require Import lib.CSem lib.CMem lib.CHeap.\nLocal Open Scope Z_scope.\n"
                        "(* translated by tools/cxx2heap.py: the expectation object of the mocking engine, MockCheckedExpectedCall -- every question the "
                        "expectation list asks it (relatesTo, relatesToObject, isFulfilled, canMatchActualCalls, isMatchingActualCall(AndFinalized), "
                        "areParametersMatchingActualCall, has{Input,Output}Parameter(WithName), isOutOfOrder, getActualCallsFulfilled) and everything it "
                        "is told (callWasMade, finalizeActualCallMatch, wasPassedToObject, resetActualCallMatchingState, {input,output}ParameterWasPassed) "
                        "-- with the parameter lists it walks (MockNamedValueList / MockNamedValueListNode). Every object in an expectation's parameter "
                        "lists is created as a MockExpectedFunctionParameter (the with...Parameter members of the same file): a MockNamedValue object is "
                        "here a 1-cell block holding that class's only own member, matchesActualCall_; its name, the comparison with an actual "
                        "parameter and the compatibility for copying are the Section variables param_name / param_equals / param_compatible (pure "
                        "functions of the objects: names and values are not changed by the translated functions); a function name is an integer that "
                        "identifies its text *)\n"
                        "Section Expectation.\nVariable param_name : hptr -> Z.\nVariable param_equals : hptr -> hptr -> Z.\n"
                        "Variable param_compatible : hptr -> hptr -> Z.\n")
HEAP_FOOTERS["C08E"] = "\nEnd Expectation.\n"

# ------------------------------------------------------------------ the runner's frame: initializeTestRun, runAllTestsMain, the static RunAllTests (C02 / C12 / C17)
_G12R = [["evs", "list rnev"]] + [[g, "Z"] for g in ["gfilters", "nfilters", "verbose", "veryVerbose", "color", "separate", "runIgnored",
                                                      "crashOnFail", "rethrow"]] + [["parses", "list Z"], ["runs", "list Z"], ["mains", "list Z"]]
_C12R = {"getGroupFilters": "gfilters", "getNameFilters": "nfilters", "isVerbose": "verbose", "isVeryVerbose": "veryVerbose", "isColor": "color",
         "runTestsInSeperateProcess": "separate", "isRunIgnored": "runIgnored", "isCrashingOnFail": "crashOnFail",
         "isRethrowingExceptions": "rethrow",
         "setGroupFilters": {"event": "RSetGroupFilters {0}", "args": [0]}, "setNameFilters": {"event": "RSetNameFilters {0}", "args": [0]},
         "verbose": {"event": "RVerbose {0}", "args": [0]}, "color": {"event": "RColor"},
         "setRunTestsInSeperateProcess": {"event": "RSetSeparate"}, "setRunIgnored": {"event": "RSetRunIgnored"},
         "setCrashOnFail": {"event": "RSetCrashOnFail"}, "setRethrowExceptions": {"event": "RSetRethrow {0}", "args": [0]},
         "SetPointerPlugin": {"ctor_event": 'RCtor "SetPointerPlugin"', "eval_args": []},
         "MemoryLeakWarningPlugin": {"ctor_event": 'RCtor "MemoryLeakWarningPlugin"', "eval_args": []},
         "ConsoleTestOutput": {"ctor_event": 'RCtor "ConsoleTestOutput"', "eval_args": []},
         "CommandLineTestRunner": {"ctor_event": 'RCtor "CommandLineTestRunner"', "eval_args": []},
         "installPlugin": {"event": "RInstall"}, "removePluginByName": {"event": "RRemove {0}", "args": [0]},
         "getCurrentRegistry": "0", "getFirstPlugin": "0",
         "parseArguments": {"event": "RParse {v}", "oracle": "parses"}, "runAllTests": {"event": "RRunAll {v}", "oracle": "runs"},
         "runAllTestsMain": {"event": "RMain {v}", "oracle": "mains"},
         "destroyGlobalDetectorAndTurnOffMemoryLeakDetectionInDestructor": {"event": "RDestroyDetectorInDtor {0}", "args": [0]},
         "FinalReport": {"event": "RFinalReport {0}", "args": [0]}, "operator<<": {"event": "RPrint", "args": [1]}}
HEAP_RECORDS["C12R"] = []
_P12R = dict(calls=_C12R, ghosts=_G12R, opaque_classes=["SimpleString"], string_literals={'"MemoryLeakPlugin"': "1", '"SetPointerPlugin"': "2"},
             enum_values={"level_quiet": 0, "level_verbose": 1, "level_veryVerbose": 2})
HEAP_GROUPS["C12R"] = [
    dict(file=CLR, name="CommandLineTestRunner::initializeTestRun", coq="src_runner_initializeTestRun", **_P12R),
    dict(file=CLR, name="CommandLineTestRunner::runAllTestsMain", coq="src_runner_runAllTestsMain", **_P12R),
    dict(file=CLR, name="CommandLineTestRunner::RunAllTests", coq="src_runner_RunAllTests", signature="const char *const *", **_P12R)]
HEAP_HEADERS["C12R"] = ("From Coq Require Import String.\nFrom CppUVerif Require Import lib.CSem lib.CMem lib.CHeap.\nLocal Open Scope Z_scope.\n"
                        "(* translated by tools/cxx2heap.py: the frame the command-line runner puts around a run -- initializeTestRun (what a parsed "
                        "command line does to the registry, the output and the process-wide switches), runAllTestsMain (pointer plugin installed, "
                        "arguments parsed, run, plugin removed by name) and the static RunAllTests(ac, av) (leak plugin installed, a runner made and "
                        "run, final report iff the result is 0, plugin removed by name). The getters of the parsed arguments are ghost constants; "
                        "every call on the registry / output / UtestShell statics / a plugin is a ghost event carrying the argument values; "
                        "constructing a local object of an unmodelled class is RCtor <class> (destructors are not represented); parseArguments, "
                        "runAllTests and runAllTestsMain answer through oracle streams recorded in RParse / RRunAll / RMain; the plugin names are the "
                        "integers 1 (\\\"MemoryLeakPlugin\\\") and 2 (\\\"SetPointerPlugin\\\"); the verbosity levels are 1 and 2 *)\n"
                        "Inductive rnev := RSetGroupFilters (f : Z) | RSetNameFilters (f : Z) | RVerbose (level : Z) | RColor | RSetSeparate | RSetRunIgnored | "
                        "RSetCrashOnFail | RSetRethrow (b : Z) | RCtor (cls : string) | RInstall | RRemove (name : Z) | RParse (ok : Z) | RRunAll (res : Z) | "
                        "RMain (res : Z) | RDestroyDetectorInDtor (b : Z) | RFinalReport (expected : Z) | RPrint.\n")
