"""Per property: what is tied to the source by translation + theorem (appended to LEVEL_TEXT / TECHNIQUE in MANIFEST.json by
tools/mkmanifest.py; the theorems themselves are listed in coq/Properties_Cxx.v and docs/THEOREMS.md)."""
SRC_TIE = {
    "C02": " SOURCE TIE BY PROOF: UtestShell::getNext / addTest / countTests, UtestShellPointerArray::swap / get / relinkTestsInOrder / reverse / shuffle "
           "and TestRegistry::addTest / getFirstTest / getTestWithNext / countTests are regenerated from the source on every run (tools/cxx2heap.py; "
           "PlatformSpecificRand() as a ghost stream) and proved to implement the model's relink / reverse / shuffle / add_test on the heap "
           "representation (shells pairwise distinct); TestFilter::match is tied as a translated leaf. TestRegistry::runAllTests with testShouldRun / endOfGroup "
           "is translated too (gen/Gen_HeapC02R.v; the calls on the TestResult and the virtual calls on the test as ghost events, shouldRun as a ghost stream) "
           "and proved to perform the model's run_loop walk: one RCountTest per registered test in list order, runOneTest exactly once for every selected "
           "test and never otherwise with the plugin chain of the registry, group start/end alternating, the separate-process flag stored in every shell iff "
           "requested, currentRepetition_ + 1; read back through abs_run the events equal run_all_tests, so rep_ok (the C02 property of one repetition) "
           "holds of the translated source (src_runAllTests_meets_C02).",
    "C03": " SOURCE TIE BY PROOF: the assert entry points of UtestShell (18 functions; assertDoublesEqual through its predicate doubles_equal) are "
           "regenerated from Utest.cpp on every run (tools/cxx2gal.py; countCheck and failWith as ghost events) and proved to count exactly once and to "
           "record exactly one failure of the named class at the file and line passed in iff the model's predicate is false. The macro layer "
           "(integer promotions, operand evaluation) stays model + correspondence.",
    "C07": " SOURCE TIE BY PROOF: MemoryLeakWarningPlugin::preTestAction / postTestAction / FinalReport / expectLeaksInTest / ignoreAllLeaksInTest and "
           "MemoryLeakDetector::startChecking / stopChecking / enable / disable / totalMemoryLeaks / markCheckingPeriodLeaksAsNonCheckingPeriod are regenerated "
           "from the source on every run (tools/cxx2heap.py; result.getFailureCount() as a ghost stream, report() / the TestFailure handed to addFailure "
           "as ghost events, the table functions being the translated ones of C04 at the table's offset inside the detector object) and proved to compute "
           "the model's pre_action / post_action / final_report on the heap representation: the failure event is emitted iff the model's verdict fires, "
           "every checking-period record is re-stamped (d_mark), flags reset, nothing else stored. Utest::run's phase control flow stays model + correspondence.",
    "C12": " SOURCE TIE BY PROOF: CommandLineArguments::parse (the loop over argv and its chain of `argument == \"..\"` / `argument.startsWith(\"..\")` tests) is "
           "regenerated from the source on every run (tools/cxx2heap.py; an argument is an opaque text, the value-taking options' handlers are oracle calls "
           "that may advance the index) and proved to dispatch exactly as first_match over the dispatch table -- which a different, regex-based plugin "
           "extracts from the same source: two independent extractions proved equal on every text --, to store the flag member of an exact rule, to call "
           "the handler of a prefix rule once with the literal and flags of that rule, and as a whole to follow the model's parse_args (flags, handler "
           "sequence, acceptance). The handlers themselves (values, filters) stay model + correspondence.",
    "C01": " SOURCE TIE BY PROOF: TestResult's counters / addFailure / getters / isFailure, TestOutput::printTestsEnded (the summary line) and "
           "CommandLineTestRunner::runAllTests (list modes, reverse once, the repeat loop, the value returned) are regenerated from the source on every "
           "run (tools/cxx2heap.py; print(\"..\") / print(n) as ghost events carrying the text, the calls on registry and output as events, the TestResult of a "
           "repetition as oracle streams) and proved: each count function is cadd of the model's unit, isFailure = is_failure, the printed summary parses "
           "back to mk_summary (OK iff no failure and something ran or was ignored; the six figures in order), the runner emits exactly one reverse before "
           "the first run, one fresh TestResult and one runAllTests per repetition, and returns exit_value of the accumulated counts -- zero iff every "
           "repetition was clean, below 2^32 failures (the wrap of the (int) cast is exhibited). Utest::run's setjmp / exception control flow stays model + correspondence.",
    "C16": " SOURCE TIE BY PROOF: JUnitTestOutput's collection of results (printCurrentTestStarted / printCurrentTestEnded / printFailure / "
           "printCurrentGroupEnded / resetTestGroupResult) and all its writers (writeXmlHeader, writeTestSuiteSummary, writeProperties, writeTestCases, "
           "writeFailure, writeFileEnding, writeTestGroupToFile) are regenerated from the source on every run (tools/cxx2heap.py; new / delete of result "
           "nodes as events with the constructor's zero initialisers checked, StringFromFormat / writeToFile as format / write events with typed "
           "arguments, the clock and willRun() as ghost streams) and proved to follow the model's junit_step on the heap (only the first failure of a "
           "test kept and counted) and to write, rendered through a printf for the %s / %d / %03d subset with encodeXmlText on every text argument, exactly "
           "the bytes of the model's write_group (times as the code prints them; the model's 0.000 is the instance at 0). createFileName / "
           "encodeXmlText / print() themselves stay model + correspondence.",
    "C11": " SOURCE TIE BY PROOF: GccPlatformSpecificRunTestInASeperateProcess (fork failure, the child's verdict, the parent's wait loop with its retry "
           "bound and SIGCONT) and SetTestFailureByStatusCode are regenerated from UtestPlatform.cpp on every run (tools/cxx2gal.py; fork / "
           "waitpid / getFailureCount as ghost oracle streams) and proved to do what the model's parent_loop / set_failure_by_status say on every "
           "outcome stream. Kernel behaviour stays observed on real children.",
    "C14": " SOURCE TIE BY PROOF: SimpleStringBuffer::add / clear / setWriteLimit / resetWriteLimit / reachedItsCapacity (translated leaves) and the seven "
           "first-difference scans of the failure constructors (each loop translated on its own, tools/cxx2gal.py) are regenerated from the "
           "source on every run and proved against the model (buffer state machine; textbook first difference, nothing read past the terminators).",
    "C04": " SOURCE TIE BY PROOF: every member function of MemoryLeakDetectorList and MemoryLeakDetectorTable (23 functions, the prev/cur unlink walks "
           "included) is regenerated from MemoryLeakDetector.cpp on every run by tools/cxx2heap.py (clang AST -> Gallina over an object heap) and proved to "
           "implement the model's bucket / table functions on the heap representation (41 of the theorems). MemoryLeakDetector's own allocMemory / "
           "deallocMemory / reallocMemory / invalidateMemory / deallocAllMemoryInCurrentAllocationStage with storeLeakInformation, checkForCorruption, "
           "matchingAllocation, the size arithmetic and MemoryLeakDetectorNode::init are translated too (gen/Gen_HeapC04D.v: user memory as an opaque address, "
           "the allocators / the platform realloc / the guard check as oracle streams whose answers are recorded in events, sizeof measured by the compiler) "
           "and proved to implement d_store / d_dealloc / d_realloc_failed on the heap (table embedded in the detector object), to report a release "
           "exactly as the C06 model's check does (mismatch first, then corruption, at most one report), to give back whatever was obtained and leave the "
           "table as it was on every path that returns NULL, and to stamp a reallocated block with a new number and the current period (27 more theorems). "
           "The byte-level guard loops are tied in C06; the wrappers in MemoryLeakWarningPlugin.cpp and TestHarness_c.cpp stay model + correspondence.",
    "C06": " SOURCE TIE BY PROOF: the two guard-byte loops (addMemoryCorruptionInformation, validMemoryCorruptionInformation) are regenerated from the source "
           "on every run (tools/cxx2gal.py) and proved equal to the model's pattern / valid_guard. The function-pointer wiring of "
           "MemoryLeakWarningPlugin.cpp is read from clang's AST on every run (tools/gen/PlugC06.py: static initialisers of the 22 pointer variables, the "
           "assignments of turnOff / turnOnDefault / turnOnThreadSafe / saveAndDisable / restore in order, what each of the 33 handler functions calls "
           "and with which current-allocator getter, the pointer each of the 21 global operator new / delete / cpputest_* entry points calls) and the "
           "hand-written tables of the plugin-layer model are proved equal to it, save / restore executed on the extracted statement lists being "
           "the model's switch step (13 more theorems): a wiring slip breaks a lemma by name. The detector's release classification is tied in C04's "
           "translated checkForCorruption / matchingAllocation.",
    "C13": " SOURCE TIE BY PROOF: StrLen, StrCmp, StrNCmp, MemCmp, StrNCpy, StrStr, AtoU, AtoI and the methods size, isEmpty, at, contains, startsWith, endsWith, "
           "count, findFrom, find, replace(char,char), copyToBuffer, getPrintableSize, operator== are regenerated from SimpleString.cpp on every run by "
           "tools/cxx2gal.py (clang AST -> fuelled Gallina over a bounds-checked byte memory); the primitives are proved EQUAL to the model functions (Oob cases "
           "included), all of them proved to return the textbook value on C strings without leaving their buffers and within a fuel linear in the length "
           "(40 of the theorems). Operations that allocate (constructors, +, subString, split, replace(str,str), lowerCase, printable, formatters) stay model + correspondence.",
    "C15": " SOURCE TIE BY PROOF: LocationToFailAllocNode and the list-walking member functions of FailableMemoryAllocator are regenerated from the source on every "
           "run (tools/cxx2heap.py) and proved to implement the model's should_fail / walk / mstep on the heap representation (counter wrap at 2^31 excluded by hypothesis).",
    "C17": " SOURCE TIE BY PROOF: CppUTestStore and SetPointerPlugin::postTestAction are regenerated from the source on every run (tools/cxx2heap.py) and proved "
           "to implement the model's table extension / restore, and to write nothing when the table is full.",
    "C18": " SOURCE TIE BY PROOF: the 17 member functions of SimpleStringInternalCache that walk and relink the cache are regenerated from the source on every run "
           "(tools/cxx2heap.py) and proved to implement the model's alloc / dealloc / clear_cache / clear_all on the heap representation, with exactly the model's "
           "calls on the underlying allocator and the model's one-time warning.",
    "C20": " SOURCE TIE BY PROOF: TeamCityTestOutput::printEscaped is regenerated from the source on every run (tools/cxx2gal.py) and proved to emit exactly the "
           "model's tc_escape of its argument; the five message writers (printCurrentGroupStarted/Ended, printCurrentTestStarted/Ended, printFailure) and "
           "TestFailure::isOutsideTestFile / isInHelperFunction are regenerated too (tools/cxx2heap.py; print / printEscaped as ghost events carrying the "
           "literal text or the text's identity, willRun() as a ghost stream) and proved to write, rendered to bytes, exactly the items of the model's "
           "tc_step for every state and event, with the object's currtest_/currGroup_/groupOpen_ following the model's state (step_sim, "
           "teamcity_run_render_tc: a whole run renders render_tc). Texts are opaque identities there (equal file names must have equal identities: "
           "hypothesis, counterexample kept); print() to the base class and the registry's event order stay model + correspondence.",
}
TECH = "; selected source functions translated from clang's AST to Gallina on every run and proved equal to / to implement the model (see level text)"
