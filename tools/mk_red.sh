#!/bin/bash
# tools/mk_red.sh <property> [round] [focus]: scratch worktree /tmp/red<round>-<P> (built, tests run) and the red-team prompt
# /tmp/redprompts<round>/<P>.txt holding ONLY the property's text (nothing from /verif); <focus> (optional) names the parts of the
# property's own text this round should aim at.
P=$1; R=${2:-}; F=${3:-}; W=/tmp/red$R-$P
git -C /repo worktree add -q "$W" HEAD || exit 1
( cd "$W" && cmake -G Ninja -S . -B _build -DCMAKE_BUILD_TYPE=RelWithDebInfo -DCMAKE_CXX_FLAGS=-Wno-error >/dev/null 2>&1 && cmake --build _build -- -k 0 2>&1 | tail -1 && ctest --test-dir _build -j4 --timeout 900 2>&1 | grep "tests passed" )
mkdir -p /tmp/redprompts$R /tmp/redout$R
python3 - "$P" "$R" "$F" <<'PY'
import json, sys
pid, rnd, focus = sys.argv[1], sys.argv[2], sys.argv[3]
props = {json.loads(l)['id']: json.loads(l) for l in open('/verif/properties.jsonl')}
p = props[pid]
T = open('/verif/tools/red_prompt.txt').read()
text = T.format(wt='/tmp/red%s-%s' % (rnd, pid), id=pid, title=p['title'], statement=p['statement'],
     q=p['quantifier']['text'], files=', '.join(p['anchors']['files']), out='/tmp/redout' + rnd)
if focus:
    text += "\nIn this round aim your three changes at these parts of the property (other parts were exercised in an earlier round): " + focus + "\n"
open('/tmp/redprompts%s/%s.txt' % (rnd, pid), 'w').write(text)
PY
echo "prompt: /tmp/redprompts$R/$P.txt"
