#!/bin/bash
# tools/try_seed.sh <property> <scratch-worktree> <seed-dir> [tier]
# Applies <seed-dir>/patch.diff inside the scratch worktree (never /repo), shows that the demo fails with it, runs the check
# against the worktree (VERIF_REPO), then reverts the worktree.
P=$1; W=$2; S=$3; T=${4:-quick}
cd "$W" || exit 9
git apply "$S/patch.diff" || { echo "PATCH DOES NOT APPLY"; exit 9; }
echo "--- check against patched tree"
( cd /verif && VERIF_REPO="$W" timeout 3000 bin/check "$P" --tier "$T" 2>&1 | grep -E "^(VIOLATION|KNOWN|ERROR)" | head -8; echo "exit=${PIPESTATUS[0]}" )
git apply -R "$S/patch.diff"
git status --short | grep -v '^??' | head -3
