"""Leaf functions of /repo translated to Gallina by tools/cxx2coq.py (clang AST -> Z expressions with C integer semantics),
one generated file per property (gen/Gen_LeafCxx.v) so that a check reacts only to the leaves its own model mirrors.
The Cxx_LeafTie.v files prove the hand-written models equal to these definitions."""
import os, sys
sys.path.insert(0, os.path.dirname(os.path.abspath(__file__)))
import cxx2coq

SS = "src/CppUTest/SimpleString.cpp"
MLD = "src/CppUTest/MemoryLeakDetector.cpp"
C07_TRACE = ["startChecking", "stopChecking", "totalMemoryLeaks", "report", "addFailure", "print", "markCheckingPeriodLeaksAsNonCheckingPeriod"]
GROUPS = {
    'C13': [       {'coq': 'leaf_isDigit', 'file': 'src/CppUTest/SimpleString.cpp', 'name': 'SimpleString::isDigit'},
        {'coq': 'leaf_isSpace', 'file': 'src/CppUTest/SimpleString.cpp', 'name': 'SimpleString::isSpace'},
        {'coq': 'leaf_isUpper', 'file': 'src/CppUTest/SimpleString.cpp', 'name': 'SimpleString::isUpper'},
        {'coq': 'leaf_isControl', 'file': 'src/CppUTest/SimpleString.cpp', 'name': 'SimpleString::isControl', 'signature': 'bool (char)'},
        {       'coq': 'leaf_isControlWithShortEscapeSequence',
                'file': 'src/CppUTest/SimpleString.cpp',
                'name': 'SimpleString::isControlWithShortEscapeSequence'},
        {'calls': {'isUpper': 'leaf_isUpper {0}'}, 'coq': 'leaf_ToLower', 'file': 'src/CppUTest/SimpleString.cpp', 'name': 'SimpleString::ToLower'}],
    'C04': [       {'coq': 'leaf_hash', 'file': 'src/CppUTest/MemoryLeakDetector.cpp', 'name': 'MemoryLeakDetectorTable::hash'},
        {       'coq': 'leaf_isInPeriod',
                'enums': ['MemLeakPeriod'],
                'file': 'src/CppUTest/MemoryLeakDetector.cpp',
                'name': 'MemoryLeakDetectorList::isInPeriod'},
        {'coq': 'leaf_isInAllocationStage', 'file': 'src/CppUTest/MemoryLeakDetector.cpp', 'name': 'MemoryLeakDetectorList::isInAllocationStage'}],
    'C05': [       {'coq': 'leaf_sizeLeavesRoom', 'file': 'src/CppUTest/MemoryLeakDetector.cpp', 'name': 'sizeLeavesRoomForAccountingInformation'},
        {'coq': 'leaf_alignedSize', 'file': 'src/CppUTest/MemoryLeakDetector.cpp', 'name': 'calculateVoidPointerAlignedSize'},
        {       'calls': {'calculateVoidPointerAlignedSize': 'leaf_alignedSize {0}'},
                'coq': 'leaf_sizeWithCorruptionInfo',
                'file': 'src/CppUTest/MemoryLeakDetector.cpp',
                'name': 'MemoryLeakDetector::sizeOfMemoryWithCorruptionInfo'}],
    'C14': [       {       'calls': {'PlatformSpecificVSNprintf': 'vsnprintf_result'},
                'coq': 'leaf_buf_add',
                'extra_params': ['vsnprintf_result'],
                'file': 'src/CppUTest/MemoryLeakDetector.cpp',
                'ignore_calls': ['__builtin_va_start', '__builtin_va_end'],
                'mode': 'state',
                'name': 'SimpleStringBuffer::add',
                'trace': ['PlatformSpecificVSNprintf']},
        {'coq': 'leaf_buf_clear', 'file': 'src/CppUTest/MemoryLeakDetector.cpp', 'mode': 'state', 'name': 'SimpleStringBuffer::clear'},
        {       'coq': 'leaf_buf_setWriteLimit',
                'file': 'src/CppUTest/MemoryLeakDetector.cpp',
                'mode': 'state',
                'name': 'SimpleStringBuffer::setWriteLimit'},
        {       'coq': 'leaf_buf_resetWriteLimit',
                'file': 'src/CppUTest/MemoryLeakDetector.cpp',
                'mode': 'state',
                'name': 'SimpleStringBuffer::resetWriteLimit'},
        {'coq': 'leaf_buf_reachedItsCapacity', 'file': 'src/CppUTest/MemoryLeakDetector.cpp', 'name': 'SimpleStringBuffer::reachedItsCapacity'}],
    'C11': [{'coq': 'leaf_SetTestFailureByStatusCode', 'file': 'src/Platforms/Gcc/UtestPlatform.cpp', 'name': 'SetTestFailureByStatusCode'}],
    'C02': [       {       'calls': {'contains': 'b2z (contains {0} {1})', 'operator==': 'b2z (bytes_eqb {0} {1})'},
                'coq': 'leaf_filter_match',
                'file': 'src/CppUTest/TestFilter.cpp',
                'name': 'TestFilter::match',
                'param_types': {'name': 'list N', 'this_filter_': 'list N'}}],
    "C07": [dict(file="src/CppUTest/MemoryLeakWarningPlugin.cpp", name="MemoryLeakWarningPlugin::preTestAction", coq="leaf_preTestAction", mode="state",
                 trace=C07_TRACE, calls={"getFailureCount": "result_failureCount"}, extra_params=["result_failureCount"]),
            dict(file="src/CppUTest/MemoryLeakWarningPlugin.cpp", name="MemoryLeakWarningPlugin::postTestAction", coq="leaf_postTestAction", mode="state",
                 trace=C07_TRACE, enums=["MemLeakPeriod"],
                 calls={"getFailureCount": "result_failureCount", "totalMemoryLeaks": "leaks_checking", "areNewDeleteOverloaded": "overloaded"},
                 extra_params=["result_failureCount", "leaks_checking", "overloaded"]),
            dict(file="src/CppUTest/MemoryLeakWarningPlugin.cpp", name="MemoryLeakWarningPlugin::FinalReport", coq="leaf_FinalReport", mode="state",
                 trace=C07_TRACE, enums=["MemLeakPeriod"], calls={"totalMemoryLeaks": "leaks_enabled"}, extra_params=["leaks_enabled"], ret_flag=True)],
    "C03": [dict(file="src/CppUTest/Utest.cpp", name="doubles_equal", coq="leaf_doubles_equal",
                 calls={"PlatformSpecificIsNan": "b2z (d_is_nan {0})", "PlatformSpecificIsInf": "b2z (d_is_inf {0})",
                        "PlatformSpecificFabs": "d_abs {0}"})],
}
HEADER = ("From CppUVerif Require Import lib.CSem lib.Str.\nLocal Open Scope Z_scope.\n"
          "(* translated by tools/cxx2coq.py from clang's AST of the files named below; C values are Z, bool is 0/1 *)\n")
HEADER_DBL = ("From CppUVerif Require Import lib.CSem lib.Dbl.\nLocal Open Scope Z_scope.\n"
              "(* translated by tools/cxx2coq.py; PlatformSpecificIsNan/IsInf/Fabs are mapped to Flocq's is_nan / infinity test / Babs, "
              "`-`, `<=`, `==` on double to Bminus mode_NE / Bcompare *)\n")


def generate(h, prop):
    repo = os.environ.get("VERIF_REPO", "/repo")
    root = os.path.dirname(os.path.dirname(os.path.abspath(__file__)))
    return cxx2coq.generate_cached(h, repo, root, "Leaf" + prop, GROUPS[prop], HEADER_DBL if prop == "C03" else HEADER)
