#!/bin/bash
# tools/confirm_seed.sh <scratch-worktree> <seed-dir>: confirms a seeded change independently:
# with the patch: project builds, all its tests pass, demo FAILS; without: demo PASSES.
W=$1; S=$2
cd "$W" || exit 9
git apply "$S/patch.diff" || { echo "PATCH DOES NOT APPLY"; exit 9; }
cmake --build _build -- -k 0 >/dev/null 2>&1
echo "tests with patch: $(ctest --test-dir _build -j8 --timeout 900 2>&1 | grep -E 'tests passed|tests failed' )"
sh "$S/run.sh" "$W" >/tmp/demo_out.$$ 2>&1; echo "demo with patch: exit=$? $(tail -1 /tmp/demo_out.$$)"
git apply -R "$S/patch.diff"
cmake --build _build -- -k 0 >/dev/null 2>&1
sh "$S/run.sh" "$W" >/tmp/demo_out.$$ 2>&1; echo "demo without patch: exit=$? $(tail -1 /tmp/demo_out.$$)"
rm -f /tmp/demo_out.$$
