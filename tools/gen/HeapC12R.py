"""the command-line runner's frame around a run, translated by tools/cxx2heap.py (see tools/loopdefs.py)."""
import os, sys
sys.path.insert(0, os.path.dirname(os.path.dirname(os.path.abspath(__file__))))
import loopdefs


def generate(h):
    return loopdefs.generate_heap(h, "C12R")
