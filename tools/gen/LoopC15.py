"""The C allocation wrappers of TestHarness_c.cpp (countdown, malloc, calloc, strdup, strndup), translated by tools/cxx2gal.py
(see tools/loopdefs.py)."""
import os, sys
sys.path.insert(0, os.path.dirname(os.path.dirname(os.path.abspath(__file__))))
import loopdefs


def generate(h):
    return loopdefs.generate(h, "C15")
