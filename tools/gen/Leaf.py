"""Leaf functions of /repo translated to Gallina by tools/cxx2coq.py (clang AST -> Z expressions with C integer semantics).
The C*_LeafTie.v files prove the hand-written models equal to these definitions."""
import os, sys
sys.path.insert(0, os.path.dirname(os.path.dirname(os.path.abspath(__file__))))
import cxx2coq

SS = "src/CppUTest/SimpleString.cpp"
MLD = "src/CppUTest/MemoryLeakDetector.cpp"
FUNCS = [
    dict(file=SS, name="SimpleString::isDigit", coq="leaf_isDigit"),
    dict(file=SS, name="SimpleString::isSpace", coq="leaf_isSpace"),
    dict(file=SS, name="SimpleString::isUpper", coq="leaf_isUpper"),
    dict(file=SS, name="SimpleString::isControl", coq="leaf_isControl", signature="bool (char)"),
    dict(file=SS, name="SimpleString::isControlWithShortEscapeSequence", coq="leaf_isControlWithShortEscapeSequence"),
    dict(file=SS, name="SimpleString::ToLower", coq="leaf_ToLower", calls={"isUpper": "leaf_isUpper {0}"}),
    dict(file=MLD, name="MemoryLeakDetectorTable::hash", coq="leaf_hash"),
    dict(file=MLD, name="MemoryLeakDetectorList::isInPeriod", coq="leaf_isInPeriod", enums=["MemLeakPeriod"]),
    dict(file=MLD, name="MemoryLeakDetectorList::isInAllocationStage", coq="leaf_isInAllocationStage"),
    dict(file=MLD, name="sizeLeavesRoomForAccountingInformation", coq="leaf_sizeLeavesRoom"),
    dict(file=MLD, name="calculateVoidPointerAlignedSize", coq="leaf_alignedSize"),
    dict(file=MLD, name="MemoryLeakDetector::sizeOfMemoryWithCorruptionInfo", coq="leaf_sizeWithCorruptionInfo",
         calls={"calculateVoidPointerAlignedSize": "leaf_alignedSize {0}"}),
    # SimpleStringBuffer (C14): methods as state transformers (trace of traced calls / array stores, then the written fields)
    dict(file=MLD, name="SimpleStringBuffer::add", coq="leaf_buf_add", mode="state",
         calls={"PlatformSpecificVSNprintf": "vsnprintf_result"}, extra_params=["vsnprintf_result"],
         trace=["PlatformSpecificVSNprintf"], ignore_calls=["__builtin_va_start", "__builtin_va_end"]),
    dict(file=MLD, name="SimpleStringBuffer::clear", coq="leaf_buf_clear", mode="state"),
    dict(file=MLD, name="SimpleStringBuffer::setWriteLimit", coq="leaf_buf_setWriteLimit", mode="state"),
    dict(file=MLD, name="SimpleStringBuffer::resetWriteLimit", coq="leaf_buf_resetWriteLimit", mode="state"),
    dict(file=MLD, name="SimpleStringBuffer::reachedItsCapacity", coq="leaf_buf_reachedItsCapacity"),
    dict(file="src/Platforms/Gcc/UtestPlatform.cpp", name="SetTestFailureByStatusCode", coq="leaf_SetTestFailureByStatusCode"),
    dict(file="src/CppUTest/TestFilter.cpp", name="TestFilter::match", coq="leaf_filter_match",
         calls={"operator==": "b2z (bytes_eqb {0} {1})", "contains": "b2z (contains {0} {1})"},
         param_types={"name": "list N", "this_filter_": "list N"}),
]
HEADER = ("From CppUVerif Require Import lib.CSem lib.Str.\nLocal Open Scope Z_scope.\n"
          "(* translated by tools/cxx2coq.py from clang's AST of the files named below; C values are Z, bool is 0/1 *)\n")


def generate(h):
    repo = os.environ.get("VERIF_REPO", "/repo")
    root = os.path.dirname(os.path.dirname(os.path.dirname(os.path.abspath(__file__))))
    return cxx2coq.generate_cached(h, repo, root, "Leaf", FUNCS, HEADER)
