"""Constants of the tracked-allocation layout (C05): guard size of the build without corruption check, pointer alignment unit,
sizes of the two bookkeeping nodes of the memory-accounting wrappers (LP64: every member is a size_t or a pointer)."""
import re


def lp64_struct_size(h, name):
    """sizeof a struct of TestMemoryAllocator.cpp all of whose members are size_t or pointers (8 bytes each, no padding)."""
    path = "src/CppUTest/TestMemoryAllocator.cpp"
    m = re.search(r"struct\s+%s\s*\{(.*?)\};" % name, h.src(path), re.S)
    if not m:
        h.errors.append("%s: struct %s not found" % (path, name))
        return None
    fields = [f.strip() for f in m.group(1).split(";") if f.strip()]
    for f in fields:
        if not re.fullmatch(r"(size_t\s+|\w+\s*\*\s*)\w+", f):
            h.errors.append("%s: struct %s: member '%s' is neither a size_t nor a pointer" % (path, name, f))
            return None
    return 8 * len(fields)


def generate(h):
    t = ""
    t += h.defn_N("c05_guard_size_disabled", "include/CppUTest/MemoryLeakDetector.h",
                  r"#ifdef\s+CPPUTEST_DISABLE_MEM_CORRUPTION_CHECK\s*\n\s*memory_corruption_buffer_size\s*=\s*(\d+)", "guard size when the corruption check is disabled")
    # The shape of calculateVoidPointerAlignedSize is deliberately not pinned here: the differential run compares the exact size
    # of every underlying request for every size 0..4096 and around every power of two, so any change of the rounding that
    # changes a value is seen there, and a rewrite that computes the same values stays quiet.
    t += "(* LP64: sizeof(void* ) *)\nDefinition c05_ptr_size : N := 8%N.\n"
    for coqname, struct, what in (("c05_accountant_node_size", "MemoryAccountantAllocationNode", "the accountant's per-size statistics node"),
                                  ("c05_tracking_node_size", "AccountingTestMemoryAllocatorMemoryNode", "the wrapper's per-block tracking node")):
        v = lp64_struct_size(h, struct)
        if v is not None:
            t += "(* src/CppUTest/TestMemoryAllocator.cpp: sizeof(%s), %s (LP64) *)\nDefinition %s : N := %d%%N.\n" % (struct, what, coqname, v)
    return t
