"""Constants of the tracked-allocation layout (C05): guard size of the build without corruption check, pointer alignment unit."""


def generate(h):
    t = ""
    t += h.defn_N("c05_guard_size_disabled", "include/CppUTest/MemoryLeakDetector.h",
                  r"#ifdef\s+CPPUTEST_DISABLE_MEM_CORRUPTION_CHECK\s*\n\s*memory_corruption_buffer_size\s*=\s*(\d+)", "guard size when the corruption check is disabled")
    # calculateVoidPointerAlignedSize:  (sizeof(void*) - (size % sizeof(void*))) + size   in the guarded build, identity otherwise
    src = h.src("src/CppUTest/MemoryLeakDetector.cpp")
    import re
    m = re.search(r"static\s+size_t\s+calculateVoidPointerAlignedSize\(size_t size\)\s*\{\s*#ifndef\s+CPPUTEST_DISABLE_MEM_CORRUPTION_CHECK\s*"
                  r"return\s*\(sizeof\(void\*\)\s*-\s*\(size\s*%\s*sizeof\(void\*\)\)\)\s*\+\s*size;\s*#else\s*return\s+size;\s*#endif\s*\}", src)
    if not m:
        h.errors.append("src/CppUTest/MemoryLeakDetector.cpp: calculateVoidPointerAlignedSize no longer has the modelled shape")
    t += "(* LP64: sizeof(void* ) *)\nDefinition c05_ptr_size : N := 8%N.\n"
    return t
