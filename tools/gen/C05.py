"""Constants of the tracked-allocation layout (C05): guard size of the build without corruption check, pointer alignment unit."""


def generate(h):
    t = ""
    t += h.defn_N("c05_guard_size_disabled", "include/CppUTest/MemoryLeakDetector.h",
                  r"#ifdef\s+CPPUTEST_DISABLE_MEM_CORRUPTION_CHECK\s*\n\s*memory_corruption_buffer_size\s*=\s*(\d+)", "guard size when the corruption check is disabled")
    # The shape of calculateVoidPointerAlignedSize is deliberately not pinned here: the differential run compares the exact size
    # of every underlying request for every size 0..4096 and around every power of two, so any change of the rounding that
    # changes a value is seen there, and a rewrite that computes the same values stays quiet.
    t += "(* LP64: sizeof(void* ) *)\nDefinition c05_ptr_size : N := 8%N.\n"
    return t
