"""The function-pointer wiring of src/CppUTest/MemoryLeakWarningPlugin.cpp, read from clang's AST (not from the text):
   * the static initialiser of every `..._fptr` variable,
   * the assignments every overload-switch function makes, in order (right side: a function or another pointer variable),
   * what every handler function (normal_ / mem_leak_ / threadsafe_mem_leak_) does: whether it declares a MemLeakScopedMutex first,
     and the calls it makes on the detector with the current-allocator getter each call is given,
   * which pointer every global entry point (operator new / delete forms, the cpputest_..._with_leak_detection functions) calls.
Names are emitted as Coq strings; coq/C06_PlugTie.v proves the hand-written tables of coq/C06_Plug.v equal to these."""
import os, re, sys
sys.path.insert(0, os.path.dirname(os.path.dirname(os.path.abspath(__file__))))
import cxx2coq
from cxx2coq import Unsupported

PATH = "src/CppUTest/MemoryLeakWarningPlugin.cpp"
SWITCHES = ["turnOffNewDeleteOverloads", "turnOnDefaultNotThreadSafeNewDeleteOverloads", "turnOnThreadSafeNewDeleteOverloads",
            "saveAndDisableNewDeleteOverloads", "restoreNewDeleteOverloads"]
SKIP = ("ImplicitCastExpr", "ParenExpr", "ExprWithCleanups", "CStyleCastExpr", "CXXFunctionalCastExpr", "CXXStaticCastExpr",
        "CXXReinterpretCastExpr", "MaterializeTemporaryExpr", "ConstantExpr")


def strip(n):
    while n.get("kind") in SKIP and n.get("inner"):
        n = n["inner"][0]
    return n


def walk(n):
    yield n
    for c in n.get("inner", []) or []:
        yield from walk(c)


def cs(s):
    return '"%s"%%string' % s.replace('"', '""')


def ref_name(n):
    n = strip(n)
    if n.get("kind") == "DeclRefExpr":
        return n["referencedDecl"].get("name")
    return None


def sig_of(d):
    """a readable key for an entry point: name + parameter types"""
    q = (d.get("type") or {}).get("qualType", "")
    m = re.search(r"\((.*)\)", q)
    return "%s(%s)" % (d.get("name"), re.sub(r"\s+", " ", m.group(1)) if m else "")


def generate(h):
    repo = os.environ.get("VERIF_REPO", "/repo")
    try:
        docs = cxx2coq.clang_docs(repo, PATH, "")          # the whole translation unit
    except Unsupported as e:
        h.errors.append("PlugC06: " + str(e))
        return "(* NOT EXTRACTED: %s *)\n" % str(e).replace("*)", "* )")
    tops = []
    for d in docs:
        tops += d.get("inner", []) if d.get("kind") == "TranslationUnitDecl" else [d]
    here = []
    infile = False
    for t in tops:          # keep the declarations of this .cpp (clang prints the file only when it changes)
        loc = t.get("loc", {})
        f = loc.get("file") or (loc.get("expansionLoc") or {}).get("file") or (loc.get("spellingLoc") or {}).get("file")
        if f:
            infile = f.endswith(PATH)
        inc = loc.get("includedFrom")
        if infile and not (inc and not f):
            here.append(t)
        elif infile:
            here.append(t)
    inits, funcs, methods = [], {}, {}
    for t in here:
        k = t.get("kind")
        if k == "VarDecl" and t.get("name", "").endswith("_fptr"):
            init = t.get("inner", [None])[0] if t.get("inner") else None
            inits.append((t["name"], ref_name(init) if init else None))
        if k == "FunctionDecl" and any(c.get("kind") == "CompoundStmt" for c in t.get("inner", [])):
            funcs.setdefault(t["name"], []).append(t)
        if k == "CXXMethodDecl" and any(c.get("kind") == "CompoundStmt" for c in t.get("inner", [])):
            methods[t["name"]] = t
    if len(inits) < 11:
        h.errors.append("PlugC06: only %d function-pointer variables found in %s" % (len(inits), PATH))
    out = ["From Coq Require Import String List.\nImport ListNotations.\n",
           "(* src/CppUTest/MemoryLeakWarningPlugin.cpp, from clang's AST *)\n",
           "(* static initialisers of the function-pointer variables: (variable, function) *)",
           "Definition src_fptr_init : list (string * string) :=\n  [%s].\n" % ";\n   ".join("(%s, %s)" % (cs(a), cs(b or "?")) for a, b in inits)]
    # switch functions: assignments in order; other calls (turnOff... from saveAndDisable) as ("call", name); the guard of the save counter as text
    for sw in SWITCHES:
        m = methods.get(sw)
        if m is None:
            h.errors.append("PlugC06: %s not found" % sw)
            continue
        body = [c for c in m["inner"] if c.get("kind") == "CompoundStmt"][0]
        steps = []
        for s in body.get("inner", []) or []:
            s0 = strip(s)
            if s0.get("kind") == "BinaryOperator" and s0.get("opcode") == "=":
                a, b = s0["inner"]
                steps.append("(%s, %s)" % (cs(ref_name(a) or "?"), cs(ref_name(b) or "?")))
            elif s0.get("kind") in ("CallExpr", "CXXMemberCallExpr"):
                cal = strip(s0["inner"][0])
                steps.append("(%s, %s)" % (cs("call"), cs(cal.get("name") or (cal.get("referencedDecl") or {}).get("name") or "?")))
            elif s0.get("kind") == "IfStmt":
                cond = strip(s0["inner"][0])
                txt = "?"
                if cond.get("kind") == "BinaryOperator":
                    l, r = cond["inner"]
                    l = strip(l)
                    if l.get("kind") == "UnaryOperator":
                        txt = "%s%s %s %s" % (l.get("opcode"), ref_name(l["inner"][0]) or "?", cond.get("opcode"), strip(r).get("value", "?")) if not l.get("isPostfix") \
                            else "%s%s %s %s" % (ref_name(l["inner"][0]) or "?", l.get("opcode"), cond.get("opcode"), strip(r).get("value", "?"))
                then = strip(s0["inner"][1])
                steps.append("(%s, %s)" % (cs("return-if"), cs(txt + (" return" if then.get("kind") == "ReturnStmt" else " ?"))))
            else:
                steps.append("(%s, %s)" % (cs("?"), cs(s0.get("kind", "?"))))
        out.append("(* MemoryLeakWarningPlugin::%s: the statements in order -- (pointer variable, what is assigned) | (\"call\", function) | (\"return-if\", guard) *)" % sw)
        out.append("Definition src_%s : list (string * string) :=\n  [%s].\n" % (sw, ";\n   ".join(steps)))
    # handlers
    rows = []
    for name, ds in sorted(funcs.items()):
        if not re.match(r"(normal_|mem_leak_|threadsafe_mem_leak_)", name):
            continue
        d = ds[0]
        body = [c for c in d["inner"] if c.get("kind") == "CompoundStmt"][0]
        lock = any(n.get("kind") == "VarDecl" and "MemLeakScopedMutex" in ((n.get("type") or {}).get("qualType", "")) for n in walk(body))
        calls = []
        for n in walk(body):
            if n.get("kind") == "CXXMemberCallExpr":
                cal = strip(n["inner"][0])
                if cal.get("kind") == "MemberExpr" and cal.get("name") in ("allocMemory", "deallocMemory", "reallocMemory", "invalidateMemory"):
                    getter = ""
                    for a in n["inner"][1:]:
                        for x in walk(a):
                            if x.get("kind") == "CallExpr":
                                g = ref_name(x["inner"][0])
                                if g and g.startswith("getCurrent"):
                                    getter = g
                    sep = ""
                    last = strip(n["inner"][-1])
                    if last.get("kind") == "CXXBoolLiteralExpr":
                        sep = "true" if last.get("value") else "false"
                    calls.append("(%s, %s, %s)" % (cs(cal["name"]), cs(getter), cs(sep)))
            if n.get("kind") == "CallExpr":
                g = ref_name(n["inner"][0])
                if g and g.startswith("PlatformSpecific"):
                    calls.append("(%s, %s, %s)" % (cs(g), cs(""), cs("")))
        rows.append("(%s, (%s, [%s]))" % (cs(name), "true" if lock else "false", "; ".join(calls)))
    out.append("(* every handler function: (name, (declares a MemLeakScopedMutex, the calls it makes: (detector method or platform function, "
               "current-allocator getter handed over, literal value of the last argument if a bool))) *)")
    out.append("Definition src_handlers : list (string * (bool * list (string * string * string))) :=\n  [%s].\n" % ";\n   ".join(rows))
    # entry points: functions that call a ..._fptr variable
    eps = []
    for name, ds in funcs.items():
        for d in ds:
            body = [c for c in d["inner"] if c.get("kind") == "CompoundStmt"][0]
            for n in walk(body):
                if n.get("kind") == "CallExpr":
                    g = ref_name(n["inner"][0])
                    if g and g.endswith("_fptr"):
                        eps.append("(%s, %s)" % (cs(sig_of(d)), cs(g)))
    out.append("(* every global entry point that calls one of the pointers: (name(parameter types), pointer variable) *)")
    out.append("Definition src_entry_points : list (string * string) :=\n  [%s].\n" % ";\n   ".join(sorted(set(eps))))
    return "\n".join(out)
