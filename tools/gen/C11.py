"""C11: constants and texts of the separate-process runner (src/Platforms/Gcc/UtestPlatform.cpp, the fork/waitpid/kill branch).
  eintr_bound / eintr_bound_strict : the comparison that ends the EINTR retries (`if (amountOfRetries > 30)` -> 30, strict)
  msg_*                            : the six failure texts (bytes), in the order the code uses them
  wait_untraced                    : waitpid is asked for stopped children (WUNTRACED) -- without it a stopped child is never seen
Only these enter the model; the control flow itself is mirrored by hand in coq/C11_Model.v and tied by the correspondence run."""
import re

SRC = "src/Platforms/Gcc/UtestPlatform.cpp"
LIT = r'"((?:[^"\\\n]|\\.)*)"'
ESC = {"n": "\n", "t": "\t", "\\": "\\", '"': '"', "0": "\0", "r": "\r", "a": "\a", "b": "\b"}


def unescape(s):
    out, i = [], 0
    while i < len(s):
        if s[i] == "\\" and i + 1 < len(s) and s[i + 1] in ESC:
            out.append(ESC[s[i + 1]])
            i += 2
        else:
            out.append(s[i])
            i += 1
    return "".join(out)


def cm(s):
    return repr(s).replace("*)", "* )").replace("(*", "( *")


def body_of(src, start):
    """text of the brace block that begins at the first `{` after position `start`"""
    a = src.find("{", start)
    if a < 0:
        return None
    d = 0
    for i in range(a, len(src)):
        if src[i] == "{":
            d += 1
        elif src[i] == "}":
            d -= 1
            if d == 0:
                return src[a:i + 1]
    return None


def generate(h):
    src = h.src(SRC)
    # the real branch is the one after `#else` of the HAVE_FORK/WAITPID/KILL test
    a = src.find("static void SetTestFailureByStatusCode(")
    b = src.find("static void GccPlatformSpecificRunTestInASeperateProcess(", a if a >= 0 else 0)
    if a < 0 or b < 0:
        h.errors.append("C11: SetTestFailureByStatusCode / GccPlatformSpecificRunTestInASeperateProcess not found in " + SRC)
        return ""
    f1 = body_of(src, a)
    f2 = body_of(src, b)
    if not f1 or not f2:
        h.errors.append("C11: function bodies not delimited")
        return ""
    strip = lambda s: re.sub(r"//[^\n]*", "", s)
    l1 = re.findall(LIT, strip(f1))
    l2 = re.findall(LIT, strip(f2))
    t = ""
    if len(l1) != 3:
        h.errors.append("C11: expected 3 failure texts in SetTestFailureByStatusCode (exit, signal, stop), found %d" % len(l1))
        return ""
    if len(l2) != 3:
        h.errors.append("C11: expected 3 failure texts in the runner (fork, EINTR overrun, waitpid), found %d" % len(l2))
        return ""
    for name, s in zip(["msg_exit", "msg_killed", "msg_stopped", "msg_fork", "msg_eintr", "msg_wait"], l1 + l2):
        u = unescape(s)
        t += "(* %s *)\nDefinition %s : list N := %s.\n" % (cm(u), name, h.coq_bytes(u.encode()))
    m = re.search(r"EINTR\s*==\s*errno|errno\s*==\s*EINTR", f2)
    if not m:
        h.errors.append("C11: the EINTR test on errno was not found in the wait loop")
        return t
    m = re.search(r"if\s*\(\s*\w+\s*(>=|>)\s*(\d+)\s*\)", f2[m.end():])
    if not m:
        h.errors.append("C11: the retry-bound comparison `if (<counter> > <n>)` after the EINTR test was not found")
        return t
    t += "(* give up when  retries %s %s *)\nDefinition eintr_bound : N := %d%%N.\nDefinition eintr_bound_strict : bool := %s.\n" % (
        m.group(1), m.group(2), int(m.group(2)), "true" if m.group(1) == ">" else "false")
    m = re.search(r"PlatformSpecificWaitPid\s*\(\s*\w+\s*,\s*&\s*\w+\s*,\s*([^)]*)\)", f2)
    if not m:
        h.errors.append("C11: the PlatformSpecificWaitPid call was not found")
        return t
    t += "(* waitpid options: %s *)\nDefinition wait_untraced : bool := %s.\n" % (cm(m.group(1).strip()), "true" if "WUNTRACED" in m.group(1) else "false")
    return t
