"""C11: constants and texts of the separate-process runner (src/Platforms/Gcc/UtestPlatform.cpp, the fork/waitpid/kill branch).
  eintr_bound / eintr_bound_strict : the comparison that ends the EINTR retries (`if (amountOfRetries > 30)` -> 30, strict)
  msg_*                            : the six failure texts (bytes), in the order the code uses them
  wait_untraced                    : waitpid is asked for stopped children (WUNTRACED) -- without it a stopped child is never seen
Only these enter the model; the control flow itself is mirrored by hand in coq/C11_Model.v and tied by the correspondence run."""
import re

SRC = "src/Platforms/Gcc/UtestPlatform.cpp"
LIT = r'"((?:[^"\\\n]|\\.)*)"'
ESC = {"n": "\n", "t": "\t", "\\": "\\", '"': '"', "0": "\0", "r": "\r", "a": "\a", "b": "\b"}


def unescape(s):
    out, i = [], 0
    while i < len(s):
        if s[i] == "\\" and i + 1 < len(s) and s[i + 1] in ESC:
            out.append(ESC[s[i + 1]])
            i += 2
        else:
            out.append(s[i])
            i += 1
    return "".join(out)


def cm(s):
    return repr(s).replace("*)", "* )").replace("(*", "( *")


def body_of(src, start):
    """text of the brace block that begins at the first `{` after position `start`"""
    a = src.find("{", start)
    if a < 0:
        return None
    d = 0
    for i in range(a, len(src)):
        if src[i] == "{":
            d += 1
        elif src[i] == "}":
            d -= 1
            if d == 0:
                return src[a:i + 1]
    return None


def generate(h):
    src = h.src(SRC)
    # the real branch is the one after `#else` of the HAVE_FORK/WAITPID/KILL test
    a = src.find("static void SetTestFailureByStatusCode(")
    b = src.find("static void GccPlatformSpecificRunTestInASeperateProcess(", a if a >= 0 else 0)
    if a < 0 or b < 0:
        h.errors.append("C11: SetTestFailureByStatusCode / GccPlatformSpecificRunTestInASeperateProcess not found in " + SRC)
        return ""
    f1 = body_of(src, a)
    f2 = body_of(src, b)
    if not f1 or not f2:
        h.errors.append("C11: function bodies not delimited")
        return ""
    strip = lambda s: re.sub(r"//[^\n]*", "", s)
    f1, f2 = strip(f1), strip(f2)
    t = ""
    texts = {}
    # SetTestFailureByStatusCode: each text belongs to the status test written last before it
    for m in re.finditer(LIT, f1):
        macros = [(f1.rfind(k, 0, m.start()), k) for k in ("WIFEXITED", "WIFSIGNALED", "WIFSTOPPED")]
        pos, k = max(macros)
        if pos < 0:
            h.errors.append("C11: a failure text in SetTestFailureByStatusCode is not preceded by a WIF* test")
            return ""
        name = {"WIFEXITED": "msg_exit", "WIFSIGNALED": "msg_killed", "WIFSTOPPED": "msg_stopped"}[k]
        if name in texts:
            h.errors.append("C11: two failure texts under %s" % k)
            return ""
        texts[name] = m.group(1)
    if len(texts) != 3:
        h.errors.append("C11: expected one failure text each for exited/signaled/stopped in SetTestFailureByStatusCode, found %s" % sorted(texts))
        return ""
    # the runner: the text before the waitpid call is the fork failure, the one right after the retry comparison the EINTR overrun
    wp = f2.find("PlatformSpecificWaitPid")
    cmpm = re.search(r"(?:EINTR\s*==\s*errno|errno\s*==\s*EINTR)[^;{]*\{?\s*if\s*\(\s*\w+\s*(>=|>)\s*(\d+)\s*\)", f2)
    lits = list(re.finditer(LIT, f2))
    if wp < 0 or not cmpm or len(lits) != 3:
        h.errors.append("C11: runner: waitpid call, EINTR retry comparison or the three failure texts (fork, EINTR overrun, waitpid) not found")
        return ""
    before = [m for m in lits if m.start() < wp]
    after_cmp = [m for m in lits if m.start() > cmpm.end()]
    if len(before) != 1 or not after_cmp:
        h.errors.append("C11: runner: cannot tell the fork / EINTR / waitpid texts apart")
        return ""
    texts["msg_fork"] = before[0].group(1)
    texts["msg_eintr"] = after_cmp[0].group(1)
    rest = [m for m in lits if m is not before[0] and m is not after_cmp[0]]
    texts["msg_wait"] = rest[0].group(1)
    for name in ["msg_exit", "msg_killed", "msg_stopped", "msg_fork", "msg_eintr", "msg_wait"]:
        u = unescape(texts[name])
        t += "(* %s *)\nDefinition %s : list N := %s.\n" % (cm(u), name, h.coq_bytes(u.encode()))
    m = re.search(r"EINTR\s*==\s*errno|errno\s*==\s*EINTR", f2)
    if not m:
        h.errors.append("C11: the EINTR test on errno was not found in the wait loop")
        return t
    m = re.search(r"if\s*\(\s*\w+\s*(>=|>)\s*(\d+)\s*\)", f2[m.end():])
    if not m:
        h.errors.append("C11: the retry-bound comparison `if (<counter> > <n>)` after the EINTR test was not found")
        return t
    t += "(* give up when  retries %s %s *)\nDefinition eintr_bound : N := %d%%N.\nDefinition eintr_bound_strict : bool := %s.\n" % (
        m.group(1), m.group(2), int(m.group(2)), "true" if m.group(1) == ">" else "false")
    m = re.search(r"PlatformSpecificWaitPid\s*\(\s*\w+\s*,\s*&\s*\w+\s*,\s*([^)]*)\)", f2)
    if not m:
        h.errors.append("C11: the PlatformSpecificWaitPid call was not found")
        return t
    t += "(* waitpid options: %s *)\nDefinition wait_untraced : bool := %s.\n" % (cm(m.group(1).strip()), "true" if "WUNTRACED" in m.group(1) else "false")
    return t
