"""Wiring of the eleven allocation entry points (src/CppUTest/MemoryLeakWarningPlugin.cpp), regenerated on every run:
 * the function-pointer assignments in turnOnThreadSafeNewDeleteOverloads / turnOnDefaultNotThreadSafeNewDeleteOverloads /
   turnOffNewDeleteOverloads  ->  three tables  entry -> wrapper;
 * per installed function: does its body start with `MemLeakScopedMutex <name>;` with the whole (brace-free) body as the
   scope, and which detector call it makes with which allocator getter (-> action);
 * which function pointer each global operator new/delete overload and each cpputest_*_location_with_leak_detection calls
   (-> dispatch table: entry expected from the signature, entry actually called).
Types are in coq/C10_Wiring.v.  Anything not in the accepted shapes is an error (never defaulted)."""
import re
PATH = "src/CppUTest/MemoryLeakWarningPlugin.cpp"
PTR = {"operator_new_fptr": "ENew", "operator_new_nothrow_fptr": "ENewNothrow", "operator_new_debug_fptr": "ENewDebug",
       "operator_new_array_fptr": "ENewArr", "operator_new_array_nothrow_fptr": "ENewArrNothrow",
       "operator_new_array_debug_fptr": "ENewArrDebug", "operator_delete_fptr": "EDelete", "operator_delete_array_fptr": "EDeleteArr",
       "malloc_fptr": "EMalloc", "realloc_fptr": "ERealloc", "free_fptr": "EFree"}
FAM = {"New": "FNew", "NewArray": "FNewArr", "Malloc": "FMalloc"}


def strip_comments(s):
    s = re.sub(r"/\*.*?\*/", " ", s, flags=re.S)
    return re.sub(r"//[^\n]*", " ", s)


def body_of(src, start):
    """text between the brace that opens at/after `start` and its partner"""
    a = src.find("{", start)
    if a < 0:
        return None
    depth = 0
    for i in range(a, len(src)):
        if src[i] == "{":
            depth += 1
        elif src[i] == "}":
            depth -= 1
            if depth == 0:
                return src[a + 1:i]
    return None


def analyse(h, src, fname):
    m = re.search(r"\bstatic\s+void\s*\*?\s*" + re.escape(fname) + r"\s*\(", src)
    if not m:
        h.errors.append("C10: definition of %s not found" % fname)
        return None
    body = body_of(src, m.end())
    if body is None:
        h.errors.append("C10: body of %s not found" % fname)
        return None
    stmts = [s.strip() for s in body.split(";") if s.strip()]
    flat = "{" not in body
    locks = bool(stmts) and re.fullmatch(r"MemLeakScopedMutex\s+\w+", stmts[0]) is not None and flat
    acts = []
    for kind, pat in (("AAlloc", r"->\s*allocMemory\s*\(\s*getCurrent(\w+?)Allocator\s*\(\s*\)"),
                      ("ARelease", r"->\s*deallocMemory\s*\(\s*getCurrent(\w+?)Allocator\s*\(\s*\)"),
                      ("ARealloc", r"->\s*reallocMemory\s*\(\s*getCurrent(\w+?)Allocator\s*\(\s*\)")):
        for mm in re.finditer(pat, body):
            if mm.group(1) not in FAM:
                h.errors.append("C10: %s: unknown allocator getter getCurrent%sAllocator" % (fname, mm.group(1)))
            else:
                acts.append("(%s %s)" % (kind, FAM[mm.group(1)]))
    if re.search(r"\bPlatformSpecific(Malloc|Realloc|Free)\s*\(", body):
        acts.append("APlain")
    if len(acts) != 1:
        h.errors.append("C10: %s: expected exactly one detector/platform call, found %s" % (fname, acts))
        return None
    return "{| w_locks := %s; w_action := %s |}" % ("true" if locks else "false", acts[0])


def table(h, src, func):
    m = re.search(r"void\s+MemoryLeakWarningPlugin::" + func + r"\s*\(\s*\)", src)
    if not m:
        h.errors.append("C10: %s not found" % func)
        return []
    body = body_of(src, m.end())
    rows, seen = [], set()
    for mm in re.finditer(r"\b(\w+_fptr)\s*=\s*(\w+)\s*;", body or ""):
        p, f = mm.group(1), mm.group(2)
        if p not in PTR:
            h.errors.append("C10: %s assigns unknown pointer %s" % (func, p))
            continue
        if p in seen:
            h.errors.append("C10: %s assigns %s twice" % (func, p))
        seen.add(p)
        w = analyse(h, src, f)
        if w:
            rows.append("(%s, %s) (* %s *)" % (PTR[p], w, f))
    if len(seen) != len(PTR):
        h.errors.append("C10: %s assigns %d of the %d pointers" % (func, len(seen), len(PTR)))
    return rows


def dispatch(h, src):
    rows = []
    pat = re.compile(r"\bvoid\s*\*?\s*operator\s+(new|delete)\s*(\[\s*\])?\s*\(([^)]*)\)[^{;]*\{([^}]*)\}")
    for m in pat.finditer(src):
        kind, arr, args, body = m.group(1), bool(m.group(2)), m.group(3), m.group(4)
        if kind == "new":
            if "nothrow_t" in args:
                exp = "ENewArrNothrow" if arr else "ENewNothrow"
            elif "file" in args or "char" in args:
                exp = "ENewArrDebug" if arr else "ENewDebug"
            else:
                exp = "ENewArr" if arr else "ENew"
        else:
            exp = "EDeleteArr" if arr else "EDelete"
        c = re.findall(r"\b(\w+_fptr)\s*\(", body)
        if len(c) != 1 or c[0] not in PTR:
            h.errors.append("C10: operator %s%s(%s): body does not call exactly one known function pointer" % (kind, "[]" if arr else "", args.strip()))
            continue
        rows.append("(%s, %s)" % (exp, PTR[c[0]]))
    for fn, exp in (("cpputest_malloc_location_with_leak_detection", "EMalloc"), ("cpputest_realloc_location_with_leak_detection", "ERealloc"),
                    ("cpputest_free_location_with_leak_detection", "EFree")):
        m = re.search(r"\b" + fn + r"\s*\([^)]*\)\s*\{([^}]*)\}", src)
        c = re.findall(r"\b(\w+_fptr)\s*\(", m.group(1)) if m else []
        if len(c) != 1 or c[0] not in PTR:
            h.errors.append("C10: %s: body does not call exactly one known function pointer" % fn)
            continue
        rows.append("(%s, %s)" % (exp, PTR[c[0]]))
    if len(rows) < 14:
        h.errors.append("C10: only %d global overloads recognised" % len(rows))
    return rows


def generate(h):
    src = strip_comments(h.src(PATH))
    t = "From CppUVerif Require Import C10_Wiring.\n\n(* %s *)\n" % PATH
    for name, func in (("ts_table", "turnOnThreadSafeNewDeleteOverloads"), ("default_table", "turnOnDefaultNotThreadSafeNewDeleteOverloads"),
                       ("off_table", "turnOffNewDeleteOverloads")):
        rows = table(h, src, func)
        t += "(* MemoryLeakWarningPlugin::%s *)\nDefinition %s : wtable :=\n  [ %s ].\n\n" % (func, name, ";\n    ".join(rows))
    t += ("(* (entry point meant by the signature of the global overload, function pointer its body calls), in source order *)\n"
          "Definition dispatch_table : list (entry * entry) :=\n  [ %s ].\n" % ";\n    ".join(dispatch(h, src)))
    return t
