"""C16: the JUnit writer's escape table (the six sequential replace passes of encodeXmlText, in source order) and the
characters encodeFileName replaces, re-read from src/CppUTest/JUnitTestOutput.cpp on every run."""
import re

SRC = "src/CppUTest/JUnitTestOutput.cpp"
ESC = {"n": 10, "r": 13, "t": 9, "\\": 92, '"': 34, "'": 39, "0": 0, "a": 7, "b": 8, "f": 12, "v": 11, "?": 63}


def c_unescape(lit):
    out, i = [], 0
    while i < len(lit):
        ch = lit[i]
        if ch == "\\":
            i += 1
            if lit[i] not in ESC:
                raise ValueError("escape \\%s" % lit[i])
            out.append(ESC[lit[i]])
        else:
            out.append(ord(ch))
        i += 1
    return out


STR = r'"((?:[^"\\]|\\.)*)"'


def generate(h):
    t = "(* %s *)\n" % SRC
    forb = h.find(SRC, r"encodeFileName\(.*?forbiddenCharacters\s*=\s*" + STR + r"\s*;", "forbiddenCharacters", conv=c_unescape)
    t += "Definition junit_forbidden : list N := %s.\n" % (h.coq_bytes(forb) if forb is not None else "[]")
    body = h.find(SRC, r"SimpleString\s+JUnitTestOutput::encodeXmlText\([^)]*\)\s*\{(.*?)\n\}", "encodeXmlText body", conv=str)
    passes = []
    if body is not None:
        stmts = [s.strip().rstrip(";").strip() for s in body.split("\n") if s.strip()]
        # shape: SimpleString buf = textbody.asCharString(); buf.replace(..)*; return buf
        if not re.fullmatch(r"SimpleString\s+buf\s*=\s*textbody\.asCharString\(\)", stmts[0]) or stmts[-1] != "return buf":
            h.errors.append(SRC + ": encodeXmlText no longer has the shape copy; replace*; return")
        for s in stmts[1:-1]:
            m = re.fullmatch(r"buf\.replace\(\s*" + STR + r"\s*,\s*" + STR + r"\s*\)", s)
            if not m:
                h.errors.append(SRC + ": encodeXmlText statement not understood: " + s)
                continue
            passes.append((c_unescape(m.group(1)), c_unescape(m.group(2))))
    t += "Definition junit_xml_passes : list (list N * list N) :=\n  [%s].\n" % ";\n   ".join(
        "(%s, %s)" % (h.coq_bytes(a), h.coq_bytes(b)) for a, b in passes)
    return t
