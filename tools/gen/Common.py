"""Constants several models depend on."""


def generate(h):
    t = ""
    t += h.defn_N("jmp_slots", "src/Platforms/Gcc/UtestPlatform.cpp", r"static\s+jmp_buf\s+test_exit_jmp_buf\[(\d+)\]", "jump buffer slots")
    t += h.defn_N("simple_string_buffer_len", "include/CppUTest/MemoryLeakDetector.h", r"SIMPLE_STRING_BUFFER_LEN\s*=\s*(\d+)", "SIMPLE_STRING_BUFFER_LEN")
    t += h.defn_N("hash_prime", "include/CppUTest/TestHarness.h", r"#define\s+MEMORY_LEAK_HASH_TABLE_SIZE\s+(\d+)", "hash table size")
    t += h.defn_N("set_pointer_max", "include/CppUTest/TestPlugin.h", r"MAX_SET\s*=\s*(\d+)", "SetPointerPlugin::MAX_SET")
    t += h.defn_N("mem_corruption_buffer_size", "include/CppUTest/MemoryLeakDetector.h", r"#else\s*\n\s*memory_corruption_buffer_size\s*=\s*(\d+)", "guard size")
    return t
