"""Constants and wiring of the misuse checks (C06): the guard pattern written after the user bytes, the poison byte of
invalidateMemory, the order of the three checks in deallocMemory / reallocMemory / checkForCorruption, the transparency of the
wrapper allocators (actualAllocator bodies) and `invalidate before dealloc` in the five plugin-level release entry points.
The guard size itself (memory_corruption_buffer_size) is in Gen_Common."""
import re


def _body(src, head):
    """text of the function body whose header matches the regex `head` (brace matching)"""
    m = re.search(head, src)
    if not m:
        return None
    i = src.find("{", m.end() - 1)
    if i < 0:
        return None
    d, j = 0, i
    while j < len(src):
        if src[j] == "{":
            d += 1
        elif src[j] == "}":
            d -= 1
            if d == 0:
                return src[i + 1:j]
        j += 1
    return None


def _norm(s):
    s = re.sub(r"/\*.*?\*/", " ", s, flags=re.S)
    s = re.sub(r"//[^\n]*", " ", s)
    return re.sub(r"\s+", "", s)


def generate(h):
    t = ""
    det = h.src("src/CppUTest/MemoryLeakDetector.cpp")
    m = re.search(r"static\s+const\s+char\s+GuardBytes\[\]\s*=\s*\{([^}]*)\}\s*;", det)
    if not m:
        h.errors.append("C06: GuardBytes initialiser not found")
        gb = []
    else:
        gb = []
        for it in m.group(1).split(","):
            it = it.strip()
            q = re.fullmatch(r"'(\\?.)'", it)
            if q:
                c = q.group(1)
                gb.append({"\\0": 0, "\\n": 10, "\\t": 9, "\\\\": 92, "\\'": 39}.get(c, ord(c[-1])) if c.startswith("\\") else ord(c))
            elif re.fullmatch(r"0[xX][0-9a-fA-F]+|\d+", it):
                gb.append(int(it, 0) & 255)
            else:
                h.errors.append("C06: guard byte %r not understood" % it)
    t += "(* src/CppUTest/MemoryLeakDetector.cpp: static const char GuardBytes[] *)\nDefinition c06_guard_bytes : list N := %s.\n" % h.coq_bytes(gb)
    # the poison byte: the one byte literal in invalidateMemory (loose: a memset, a loop or a helper may carry it)
    ib = _body(det, r"void\s+MemoryLeakDetector::invalidateMemory\s*\(\s*char\s*\*\s*\w+\s*\)\s*\{")
    lits = re.findall(r"\b0[xX][0-9a-fA-F]+\b", re.sub(r"/\*.*?\*/|//[^\n]*", " ", ib or "", flags=re.S))
    p = None
    if ib is None or len(set(x.lower() for x in lits)) != 1:
        h.errors.append("C06: invalidateMemory: poison byte literal not found (literals: %r)" % lits)
    else:
        p = int(lits[0], 16)
    if ib is not None and "node->size_" not in _norm(ib) and "size_" not in _norm(ib):
        h.errors.append("C06: invalidateMemory no longer fills the size of the record")
    t += "(* MemoryLeakDetector::invalidateMemory: PlatformSpecificMemset(memory, <poison>, node->size_) *)\nDefinition c06_poison : N := %d%%N.\n" % ((p or 0) & 255)
    # the guard loops: same index expression on the writing and on the checking side
    # (kept loose on purpose: only the index expression and the bound are pinned, so that a rewrite of the loop is not an alarm)
    for fn in ("addMemoryCorruptionInformation", "validMemoryCorruptionInformation"):
        b = _body(det, r"MemoryLeakDetector::%s\s*\(\s*char\s*\*\s*\w+\s*\)\s*\{" % fn)
        n = _norm(b) if b is not None else ""
        if "memory_corruption_buffer_size" not in n or not re.search(r"GuardBytes\[\w+%sizeof\(GuardBytes\)\]", n):
            h.errors.append("C06: %s no longer walks memory_corruption_buffer_size bytes against GuardBytes[i %% sizeof(GuardBytes)]" % fn)
    # wrappers are transparent: actualAllocator() of every wrapper class forwards to the wrapped allocator
    tma = h.src("src/CppUTest/TestMemoryAllocator.cpp")
    ssc = h.src("src/CppUTest/SimpleStringInternalCache.cpp")
    for cls, src in (("MemoryLeakAllocator", tma), ("AccountingTestMemoryAllocator", tma), ("SimpleStringCacheAllocator", ssc)):
        b = _body(src, r"TestMemoryAllocator\s*\*\s*%s::actualAllocator\s*\(\s*\)\s*\{" % cls)
        if b is None or "originalAllocator_->actualAllocator()" not in _norm(b):
            h.errors.append("C06: %s::actualAllocator is no longer `return originalAllocator_->actualAllocator();`" % cls)
    b = _body(tma, r"TestMemoryAllocator\s*\*\s*TestMemoryAllocator::actualAllocator\s*\(\s*\)\s*\{")
    if b is None or _norm(b) != "returnthis;":
        h.errors.append("C06: TestMemoryAllocator::actualAllocator is no longer `return this;`")
    # the release entry points of the plugin: invalidateMemory(mem) immediately followed by deallocMemory(<current allocator of the family>, mem ...)
    plug = h.src("src/CppUTest/MemoryLeakWarningPlugin.cpp")
    rows = []
    for fn, getter, sep in (("mem_leak_free", "getCurrentMallocAllocator", True), ("threadsafe_mem_leak_free", "getCurrentMallocAllocator", True),
                            ("mem_leak_operator_delete", "getCurrentNewAllocator", False), ("threadsafe_mem_leak_operator_delete", "getCurrentNewAllocator", False),
                            ("mem_leak_operator_delete_array", "getCurrentNewArrayAllocator", False),
                            ("threadsafe_mem_leak_operator_delete_array", "getCurrentNewArrayAllocator", False)):
        b = _body(plug, r"static\s+void\s+%s\s*\([^)]*\)[^{;]*\{" % fn)
        ok = False
        if b is not None:
            n = _norm(b)
            i1, i2 = n.find("invalidateMemory("), n.find("deallocMemory(%s()" % getter)
            ok = 0 <= i1 < i2
        if not ok:
            h.errors.append("C06: %s is no longer `invalidateMemory(p); deallocMemory(%s(), p...)`" % (fn, getter))
        rows.append(ok)
    t += "(* MemoryLeakWarningPlugin.cpp: number of release entry points of the shape `invalidateMemory(p); deallocMemory(current allocator, p)` *)\n"
    t += "Definition c06_poisoning_entry_points : N := %d%%N.\n" % sum(1 for r in rows if r)
    return t
