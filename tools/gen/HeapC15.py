"""LocationToFailAllocNode and the list-walking member functions of FailableMemoryAllocator, translated by tools/cxx2heap.py over the
object heap of coq/lib/CHeap.v (see tools/loopdefs.py)."""
import os, sys
sys.path.insert(0, os.path.dirname(os.path.dirname(os.path.abspath(__file__))))
import loopdefs


def generate(h):
    return loopdefs.generate_heap(h, "C15")
