"""Leaf functions of /repo mirrored by the C07 model, translated by tools/cxx2coq.py (see tools/leafdefs.py)."""
import os, sys
sys.path.insert(0, os.path.dirname(os.path.dirname(os.path.abspath(__file__))))
import leafdefs


def generate(h):
    return leafdefs.generate(h, "C07")
