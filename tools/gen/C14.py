"""C14: texts of the leak report assembled in SimpleStringBuffer (src/CppUTest/MemoryLeakDetector.cpp).
Only lengths enter the model: length of each footer string, the digits reserved for the total, the literal (non-conversion)
length of every format string together with a check that its conversions are the ones the model formats."""
import re

SRC = "src/CppUTest/MemoryLeakDetector.cpp"
LIT = r'"(?:[^"\\\n]|\\.)*"'
ESC = {"n": "\n", "t": "\t", "\\": "\\", '"': '"', "0": "\0", "r": "\r", "a": "\a"}


def unescape(lit):
    s, out, i = lit[1:-1], [], 0
    while i < len(s):
        if s[i] == "\\":
            out.append(ESC[s[i + 1]])
            i += 2
        else:
            out.append(s[i])
            i += 1
    return "".join(out)


def literals(text):
    return "".join(unescape(m) for m in re.findall(LIT, text))


CONV = re.compile(r"%[0-9]*(?:hh|h|ll|l)?[a-zA-Z]")


def cm(s):
    """text safe inside a Coq comment"""
    return repr(s).replace("*)", "* )").replace("(*", "( *")


def generate(h):
    src = h.src(SRC)
    t = ""

    def define(name, coq):
        nonlocal t
        m = re.search(r"#define\s+" + name + r"\s+((?:" + LIT + r"|\s|\\\n)+)", src)
        if not m:
            h.errors.append("%s: #define %s not found" % (SRC, name))
            return
        s = literals(m.group(1))
        t += "(* %s = %s *)\nDefinition %s : N := %d%%N.\n" % (name, cm(s), coq, len(s.encode()))

    define("MEM_LEAK_TOO_MUCH", "too_much_len")
    define("MEM_LEAK_FOOTER", "footer_len")
    define("MEM_LEAK_ADDITION_MALLOC_WARNING", "malloc_warning_len")
    t += h.defn_N("footer_digits_reserved", SRC, r"sizeof\(MEM_LEAK_FOOTER\)\s*\+\s*(\d+)\s*\+\s*sizeof\(MEM_LEAK_TOO_MUCH\)", "digits reserved for the total")
    # the write limit during a report = buffer length - (the three sizeof's + reserved digits); checked textually
    if not re.search(r"memory_leak_foot_size_with_malloc_warning\s*=\s*memory_leak_normal_footer_size\s*\+\s*sizeof\(MEM_LEAK_ADDITION_MALLOC_WARNING\)\s*;\s*"
                     r"outputBuffer_\.setWriteLimit\(SimpleStringBuffer::SIMPLE_STRING_BUFFER_LEN\s*-\s*memory_leak_foot_size_with_malloc_warning\)", src):
        h.errors.append("%s: startMemoryLeakReporting no longer computes the limit as LEN - (footer sizes)" % SRC)

    def fmt(coq, anchor, convs, what):
        """literal length of the first format string after `anchor`; its conversion list must be `convs`."""
        nonlocal t
        m = re.search(anchor + r"\s*((?:" + LIT + r"\s*)+)", src, re.S)
        if not m:
            h.errors.append("%s: format of %s not found" % (SRC, what))
            return
        s = literals(m.group(1))
        got = CONV.findall(s)
        if got != convs:
            h.errors.append("%s: %s: conversions %r, the model formats %r" % (SRC, what, got, convs))
            return
        lit = CONV.sub("", s)
        t += "(* %s: %s *)\nDefinition %s : N := %d%%N.\n" % (what, cm(s), coq, len(lit.encode()))

    fmt("leak_entry_lit", r"void MemoryLeakOutputStringBuffer::reportMemoryLeak\(.*?total_leaks_\+\+;\s*outputBuffer_\.add\(",
        ["%u", "%lu", "%s", "%d", "%s", "%p"], "leak entry")
    fmt("alloc_loc_lit", r"void MemoryLeakOutputStringBuffer::addAllocationLocation\([^)]*\)\s*\{\s*outputBuffer_\.add\(", ["%s", "%d", "%lu", "%s"], "allocation location")
    fmt("dealloc_loc_lit", r"void MemoryLeakOutputStringBuffer::addDeallocationLocation\([^)]*\)\s*\{\s*outputBuffer_\.add\(", ["%s", "%d", "%s"], "deallocation location")
    fmt("leak_header_len", r"void MemoryLeakOutputStringBuffer::addMemoryLeakHeader\(\)\s*\{\s*outputBuffer_\.add\(", [], "report header")
    fmt("no_leaks_len", r"void MemoryLeakOutputStringBuffer::addNoMemoryLeaksMessage\(\)\s*\{\s*outputBuffer_\.add\(", [], "no-leaks message")
    fmt("footer_fmt_lit", r"void MemoryLeakOutputStringBuffer::addMemoryLeakFooter\([^)]*\)\s*\{\s*outputBuffer_\.add\(", ["%s", "%d"], "footer format")
    fmt("msg_nonallocated_len", r"reportDeallocateNonAllocatedMemoryFailure\([^)]*\)\s*\{\s*reportFailure\(", [], "non-allocated message")
    fmt("msg_mismatch_len", r"reportAllocationDeallocationMismatchFailure\([^)]*\)\s*\{\s*reportFailure\(", [], "mismatch message")
    fmt("msg_corruption_len", r"reportMemoryCorruptionFailure\([^)]*\)\s*\{\s*reportFailure\(", [], "corruption message")
    fmt("unknown_file_len", r"reportFailure\(\"Deallocating non-allocated memory\\n\",", [], "allocation file of a non-allocated report")
    if not re.search(r"reportFailure\(\"Deallocating non-allocated memory\\n\",\s*\"<unknown>\",\s*0,\s*0,\s*NullUnknownAllocator::defaultAllocator\(\)", src):
        h.errors.append("%s: non-allocated report no longer passes (\"<unknown>\", 0, 0, NullUnknownAllocator)" % SRC)
    m = re.search(r"NullUnknownAllocator::NullUnknownAllocator\(\)\s*:\s*TestMemoryAllocator\(\s*" + LIT + r"\s*,\s*(" + LIT + r")", h.src("src/CppUTest/TestMemoryAllocator.cpp"))
    if m:
        t += "(* NullUnknownAllocator alloc_name *)\nDefinition unknown_alloc_name_len : N := %d%%N.\n" % len(unescape(m.group(1)))
    else:
        h.errors.append("TestMemoryAllocator.cpp: NullUnknownAllocator names not found")
    t += h.defn_N("dump_line_bytes", SRC, r"const size_t maxLineBytes\s*=\s*(\d+)\s*;", "bytes per dump line")
    t += h.defn_N("diff_window", "src/CppUTest/TestFailure.cpp", r"const size_t extraCharactersWindow\s*=\s*(\d+)\s*;", "window of the difference marker")
    return t
