"""C12: the option-dispatch order of CommandLineArguments::parse and the output-type names, re-read from the source."""
import re

P = "src/CppUTest/CommandLineArguments.cpp"


def generate(h):
    src = h.src(P)
    m = re.search(r"bool CommandLineArguments::parse\(TestPlugin\* plugin\)\s*\{(.*?)\n\}\n", src, re.S)
    t = "Inductive c12_match := MExact | MPrefix.\n"
    if not m:
        h.errors.append(P + ": body of CommandLineArguments::parse not found")
        return t
    body = m.group(1)
    rules = [("MExact" if x.group(1) is not None else "MPrefix", x.group(1) if x.group(1) is not None else x.group(2))
             for x in re.finditer(r'argument == "([^"]*)"|argument\.startsWith\("([^"]*)"\)', body)]
    # every branch of the chain must be built from the two recognised forms
    branches = re.findall(r"(?:else )?if \((.*?)\)(?: \{| \w|\n)", body)
    chain = [b for b in branches if "argument" in b]
    unrecognised = [b for b in chain if not re.search(r'argument == "|argument\.startsWith\("', b)]
    if len(rules) < 20 or unrecognised or len(chain) + 1 != len(branches):
        h.errors.append(P + ": dispatch chain of parse() not recognised (%d rules, %d branches)" % (len(rules), len(branches)))
    if not re.search(r"else correctParameters = false;", body):
        h.errors.append(P + ": final `else correctParameters = false` of parse() not found")
    t += "(* %s: the else-if chain of CommandLineArguments::parse, in source order *)\n" % P
    t += "Definition c12_dispatch : list (c12_match * list N) :=\n  [ "
    t += ";\n    ".join("(%s, %s) (* %s *)" % (k, h.coq_bytes(s.encode()), s) for k, s in rules)
    t += " ].\n"
    # setOutputType: names and the output kind they select
    m2 = re.search(r"bool CommandLineArguments::setOutputType\(.*?\)\s*\{(.*?)\n\}\n", src, re.S)
    outs = []
    if m2:
        for blk in re.finditer(r"if \(([^{]*?)\)\s*\{\s*outputType_ = OUTPUT_(\w+);", m2.group(1)):
            kind = {"ECLIPSE": 0, "JUNIT": 1, "TEAMCITY": 2}.get(blk.group(2))
            for nm in re.findall(r'outputType == "([^"]*)"', blk.group(1)):
                outs.append((nm, kind))
    if len(outs) < 3 or any(k is None for _, k in outs):
        h.errors.append(P + ": output type names of setOutputType not recognised")
    t += "(* %s: setOutputType, name -> 0 eclipse | 1 junit | 2 teamcity *)\n" % P
    t += "Definition c12_outputs : list (list N * N) :=\n  [ "
    t += ";\n    ".join("(%s, %d%%N) (* %s *)" % (h.coq_bytes(n.encode()), k or 0, n) for n, k in outs)
    t += " ].\n"
    t += help_table(h, src)
    return t


FILTER_OPTS = ["-g", "-n", "-t", "-sg", "-sn", "-st", "-xg", "-xn", "-xt", "-xsg", "-xsn", "-xst", "TEST("]


def help_table(h, src):
    """The sentences of help() about the options that control which tests are run, as data:
    (option literal, exclude?, exact?, subject) with subject SGroup | SName | SBothAnd ("group and name ... <g> and <n>")
    | SEitherOr ("group ... <g> or whose name ... <n>")."""
    t = "Inductive c12_subject := SGroup | SName | SBothAnd | SEitherOr.\n"
    m = re.search(r"const char\* CommandLineArguments::help\(\) const\s*\{(.*?)\n\}\n", src, re.S)
    if not m:
        h.errors.append(P + ": body of CommandLineArguments::help not found")
        return t
    text = "".join(bytes(x, "latin1").decode("unicode_escape") for x in re.findall(r'"((?:[^"\\]|\\.)*)"', m.group(1)))
    text = re.sub(r'\n\s+- ', " - ", text)                  # the TEST( form has its explanation on the next line
    rel = r"(contains?|exactly match(?:es)?)"
    rows = []
    for line in text.split("\n"):
        mm = re.match(r'\s*"?(?:\[IGNORE_\])?(-\w+|TEST\()[^-]*? - (only run|exclude) tests whose (.*)$', line)
        if not mm:
            continue
        opt, verb, rest = mm.group(1), mm.group(2), mm.group(3).strip()
        a = re.fullmatch(r"(group|name) %s <\w+>" % rel, rest)
        b = re.fullmatch(r"group and name %s <\w+> and <\w+>" % rel, rest)
        c = re.fullmatch(r"group %s <\w+> or whose name %s <\w+>" % (rel, rel), rest)
        if a:
            subj, r = ("SGroup" if a.group(1) == "group" else "SName"), a.group(2)
        elif b:
            subj, r = "SBothAnd", b.group(1)
        elif c and c.group(1).startswith("exact") == c.group(2).startswith("exact"):
            subj, r = "SEitherOr", c.group(1)
        else:
            h.errors.append(P + ": help sentence of %s not recognised: %r" % (opt, rest))
            continue
        rows.append((opt, verb == "exclude", r.startswith("exact"), subj))
    got = [r[0] for r in rows]
    if sorted(got) != sorted(FILTER_OPTS):
        h.errors.append(P + ": help() sentences for the test-selection options not recognised (got %s)" % ",".join(got))
    t += "(* %s: help(), what each test-selection option is documented to do: (option, (exclude, (exact, subject))) *)\n" % P
    t += "Definition c12_help : list (list N * (bool * (bool * c12_subject))) :=\n  [ "
    t += ";\n    ".join("(%s, (%s, (%s, %s))) (* %s *)" % (h.coq_bytes(o.encode()), str(e).lower(), str(x).lower(), sj, o) for o, e, x, sj in rows)
    t += " ].\n"
    return t
