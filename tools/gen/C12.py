"""C12: the option-dispatch order of CommandLineArguments::parse and the output-type names, re-read from the source."""
import re

P = "src/CppUTest/CommandLineArguments.cpp"


def generate(h):
    src = h.src(P)
    m = re.search(r"bool CommandLineArguments::parse\(TestPlugin\* plugin\)\s*\{(.*?)\n\}\n", src, re.S)
    t = "Inductive c12_match := MExact | MPrefix.\n"
    if not m:
        h.errors.append(P + ": body of CommandLineArguments::parse not found")
        return t
    body = m.group(1)
    rules = [("MExact" if x.group(1) is not None else "MPrefix", x.group(1) if x.group(1) is not None else x.group(2))
             for x in re.finditer(r'argument == "([^"]*)"|argument\.startsWith\("([^"]*)"\)', body)]
    # every branch of the chain must be built from the two recognised forms
    branches = re.findall(r"(?:else )?if \((.*?)\)(?: \{| \w|\n)", body)
    chain = [b for b in branches if "argument" in b]
    unrecognised = [b for b in chain if not re.search(r'argument == "|argument\.startsWith\("', b)]
    if len(rules) < 20 or unrecognised or len(chain) + 1 != len(branches):
        h.errors.append(P + ": dispatch chain of parse() not recognised (%d rules, %d branches)" % (len(rules), len(branches)))
    if not re.search(r"else correctParameters = false;", body):
        h.errors.append(P + ": final `else correctParameters = false` of parse() not found")
    t += "(* %s: the else-if chain of CommandLineArguments::parse, in source order *)\n" % P
    t += "Definition c12_dispatch : list (c12_match * list N) :=\n  [ "
    t += ";\n    ".join("(%s, %s) (* %s *)" % (k, h.coq_bytes(s.encode()), s) for k, s in rules)
    t += " ].\n"
    # setOutputType: names and the output kind they select
    m2 = re.search(r"bool CommandLineArguments::setOutputType\(.*?\)\s*\{(.*?)\n\}\n", src, re.S)
    outs = []
    if m2:
        for blk in re.finditer(r"if \(([^{]*?)\)\s*\{\s*outputType_ = OUTPUT_(\w+);", m2.group(1)):
            kind = {"ECLIPSE": 0, "JUNIT": 1, "TEAMCITY": 2}.get(blk.group(2))
            for nm in re.findall(r'outputType == "([^"]*)"', blk.group(1)):
                outs.append((nm, kind))
    if len(outs) < 3 or any(k is None for _, k in outs):
        h.errors.append(P + ": output type names of setOutputType not recognised")
    t += "(* %s: setOutputType, name -> 0 eclipse | 1 junit | 2 teamcity *)\n" % P
    t += "Definition c12_outputs : list (list N * N) :=\n  [ "
    t += ";\n    ".join("(%s, %d%%N) (* %s *)" % (h.coq_bytes(n.encode()), k or 0, n) for n, k in outs)
    t += " ].\n"
    return t
