"""Translator for the 30 mixed-integer-type branches of MockNamedValue::equals (src/CppUTestExt/MockNamedValue.cpp):
each `if ((type_ == "A") && (p.type_ == "B")) return EXPR;` becomes one `branch` record (types in coq/C09_Table.v).
EXPR grammar accepted:   [ (G >= 0) && ] ( L == R )   with operands  [(cast)] [p.]value_.<field>  ; anything else is an error."""
import re
TY = {"int": "TInt", "unsigned int": "TUInt", "long int": "TLong", "unsigned long int": "TULong",
      "long long int": "TLLong", "unsigned long long int": "TULLong"}
CAST = {"unsigned int": "TUInt", "unsigned long": "TULong", "unsigned long long": "TULLong", "unsigned long int": "TULong",
        "unsigned long long int": "TULLong", "int": "TInt", "long": "TLong", "long int": "TLong", "long long": "TLLong", "long long int": "TLLong"}
FIELD = {"intValue_": "TInt", "unsignedIntValue_": "TUInt", "longIntValue_": "TLong", "unsignedLongIntValue_": "TULong",
         "longLongIntValue_": "TLLong", "unsignedLongLongIntValue_": "TULLong"}
OP = r"(?:\(\s*([a-z ]+?)\s*\)\s*)?(p\.)?value_\.(\w+)"


def operand(m, k):
    cast, other, field = m.group(k), m.group(k + 1), m.group(k + 2)
    if field not in FIELD or (cast is not None and cast not in CAST):
        raise ValueError("operand %r %r" % (cast, field))
    return "{| o_cast := %s; o_side := %s; o_field := %s |}" % ("Some " + CAST[cast] if cast else "None", "Other" if other else "Self", FIELD[field])


def generate(h):
    src = h.src("src/CppUTestExt/MockNamedValue.cpp")
    a = src.find("bool MockNamedValue::equals(")
    b = src.find("if (type_ != p.type_) return false;", a)
    if a < 0 or b < 0:
        h.errors.append("C09: MockNamedValue::equals not found")
        return ""
    body = src[a:b]
    heads = list(re.finditer(r'if\s*\(\s*\(\s*type_\s*==\s*"([^"]+)"\s*\)\s*&&\s*\(\s*p\.type_\s*==\s*"([^"]+)"\s*\)\s*\)\s*return\s+([^;]+);', body))
    if len(heads) < 12:
        h.errors.append("C09: only %d mixed-type branches recognised" % len(heads))
    n_if = len(re.findall(r"\bif\s*\(", body))
    if n_if != len(heads):
        h.errors.append("C09: %d `if` statements in the mixed-type chain but %d recognised" % (n_if, len(heads)))
    rows = []
    for m in heads:
        t1, t2, e = m.group(1), m.group(2), m.group(3).strip()
        if t1 not in TY or t2 not in TY:
            h.errors.append("C09: unknown type names %r %r" % (t1, t2))
            continue
        g = re.fullmatch(r"\(\s*" + OP + r"\s*>=\s*0\s*\)\s*&&\s*\(\s*" + OP + r"\s*==\s*" + OP + r"\s*\)", e)
        p = re.fullmatch(OP + r"\s*==\s*" + OP, e)
        try:
            if g:
                rows.append("{| b_self := %s; b_other := %s; b_guard := Some %s; b_l := %s; b_r := %s |}" %
                            (TY[t1], TY[t2], "(" + operand(g, 1) + ")", operand(g, 4), operand(g, 7)))
            elif p:
                rows.append("{| b_self := %s; b_other := %s; b_guard := None; b_l := %s; b_r := %s |}" %
                            (TY[t1], TY[t2], operand(p, 1), operand(p, 4)))
            else:
                h.errors.append("C09: branch (%s,%s): expression not in the accepted grammar: %s" % (t1, t2, e))
        except ValueError as ex:
            h.errors.append("C09: branch (%s,%s): %s" % (t1, t2, ex))
    return ("From CppUVerif Require Import lib.CInt C09_Table.\n\n(* src/CppUTestExt/MockNamedValue.cpp, MockNamedValue::equals, in source order *)\n"
            "Definition equals_branches : list branch :=\n  [ " + ";\n    ".join(rows) + " ].\n")
