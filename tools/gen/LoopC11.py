"""GccPlatformSpecificRunTestInASeperateProcess (fork, the child's verdict, the parent's wait loop), translated by tools/cxx2gal.py
(see tools/loopdefs.py)."""
import os, sys
sys.path.insert(0, os.path.dirname(os.path.dirname(os.path.abspath(__file__))))
import loopdefs


def generate(h):
    return loopdefs.generate(h, "C11")
