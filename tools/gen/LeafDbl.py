"""doubles_equal of /repo translated to Gallina over Flocq's binary64 (lib/Dbl.v) by tools/cxx2coq.py."""
import os, sys
sys.path.insert(0, os.path.dirname(os.path.dirname(os.path.abspath(__file__))))
import cxx2coq

FUNCS = [
    dict(file="src/CppUTest/Utest.cpp", name="doubles_equal", coq="leaf_doubles_equal",
         calls={"PlatformSpecificIsNan": "b2z (d_is_nan {0})", "PlatformSpecificIsInf": "b2z (d_is_inf {0})",
                "PlatformSpecificFabs": "d_abs {0}"}),
]
HEADER = ("From CppUVerif Require Import lib.CSem lib.Dbl.\nLocal Open Scope Z_scope.\n"
          "(* translated by tools/cxx2coq.py; PlatformSpecificIsNan/IsInf/Fabs are mapped to Flocq's is_nan / infinity test / Babs, "
          "`-`, `<=`, `==` on double to Bminus mode_NE / Bcompare *)\n")


def generate(h):
    repo = os.environ.get("VERIF_REPO", "/repo")
    root = os.path.dirname(os.path.dirname(os.path.dirname(os.path.abspath(__file__))))
    return cxx2coq.generate_cached(h, repo, root, "LeafDbl", FUNCS, HEADER)
