"""Translator-lite for C19: the wiring of the C mocking interface.
  include/CppUTestExt/MockSupport_c.h : field order and C signatures of MockActualCall_c, MockExpectedCall_c, MockSupport_c; the tags of
                                       MockValueType_c and the members of the MockValue_c union
  src/CppUTestExt/MockSupport_c.cpp   : the three positional initialisers, EVERY forwarder (signature + body in a small normal form:
                                       receiver, C++ method, argument expressions, result wrapper, default handling), the
                                       comparator/copier adaptors, the type-name dispatch of getMockValueCFromNamedValue
Types are in coq/C19_Table.v.  Anything outside the accepted shapes becomes BOther "<text>" (and the wiring theorem fails on it);
a structural pattern that does not match at all is an error."""
import re

CTY = {
    "void": "TVoid", "int": "TI TInt", "unsigned int": "TI TUInt", "unsigned": "TI TUInt", "const unsigned int": "TI TUInt",
    "long int": "TI TLong", "unsigned long int": "TI TULong", "cpputest_longlong": "TI TLLong", "cpputest_ulonglong": "TI TULLong",
    "double": "TDouble", "const char*": "TCharP", "void*": "TVoidP", "const void*": "TCVoidP", "const unsigned char*": "TUCharP",
    "size_t": "TSize", "MockValue_c": "TValueC", "MockExpectedCall_c*": "TExpTbl", "MockActualCall_c*": "TActTbl",
    "MockSupport_c*": "TSupTbl", "MockTypeEqualFunction_c": "TEqFn", "MockTypeValueToStringFunction_c": "TStrFn",
    "MockTypeCopyFunction_c": "TCopyFn", "void(*)()": "TFunP", "void(*)(void)": "TFunP", "MockValueType_c": "TTag",
}


def q(s):
    return '"' + s.replace('"', '""') + '"'


def norm_type(t):
    t = re.sub(r"\s+", " ", t.strip())
    t = re.sub(r"\s*\*\s*", "*", t)
    t = re.sub(r"\s*\(\s*", "(", t)
    t = re.sub(r"\s*\)\s*", ")", t)
    return t


def cty(t, errors, where):
    n = norm_type(t)
    if n not in CTY:
        errors.append("C19: unknown C type %r in %s" % (n, where))
        return "TVoid"
    return CTY[n]


def split_top(s):
    out, depth, cur = [], 0, ""
    for ch in s:
        if ch == "(":
            depth += 1
        elif ch == ")":
            depth -= 1
        if ch == "," and depth == 0:
            out.append(cur)
            cur = ""
        else:
            cur += ch
    if cur.strip():
        out.append(cur)
    return [x.strip() for x in out]


def parse_param(p, errors, where):
    """'const char* name' | 'void (*value)(void)' | 'void' -> (cty, name)"""
    p = p.strip()
    m = re.fullmatch(r"void\s*\(\s*\*\s*(\w*)\s*\)\s*\(\s*(?:void)?\s*\)", p)
    if m:
        return ("TFunP", m.group(1))
    m = re.fullmatch(r"(.*?[\s\*])(\w+)", p)
    if m and norm_type(m.group(1)) in CTY:
        return (cty(m.group(1), errors, where), m.group(2))
    if norm_type(p) in CTY:     # unnamed parameter
        return (cty(p, errors, where), "")
    errors.append("C19: parameter %r not understood in %s" % (p, where))
    return ("TVoid", "")


def parse_params(ps, errors, where):
    ps = ps.strip()
    if ps in ("", "void"):
        return []
    return [parse_param(p, errors, where) for p in split_top(ps)]


def decl(text, errors, where, definition=False):
    """one declarator -> (ret cty, name, params) or None.
       struct fields:  'RET (*NAME)(PARAMS)'  'void (*(*NAME)(PARAMS))(void)'
       definitions:    'RET NAME(PARAMS)'     'void (*NAME(PARAMS))()'          (PARAMS may contain 'void (*value)()')"""
    t = re.sub(r"\s+", " ", text.strip())
    if definition:
        m = re.fullmatch(r"(?:static )?void \(\*\s*(\w+)\s*\((.*)\)\)\s*\((?:void)?\)", t)
        if m:
            return ("TFunP", m.group(1), parse_params(m.group(2), errors, where))
        m = re.fullmatch(r"(?:static )?([\w ]+?[\s\*]+)(\w+)\s*\((.*)\)", t)
        if m:
            if not m.group(2).endswith("_c"):
                return None
            return (cty(m.group(1), errors, where), m.group(2), parse_params(m.group(3), errors, where))
        return None
    m = re.fullmatch(r"void \(\*\s*\(\*\s*(\w+)\)\s*\((.*)\)\)\s*\((?:void)?\)", t)
    if m:
        return ("TFunP", m.group(1), parse_params(m.group(2), errors, where))
    m = re.fullmatch(r"(.*?)\(\s*\*\s*(\w+)\s*\)\s*\((.*)\)", t)
    if m:
        return (cty(m.group(1), errors, where), m.group(2), parse_params(m.group(3), errors, where))
    return None


def coq_sig(ret, params):
    return "(%s, [%s])" % (ret, "; ".join(p[0] for p in params))


def arg_exp(a, names):
    a = a.strip()
    if re.fullmatch(r"\w+", a):
        return "AParam %d" % names.index(a) if a in names else "ALit " + q(a)
    m = re.fullmatch(r"\(?\s*(\w+) != 0\s*\)?", a) or re.fullmatch(r"\(?\s*0 != (\w+)\s*\)?", a)
    if m and m.group(1) in names:
        return "ANonZero %d" % names.index(m.group(1))
    m = re.fullmatch(r"\(\s*([\w ]+?[\w\*]*)\s*\)\s*(\w+)", a)
    if m and m.group(2) in names:
        if m.group(1) == "cpputest_cpp_function_pointer":
            return "ACastFun %d" % names.index(m.group(2))
        return "ACast %s %d" % (q(norm_type(m.group(1))), names.index(m.group(2)))
    return "ALit " + q(a)


def args_exp(s, names):
    return "[" + "; ".join(arg_exp(a, names) for a in split_top(s)) + "]" if s.strip() else "[]"


CALL = r"(\w+)->(\w+)\((.*)\)"


def body_exp(name, body, names):
    b = re.sub(r"/\*.*?\*/", " ", body, flags=re.S)
    b = re.sub(r"//[^\n]*", " ", b)
    b = re.sub(r"\s+", " ", b).strip()
    m = re.fullmatch(r"(\w+) = &" + CALL + r"; return &(\w+);", b)
    if m:
        return "BChain %s %s %s %s %s" % (q(m.group(1)), q(m.group(2)), q(m.group(3)), args_exp(m.group(4), names), q(m.group(5)))
    m = re.fullmatch(r"currentMockSupport = &mock\((.*)\); return &gMockSupport;", b)
    if m and len(split_top(m.group(1))) == 2:
        sc, rep = split_top(m.group(1))
        return "BSelect (%s) %s" % (arg_exp(sc, names), q(re.sub(r"\s+", "", rep)))
    m = re.fullmatch(CALL + r";", b)
    if m and ";" not in m.group(3):
        return "BVoid %s %s %s" % (q(m.group(1)), q(m.group(2)), args_exp(m.group(3), names))
    # the three ways of writing "has ? get : default"
    m = re.fullmatch(r"if \(!(\w+)\(\)\) (?:\{ )?return (\w+);(?: \})? return (\w+)\(\);", b)
    if m and m.group(2) in names:
        return "BOrDefault %s %d %s" % (q(m.group(1)), names.index(m.group(2)), q(m.group(3)))
    m = re.fullmatch(r"if \((\w+)\(\)\) (?:\{ )?return (\w+)\(\);(?: \})? return (\w+);", b) or \
        re.fullmatch(r"return (\w+)\(\) \? (\w+)\(\) : (\w+);", b)
    if m and m.group(3) in names:
        return "BOrDefault %s %d %s" % (q(m.group(1)), names.index(m.group(3)), q(m.group(2)))
    for pat, w in ((r"return " + CALL + r" \? 1 : 0;", "WBool01"), (r"return \(void \(\*\)\(\)\) ?" + CALL + r";", "WFunCast"),
                   (r"return getMockValueCFromNamedValue\(" + CALL + r"\);", "WValueC"), (r"return " + CALL + r";", "WNone")):
        m = re.fullmatch(pat, b)
        if m and ";" not in m.group(3) and "?" not in m.group(3):
            return "BRet %s %s %s %s" % (w, q(m.group(1)), q(m.group(2)), args_exp(m.group(3), names))
    if b == ("comparatorList_ = new MockCFunctionComparatorNode(comparatorList_, isEqual, valueToString); "
             "currentMockSupport->installComparator(typeName, *comparatorList_);") and names == ["typeName", "isEqual", "valueToString"]:
        return "BInstallCmp"
    if b == ("copierList_ = new MockCFunctionCopierNode(copierList_, copier); currentMockSupport->installCopier(typeName, *copierList_);") \
            and names == ["typeName", "copier"]:
        return "BInstallCopy"
    if b == ("while (comparatorList_) { MockCFunctionComparatorNode *next = comparatorList_->next_; delete comparatorList_; comparatorList_ = next; } "
             "while (copierList_) { MockCFunctionCopierNode *next = copierList_->next_; delete copierList_; copierList_ = next; } "
             "currentMockSupport->removeAllComparatorsAndCopiers();"):
        return "BRemoveAll"
    return "BOther " + q(b)


def squash(t):
    t = re.sub(r"/\*.*?\*/", " ", t, flags=re.S)
    t = re.sub(r"//[^\n]*", " ", t)
    return re.sub(r"\s+", " ", t).strip()


def reporter_facts(h, csrc):
    """how a mock failure leaves the test: the two reporter classes (the C layer's and the C++ one) reduced to one shape -- failTest hands
    the reporter's crashOnFailure_ to a terminator, the terminator runs UT_CRASH() iff that flag is set and then leaves the test through
    <exit> -- with the class-specific names taken out (C.terminator / C.exit / X.terminator / X.exit); and what MockSupport does with its
    activeReporter_ (who sets it, who reads it, what clear() does to it)."""
    E = h.errors
    rows = []

    def body(text, pat, what):
        m = re.search(pat, text, re.S)
        if not m:
            E.append("C19: %s not found" % what)
            return "?"
        return squash(m.group(1))

    def shape(prefix, fail, leave):
        m = re.search(r"failWith\(failure, (\w+)\(crashOnFailure_\)\)", fail)
        term = m.group(1) if m else "?"
        m2 = re.search(r"([\w:]+\(\))\.exitCurrentTest\(\);", leave)
        ex = m2.group(1) if m2 else "?"
        rows.append((prefix + ".failTest", fail.replace(term + "(", "TERMINATOR(") if m else fail))
        rows.append((prefix + ".terminator", term))
        rows.append((prefix + ".exitCurrentTest", leave.replace(ex, "EXIT") if m2 else leave))
        rows.append((prefix + ".exit", ex))

    # the C layer (src/CppUTestExt/MockSupport_c.cpp)
    cls = re.search(r"class MockFailureReporterForInCOnlyCode\b(.*?)\n\};", csrc, re.S)
    ctext = cls.group(0) if cls else ""
    tcls = re.search(r"class MockFailureReporterTestTerminatorForInCOnlyCode\b(.*?)\n\};", csrc, re.S)
    ttext = tcls.group(0) if tcls else ""
    if not cls or not tcls:
        E.append("C19: the C failure reporter / its terminator class not found")
    shape("C", body(ctext, r"\bfailTest\s*\([^)]*\)\s*CPPUTEST_OVERRIDE\s*\{([^{}]*)\}", "C reporter failTest"),
          body(ttext, r"\bexitCurrentTest\s*\(\s*\)\s*const\s*CPPUTEST_OVERRIDE\s*\{([^{}]*)\}", "C terminator exitCurrentTest"))
    rows.append(("C.reporter", body(ctext, r"(class MockFailureReporterForInCOnlyCode[^{]*)\{", "C reporter class head")))
    rows.append(("C.methods", " ".join(re.findall(r"\b(\w+)\s*\([^)]*\)\s*(?:const\s*)?CPPUTEST_OVERRIDE", ctext))))
    rows.append(("C.terminator.flag", body(ttext, r"ForInCOnlyCode\s*\(\s*bool\s+crashOnFailure\s*\)\s*:\s*([^{]*)\{", "C terminator constructor")))
    rows.append(("C.object", body(csrc, r"\n(static\s+\w+\s+failureReporterForC\s*;)", "failureReporterForC")))
    # the C++ reporter (src/CppUTestExt/MockFailure.cpp, include/CppUTestExt/MockFailure.h)
    fsrc = h.src("src/CppUTestExt/MockFailure.cpp")
    fhdr = h.src("include/CppUTestExt/MockFailure.h")
    xt = re.search(r"class MockFailureReporterTestTerminator\b(.*?)\n\};", fsrc, re.S)
    xtext = xt.group(0) if xt else ""
    shape("X", body(fsrc, r"void MockFailureReporter::failTest\s*\([^)]*\)\s*\{([^{}]*)\}", "MockFailureReporter::failTest"),
          body(xtext, r"\bexitCurrentTest\s*\(\s*\)\s*const\s*CPPUTEST_OVERRIDE\s*\{([^{}]*)\}", "C++ terminator exitCurrentTest"))
    rows.append(("X.terminator.flag", body(xtext, r"MockFailureReporterTestTerminator\s*\(\s*bool\s+crashOnFailure\s*\)\s*:\s*([^{]*)\{", "C++ terminator constructor")))
    rows.append(("X.crashOnFailure", body(fhdr, r"virtual\s+void\s+crashOnFailure\s*\(\s*bool\s+shouldCrash\s*\)\s*\{([^{}]*)\}", "MockFailureReporter::crashOnFailure")))
    out = ["(* src/CppUTestExt/MockSupport_c.cpp, src/CppUTestExt/MockFailure.cpp, include/CppUTestExt/MockFailure.h *)\n"
           "Definition reporter_bodies : list (name * name) :=\n  [ %s ]." % ";\n    ".join("(%s, %s)" % (q(a), q(b)) for a, b in rows)]
    # MockSupport and its activeReporter_ (src/CppUTestExt/MockSupport.cpp, include/CppUTestExt/MockSupport.h)
    ssrc = h.src("src/CppUTestExt/MockSupport.cpp")
    shdr = h.src("include/CppUTestExt/MockSupport.h")
    rows = []
    rows.append(("mock", body(ssrc, r"\nMockSupport& mock\([^)]*\)\s*\{(.*?)\n\}", "mock()")))
    rows.append(("mock.default", body(shdr, r"MockSupport& mock\([^;]*MockFailureReporter\*\s*\w+\s*=\s*(\w+)\s*\)\s*;", "default reporter argument of mock()")))
    rows.append(("setActiveReporter", body(ssrc, r"void MockSupport::setActiveReporter\([^)]*\)\s*\{([^{}]*)\}", "MockSupport::setActiveReporter")))
    rows.append(("crashOnFailure", body(ssrc, r"void MockSupport::crashOnFailure\([^)]*\)\s*\{([^{}]*)\}", "MockSupport::crashOnFailure")))
    rows.append(("failTest", body(ssrc, r"void MockSupport::failTest\([^)]*\)\s*\{([^{}]*)\}", "MockSupport::failTest")))
    rows.append(("createActualCall.reporter", body(ssrc, r"new MockCheckedActualCall\(\s*[^,]*,\s*(\w+)\s*,", "reporter of a new actual call")))
    # clear(): every identifier that has to do with a reporter (none: clear() leaves activeReporter_ / standardReporter_ alone)
    cl = re.search(r"\nvoid MockSupport::clear\(\)\s*\{(.*?)\n\}", ssrc, re.S)
    if not cl:
        E.append("C19: MockSupport::clear not found")
    rows.append(("clear.reporters", " ".join(sorted(set(re.findall(r"\b\w*[Rr]eporter\w*", squash(cl.group(1)) if cl else "?"))))))
    cn = re.search(r"MockSupport\* MockSupport::clone\([^)]*\)\s*\{(.*?)\n\}", ssrc, re.S)
    rows.append(("clone.reporters", " ".join(re.findall(r"newMock->(set\w*Reporter\([^)]*\));", squash(cn.group(1)) if cn else ""))))
    ctor = re.search(r"MockSupport::MockSupport\([^)]*\)\s*:(.*?)\{", ssrc, re.S)
    rows.append(("constructor.reporters", " ".join(re.findall(r"\b\w*Reporter_\([^)]*\)", squash(ctor.group(1)) if ctor else ""))))
    out.append("Definition support_reporter_facts : list (name * name) :=\n  [ %s ]." % ";\n    ".join("(%s, %s)" % (q(a), q(b)) for a, b in rows))
    return out


def generate(h):
    E = h.errors
    hdr = h.src("include/CppUTestExt/MockSupport_c.h")
    src = h.src("src/CppUTestExt/MockSupport_c.cpp")
    out = ["From CppUVerif Require Import lib.CInt C19_Table.", "Local Open Scope name_scope.", ""]
    # ---- header: enum tags, union members, the three structs
    m = re.search(r"typedef enum \{(.*?)\}\s*MockValueType_c;", hdr, re.S)
    tags = re.findall(r"\b(MOCKVALUETYPE_\w+)", m.group(1)) if m else []
    if not tags:
        E.append("C19: enum MockValueType_c not found")
    out.append("(* include/CppUTestExt/MockSupport_c.h *)\nDefinition value_tags : list name := [%s]." % "; ".join(q(t) for t in tags))
    m = re.search(r"union \{(.*?)\} value;", hdr, re.S)
    members = []
    if m:
        u = re.sub(r"#else.*?#endif", "", m.group(1), flags=re.S)
        u = re.sub(r"#if[^\n]*", "", u)
        for st in u.split(";"):
            st = st.strip()
            if not st:
                continue
            p = parse_param(st, E, "union MockValue_c")
            members.append("(%s, %s)" % (q(p[1]), p[0]))
    else:
        E.append("C19: union of MockValue_c not found")
    out.append("Definition union_members : list (name * cty) := [%s]." % "; ".join(members))
    for tag, nm in (("SMockActualCall_c", "actual_fields"), ("SMockExpectedCall_c", "expected_fields"), ("SMockSupport_c", "support_fields")):
        m = re.search(r"struct\s+%s\s*\{(.*?)\n\};" % tag, hdr, re.S)
        rows = []
        if not m:
            E.append("C19: struct %s not found" % tag)
        else:
            for st in m.group(1).split(";"):
                if not st.strip():
                    continue
                d = decl(st, E, tag)
                if not d:
                    E.append("C19: field declaration not understood in %s: %r" % (tag, st.strip()))
                    continue
                rows.append("(%s, %s)" % (q(d[1]), coq_sig(d[0], d[2])))
        out.append("Definition %s : list (name * csig) :=\n  [ %s ]." % (nm, ";\n    ".join(rows)))
    # ---- source: initialisers
    for var, nm in (("gActualCall", "actual_init"), ("gExpectedCall", "expected_init"), ("gMockSupport", "support_init")):
        m = re.search(r"static\s+Mock\w+_c\s+%s\s*=\s*\{(.*?)\};" % var, src, re.S)
        if not m:
            E.append("C19: initialiser of %s not found" % var)
            items = []
        else:
            items = [x.strip() for x in m.group(1).split(",") if x.strip()]
            bad = [x for x in items if not re.fullmatch(r"\w+", x)]
            if bad:
                E.append("C19: initialiser of %s has non-identifier entries %r" % (var, bad[:3]))
        out.append("(* src/CppUTestExt/MockSupport_c.cpp *)\nDefinition %s : list name :=\n  [ %s ]." % (nm, "; ".join(q(x) for x in items)))
    # ---- source: every forwarder definition (configuration CPPUTEST_USE_LONG_LONG = 1: the #else branches are dropped)
    s2 = re.sub(r"\n#else.*?\n#endif", "\n", src, flags=re.S)
    s2 = re.sub(r"\n#(?:if|endif)[^\n]*", "\n", s2)
    defs = []
    seen = set()
    for m in re.finditer(r"\n((?:static\s+)?[\w \*]+?[\s\*]\(?\*?\w+\s*\([^{};]*\)(?:\)\(\))?)\s*\n\{\n(.*?)\n\}", s2, re.S):
        head, body = m.group(1), m.group(2)
        if "::" in head or head.strip().startswith("class") or "virtual" in head:
            continue
        d = decl(head, E, "definition", definition=True)
        if not d:
            continue
        ret, name, params = d
        if not name.endswith("_c") or name in seen:
            continue
        seen.add(name)
        names = [p[1] for p in params]
        defs.append("{| f_name := %s; f_sig := %s; f_body := %s |}" % (q(name), coq_sig(ret, params), body_exp(name, body, names)))
    if len(defs) < 100:
        E.append("C19: only %d forwarder definitions recognised" % len(defs))
    out.append("Definition forwarders : list fdef :=\n  [ %s ]." % ";\n    ".join(defs))
    # ---- adaptors
    ad = []
    for cls, meth in (("MockCFunctionComparatorNode", "isEqual"), ("MockCFunctionComparatorNode", "valueToString"), ("MockCFunctionCopierNode", "copy")):
        c = re.search(r"class %s\b.*?\n\};" % cls, src, re.S)
        m = re.search(r"\b%s\s*\([^)]*\)\s*CPPUTEST_OVERRIDE\s*\{(.*?)\}" % meth, c.group(0), re.S) if c else None
        if not m:
            E.append("C19: adaptor %s::%s not found" % (cls, meth))
            continue
        ad.append("(%s, %s)" % (q(meth), q(re.sub(r"\s+", " ", m.group(1)).strip())))
    out.append("Definition adaptor_bodies : list (name * name) := [%s]." % "; ".join(ad))
    # ---- getMockValueCFromNamedValue
    m = re.search(r"static MockValue_c getMockValueCFromNamedValue\(const MockNamedValue& namedValue\)\s*\{(.*?)\n\}", s2, re.S)
    rows, last = [], None
    if not m:
        E.append("C19: getMockValueCFromNamedValue not found")
    else:
        body = re.sub(r"\s+", " ", m.group(1))
        br = r'if \(SimpleString::StrCmp\(namedValue\.getType\(\)\.asCharString\(\), "([^"]*)"\) == 0\) \{ returnValue\.type = (\w+); returnValue\.value\.(\w+) = ([^;]*); \}'
        found = list(re.finditer(br, body))
        n_if = len(re.findall(r"\bif \(", body))
        if n_if != len(found):
            E.append("C19: getMockValueCFromNamedValue: %d if-branches, %d recognised" % (n_if, len(found)))
        for b in found:
            e = b.group(4).strip()
            g = re.fullmatch(r"namedValue\.(\w+)\(\)", e)
            w = "WNone"
            if not g:
                g = re.fullmatch(r"namedValue\.(\w+)\(\) \? 1 : 0", e)
                w = "WBool01"
            if not g:
                g = re.fullmatch(r"\(void \(\*\)\(\)\) ?namedValue\.(\w+)\(\)", e)
                w = "WFunCast"
            getter = g.group(1) if g else "?" + e
            rows.append("{| d_type := %s; d_tag := %s; d_member := %s; d_getter := %s; d_wrap := %s |}" % (q(b.group(1)), q(b.group(2)), q(b.group(3)), q(getter), w if g else "WNone"))
        el = re.search(r"else \{ returnValue\.type = (\w+); returnValue\.value\.(\w+) = namedValue\.(\w+)\(\); \} return returnValue;", body)
        if not el:
            E.append("C19: getMockValueCFromNamedValue: final else not recognised")
        else:
            last = "{| d_type := \"\"; d_tag := %s; d_member := %s; d_getter := %s; d_wrap := WNone |}" % (q(el.group(1)), q(el.group(2)), q(el.group(3)))
    out.append("Definition value_dispatch : list dispatch :=\n  [ %s ]." % ";\n    ".join(rows))
    out.append("Definition value_dispatch_else : dispatch := %s." % (last or '{| d_type := ""; d_tag := "?"; d_member := "?"; d_getter := "?"; d_wrap := WNone |}'))
    # ---- the C++ side of "...OrDefault": MockSupport and MockCheckedActualCall define it as hasReturnValue() ? getter() : default
    rows = []
    for path, cls, pats in (("src/CppUTestExt/MockSupport.cpp", "MockSupport",
                             [r"if \(hasReturnValue\(\)\) \{ return (\w+)\(\); \} return (\w+);"]),
                            ("src/CppUTestExt/MockActualCall.cpp", "MockCheckedActualCall",
                             [r"if \(!hasReturnValue\(\)\) \{ return (\w+); \} return (\w+)\(\);"])):
        t = h.src(path)
        t = re.sub(r"\n#else.*?\n#endif", "\n", t, flags=re.S)
        n = 0
        found = [(m.group(1), m.group(2), m.group(3)) for m in re.finditer(r"\b%s::(return\w+ValueOrDefault)\s*\(([^()]*)\)\s*\{(.*?)\n\}" % cls, t, re.S)]
        found += [(m.group(1), m.group(2), m.group(3)) for m in
                  re.finditer(r"\b%s::(returnFunctionPointerValueOrDefault)\s*\(void \(\*(\w+)\)\(\)\)\)\(\)\s*\{(.*?)\n\}" % cls, t, re.S)]
        for meth, params, body in found:
            body = re.sub(r"\s+", " ", body).strip()
            pn = re.findall(r"(\w+)\s*$", params.strip())
            g = re.fullmatch(pats[0], body)
            if not g or not pn:
                E.append("C19: %s::%s is not hasReturnValue() ? getter() : default: %r" % (cls, meth, body))
                continue
            a, b = g.group(1), g.group(2)
            getter, dflt = (a, b) if cls == "MockSupport" else (b, a)
            if dflt != pn[0]:
                E.append("C19: %s::%s returns %r instead of its parameter %r" % (cls, meth, dflt, pn[0]))
                continue
            rows.append("(%s, %s, %s)" % (q(cls), q(meth), q(getter)))
            n += 1
        if n < 12:
            E.append("C19: only %d ...OrDefault definitions of %s recognised" % (n, cls))
    out += reporter_facts(h, src)
    out.append("(* src/CppUTestExt/MockSupport.cpp, src/CppUTestExt/MockActualCall.cpp *)\nDefinition cpp_or_default : list (name * name * name) :=\n  [ %s ]." % ";\n    ".join(rows))
    return "\n".join(out) + "\n"
