"""The first-difference scans of the failure constructors (TestFailure.cpp), each loop translated on its own by tools/cxx2gal.py
(see tools/loopdefs.py)."""
import os, sys
sys.path.insert(0, os.path.dirname(os.path.dirname(os.path.abspath(__file__))))
import loopdefs


def generate(h):
    return loopdefs.generate(h, "C14")
