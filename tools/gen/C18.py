"""String buffer cache (src/CppUTest/SimpleStringInternalCache.cpp, include/CppUTest/SimpleStringInternalCache.h):
class sizes in node order, the cached bound of isCached, the number of cache nodes, and the LP64 sizes of the two
bookkeeping structs (every member is a pointer or a size_t: 8 bytes each)."""
import re
CPP = "src/CppUTest/SimpleStringInternalCache.cpp"
HDR = "include/CppUTest/SimpleStringInternalCache.h"


def struct_size(h, src, name):
    m = re.search(r"struct\s+" + name + r"\s*\{([^}]*)\}\s*;", src)
    if not m:
        h.errors.append("C18: struct %s not found" % name)
        return 0
    n = 0
    for decl in [d.strip() for d in m.group(1).split(";") if d.strip()]:
        if re.fullmatch(r"(size_t|[A-Za-z_]\w*\s*\*)\s*\w+", decl):
            n += 8
        else:
            h.errors.append("C18: struct %s: member %r is neither a pointer nor a size_t" % (name, decl))
    return n


def generate(h):
    src = h.src(CPP)
    hdr = h.src(HDR)
    a = src.find("SimpleStringInternalCache::createInternalCacheNodes()")
    b = src.find("bool SimpleStringInternalCache::isCached", a)
    if a < 0 or b < 0:
        h.errors.append("C18: createInternalCacheNodes not found")
        return ""
    rows = re.findall(r"node\[(\d+)\]\.size_\s*=\s*(\d+)\s*;", src[a:b])
    idx = [int(i) for i, _ in rows]
    if not rows or idx != list(range(len(rows))):
        h.errors.append("C18: class sizes are not assigned to node[0..n-1] in order: %r" % (rows,))
    sizes = [int(s) for _, s in rows]
    n_nodes = h.find(HDR, r"enum\s*\{\s*amountOfInternalCacheNodes\s*=\s*(\d+)\s*\}", "amountOfInternalCacheNodes")
    bound = h.find(CPP, r"bool\s+SimpleStringInternalCache::isCached\(size_t size\)\s*\{\s*return\s+size\s*<=\s*(\d+)\s*;\s*\}", "isCached bound (size <= N)")
    blk = struct_size(h, src, "SimpleStringMemoryBlock")
    node = struct_size(h, src, "SimpleStringInternalCacheNode")
    if n_nodes is None or bound is None:
        return ""
    t = "(* %s: createInternalCacheNodes, node[i].size_ in index order *)\n" % CPP
    t += "Definition class_sizes : list N := [%s].\n" % "; ".join("%d%%N" % s for s in sizes)
    t += "(* %s: enum { amountOfInternalCacheNodes } *)\nDefinition n_cache_nodes : N := %d%%N.\n" % (HDR, n_nodes)
    t += "(* %s: isCached: size <= N *)\nDefinition cached_bound : N := %d%%N.\n" % (CPP, bound)
    t += "(* sizeof(SimpleStringMemoryBlock), sizeof(SimpleStringInternalCacheNode) on LP64 *)\n"
    t += "Definition block_hdr_size : N := %d%%N.\nDefinition cache_node_size : N := %d%%N.\n" % (blk, node)
    return t
