#!/bin/sh
# MANIFEST.setup_cmd: build the framework from files on disk only (offline).
set -e
cd "$(dirname "$0")/.."
python3 tools/extract_src.py
cd coq
coq_makefile -f _CoqProject -o Makefile >/dev/null
timeout 3000 make -j16 2>&1 | tail -5
cd ..
python3 - <<'PY'
import sys
sys.path.insert(0, 'tools')
import vlib
bad = vlib.grep_gate()
if bad:
    print("grep gate:", bad); sys.exit(1)
for fl in ("asan", "plain"):
    vlib.build_lib(fl)
PY
