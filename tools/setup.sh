#!/bin/sh
# MANIFEST.setup_cmd: build the framework from files on disk only (offline).
# Regenerates coq/gen/*.v from /repo, compiles the whole Coq development (full .vo build), runs the grep gate over every
# .v file, checks that the theorem files of every claimed property compiled, and pre-builds the /repo library flavours.
set -e
cd "$(dirname "$0")/.."
python3 tools/extract_src.py
mkdir -p build
python3 - <<'PY'
import sys
sys.path.insert(0, 'tools')
import vlib
ok, out = vlib.coq_make([])          # make -k -j<ncpu> of every .v (under the build lock)
open('build/setup_make.log', 'w').write(out)
print("coq make:", "ok" if ok else "some files failed (see below if a claimed property is affected)")
PY
python3 - <<'PY'
import sys, os, json
sys.path.insert(0, 'tools')
import vlib
bad = vlib.grep_gate()
if bad:
    print("grep gate:", bad); sys.exit(1)
man = json.load(open('MANIFEST.json'))
missing = []
flavours = set(["asan"])
sys.path.insert(0, 'checks')
for c in man["checks"]:
    p = c["property_id"]
    for f in ("Properties_%s.vo" % p, "Extract_%s.vo" % p):
        if not os.path.exists(os.path.join("coq", f)):
            missing.append(f)
    try:
        flavours.update(__import__(p).FLAVOURS)
    except Exception as e:
        print("cannot import checks/%s.py: %s" % (p, e)); sys.exit(1)
if missing:
    print("Coq build incomplete, missing:", missing)
    print(open('build/setup_make.log').read()[-3000:])
    sys.exit(1)
for fl in sorted(flavours):
    vlib.build_lib(fl)
print("setup ok: %d claimed properties, flavours %s" % (len(man["checks"]), sorted(flavours)))
PY
