#!/usr/bin/env python3
"""tools/mkdesign.py: refreshes the generated blocks of DESIGN.md (between <!-- BEGIN x --> / <!-- END x --> markers):
   asbuilt Cxx : docs/asbuilt/Cxx.md (+ Cxx_addendum.md) or, when absent, a summary from checks/Cxx.py + coq/Properties_Cxx.v
   seeded      : table of the seeded changes and which check caught them (seeded/*/meta.json)
   defects     : table of the repaired / open findings (known_findings.json)
   claims      : which properties are claimed (MANIFEST.json)"""
import os, re, json, glob, sys, importlib
ROOT = os.path.dirname(os.path.dirname(os.path.abspath(__file__)))
sys.path.insert(0, os.path.join(ROOT, "tools")); sys.path.insert(0, os.path.join(ROOT, "checks"))


def theorems(pid):
    f = os.path.join(ROOT, "coq", "Properties_%s.v" % pid)
    if not os.path.exists(f):
        return []
    txt = re.sub(r"\(\*.*?\*\)", " ", open(f).read(), flags=re.S)
    return re.findall(r"Theorem\s+([\w']+)", txt)


def asbuilt(pid):
    out = []
    for name in (pid + ".md", pid + "_addendum.md"):
        p = os.path.join(ROOT, "docs", "asbuilt", name)
        if os.path.exists(p):
            out.append(open(p).read().strip())
    th = theorems(pid)
    if not out:
        try:
            P = importlib.import_module(pid)
            out.append("**As built (summary generated from checks/%s.py and coq/Properties_%s.v).** %s\n\n*Assumed / trusted:* %s\n\n*Generation:* %s"
                       % (pid, pid, P.LEVEL_TEXT, P.LEVEL_NOTE, P.RULE))
        except Exception as e:
            out.append("*(not built: %s)*" % e)
    if th:
        out.append("*Obligations in `coq/Properties_%s.v` as compiled now (%d):* %s." % (pid, len(th), ", ".join("`%s`" % t for t in th)))
    return "\n\n".join(out)


def seeded():
    rows = []
    for d in sorted(glob.glob(os.path.join(ROOT, "seeded", "*", "meta.json"))):
        m = json.load(open(d))
        name = os.path.basename(os.path.dirname(d))
        rows.append("| %s | %s | %s | %s |" % (name, m.get("title", "").replace("|", "/"), m.get("needs_to_manifest", "").replace("|", "/").replace("\n", " ")[:260],
                                               m.get("check_result", "?").replace("|", "/")))
    n = len(rows)
    caught = sum(1 for r in rows if "| concrete" in r or "concrete (" in r.split("|")[-2])
    head = ("%d seeded changes (each: compiles, the project's whole test suite passes with it, an independent demonstration fails with it and passes "
            "without it — confirmed by the coordinator with tools/confirm_seed.sh; written by sub-agents that saw only the property text). "
            "`concrete` = the property's own check printed VIOLATION with a replay naming a failing scenario; `after strengthening` = missed on the "
            "first run, the check was then extended (for the class of change, not the patch) and now reports it.\n\n"
            "| id | change | needs, to manifest | result |\n|---|---|---|---|\n" % n)
    return head + "\n".join(rows)


def defects():
    k = json.load(open(os.path.join(ROOT, "known_findings.json")))
    rows = ["| property | status | commit in /repo | what failed |", "|---|---|---|---|"]
    for f in sorted(k["findings"], key=lambda f: f["property"]):
        w = re.sub(r"^fixed: property=\S+ \S+ ", "", f["what"]).replace("|", "/")
        rows.append("| %s | %s | %s | %s |" % (f["property"], f["status"], f.get("commit", "-"), w))
    return "\n".join(rows)


def claims():
    m = json.load(open(os.path.join(ROOT, "MANIFEST.json")))
    c = [x["property_id"] for x in m["checks"]]
    na = ["%s (%s)" % (x["property_id"], x["reason"][:80]) for x in m.get("not_applicable", [])]
    return "Claimed in MANIFEST.json (%d): %s.\n\nNot claimed: %s." % (len(c), ", ".join(c), "; ".join(na) if na else "none")


def main():
    p = os.path.join(ROOT, "DESIGN.md")
    s = open(p).read()

    def repl(m):
        key = m.group(1).strip()
        if key.startswith("asbuilt "):
            body = asbuilt(key.split()[1])
        elif key == "seeded":
            body = seeded()
        elif key == "defects":
            body = defects()
        elif key == "claims":
            body = claims()
        else:
            return m.group(0)
        return "<!-- BEGIN %s -->\n%s\n<!-- END %s -->" % (key, body, key)
    s2 = re.sub(r"<!-- BEGIN ([^>]*?) -->.*?<!-- END \1 -->", repl, s, flags=re.S)
    open(p, "w").write(s2)
    print("DESIGN.md blocks refreshed:", len(re.findall(r"<!-- BEGIN", s2)))


if __name__ == "__main__":
    main()
