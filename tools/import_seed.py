#!/usr/bin/env python3
"""tools/import_seed.py <prop> <seed-dir> <name> <detected: concrete|no-input|missed> "<what I ran / notes>" """
import sys, os, json, shutil
prop, src, name, det, notes = sys.argv[1:6]
dst = os.path.join("/verif/seeded", name)
os.makedirs(dst, exist_ok=True)
for f in os.listdir(src):
    if os.path.getsize(os.path.join(src, f)) < 200000:
        shutil.copy(os.path.join(src, f), dst)
m = json.load(open(os.path.join(dst, "meta.json")))
m["property"] = prop
m["confirmed_by_coordinator"] = ("tools/confirm_seed.sh: with the patch the project builds, its whole ctest suite passes and the demo fails; "
                                 "without it the demo passes")
m["check_result"] = det
m["ran"] = notes
json.dump(m, open(os.path.join(dst, "meta.json"), "w"), indent=1)
print(dst)
