#!/bin/sh
# Baseline with the hook guard OFF: the repository's own CMake build (which never defines CPPUTEST_VERIF_HOOKS) + ctest.
# The CppUTestExt test executables cannot be built in this image (gtest sources absent); they are not part of the 61-test baseline.
cmake --build /repo/_build -- -k 0 >/dev/null 2>&1
exec ctest --test-dir /repo/_build -j8 --timeout 900
