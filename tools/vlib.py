#!/usr/bin/env python3
"""Shared machinery of the /verif checks (see DESIGN.md sections 2-5).

Pipeline of every check:  gen/*.v from /repo -> Coq make (theorems re-checked)
-> Print Assumptions audit -> extraction -> OCaml model driver -> /repo library
(built now, cached by source hash) -> harness -> run model and implementation on
the same scenarios -> diff + model-free spec oracle -> evidence / VIOLATION.
"""
import os, sys, json, glob, hashlib, subprocess, time, random, re, fcntl, shutil, resource, signal
from concurrent.futures import ThreadPoolExecutor

ROOT = os.path.dirname(os.path.dirname(os.path.abspath(__file__)))
REPO = os.environ.get("VERIF_REPO", "/repo")
BUILD = os.path.join(ROOT, "build")
COQ = os.path.join(ROOT, "coq")
GUARD = "CPPUTEST_VERIF_HOOKS"
NCPU = os.cpu_count() or 4

CONFIG_DEFS = ["-DCPPUTEST_USE_LONG_LONG=1", "-DCPPUTEST_HAVE_STRDUP", "-DCPPUTEST_HAVE_FORK",
               "-DCPPUTEST_HAVE_WAITPID", "-DCPPUTEST_HAVE_KILL", "-DCPPUTEST_HAVE_PTHREAD_MUTEX_LOCK",
               "-DCPPUTEST_HAVE_GETTIMEOFDAY", "-D" + GUARD]
BASE = ["-std=c++17", "-O1", "-g", "-fno-omit-frame-pointer", "-w"]
FLAVOURS = {
    "asan": BASE + ["-fsanitize=address,undefined", "-fno-sanitize-recover=undefined"],
    "plain": BASE,
    "noexc": BASE + ["-fsanitize=address,undefined", "-fno-sanitize-recover=undefined", "-fno-exceptions", "-fno-rtti"],
    "tsan": BASE + ["-fsanitize=thread"],
    "noguard": BASE + ["-fsanitize=address,undefined", "-fno-sanitize-recover=undefined",
                       "-DCPPUTEST_DISABLE_MEM_CORRUPTION_CHECK"],
}
STD_AXIOMS = {  # axioms declared by the standard library / Flocq's dependencies; named in the trusted base
    "Classical_Prop.classic", "classic", "functional_extensionality_dep", "FunctionalExtensionality.functional_extensionality_dep",
    "ClassicalDedekindReals.sig_forall_dec", "ClassicalDedekindReals.sig_not_dec", "sig_forall_dec", "sig_not_dec",
    "Eqdep.Eq_rect_eq.eq_rect_eq", "eq_rect_eq", "JMeq_eq", "JMeq.JMeq_eq", "proof_irrelevance",
    "ProofIrrelevance.proof_irrelevance", "propositional_extensionality", "PropExtensionality.propositional_extensionality",
    "constructive_indefinite_description", "IndefiniteDescription.constructive_indefinite_description",
}


def log(*a):
    print(*a, file=sys.stderr, flush=True)


class BuildError(Exception):
    pass


def sh(cmd, cwd=None, timeout=None, env=None, check=False, stdin=None):
    p = subprocess.run(cmd, cwd=cwd, timeout=timeout, env=env, input=stdin, stdout=subprocess.PIPE,
                       stderr=subprocess.STDOUT, text=True, errors="replace")
    if check and p.returncode != 0:
        raise BuildError("command failed: %s\n%s" % (" ".join(cmd) if isinstance(cmd, list) else cmd, p.stdout[-4000:]))
    return p.returncode, p.stdout


class Lock:
    """exclusive by default; shared=True lets several readers in (re-checking compiled files) while a `make` excludes them"""
    def __init__(self, name, shared=False):
        os.makedirs(BUILD, exist_ok=True)
        self.path = os.path.join(BUILD, name + ".lock")
        self.shared = shared

    def __enter__(self):
        self.f = open(self.path, "a")
        fcntl.flock(self.f, fcntl.LOCK_SH if self.shared else fcntl.LOCK_EX)
        return self

    def __exit__(self, *a):
        fcntl.flock(self.f, fcntl.LOCK_UN)
        self.f.close()


# ----------------------------------------------------------------------------- repo library
def repo_sources():
    s = sorted(glob.glob(REPO + "/src/CppUTest/*.cpp")) + sorted(glob.glob(REPO + "/src/CppUTestExt/*.cpp"))
    s.append(REPO + "/src/Platforms/Gcc/UtestPlatform.cpp")
    return s


def tree_hash(extra=()):
    h = hashlib.sha256()
    files = []
    for top in ("src", "include"):
        for dp, dn, fn in os.walk(os.path.join(REPO, top)):
            dn.sort()
            for f in sorted(fn):
                files.append(os.path.join(dp, f))
    for f in files:
        h.update(f.encode())
        with open(f, "rb") as fh:
            h.update(hashlib.sha256(fh.read()).digest())
    for e in extra:
        h.update(str(e).encode())
    return h.hexdigest()[:16]


def _prune(prefix_dir, prefix, keep):
    ds = sorted(glob.glob(os.path.join(prefix_dir, prefix + "-*")), key=os.path.getmtime)
    for d in ds[:-keep]:
        shutil.rmtree(d, ignore_errors=True)


def build_lib(flavour):
    """Compile /repo's current sources (hooks on) into a static library; cached by content hash."""
    flags = FLAVOURS[flavour] + CONFIG_DEFS
    h = tree_hash(flags)
    libroot = os.path.join(BUILD, "lib")
    d = os.path.join(libroot, "%s-%s" % (flavour, h))
    lib = os.path.join(d, "libcpputest.a")
    if os.path.exists(lib):
        os.utime(d)
        return d
    with Lock("lib-" + flavour):
        if os.path.exists(lib):
            return d
        t0 = time.time()
        tmp = d + ".tmp%d" % os.getpid()
        shutil.rmtree(tmp, ignore_errors=True)
        os.makedirs(tmp)
        srcs = repo_sources()

        def cc(src):
            o = os.path.join(tmp, os.path.basename(os.path.dirname(src)) + "_" + os.path.basename(src)[:-4] + ".o")
            rc, out = sh(["g++"] + flags + ["-I" + REPO + "/include", "-c", src, "-o", o], timeout=600)
            return rc, out, o
        with ThreadPoolExecutor(NCPU) as ex:
            res = list(ex.map(cc, srcs))
        bad = [r for r in res if r[0] != 0]
        if bad:
            shutil.rmtree(tmp, ignore_errors=True)
            raise BuildError("/repo does not compile (flavour %s):\n%s" % (flavour, bad[0][1][-3000:]))
        sh(["ar", "rcs", os.path.join(tmp, "libcpputest.a")] + [r[2] for r in res], check=True)
        for r in res:
            os.unlink(r[2])
        shutil.rmtree(d, ignore_errors=True)
        os.rename(tmp, d)
        _prune(libroot, flavour, 8)
        log("[build] lib %s in %.1fs" % (flavour, time.time() - t0))
    return d


def build_harness(prop, flavour, srcs, extra=()):
    """Compile harness sources (C++ or C) against the library flavour. Returns path of the executable."""
    libdir = build_lib(flavour)
    flags = FLAVOURS[flavour] + CONFIG_DEFS + list(extra)
    h = hashlib.sha256()
    for s in srcs + [os.path.join(ROOT, "harness", "hlib.h")]:
        with open(os.path.join(ROOT, s) if not os.path.isabs(s) else s, "rb") as fh:
            h.update(fh.read())
    h.update(libdir.encode())
    h.update(" ".join(flags).encode())
    hroot = os.path.join(BUILD, "h")
    d = os.path.join(hroot, "%s-%s-%s" % (prop, flavour, h.hexdigest()[:16]))
    exe = os.path.join(d, "harness")
    if os.path.exists(exe):
        os.utime(d)
        return exe
    with Lock("h-%s-%s" % (prop, flavour)):
        if os.path.exists(exe):
            return exe
        tmp = d + ".tmp%d" % os.getpid()
        shutil.rmtree(tmp, ignore_errors=True)
        os.makedirs(tmp)
        objs = []
        for s in srcs:
            sp = os.path.join(ROOT, s)
            o = os.path.join(tmp, os.path.basename(s) + ".o")
            if s.endswith(".c"):
                cflags = [f for f in flags if not f.startswith("-std=") and f not in ("-fno-rtti",)]
                cmd = ["gcc", "-std=c11"] + cflags
            else:
                cmd = ["g++"] + flags
            rc, out = sh(cmd + ["-I" + REPO + "/include", "-I" + os.path.join(ROOT, "harness"), "-c", sp, "-o", o], timeout=600)
            if rc != 0:
                shutil.rmtree(tmp, ignore_errors=True)
                raise BuildError("harness %s does not compile against /repo (flavour %s):\n%s" % (s, flavour, out[-3000:]))
            objs.append(o)
        rc, out = sh(["g++"] + flags + objs + [os.path.join(libdir, "libcpputest.a"), "-lpthread", "-o", os.path.join(tmp, "harness")], timeout=600)
        if rc != 0:
            shutil.rmtree(tmp, ignore_errors=True)
            raise BuildError("harness link failed:\n" + out[-3000:])
        shutil.rmtree(d, ignore_errors=True)
        os.rename(tmp, d)
        _prune(hroot, "%s-%s" % (prop, flavour), 6)
    return exe


# ----------------------------------------------------------------------------- Coq
GATE = re.compile(r"\b(Admitted|admit|Axiom|Axioms|Parameter|Parameters|Conjecture|Conjectures|Unset\s+Guard|bypass_check|type-in-type|impredicative-set|Admit\s+Obligations|give_up)\b")


def coq_closure(roots):
    """Files reachable from the given .v files through `From CppUVerif Require ...`."""
    seen, todo = [], list(roots)
    while todo:
        f = todo.pop()
        if f in seen or not os.path.exists(f):
            continue
        seen.append(f)
        txt = re.sub(r"\(\*.*?\*\)", " ", open(f).read(), flags=re.S)
        for m in re.finditer(r"From\s+CppUVerif\s+Require\s+(?:Import\s+|Export\s+)?([^.]*(?:\.[A-Za-z_][^.]*)*)\.\s", txt):
            for name in m.group(1).split():
                todo.append(os.path.join(COQ, name.replace(".", "/") + ".v"))
    return sorted(seen)


def grep_gate(prop=None):
    """No Admitted/admit/Axiom/... in the development (comments are stripped first).  With prop: only the files that
    Properties_<prop>.v and Extract_<prop>.v depend on (other properties may be under construction); without: every file."""
    bad = []
    if prop:
        files = coq_closure([os.path.join(COQ, "Properties_%s.v" % prop), os.path.join(COQ, "Extract_%s.v" % prop)])
    else:
        files = sorted(glob.glob(COQ + "/**/*.v", recursive=True))
    for f in files:
        txt = open(f).read()
        txt = re.sub(r"\(\*.*?\*\)", " ", txt, flags=re.S)
        for i, line in enumerate(txt.split("\n")):
            m = GATE.search(line)
            if m and not re.search(r"Print\s+Assumptions", line):
                bad.append("%s:%d: %s" % (os.path.relpath(f, ROOT), i + 1, m.group(0)))
    return bad


COQPROJECT_HEAD = """-Q . CppUVerif
-arg -w -arg -notation-overridden,-deprecated-hint-without-locality,-deprecated-instance-without-locality,-extraction-reserved-identifier,-extraction-opaque-accessed,-deprecated-syntactic-definition
"""


def coq_makefile():
    """_CoqProject lists every .v under coq/ (regenerated when the set of files changes)."""
    files = sorted(os.path.relpath(f, COQ) for f in glob.glob(COQ + "/**/*.v", recursive=True)
                   if not re.match(r"(Probe_|Dbg_|D_|Tmp_|Scratch_).*|.*_tmp\.v$", os.path.basename(f)))      # scratch files of a builder at work
    text = COQPROJECT_HEAD + "\n".join(files) + "\n"
    cp = os.path.join(COQ, "_CoqProject")
    mk = os.path.join(COQ, "Makefile")
    if not os.path.exists(cp) or open(cp).read() != text or not os.path.exists(mk):
        with open(cp, "w") as f:
            f.write(text)
        sh(["coq_makefile", "-f", "_CoqProject", "-o", "Makefile"], cwd=COQ, check=True)


def regen():
    """Translator-lite: regenerate coq/gen/*.v from /repo's current sources."""
    rc, out = sh([sys.executable, os.path.join(ROOT, "tools", "extract_src.py")], timeout=120)
    return rc == 0, out


def _restore_gen():
    """after a run against a scratch copy of the repository (VERIF_REPO): leave coq/gen as generated from /repo, so that people
    compiling single files by hand between check runs see the real repository's translation (every check regenerates for itself
    anyway, inside the build lock)"""
    try:
        with Lock("coq"):
            env = dict(os.environ)
            env["VERIF_REPO"] = "/repo"
            sh([sys.executable, os.path.join(ROOT, "tools", "extract_src.py")], timeout=300, env=env)
    except Exception:
        pass


if REPO != "/repo" and os.path.isdir("/repo"):
    import atexit
    atexit.register(_restore_gen)


def coq_make(targets, timeout=3000, with_regen=False):
    """make of the given targets under the exclusive build lock; with_regen: the translator-lite runs inside the same critical
    section, so that the generated files the proofs are compiled against are the ones made from THIS check's repository
    (VERIF_REPO runs on scratch worktrees may be going on in parallel)."""
    with Lock("coq"):
        gen = regen() if with_regen else (True, "")
        coq_makefile()
        rc, out = sh(["timeout", str(timeout), "make", "-k", "-j%d" % NCPU] + targets, cwd=COQ)
    if with_regen:
        return rc == 0, out, gen[0], gen[1]
    return rc == 0, out


def coq_properties(prop, timeout=900):
    """Re-compile Properties_<prop>.v now and parse its Print Assumptions output.
    Returns (ok, theorems:[(name, axioms:[...])], raw output)."""
    src = os.path.join(COQ, "Properties_%s.v" % prop)
    names = re.findall(r"^\s*Print\s+Assumptions\s+([\w.']+)\s*\.", re.sub(r"\(\*.*?\*\)", " ", open(src).read(), flags=re.S), flags=re.M)
    with Lock("coq", shared=True):   # only Properties_<prop>.vo is rewritten; everything it reads is up to date after the make
        rc, out = sh(["timeout", str(timeout), "coqc", "-Q", ".", "CppUVerif", "Properties_%s.v" % prop], cwd=COQ)
    blocks = []
    cur = None
    for line in out.split("\n"):
        if line.startswith("Closed under the global context"):
            blocks.append([])
            cur = None
        elif line.startswith("Axioms:"):
            cur = []
            blocks.append(cur)
        elif cur is not None:
            m = re.match(r"^([\w.']+)\s*(:|$)", line)
            if m:
                cur.append(m.group(1))
            elif line and not line.startswith(" "):
                cur = None
    ok = rc == 0 and len(blocks) == len(names)
    return ok, list(zip(names, blocks)), out


def discharged(theorems):
    n = 0
    extra = set()
    for name, ax in theorems:
        non_std = [a for a in ax if a not in STD_AXIOMS and a.split(".")[-1] not in STD_AXIOMS]
        if not non_std:
            n += 1
        extra.update(ax)
    return n, sorted(extra)


def build_model_driver(prop):
    """OCaml driver = extracted <prop>_model.ml + glue.ml + <prop>_driver.ml."""
    low = prop.lower()
    ml = os.path.join(COQ, low + "_model.ml")
    mli = os.path.join(COQ, low + "_model.mli")
    glue = os.path.join(ROOT, "ocaml", "glue.ml")
    drv = os.path.join(ROOT, "ocaml", low + "_driver.ml")
    h = hashlib.sha256()
    mainf = os.path.join(ROOT, "ocaml", "main.ml")
    for f in (ml, mli, glue, drv, mainf):
        h.update(open(f, "rb").read())
    d = os.path.join(BUILD, "ocaml", "%s-%s" % (low, h.hexdigest()[:16]))
    exe = os.path.join(d, "driver")
    if os.path.exists(exe):
        os.utime(d)
        return exe
    with Lock("ocaml-" + low):
        if os.path.exists(exe):
            return exe
        tmp = d + ".tmp%d" % os.getpid()
        shutil.rmtree(tmp, ignore_errors=True)
        os.makedirs(tmp)
        shutil.copy(ml, tmp)
        shutil.copy(mli, tmp)
        with open(os.path.join(tmp, "main.ml"), "w") as f:
            f.write("open %s_model\n" % (low[0].upper() + low[1:]))
            f.write(open(glue).read())
            f.write("\n")
            f.write(open(drv).read())
            f.write("\n")
            f.write(open(mainf).read())
        rc, out = sh(["ocamlfind", "ocamlopt", "-O3", "-w", "-a", "-o", "driver", low + "_model.mli", low + "_model.ml", "main.ml"], cwd=tmp, timeout=900)
        if rc != 0:
            rc, out = sh(["ocamlfind", "ocamlopt", "-w", "-a", "-o", "driver", low + "_model.mli", low + "_model.ml", "main.ml"], cwd=tmp, timeout=900)
        if rc != 0:
            shutil.rmtree(tmp, ignore_errors=True)
            raise BuildError("model driver does not compile:\n" + out[-3000:])
        shutil.rmtree(d, ignore_errors=True)
        os.rename(tmp, d)
        _prune(os.path.join(BUILD, "ocaml"), low, 4)
    return exe


# ----------------------------------------------------------------------------- running
def _limits():
    try:
        resource.setrlimit(resource.RLIMIT_STACK, (resource.RLIM_INFINITY, resource.RLIM_INFINITY))
    except Exception:
        pass
    resource.setrlimit(resource.RLIMIT_CORE, (0, 0))


def _limits_impl():
    """the code under test: a runaway recursion must end as a crash of that scenario, not eat the machine's memory"""
    try:
        resource.setrlimit(resource.RLIMIT_STACK, (512 * 1024 * 1024, 512 * 1024 * 1024))
    except Exception:
        pass
    resource.setrlimit(resource.RLIMIT_CORE, (0, 0))


SAN_ENV = {"ASAN_OPTIONS": "detect_leaks=0:abort_on_error=0:allocator_may_return_null=1:detect_stack_use_after_return=0",
           "UBSAN_OPTIONS": "print_stacktrace=1:halt_on_error=1",
           "TSAN_OPTIONS": "halt_on_error=1:report_signal_unsafe=0:second_deadlock_stack=1"}


def run_model(exe, mode, lines, timeout=1800):
    """one answer line per input line from the extracted model / oracle.  Lines are independent of one another (one scenario each), so
    a large batch is split into shards run side by side -- the extracted code is single-threaded and the thorough tiers hand it
    10^5 scenarios."""
    if len(lines) > 4000 and not os.environ.get("VERIF_DEBUG_MODEL"):
        # the shard processes are all started from this thread, reading and writing files (no threads: a preexec_fn in a
        # multi-threaded parent can deadlock the child)
        import tempfile
        nsh = min(8, max(2, len(lines) // 2000))
        size = (len(lines) + nsh - 1) // nsh
        shards = [lines[i:i + size] for i in range(0, len(lines), size)]
        tdir = tempfile.mkdtemp(prefix="model-", dir=BUILD)
        procs = []
        try:
            for k, ls in enumerate(shards):
                with open(os.path.join(tdir, "in%d" % k), "w") as f:
                    f.write("\n".join(ls) + "\n")
                fi = open(os.path.join(tdir, "in%d" % k))
                fo = open(os.path.join(tdir, "out%d" % k), "w")
                fe = open(os.path.join(tdir, "err%d" % k), "w")
                procs.append((subprocess.Popen([exe, mode], stdin=fi, stdout=fo, stderr=fe, preexec_fn=_limits), fi, fo, fe))
            t_end = time.time() + timeout
            for pr, fi, fo, fe in procs:
                try:
                    pr.wait(timeout=max(1.0, t_end - time.time()))
                except subprocess.TimeoutExpired:
                    raise BuildError("model driver did not answer within %d s on a shard of %d lines" % (timeout, size))
            res = []
            for k, ((pr, fi, fo, fe), ls) in enumerate(zip(procs, shards)):
                fo.close()
                fe.close()
                out = open(os.path.join(tdir, "out%d" % k)).read().split("\n")
                if out and out[-1] == "":
                    out.pop()
                if pr.returncode != 0 or len(out) != len(ls):
                    raise BuildError("model driver failed (rc=%s, %d/%d lines): %s" % (pr.returncode, len(out), len(ls),
                                                                                      open(os.path.join(tdir, "err%d" % k)).read()[-2000:]))
                res += out
            return res
        finally:
            for pr, fi, fo, fe in procs:
                if pr.poll() is None:
                    pr.kill()
                for fh in (fi, fo, fe):
                    try:
                        fh.close()
                    except Exception:
                        pass
            shutil.rmtree(tdir, ignore_errors=True)
    return _run_model1(exe, mode, lines, timeout)


def _run_model1(exe, mode, lines, timeout=1800):
    if os.environ.get("VERIF_DEBUG_MODEL"):
        run_model.n = getattr(run_model, "n", 0) + 1
        with open("%s.%d" % (os.environ["VERIF_DEBUG_MODEL"], run_model.n), "w") as fh:
            fh.write(exe + " " + mode + "\n" + "\n".join(lines) + "\n")
    p = subprocess.run([exe, mode], input="\n".join(lines) + "\n", stdout=subprocess.PIPE, stderr=subprocess.PIPE,
                       text=True, timeout=timeout, preexec_fn=_limits)
    out = p.stdout.split("\n")
    if out and out[-1] == "":
        out.pop()
    if p.returncode != 0 or len(out) != len(lines):
        raise BuildError("model driver failed (rc=%s, %d/%d lines): %s" % (p.returncode, len(out), len(lines), p.stderr[-2000:]))
    return out


def run_spec(exe, lines):
    """The model-free oracle on (scenario => observation) lines.  The observations come from the implementation under test, which may
    be arbitrarily wrong: if the extracted oracle crashes or does not answer in time on some line, that line gets "T" (it cannot be
    judged, which the caller reports) and the others are still judged -- the check itself never hangs or dies on it."""
    def go(ls, depth):
        budget = 20.0 + 0.05 * len(ls) if depth else 120.0 + 0.05 * len(ls)
        try:
            return run_model(exe, "spec", ls, timeout=budget)
        except (subprocess.TimeoutExpired, BuildError):
            if len(ls) == 1:
                return ["T"]
            m = len(ls) // 2
            return go(ls[:m], depth + 1) + go(ls[m:], depth + 1)
    return go(list(lines), 0) if lines else []


def run_impl(exe, lines, per_timeout=20.0, args=(), env_extra=None, max_restarts=40):
    """Feed scenario lines to the harness; one observation line per scenario.  A crash, sanitizer report
    or hang on scenario k yields '!CRASH ...' / '!HANG' for k and the harness is restarted at k+1."""
    env = dict(os.environ)
    env.update(SAN_ENV)
    if env_extra:
        env.update(env_extra)
    obs = []
    i = 0
    restarts = 0
    hangs = 0
    while i < len(lines):
        chunk = lines[i:]
        budget = per_timeout + 0.02 * len(chunk) * max(1.0, per_timeout / 20.0)
        try:
            p = subprocess.run([exe] + list(args), input="\n".join(chunk) + "\n", stdout=subprocess.PIPE,
                               stderr=subprocess.PIPE, text=True, errors="replace", timeout=budget, env=env,
                               preexec_fn=_limits_impl)
            out, err, rc, hung = p.stdout, p.stderr, p.returncode, False
        except subprocess.TimeoutExpired as e:
            out = (e.stdout or b"").decode(errors="replace") if isinstance(e.stdout, bytes) else (e.stdout or "")
            err = (e.stderr or b"").decode(errors="replace") if isinstance(e.stderr, bytes) else (e.stderr or "")
            rc, hung = -9, True
        got = [l for l in out.split("\n")]
        if got and got[-1] == "":
            got.pop()
        elif got and (rc != 0 or hung):
            got.pop()  # partial last line
        got = got[:len(chunk)]
        obs.extend(got)
        i += len(got)
        if i >= len(lines):
            break
        # scenario i killed the harness
        restarts += 1
        if hung:
            hangs += 1
            obs.append("!HANG")
        else:
            obs.append("!CRASH " + crash_summary(err, rc))
        i += 1
        if restarts >= max_restarts or hangs >= 4:
            # the implementation keeps dying: stop here, the rest is not run (and not judged)
            obs.extend(["!SKIPPED"] * (len(lines) - i))
            break
    return obs


def crash_summary(err, rc):
    m = re.search(r"(ERROR: AddressSanitizer: [\w-]+|runtime error: [^\n]{0,80}|WARNING: ThreadSanitizer: [^\n(]{0,60}|AddressSanitizer:DEADLYSIGNAL)", err)
    kind = m.group(1) if m else ("signal %d" % -rc if rc < 0 else "exit %d" % rc)
    fr = re.findall(r"#\d+ 0x[0-9a-f]+ in ([\w:~<>]+)", err)
    fr = [f for f in fr if not f.startswith("__") and "interceptor" not in f][:3]
    return (kind + " @ " + " < ".join(fr)).replace("\n", " ")


# ----------------------------------------------------------------------------- known findings
def load_known():
    p = os.path.join(ROOT, "known_findings.json")
    if not os.path.exists(p):
        return []
    return json.load(open(p)).get("findings", [])


def known_open(prop):
    return [k for k in load_known() if k["property"] == prop and k.get("status") == "open"]


# ----------------------------------------------------------------------------- the generic check
def main_check(P, argv):
    """P: property module (checks/Cxx.py).  See checks/TEMPLATE in DESIGN.md section 5."""
    import argparse
    ap = argparse.ArgumentParser()
    ap.add_argument("--tier", default=os.environ.get("VERIF_TIER", "quick"), choices=["quick", "thorough"])
    ap.add_argument("--replay", default=None)
    a = ap.parse_args(argv)
    seed = int(os.environ.get("VERIF_SEED", "1"))
    t0 = time.time()
    prop = P.ID
    ev = {"property_id": prop, "tier": a.tier, "seed": seed, "level": "proof", "coverage": {}, "wall_s": 0.0, "violations": 0,
          "assumptions": list(getattr(P, "ASSUMPTIONS", []))}
    os.makedirs(os.path.join(ROOT, "evidence"), exist_ok=True)
    os.makedirs(os.path.join(ROOT, "replays"), exist_ok=True)
    if not a.replay:
        for f in glob.glob(os.path.join(ROOT, "replays", prop + "_*.json")):
            os.unlink(f)
    viol = []       # (replay path, text, no_input_found)
    known_hits = []

    def finish(code):
        ev["wall_s"] = round(time.time() - t0, 2)
        ev["violations"] = len(viol)
        if not a.replay:
            # evidence/ describes /repo itself; a run against a scratch tree (VERIF_REPO, used to try seeded changes) writes elsewhere
            edir = os.path.join(ROOT, "evidence") if os.path.realpath(REPO) == "/repo" else os.path.join(BUILD, "evidence_scratch")
            os.makedirs(edir, exist_ok=True)
            with open(os.path.join(edir, prop + ".json"), "w") as f:
                json.dump(ev, f, indent=1)
        for k in known_hits:
            print("KNOWN-FINDING: property=%s %s" % (prop, k))
        for path, text, nf in viol:
            print("VIOLATION property=%s replay=%s%s" % (prop, path, " no-failing-input-found" if nf else ""))
        sys.stdout.flush()
        sys.exit(code)

    broken = []

    def write_replay(name, obj):
        path = os.path.join(ROOT, "replays", "%s_%s.json" % (prop, name))
        if broken and isinstance(obj, dict) and "no_longer_checks" not in obj and name != "broken_proof":
            # a concrete failing input found while a proof / the correspondence is broken: name what no longer checks beside it
            obj = dict(obj)
            obj["no_longer_checks"] = [{"what": b[0], "detail": str(b[1])[:1200]} for b in broken]
        with open(path, "w") as f:
            json.dump(obj, f, indent=1)
        return path

    # 1. proofs, re-checked against what the source says now
    gate = grep_gate(prop)
    if gate:
        log("grep gate failed:\n" + "\n".join(gate))
        print("ERROR: forbidden construct in the Coq development: " + gate[0])
        finish(2)
    low = prop.lower()
    ok_mk, mk_out, ok_gen, gen_out = coq_make(["Properties_%s.vo" % prop, "Extract_%s.vo" % prop], with_regen=True)
    if not ok_gen:
        # only the plugins whose generated file this property's theorems / extraction depend on concern this check
        used = set(os.path.basename(f)[4:-2] for f in coq_closure([os.path.join(COQ, "Properties_%s.v" % prop), os.path.join(COQ, "Extract_%s.v" % prop)])
                   if os.path.basename(f).startswith("Gen_"))
        lines = [l for l in gen_out.split("\n") if l.strip()]
        mine = [l for l in lines if not l.startswith("[plugin ") or l[8:].split("]")[0] in used]
        if mine:
            broken.append(("translator", "tools/extract_src.py no longer matches the source: " + "\n".join(mine)[-1500:]))
        else:
            log("translator plugins not used by %s report: %s" % (prop, gen_out[-500:]))
    thm_ok, theorems, praw = (False, [], "")
    if ok_mk:
        thm_ok, theorems, praw = coq_properties(prop)
        if not thm_ok and "inconsistent assumptions" in praw:
            # a compiled file changed under our feet between make and the re-check (another process compiling in coq/): redo both once
            ok_mk, mk_out = coq_make(["Properties_%s.vo" % prop, "Extract_%s.vo" % prop])
            if ok_mk:
                thm_ok, theorems, praw = coq_properties(prop)
    if not ok_mk or not thm_ok:
        m = re.findall(r'File "\./([\w/]+\.v)", line (\d+)', mk_out + praw)
        named = []
        for fn, ln in m[:3]:      # the lemma / theorem whose proof no longer checks
            try:
                head = open(os.path.join(COQ, fn)).read().split("\n")[:int(ln)]
                nm = re.findall(r"^\s*(?:Lemma|Theorem|Corollary|Example|Definition|Fixpoint)\s+([\w']+)", "\n".join(head), flags=re.M)
                named.append("%s:%s (%s)" % (fn, ln, nm[-1] if nm else "?"))
            except Exception:
                named.append("%s:%s" % (fn, ln))
        broken.append(("theorem", "Coq build failed at %s\n%s" % (named, (mk_out + praw)[-2500:])))
    n_dis, axioms = discharged(theorems)
    cov = ev["coverage"]
    cov["obligations"] = len(theorems)
    cov["discharged"] = n_dis
    cov["theorems"] = [t for t, _ in theorems]
    cov["axioms_reported_by_Print_Assumptions"] = axioms
    cov["checker_cmd"] = "cd /verif/coq && make Properties_%s.vo && coqc -Q . CppUVerif Properties_%s.v  (Coq 8.16.1 kernel; vm_compute used; no native_compute)" % (prop, prop)
    gens = set(os.path.basename(f) for f in coq_closure([os.path.join(COQ, "Properties_%s.v" % prop)]) if os.path.basename(f).startswith("Gen_"))
    trans = []
    if any(g.startswith("Gen_Leaf") for g in gens):
        trans.append("tools/cxx2coq.py (clang AST -> Gallina, loop-free leaf functions; lib/CSem.v)")
    if any(g.startswith("Gen_Loop") for g in gens):
        trans.append("tools/cxx2gal.py (clang AST -> fuelled Gallina over the byte memory of lib/CMem.v)")
    if any(g.startswith("Gen_Heap") for g in gens):
        trans.append("tools/cxx2heap.py (clang AST -> fuelled Gallina over the object heap of lib/CHeap.v; record layouts re-read from the class definitions)")
    if any(g.startswith("Gen_Plug") for g in gens):
        trans.append("tools/gen/PlugC06.py (clang AST -> the function-pointer wiring of MemoryLeakWarningPlugin.cpp as tables of names)")
    cov["generated_from_source"] = sorted(gens)
    cov["trusted_base"] = trans + ["Coq 8.16.1 kernel (coqc, incl. vm_compute)", "tools/extract_src.py (translator-lite for constants/tables)",
                           "extraction (ExtrOcamlBasic only, no Extract Constant) + OCaml 4.13.1", "ocaml/glue.ml + ocaml/%s_driver.ml" % low,
                           "harness/%s.* linked against /repo sources built now with g++ 12.2 (+ASan/UBSan)" % prop,
                           "checks/%s.py generators and canonicalisers" % prop] + ["stdlib axiom: " + x for x in axioms]
    if a.tier == "thorough" and ok_mk and not a.replay and os.environ.get("VERIF_COQCHK", "1") == "1":
        # independent re-check of the compiled theorems and everything they depend on
        with Lock("coq", shared=True):
            rc, out = sh(["timeout", "1500", "coqchk", "-o", "-silent", "-Q", ".", "CppUVerif", "CppUVerif.Properties_%s" % prop], cwd=COQ)
        cov["coqchk"] = {"exit": rc, "output_tail": out[-3000:]}
        if rc != 0:
            broken.append(("coqchk", "coqchk rejected Properties_%s: %s" % (prop, out[-1500:])))
    if theorems and n_dis != len(theorems):
        broken.append(("axioms", "a property theorem depends on non-stdlib axioms: %s" % theorems))

    # 2. executables
    model = None
    if os.path.exists(os.path.join(COQ, low + "_model.ml")):
        try:
            model = build_model_driver(prop)
        except BuildError as e:
            broken.append(("extraction", str(e)))
    else:
        broken.append(("extraction", "no extracted model (Coq build failed)"))
    flavours = list(P.FLAVOURS)
    try:
        exes = {fl: build_harness(prop, fl, P.HARNESS_SRCS, getattr(P, "HARNESS_FLAGS", {}).get(fl, ())) for fl in flavours}
    except BuildError as e:
        log(str(e))
        print("ERROR: cannot build /repo or the harness: " + str(e)[:300])
        finish(2)

    # 3. scenarios
    rng = random.Random(seed * 1000003 + (0 if a.tier == "quick" else 7))
    if a.replay:
        rp = json.load(open(a.replay))
        scns = rp.get("scenarios") or ([rp["scenario"]] if rp.get("scenario") else [])
        if not scns:
            print("replay file names no scenario (broken proof / correspondence): " + rp.get("what", ""))
            scns = list(P.generate("quick", rng))
    else:
        scns = []
        cdir = os.path.join(ROOT, "corpus", prop)
        for f in sorted(glob.glob(cdir + "/*.scn")):
            scns += [l.strip() for l in open(f) if l.strip() and not l.startswith("#")]
        ncorpus = len(scns)
        scns += list(P.generate(a.tier, rng))
        if broken:  # search mode: thorough budget (capped when started from the quick tier, so that the search stays in minutes)
            if a.tier == "quick":
                extra = list(P.generate("thorough", rng))
                cap = int(getattr(P, "SEARCH_CAP", 40000))
                if len(extra) > cap:
                    extra = rng.sample(extra, cap)
                scns += extra
    res = decide(P, prop, model, exes, scns, ev, write_replay, viol, known_hits, broken, per_timeout=getattr(P, "PER_TIMEOUT", 20.0))
    if hasattr(P, "evidence_extra"):
        P.evidence_extra(ev["coverage"])
    if broken and not viol:
        path = write_replay("broken_proof", {"property": prop, "what": broken[0][0], "detail": [b[1] for b in broken],
                                             "theorems_checked": [t for t, _ in theorems]})
        viol.append((path, broken[0][1], True))
    finish(1 if viol else 0)


def decide(P, prop, model, exes, scns, ev, write_replay, viol, known_hits, broken, per_timeout):
    cov = ev["coverage"]
    seen = set()
    uniq = []
    for s in scns:
        if s not in seen:
            seen.add(s)
            uniq.append(s)
    scns = uniq
    cov["evaluations"] = 0
    cov["distinct_nontrivial"] = sum(1 for s in scns if P.nontrivial(s))
    cov["rule"] = P.RULE
    dist = {}
    for s in scns:
        for k in P.classify(s):
            dist[k] = dist.get(k, 0) + 1
    cov["input_distribution"] = dict(sorted(dist.items()))
    cov["samples"] = [scns[i] for i in sorted(set([0, len(scns) // 3, (2 * len(scns)) // 3, len(scns) - 1]))] if scns else []
    cov["traces_validated_against_impl"] = 0
    if model:
        mobs = run_model(model, "run", scns)
    else:
        mobs = [None] * len(scns)
    known = known_open(prop)
    fails = {}     # signature -> (scenario, obs, flavour)
    mism = []
    for fl, exe in exes.items():
        args = getattr(P, "HARNESS_ARGS", {}).get(fl, ())
        iobs = run_impl(exe, scns, per_timeout=per_timeout, args=args)
        cov["evaluations"] += sum(1 for o in iobs if o != "!SKIPPED")
        # model-free oracle on the implementation's observations
        crashed = [o.startswith("!") for o in iobs]
        if model:
            sp = run_spec(model, [s + " => " + (o if not c else "!") for s, o, c in zip(scns, iobs, crashed)])
        else:
            sp = ["1"] * len(scns)
        for k, (s, o) in enumerate(zip(scns, iobs)):
            flsel = getattr(P, "applies", None)
            if flsel and not flsel(s, fl):
                continue
            bad = None
            if o == "!SKIPPED":
                continue
            if crashed[k]:
                if getattr(P, "CRASH_IS_VIOLATION", True):
                    bad = "implementation crashed/hung/sanitizer report: " + o
            elif sp[k] == "T":
                bad = "the extracted model-free oracle could not evaluate the implementation's observation (no answer within its time limit)"
            elif sp[k] != "1":
                bad = "spec false on the implementation's observation"
            elif hasattr(P, "extra_oracle"):
                bad = P.extra_oracle(s, o, fl)   # independent python-side judge (None = fine)
            if bad:
                sig = P.signature(s, o) if hasattr(P, "signature") else s
                fails.setdefault(sig, (s, o, fl, bad, mobs[k]))
            elif mobs[k] is not None and _proj(P, o, fl) != _proj(P, mobs[k], fl):
                mism.append((s, o, mobs[k], fl))
            else:
                cov["traces_validated_against_impl"] += 1
    cov["correspondence_mismatches"] = len(mism)
    cov["spec_failures"] = len(fails)
    for sig, (s, o, fl, bad, mo) in sorted(fails.items()):
        hit = None
        for k in known:
            if re.fullmatch(k["signature"], sig):
                hit = k
        if hit:
            txt = "%s [signature %s]" % (hit["what"], sig)
            if txt not in known_hits:
                known_hits.append(txt)
            continue
        s2, o2 = s, o
        if hasattr(P, "shrink"):
            s2, o2 = shrink(P, model, exes[fl], s, o, fl, per_timeout)
        h = hashlib.sha256(s2.encode()).hexdigest()[:10]
        path = write_replay(h, {"property": prop, "scenario": s2, "flavour": fl, "impl_obs": o2, "model_obs": mo if s2 == s else None,
                                "what": bad, "signature": sig, "original_scenario": s,
                                "how_to_replay": "bin/check %s --replay <this file>" % prop})
        viol.append((path, bad, False))
        if len(viol) >= 5:
            break
    if mism and not viol:
        s, o, mo, fl = mism[0]
        log("correspondence mismatch (spec still true): %s\n impl : %s\n model: %s" % (s, o, mo))
        broken.append(("correspondence", "model and implementation differ on %d scenario(s) although the spec holds on the "
                       "implementation's observation; first: scenario=%s impl=%s model=%s flavour=%s" % (len(mism), s, o, mo, fl)))
    return None


def _proj(P, o, fl):
    f = getattr(P, "project", None)
    return f(o, fl) if f else o


def shrink(P, model, exe, s, o, fl, per_timeout, budget=300, wall=150.0):
    """Greedy: keep a candidate while the implementation still fails the model-free oracle (or still crashes).
    Bounded by a number of candidates and by wall time (a hanging mutant costs per_timeout per candidate)."""
    cur, curo = s, o
    n = 0
    t_end = time.time() + wall
    improved = True
    while improved and n < budget and time.time() < t_end:
        improved = False
        for c in P.shrink(cur):
            n += 1
            if n >= budget or time.time() >= t_end:
                break
            io = run_impl(exe, [c], per_timeout=per_timeout)[0]
            if io.startswith("!"):
                bad = curo.startswith("!")
            else:
                bad = (not curo.startswith("!")) and run_spec(model, [c + " => " + io])[0] not in ("1", "T")
            if bad:
                cur, curo = c, io
                improved = True
                break
    return cur, curo


# ----------------------------------------------------------------------------- token helpers for generators
def tz(v):
    return ("-%x" % -v) if v < 0 else ("%x" % v)


def tb(b):
    if b is None:
        return "~"
    return "$" + bytes(b).hex()
