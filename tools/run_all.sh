#!/bin/bash
# tools/run_all.sh [tier] [props...]: run the checks (sequentially by default; JOBS=n for parallel) and summarise.
T=${1:-quick}; shift
cd "$(dirname "$0")/.."
PROPS=${@:-$(ls checks/C*.py | sed 's|checks/||; s|\.py||')}
J=${JOBS:-4}
mkdir -p build/logs
echo $PROPS | tr ' ' '\n' | xargs -P $J -I{} sh -c "s=\$(date +%s); timeout 7200 bin/check {} --tier $T > build/logs/{}.$T.out 2> build/logs/{}.$T.err; rc=\$?; e=\$(date +%s); echo \"{} exit=\$rc \$((e-s))s \$(grep -c '^VIOLATION' build/logs/{}.$T.out) violation(s) \$(grep -c '^KNOWN' build/logs/{}.$T.out) known\""
