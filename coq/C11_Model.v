(* C11 -- separate-process mode contains every way a test can die.
   Executable mirror of src/Platforms/Gcc/UtestPlatform.cpp (SetTestFailureByStatusCode,
   GccPlatformSpecificRunTestInASeperateProcess), of the choice made by UtestShell::runOneTest, of
   IgnoredUtestShell::runOneTest (IGNORE_TEST, run only under the registry-wide run-ignored switch) and of the loop of
   TestRegistry::runAllTests with TestResult's run / ignored counters and isFailure, as far as the property reads them.
   No proofs in this file.

   Trusted, stated here:  (a) the bit layout of a wait-status word (Linux/glibc ABI: `encode`);
   (b) the default action of signals 1..31 (signal(7): `disposition`);  (c) Utest::run's phase structure (a failing
   check leaves its phase, a failed setup skips the body, teardown always runs) -- proved about the model of C17/C01,
   here it is only the semantics of the scenario language (`child_trace`). *)
From Coq Require Import NArith ZArith List Bool Arith.
From CppUVerif Require Import gen.Gen_C11 lib.Str.
Import ListNotations.
Local Open Scope N_scope.

(* ------------------------------------------------------------------------------------------------------------------
   1. the status word, decoded exactly as <bits/waitstatus.h> does
   ------------------------------------------------------------------------------------------------------------------ *)
(* __WTERMSIG(s) = s & 0x7f *)
Definition wtermsig (w : N) : N := N.land w 127.
(* __WEXITSTATUS(s) = (s & 0xff00) >> 8 ; __WSTOPSIG is the same expression *)
Definition wexitstatus (w : N) : N := N.shiftr (N.land w 65280) 8.
(* __WIFEXITED(s) = (__WTERMSIG(s) == 0) *)
Definition wifexited (w : N) : bool := wtermsig w =? 0.
(* __WIFSIGNALED(s) = (((signed char) ((s & 0x7f) + 1) >> 1) > 0) *)
Definition wifsignaled (w : N) : bool :=
  let v := (Z.of_N (N.land w 127) + 1)%Z in
  let sc := (if 128 <=? v then v - 256 else v)%Z in       (* conversion to signed char *)
  (0 <? Z.shiftr sc 1)%Z.
(* __WIFSTOPPED(s) = ((s & 0xff) == 0x7f) *)
Definition wifstopped (w : N) : bool := N.land w 255 =? 127.

(* what can happen to a child, as the kernel reports it through waitpid(.., WUNTRACED[|WCONTINUED]) *)
Inductive ev :=
| EvExit (k : N)                   (* _exit(k), 0 <= k < 256 *)
| EvKill (sig : N) (core : bool)   (* terminated by signal sig, 1 <= sig <= 126 *)
| EvStop (sig : N)                 (* stopped by signal sig *)
| EvCont.                          (* continued (0xffff; only seen with WCONTINUED, the code does not ask for it) *)

(* the ABI: how the kernel packs an event into the status word *)
Definition encode (e : ev) : N :=
  match e with
  | EvExit k => k * 256
  | EvKill s c => s + (if c then 128 else 0)
  | EvStop s => s * 256 + 127
  | EvCont => 65535
  end.

Definition ev_ok (e : ev) : bool :=
  match e with
  | EvExit k => k <? 256
  | EvKill s _ => (1 <=? s) && (s <=? 126)
  | EvStop s => s <? 256
  | EvCont => false      (* not in the judged domain: the code does not pass WCONTINUED, the kernel then never reports it *)
  end.

(* the code's view of a word, used only to state the partition theorem *)
Inductive wclass := WcExited (k : N) | WcSignaled (sig : N) | WcStopped (sig : N) | WcNone.
Definition decode (w : N) : wclass :=
  if wifexited w then WcExited (wexitstatus w)
  else if wifsignaled w then WcSignaled (wtermsig w)
  else if wifstopped w then WcStopped (wexitstatus w)
  else WcNone.
Definition class_of_ev (e : ev) : wclass :=
  match e with EvExit k => WcExited k | EvKill s _ => WcSignaled s | EvStop s => WcStopped s | EvCont => WcNone end.

(* ------------------------------------------------------------------------------------------------------------------
   2. failures and their texts
   ------------------------------------------------------------------------------------------------------------------ *)
Inductive failure :=
| FExit              (* "Failed in separate process" *)
| FKilled (sig : N)  (* "Failed in separate process - killed by signal <sig>" *)
| FStopped           (* "Stopped in separate process - continuing" *)
| FFork              (* "Call to fork() failed" *)
| FEintr             (* "Call to waitpid() failed with EINTR. Tried 30 times and giving up! ..." *)
| FWait              (* "Call to waitpid() failed" *)
| FCheck             (* a check that failed in a test run in the current process *)
| FOther.            (* a text the canonicaliser does not recognise (never produced by the model) *)

(* StringFrom(int) for a non-negative value: decimal digits, most significant first *)
Fixpoint dec_digits (fuel : nat) (n : N) (acc : list N) : list N :=
  match fuel with
  | O => acc
  | S f => let acc' := (48 + n mod 10) :: acc in if n / 10 =? 0 then acc' else dec_digits f (n / 10) acc'
  end.
Definition decimal (n : N) : list N := dec_digits (S (N.to_nat (N.log2 n))) n [].

Fixpoint parse_dec (s : list N) (acc : N) : N :=
  match s with
  | [] => acc
  | c :: tl => if (48 <=? c) && (c <=? 57) then parse_dec tl (acc * 10 + (c - 48)) else acc
  end.

(* the message the code builds *)
Definition render (f : failure) : list N :=
  match f with
  | FExit => msg_exit
  | FKilled s => msg_killed ++ decimal s
  | FStopped => msg_stopped
  | FFork => msg_fork
  | FEintr => msg_eintr
  | FWait => msg_wait
  | FCheck => [99; 104; 101; 99; 107]
  | FOther => []
  end.

(* the canonicaliser of the harness (harness/C11.cpp: categorise), mirrored: keywords, first match wins *)
Definition kw_fork : list N := [102; 111; 114; 107].              (* "fork" *)
Definition kw_eintr : list N := [69; 73; 78; 84; 82].             (* "EINTR" *)
Definition kw_waitpid : list N := [119; 97; 105; 116; 112; 105; 100].   (* "waitpid" *)
Definition kw_signal : list N := [115; 105; 103; 110; 97; 108; 32].     (* "signal " *)
Definition kw_topped : list N := [116; 111; 112; 112; 101; 100].  (* "topped" *)
Definition kw_separate : list N := [115; 101; 112; 97; 114; 97; 116; 101; 32; 112; 114; 111; 99; 101; 115; 115]. (* "separate process" *)

Definition kw_check : list N := [99; 104; 101; 99; 107].          (* "check" *)

Fixpoint after_sub (s t : list N) : option (list N) :=     (* the text after the first occurrence of t in s *)
  if is_prefix t s then Some (skipn (length t) s)
  else match s with [] => None | _ :: tl => after_sub tl t end.

Definition categorise (m : list N) : failure :=
  if contains m kw_fork then FFork
  else if contains m kw_eintr then FEintr
  else if contains m kw_waitpid then FWait
  else match after_sub m kw_signal with
       | Some rest => FKilled (parse_dec rest 0)
       | None => if contains m kw_topped then FStopped
                 else if contains m kw_separate then FExit
                 else if contains m kw_check then FCheck
                 else FOther
       end.

(* static void SetTestFailureByStatusCode(UtestShell*, TestResult*, int status) *)
Definition set_failure_by_status (w : N) : list failure :=
  if wifexited w && negb (wexitstatus w =? 0) then [FExit]
  else if wifsignaled w then [FKilled (wtermsig w)]
  else if wifstopped w then [FStopped]
  else [].

(* ------------------------------------------------------------------------------------------------------------------
   3. the parent's wait loop over an oracle stream of waitpid outcomes
   ------------------------------------------------------------------------------------------------------------------ *)
Inductive wout :=
| WEintr             (* -1, errno == EINTR *)
| WErr               (* -1, any other errno *)
| WStat (w : N).     (* the child's pid, *status = w *)

Inductive ending :=
| EndReaped          (* the loop saw an exited / signaled status *)
| EndWaitErr         (* "Call to waitpid() failed", return *)
| EndGaveUp          (* EINTR overrun, return *)
| EndStreamOut.      (* the oracle list ran out: not a behaviour of the code; excluded by the theorems *)

Record loop_res := { lr_fails : list failure; lr_calls : nat; lr_conts : nat; lr_end : ending }.

Definition step_res (fs : list failure) (conts : nat) (r : loop_res) : loop_res :=
  {| lr_fails := fs ++ lr_fails r; lr_calls := S (lr_calls r); lr_conts := conts + lr_conts r; lr_end := lr_end r |}.

(* if (amountOfRetries > 30) -- comparison and number re-read from the source *)
Definition gives_up (retries : N) : bool :=
  if eintr_bound_strict then eintr_bound <? retries else eintr_bound <=? retries.

(* do { w = waitpid(..); if (w == -1) { if (EINTR == errno) { if (retries > 30) {fail; return;} retries++; } else {fail; return;} }
        else { SetTestFailureByStatusCode(..); if (WIFSTOPPED(status)) kill(w, SIGCONT); } }
   while ((w == -1) || (!WIFEXITED(status) && !WIFSIGNALED(status))); *)
Fixpoint parent_loop (retries : N) (ws : list wout) : loop_res :=
  match ws with
  | [] => {| lr_fails := []; lr_calls := 0; lr_conts := 0; lr_end := EndStreamOut |}
  | WEintr :: tl =>
      if gives_up retries then {| lr_fails := [FEintr]; lr_calls := 1; lr_conts := 0; lr_end := EndGaveUp |}
      else step_res [] 0 (parent_loop (retries + 1) tl)
  | WErr :: _ => {| lr_fails := [FWait]; lr_calls := 1; lr_conts := 0; lr_end := EndWaitErr |}
  | WStat w :: tl =>
      let fs := set_failure_by_status w in
      let c := if wifstopped w then 1%nat else 0%nat in
      if wifexited w || wifsignaled w then {| lr_fails := fs; lr_calls := 1; lr_conts := c; lr_end := EndReaped |}
      else step_res fs c (parent_loop retries tl)
  end.

(* ------------------------------------------------------------------------------------------------------------------
   4. scenario language
   ------------------------------------------------------------------------------------------------------------------ *)
(* scripted outcomes are symbolic: the spec reads the event, the model reads the encoded word *)
Inductive sout := SEintr | SErr (errno : N) | SEv (e : ev).   (* errno of a failing wait: any value but EINTR *)
Definition c_EINTR : N := 4.
Definition conc (o : sout) : wout :=
  match o with SEintr => WEintr | SErr _ => WErr | SEv e => WStat (encode e) end.

(* what a real child does, in the order the phases run *)
Inductive act :=
| ARaise (sig : N)   (* raise(sig), default disposition *)
| AExit (k : N)      (* _exit(k) *)
| AFail.             (* FAIL(..) in setup/body/teardown; result.addFailure(..) in a plugin action *)
Record prog := { p_pre : list act; p_setup : list act; p_body : list act; p_teardown : list act; p_post : list act }.

(* faults injected in front of the real waitpid: the k-th call takes the k-th entry, later calls are real *)
Inductive inj := IEintr | IErr | IReal.

(* the process-level configuration of the program that runs the tests, while a real child is waited for THROUGH THE REAL
   PlatformSpecificFork / PlatformSpecificWaitPid implementations (no stub in between):
   - what the program did to SIGCHLD;
   - other children of the same process that end meanwhile (already dead when the test's child is forked, or ending while it is
     waited for);
   - how many times a signal with a non-restarting handler arrives while the parent is blocked in the wait for the (still
     living) child: genuine EINTR answers of the kernel. *)
Inductive chld :=
| CDefault           (* SIG_DFL *)
| CIgnore            (* signal(SIGCHLD, SIG_IGN) *)
| CNoCldWait         (* sigaction: SIG_DFL with SA_NOCLDWAIT *)
| CNoCldWaitH        (* sigaction: a handler with SA_NOCLDWAIT | SA_RESTART *)
| CReapFirst         (* a handler (SA_RESTART) that reaps with waitpid(-1, .., WNOHANG) and has run before the runner's wait *)
| CHandler.          (* a handler (SA_RESTART | SA_NOCLDSTOP) that only counts *)
Inductive sib :=
| SibExit (late : bool) (k : N)      (* another child of the process: _exit(k) *)
| SibKill (late : bool) (sig : N).   (* another child of the process: killed by sig *)
Record env := { e_chld : chld; e_sibs : list sib; e_eintr : nat }.

Inductive test :=
| TPlain (fails : bool)                          (* an ordinary test, passing or with one failing check *)
| TScripted (fork_ok : bool) (ws : list sout)    (* fork and waitpid replaced by stubs replaying these outcomes; after the
                                                    listed outcomes the stub reports a clean exit *)
| TReal (p : prog) (inject : list inj)           (* a real child *)
| TEnv (e : env) (p : prog) (inject : list inj). (* a real child under a process-level configuration *)
(* a registered test: IGNORE_TEST (an IgnoredUtestShell) or TEST *)
Record tcase := { c_ign : bool; c_test : test }.
Record scenario := { s_all_sep : bool;           (* registry-wide flag (-p): every test, also TPlain, gets a child *)
                     s_run_ign : bool;           (* registry-wide run-ignored switch (-ri) *)
                     s_tests : list tcase }.

(* default action of signals 1..31 (Linux, signal(7)); stop signals stop because the harness keeps the process group
   from being orphaned *)
Inductive disp := DTerm | DStop | DIgn.
Definition disposition (sig : N) : disp :=
  if (sig =? 17) || (sig =? 18) || (sig =? 23) || (sig =? 28) then DIgn        (* CHLD CONT URG WINCH *)
  else if (sig =? 19) || (sig =? 20) || (sig =? 21) || (sig =? 22) then DStop  (* STOP TSTP TTIN TTOU *)
  else DTerm.

(* how a child's life ends *)
Inductive fate :=
| FateKilled (sig : N)
| FateExit (k : N)
| FateDone (failed_checks : N).   (* ran to the end of the post actions *)

(* one phase.  Result: stop signals met, then either the end of the child or (failed checks so far, phase left early) *)
Inductive pstate := Dead (f : fate) | Alive (failed : N) (left_early : bool).
Fixpoint run_acts (plugin : bool) (failed : N) (l : list act) : list N * pstate :=
  match l with
  | [] => ([], Alive failed false)
  | ARaise s :: tl =>
      match disposition s with
      | DTerm => ([], Dead (FateKilled s))
      | DStop => let (st, r) := run_acts plugin failed tl in (s :: st, r)
      | DIgn => run_acts plugin failed tl
      end
  | AExit k :: _ => ([], Dead (FateExit k))
  | AFail :: tl => if plugin then run_acts plugin (failed + 1) tl else ([], Alive (failed + 1) true)
  end.

Definition then_phase (acc : list N * pstate) (skip_if_left : bool) (f : N -> list N * pstate) : list N * pstate :=
  match acc with
  | (st, Dead x) => (st, Dead x)
  | (st, Alive n early) => if skip_if_left && early then (st, Alive n false)
                           else let (st2, r) := f n in (st ++ st2, r)
  end.

(* plugin pre action; setup; body unless setup failed; teardown; plugin post action *)
Definition child_trace (p : prog) : list N * fate :=
  let a1 := run_acts true 0 (p_pre p) in
  let a2 := then_phase a1 false (fun n => run_acts false n (p_setup p)) in
  let a3 := then_phase a2 true (fun n => run_acts false n (p_body p)) in
  let a4 := then_phase a3 false (fun n => run_acts false n (p_teardown p)) in
  let a5 := then_phase a4 false (fun n => run_acts true n (p_post p)) in
  match a5 with
  | (st, Dead x) => (st, x)
  | (st, Alive n _) => (st, FateDone n)
  end.

(* the child's side of the code: const size_t initial = result->getFailureCount(); run; _exit(initial < result->getFailureCount()) *)
Definition child_final (initial : N) (f : fate) : ev :=
  match f with
  | FateKilled s => EvKill s false
  | FateExit k => EvExit k
  | FateDone n => EvExit (if initial <? initial + n then 1 else 0)
  end.
Definition child_events (initial : N) (p : prog) : list ev :=
  let (st, f) := child_trace p in map EvStop st ++ [child_final initial f].

Fixpoint merge (inject : list inj) (evs : list ev) : list wout :=
  match inject with
  | [] => map (fun e => WStat (encode e)) evs
  | IEintr :: tl => WEintr :: merge tl evs
  | IErr :: tl => WErr :: merge tl evs
  | IReal :: tl => match evs with [] => [] | e :: r => WStat (encode e) :: merge tl r end
  end.

(* Trusted, stated here (wait(2), sigaction(2); Linux): with SIGCHLD ignored or SA_NOCLDWAIT set the kernel reaps a dead
   child itself -- waitpid(pid, .., WUNTRACED) still reports every stop of the child, then blocks until the child is gone and
   fails with ECHILD; the same answer when a handler has reaped the child before.  A handler that does not reap, and other
   children of the process (waitpid is called with the child's own pid), change nothing.  While the child lives, a signal
   whose handler does not restart system calls makes the blocked wait fail with EINTR. *)
Definition auto_reaped (c : chld) : bool := match c with CDefault | CHandler => false | _ => true end.
Definition c_ECHILD : N := 10.
Definition kernel_answers (c : chld) (stops : list N) (final : ev) : list wout :=
  map (fun s => WStat (encode (EvStop s))) stops ++ [if auto_reaped c then WErr else WStat (encode final)].
Definition env_answers (e : env) (stops : list N) (final : ev) : list wout :=
  repeat WEintr (e_eintr e) ++ kernel_answers (e_chld e) stops final.
(* injected faults in front of the real wait, over answers *)
Fixpoint wmerge (inject : list inj) (ws : list wout) : list wout :=
  match inject with
  | [] => ws
  | IEintr :: tl => WEintr :: wmerge tl ws
  | IErr :: tl => WErr :: wmerge tl ws
  | IReal :: tl => match ws with [] => [] | w :: r => w :: wmerge tl r end
  end.

(* ------------------------------------------------------------------------------------------------------------------
   5. observation and run
   ------------------------------------------------------------------------------------------------------------------ *)
Record item := { i_started : bool;            (* the test was started (real child: it reached its first action point) *)
                 i_fails : list failure;      (* failures recorded for this test, in order (category [+ signal]) *)
                 i_calls : nat;               (* waitpid calls made for it *)
                 i_conts : nat;               (* SIGCONT sent for it (scripted tests: counted; real tests: 0, not observable) *)
                 i_lost : bool }.             (* a real child was left unreaped when the runner returned *)
Record obs := { o_items : list item; o_total : N; o_failed : bool; o_run : N; o_ign : N; o_late : bool }.

Definition plain_prog (f : bool) : prog :=
  {| p_pre := []; p_setup := []; p_body := if f then [AFail] else []; p_teardown := []; p_post := [] |}.

Definition item_of_loop (real : bool) (r : loop_res) : item :=
  {| i_started := true; i_fails := lr_fails r; i_calls := lr_calls r;
     i_conts := if real then 0%nat else lr_conts r;
     i_lost := if real then match lr_end r with EndReaped => false | _ => true end else false |}.

Definition run_real (count : N) (p : prog) (inject : list inj) : item :=
  item_of_loop true (parent_loop 0 (merge inject (child_events count p))).

(* a real child under a configuration: the same loop on the answers the real wait gives there.  A child the kernel (or the
   program's handler) reaps is never "left behind" by the runner *)
Definition env_item (e : env) (r : loop_res) : item :=
  let it := item_of_loop true r in
  {| i_started := i_started it; i_fails := i_fails it; i_calls := i_calls it; i_conts := i_conts it;
     i_lost := if auto_reaped (e_chld e) then false else i_lost it |}.
Definition run_env (count : N) (e : env) (p : prog) (inject : list inj) : item :=
  let (st, f) := child_trace p in
  env_item e (parent_loop 0 (wmerge inject (env_answers e st (child_final count f)))).

(* runOneTest: separate process or current process; GccPlatformSpecificRunTestInASeperateProcess: fork error / parent *)
Definition run_test (all_sep : bool) (count : N) (t : test) : item :=
  match t with
  | TPlain f =>
      if all_sep then run_real count (plain_prog f) []
      else {| i_started := true; i_fails := if f then [FCheck] else []; i_calls := 0; i_conts := 0; i_lost := false |}
  | TScripted ok ws =>
      if ok then item_of_loop false (parent_loop 0 (map conc ws ++ [WStat 0]))
      else {| i_started := true; i_fails := [FFork]; i_calls := 0; i_conts := 0; i_lost := false |}
  | TReal p inject => run_real count p inject
  | TEnv e p inject => run_env count e p inject
  end.

(* IgnoredUtestShell::runOneTest: if (runIgnored_) { UtestShell::runOneTest(plugin, result); return; } result.countIgnored();
   runIgnored_ is set by TestRegistry::runAllTests (`if (runIgnored_) test->setRunIgnored();`, a no-op on a plain shell) right
   after `if (runInSeperateProcess_) test->setRunInSeperateProcess();`, for every test, before it is looked at. *)
Definition skipped (run_ign : bool) (tc : tcase) : bool := c_ign tc && negb run_ign.
Definition skip_item : item := {| i_started := false; i_fails := []; i_calls := 0; i_conts := 0; i_lost := false |}.
Definition run_case (all_sep run_ign : bool) (count : N) (tc : tcase) : item :=
  if c_ign tc then (if run_ign then run_test all_sep count (c_test tc) else skip_item)
  else run_test all_sep count (c_test tc).

(* TestRegistry::runAllTests: every test in turn, whatever happened to the earlier ones *)
Fixpoint run_tests (all_sep run_ign : bool) (count : N) (ts : list tcase) : list item * N :=
  match ts with
  | [] => ([], count)
  | t :: tl => let it := run_case all_sep run_ign count t in
               let (its, c) := run_tests all_sep run_ign (count + N.of_nat (length (i_fails it))) tl in
               (it :: its, c)
  end.

(* TestResult::countRun (UtestShell::runOneTest) and TestResult::countIgnored, as the loop meets the tests *)
Fixpoint count_cases (run_ign : bool) (nrun nign : N) (ts : list tcase) : N * N :=
  match ts with
  | [] => (nrun, nign)
  | t :: tl => if skipped run_ign t then count_cases run_ign nrun (nign + 1) tl else count_cases run_ign (nrun + 1) nign tl
  end.

Definition run (s : scenario) : obs :=
  let (its, total) := run_tests (s_all_sep s) (s_run_ign s) 0 (s_tests s) in
  let (nrun, nign) := count_cases (s_run_ign s) 0 0 (s_tests s) in
  {| o_items := its; o_total := total;
     o_failed := negb (total =? 0) || (nrun + nign =? 0);     (* TestResult::isFailure *)
     o_run := nrun; o_ign := nign; o_late := false |}.

(* ------------------------------------------------------------------------------------------------------------------
   6. validity and the property as an oracle on observations
   ------------------------------------------------------------------------------------------------------------------ *)
Definition sout_ok (o : sout) : bool := match o with SEv e => ev_ok e | SErr n => negb (n =? c_EINTR) | SEintr => true end.
Definition act_ok (a : act) : bool :=
  match a with ARaise s => (1 <=? s) && (s <=? 31) | AExit k => k <? 256 | AFail => true end.
Definition prog_ok (p : prog) : bool :=
  forallb act_ok (p_pre p) && forallb act_ok (p_setup p) && forallb act_ok (p_body p) &&
  forallb act_ok (p_teardown p) && forallb act_ok (p_post p).
Definition sib_ok (b : sib) : bool :=
  match b with
  | SibExit _ k => k <? 256
  | SibKill _ s => (1 <=? s) && (s <=? 31) && match disposition s with DTerm => true | _ => false end
  end.
Definition env_ok (e : env) : bool := forallb sib_ok (e_sibs e) && (e_eintr e <=? 64)%nat && (length (e_sibs e) <=? 8)%nat.
Definition test_ok (t : test) : bool :=
  match t with
  | TPlain _ => true | TScripted _ ws => forallb sout_ok ws | TReal p _ => prog_ok p
  | TEnv e p _ => env_ok e && prog_ok p
  end.
Definition case_ok (tc : tcase) : bool := test_ok (c_test tc).
Definition valid (s : scenario) : bool :=
  negb (match s_tests s with [] => true | _ => false end) && forallb case_ok (s_tests s).

(* number of interrupted waits that are retried: the (tolerated+1)-th EINTR makes the runner give up *)
Definition tolerated : nat := N.to_nat (if eintr_bound_strict then eintr_bound + 1 else eintr_bound).

(* The property, per test, on the symbolic stream of what happens to the child and to the waits:
   a stop is one failure and the wait goes on; death by signal, a non-zero exit status (a failed check makes the child
   exit non-zero) and a failing wait are one failure and end it; a clean exit ends it with none; an interrupted wait is
   retried for free, `tolerated` times, the next one is one failure and ends it.  Result: (failures, waits, reaped). *)
Fixpoint expect (budget : nat) (l : list sout) : nat * nat * bool :=
  match l with
  | [] => (0, 0, false)%nat
  | SErr _ :: _ => (1, 1, false)%nat
  | SEintr :: tl =>
      match budget with
      | O => (1, 1, false)%nat
      | S b => let '(f, c, r) := expect b tl in (f, S c, r)
      end
  | SEv (EvExit k) :: _ => (if k =? 0 then 0%nat else 1%nat, 1%nat, true)
  | SEv (EvKill _ _) :: _ => (1, 1, true)%nat
  | SEv (EvStop _) :: tl => let '(f, c, r) := expect budget tl in (S f, S c, r)
  | SEv EvCont :: tl => let '(f, c, r) := expect budget tl in (f, S c, r)
  end.

(* what really happens to a real child, as a symbolic stream (no failure counts, no status words) *)
Definition fate_sout (f : fate) : sout :=
  match f with
  | FateKilled s => SEv (EvKill s false)
  | FateExit k => SEv (EvExit k)
  | FateDone n => SEv (EvExit (if n =? 0 then 0 else 1))    (* "fails a check" must show as a failed test *)
  end.
Fixpoint smerge (inject : list inj) (evs : list sout) : list sout :=
  match inject with
  | [] => evs
  | IEintr :: tl => SEintr :: smerge tl evs
  | IErr :: tl => SErr 5 :: smerge tl evs
  | IReal :: tl => match evs with [] => [] | e :: r => e :: smerge tl r end
  end.
Definition real_stream (p : prog) (inject : list inj) : list sout :=
  let (st, f) := child_trace p in smerge inject (map (fun s => SEv (EvStop s)) st ++ [fate_sout f]).

(* ... and under a process-level configuration: the genuine interruptions first (the child lives on), every stop is reported,
   and the end of the child is reported as it happened unless the kernel / the program's handler has taken the child away --
   then the wait FAILS (ECHILD), which is a failing wait, whatever the child's end was *)
Definition env_stream (e : env) (p : prog) (inject : list inj) : list sout :=
  let (st, f) := child_trace p in
  smerge inject (repeat SEintr (e_eintr e) ++ map (fun s => SEv (EvStop s)) st ++
                 [if auto_reaped (e_chld e) then SErr c_ECHILD else fate_sout f]).

(* the clause "never recorded as passed", on its own: a real child that did not end with exit status 0 *)
Definition unclean (p : prog) : bool :=
  match snd (child_trace p) with
  | FateKilled _ => true
  | FateExit k => negb (k =? 0)
  | FateDone n => negb (n =? 0)
  end.

(* per test: (failures, waits, child must have been reaped) *)
Definition expected (all_sep : bool) (t : test) : nat * nat * bool :=
  match t with
  | TPlain f => if all_sep then expect tolerated (real_stream (plain_prog f) [])
                else ((if f then 1 else 0)%nat, 0%nat, true)
  | TScripted ok ws => if ok then let '(f, c, _) := expect tolerated (ws ++ [SEv (EvExit 0)]) in (f, c, true)
                       else (1%nat, 0%nat, true)
  | TReal p inject => expect tolerated (real_stream p inject)
  | TEnv e p inject => expect tolerated (env_stream e p inject)
  end.

(* a child that did not end with exit status 0 leaves at least one failure, whatever the wait reported *)
Definition never_passed_ok (t : test) (it : item) : bool :=
  match t with
  | TReal p _ | TEnv _ p _ => if unclean p then negb (length (i_fails it) =? 0)%nat else true
  | _ => true
  end.

Definition item_ok (all_sep : bool) (t : test) (it : item) : bool :=
  let '(f, c, reaped) := expected all_sep t in
  i_started it && (length (i_fails it) =? f)%nat && (i_calls it =? c)%nat &&
  (if reaped then negb (i_lost it) else true) && never_passed_ok t it.

(* an IGNORE_TEST without the run-ignored switch is not run: not started (no child asked for, no action point reached), no
   failure, no wait; with the switch it is held to exactly what the same test not marked ignored is held to *)
Definition case_item_ok (all_sep run_ign : bool) (tc : tcase) (it : item) : bool :=
  if skipped run_ign tc
  then negb (i_started it) && (length (i_fails it) =? 0)%nat && (i_calls it =? 0)%nat && negb (i_lost it)
  else item_ok all_sep (c_test tc) it.

Fixpoint items_ok (all_sep run_ign : bool) (ts : list tcase) (its : list item) : bool :=
  match ts, its with
  | [], [] => true
  | t :: tl, it :: itl => case_item_ok all_sep run_ign t it && items_ok all_sep run_ign tl itl
  | _, _ => false
  end.

Definition total_fails (its : list item) : N := N.of_nat (fold_right (fun it a => (length (i_fails it) + a)%nat) 0%nat its).

(* every test accounted for exactly (so every later test ran), the parent's count is the sum, the run is reported
   failed exactly when something failed, every test that was to run is counted as run and every other one as ignored,
   and the parent met its deadline *)
Definition spec (s : scenario) (o : obs) : bool :=
  items_ok (s_all_sep s) (s_run_ign s) (s_tests s) (o_items o) &&
  (o_total o =? total_fails (o_items o)) &&
  Bool.eqb (o_failed o) (negb (o_total o =? 0)) &&
  (o_run o =? N.of_nat (length (filter (fun tc => negb (skipped (s_run_ign s) tc)) (s_tests s)))) &&
  (o_ign o =? N.of_nat (length (filter (skipped (s_run_ign s)) (s_tests s)))) &&
  negb (o_late o).

(* ------------------------------------------------------------------------------------------------------------------
   7. several runAllTests passes over ONE registry (what -r does, and what a program calling runAllTests twice does)
   ------------------------------------------------------------------------------------------------------------------
   Between two passes a program may switch on the registry-wide separate-process mode and the run-ignored mode
   (TestRegistry::setRunTestsInSeperateProcess / setRunIgnored: there is no way to switch them off again) and add tests.
   The shells carry their own two flags (UtestShell::isRunAsSeperateProcess_, IgnoredUtestShell::runIgnored_); the loop of
   runAllTests pushes the registry's switches onto every shell it meets, in EVERY pass:
       for (test = tests_; test; test = test->getNext()) {
           if (runInSeperateProcess_) test->setRunInSeperateProcess();
           if (runIgnored_) test->setRunIgnored();
           ... test->runOneTest(firstPlugin_, result); ... }
   Every pass has a TestResult of its own (CommandLineTestRunner::runAllTests builds one per repetition). *)
Record mcase := { m_from : nat;       (* the test shows its behaviour from this pass on (passes count from 0); in the passes
                                         before, it is an empty, passing test (a test that looks at a static counter) *)
                  m_own : bool;       (* the shell was given a separate-process flag of its own when it was made *)
                  m_case : tcase }.
Record step := { st_sep : bool;       (* setRunTestsInSeperateProcess() is called before this pass *)
                 st_ri : bool;        (* setRunIgnored() is called before this pass *)
                 st_add : list mcase }.   (* tests added before this pass, in the order in which they will be met: addTest
                                             puts a test in front of all the tests the registry has *)
Definition mscenario := list step.

Record shell := { sh_def : mcase; sh_sep : bool; sh_ri : bool }.
Record registry := { r_sep : bool; r_ri : bool; r_tests : list shell }.
Definition new_registry : registry := {| r_sep := false; r_ri := false; r_tests := [] |}.
Definition new_shell (mc : mcase) : shell := {| sh_def := mc; sh_sep := m_own mc; sh_ri := false |}.
Definition apply_step (r : registry) (st : step) : registry :=
  {| r_sep := if st_sep st then true else r_sep r;
     r_ri := if st_ri st then true else r_ri r;
     r_tests := map new_shell (st_add st) ++ r_tests r |}.

(* the test as it behaves in pass k *)
Definition eff (k : nat) (mc : mcase) : tcase :=
  if (k <? m_from mc)%nat then {| c_ign := c_ign (m_case mc); c_test := TPlain false |} else m_case mc.

(* if (runInSeperateProcess_) test->setRunInSeperateProcess(); if (runIgnored_) test->setRunIgnored(); *)
Definition push (r : registry) (sh : shell) : shell :=
  {| sh_def := sh_def sh;
     sh_sep := if r_sep r then true else sh_sep sh;
     sh_ri := if r_ri r then true else sh_ri sh |}.

(* the loop of one pass: the flags are pushed, then the shell is run on ITS flags; the shells keep what was pushed *)
Fixpoint run_shells (r : registry) (k : nat) (count : N) (shs : list shell) : list item * N * list shell :=
  match shs with
  | [] => ([], count, [])
  | sh :: tl =>
      let sh' := push r sh in
      let it := run_case (sh_sep sh') (sh_ri sh') count (eff k (sh_def sh')) in
      let '(its, c, tl') := run_shells r k (count + N.of_nat (length (i_fails it))) tl in
      (it :: its, c, sh' :: tl')
  end.

(* countRun / countIgnored as the loop meets the shells (flags as they are after the push) *)
Fixpoint count_shells (k : nat) (nrun nign : N) (shs : list shell) : N * N :=
  match shs with
  | [] => (nrun, nign)
  | sh :: tl => if skipped (sh_ri sh) (eff k (sh_def sh)) then count_shells k nrun (nign + 1) tl
                else count_shells k (nrun + 1) nign tl
  end.

Definition run_pass (r : registry) (k : nat) : obs * registry :=
  let '(its, total, shs) := run_shells r k 0 (r_tests r) in
  let (nrun, nign) := count_shells k 0 0 shs in
  ({| o_items := its; o_total := total; o_failed := negb (total =? 0) || (nrun + nign =? 0);
      o_run := nrun; o_ign := nign; o_late := false |},
   {| r_sep := r_sep r; r_ri := r_ri r; r_tests := shs |}).

Fixpoint run_steps (r : registry) (k : nat) (sts : list step) : list obs :=
  match sts with
  | [] => []
  | st :: tl => let (o, r') := run_pass (apply_step r st) k in o :: run_steps r' (S k) tl
  end.

(* what is seen of the whole program: one observation per pass, and whether the runner's own process died (killed, exited
   or stopped from inside a test) before the last pass was over -- which the code must never let happen *)
Record mobs := { mo_passes : list obs; mo_died : bool }.
Definition run_m (s : mscenario) : mobs := {| mo_passes := run_steps new_registry 0 s; mo_died := false |}.

(* a one-pass scenario of section 4 as a program of one step; with all_sep = 0 the harness gives scripted and real tests
   a flag of their own *)
Definition needs_child (t : test) : bool := match t with TPlain _ => false | _ => true end.
Definition embed (s : scenario) : mscenario :=
  [ {| st_sep := s_all_sep s; st_ri := s_run_ign s;
       st_add := map (fun tc => {| m_from := 0; m_own := negb (s_all_sep s) && needs_child (c_test tc); m_case := tc |})
                     (s_tests s) |} ].

(* ---- the property over several passes, read off the program text alone (no registry, no shells, no flags):
   in pass k the switches that count are the ones switched on before any of the passes 0..k, the tests are the ones added
   before any of them (the later added first), a test is in separate-process mode iff it has a flag of its own or the switch
   is on, and every test is held to the one-pass account of section 6 for what it is in pass k. ---- *)
Definition upto (k : nat) (s : mscenario) : list step := firstn (S k) s.
Definition want_sep (s : mscenario) (k : nat) : bool := existsb st_sep (upto k s).
Definition want_ri (s : mscenario) (k : nat) : bool := existsb st_ri (upto k s).
Definition present (s : mscenario) (k : nat) : list mcase := flat_map st_add (rev (upto k s)).

Fixpoint items_ok_m (wsep wri : bool) (k : nat) (mcs : list mcase) (its : list item) : bool :=
  match mcs, its with
  | [], [] => true
  | mc :: tl, it :: itl => case_item_ok (m_own mc || wsep) wri (eff k mc) it && items_ok_m wsep wri k tl itl
  | _, _ => false
  end.

Definition pass_ok (s : mscenario) (k : nat) (o : obs) : bool :=
  let wsep := want_sep s k in
  let wri := want_ri s k in
  let mcs := present s k in
  items_ok_m wsep wri k mcs (o_items o) &&
  (o_total o =? total_fails (o_items o)) &&
  Bool.eqb (o_failed o) (negb (o_total o =? 0)) &&
  (o_run o =? N.of_nat (length (filter (fun mc => negb (skipped wri (m_case mc))) mcs))) &&
  (o_ign o =? N.of_nat (length (filter (fun mc => skipped wri (m_case mc)) mcs))) &&
  negb (o_late o).

Fixpoint passes_ok (s : mscenario) (k : nat) (os : list obs) : bool :=
  match os with
  | [] => true
  | o :: tl => pass_ok s k o && passes_ok s (S k) tl
  end.

(* the runner lived through all the passes, and every pass is in order *)
Definition spec_m (s : mscenario) (o : mobs) : bool :=
  negb (mo_died o) && (length (mo_passes o) =? length s)%nat && passes_ok s 0 (mo_passes o).

(* the judged domain: at least one test from the first pass on (isFailure of an empty run is outside the property), well-formed
   tests, and -- the property speaks of tests run in a separate process -- a scripted or real test that is run and shows its
   behaviour in pass k is in separate-process mode in pass k (a test that kills the process it runs in, run in the runner's own
   process by the program's own choice, is not a containment question) *)
Definition mode_ok (wsep wri : bool) (k : nat) (mc : mcase) : bool :=
  if negb (k <? m_from mc)%nat && negb (skipped wri (m_case mc)) && needs_child (c_test (m_case mc))
  then m_own mc || wsep else true.
Definition valid_m (s : mscenario) : bool :=
  match s with [] => false | st :: _ => match st_add st with [] => false | _ => true end end &&
  forallb (fun st => forallb (fun mc => case_ok (m_case mc)) (st_add st)) s &&
  forallb (fun k => forallb (mode_ok (want_sep s k) (want_ri s k) k) (present s k)) (seq 0 (length s)).
