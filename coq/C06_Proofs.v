(* C06 -- proofs about the release paths (model in C06_Model.v) *)
From Coq Require Import NArith List Bool Arith Lia.
From CppUVerif Require Import gen.Gen_Common gen.Gen_C06 lib.Str C04_Model C04_Lists C04_Table C06_Model.
Import ListNotations.
Local Open Scope N_scope.

(* releasing NULL: nothing reported, nothing returned to the allocator, state unchanged -- through every entry point *)
Definition C06_null_silent_stmt : Prop :=
  forall ds jump st al,
    d_dealloc ds jump (d_invalidate st None) al None = (st, CNone, []) /\
    (forall e, exists x, step ds jump st (OpFree e al None) = (st, Some x) /\ o_calls x = 0 /\ o_cat x = 0 /\ o_freed x = []).
Lemma null_silent : C06_null_silent_stmt.
Proof.
  intros ds jump st al. split; [reflexivity|].
  intros e. destruct e; cbn; eexists; (split; [reflexivity|]); cbn; auto.
Qed.
Example null_silent_ex : snd (step [APlain [1]] false d_init (OpFree ENew 0%nat None)) = Some (mkO 0 0 [] 0 false).
Proof. reflexivity. Qed.
