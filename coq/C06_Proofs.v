(* C06 -- proofs about the release paths (model in C06_Model.v): the reported category is exactly the property's case analysis *)
From Coq Require Import NArith List Bool Arith Lia.
From CppUVerif Require Import gen.Gen_Common gen.Gen_C06 lib.Str C04_Model C04_Lists C04_Table C06_Model.
Import ListNotations.
Local Open Scope N_scope.
(* the constants come from the source: nothing below may depend on their values *)
Arguments pat : simpl never.
Arguments G : simpl never.
Arguments pattern : simpl never.
Arguments poison : simpl never.

(* ------------------------------------------------------------------ memory *)
Lemma mread_mwrite m b bs a :
  mread (mwrite m b bs) a = if in_seg b bs a then nth (N.to_nat (a - b)) bs 0 else mread m a.
Proof. reflexivity. Qed.
Lemma in_seg_true b bs a : in_seg b bs a = true <-> b <= a /\ a < b + N.of_nat (length bs).
Proof. unfold in_seg. rewrite andb_true_iff, N.leb_le, N.ltb_lt. tauto. Qed.
Lemma in_seg_false b bs a : in_seg b bs a = false <-> a < b \/ b + N.of_nat (length bs) <= a.
Proof. unfold in_seg. rewrite andb_false_iff, N.leb_gt, N.ltb_ge. tauto. Qed.
Lemma mread_outside m b bs a : a < b \/ b + N.of_nat (length bs) <= a -> mread (mwrite m b bs) a = mread m a.
Proof. intros H. rewrite mread_mwrite. apply in_seg_false in H. rewrite H. reflexivity. Qed.
Lemma mread_inside m b bs i : (i < length bs)%nat -> mread (mwrite m b bs) (b + N.of_nat i) = nth i bs 0.
Proof.
  intros H. rewrite mread_mwrite.
  assert (E : in_seg b bs (b + N.of_nat i) = true) by (apply in_seg_true; lia).
  rewrite E. replace (b + N.of_nat i - b) with (N.of_nat i) by lia. rewrite Nat2N.id. reflexivity.
Qed.
Lemma mrange_length m a n : length (mrange m a n) = n.
Proof. unfold mrange. rewrite map_length, seq_length. reflexivity. Qed.
Lemma mrange_ext m m' a n :
  (forall i, (i < n)%nat -> mread m (a + N.of_nat i) = mread m' (a + N.of_nat i)) -> mrange m a n = mrange m' a n.
Proof. intros H. unfold mrange. apply map_ext_in. intros i Hi. apply in_seq in Hi. apply H. lia. Qed.

Lemma nth_map_seq {A} (f : nat -> A) d : forall n s i, (i < n)%nat -> nth i (map f (seq s n)) d = f (s + i)%nat.
Proof.
  induction n as [|n IH]; intros s i H; [lia|]. cbn. destruct i as [|i].
  - rewrite Nat.add_0_r. reflexivity.
  - rewrite IH by lia. f_equal. lia.
Qed.
Lemma pattern_length : length pattern = G.
Proof. unfold pattern. rewrite map_length, seq_length. reflexivity. Qed.
Lemma pattern_nth i : (i < G)%nat -> nth i pattern 0 = pat i.
Proof. intros H. unfold pattern. rewrite nth_map_seq by assumption. reflexivity. Qed.
Lemma nth_repeat {A} (x d : A) : forall n i, (i < n)%nat -> nth i (repeat x n) d = x.
Proof. induction n as [|n IH]; intros [|i] H; cbn; try lia; auto. apply IH. lia. Qed.

(* the guard of a freshly stored block is intact; the poison fill shows at every user byte *)
Lemma mrange_written m a bs : mrange (mwrite m a bs) a (length bs) = bs.
Proof.
  unfold mrange. apply nth_ext with (d := 0) (d' := 0); [rewrite map_length, seq_length; reflexivity|].
  intros i Hi. rewrite map_length, seq_length in Hi.
  rewrite nth_map_seq by assumption. cbn. apply mread_inside. assumption.
Qed.

(* ------------------------------------------------------------------ the guard check *)
Definition guard_changed (m : memory) (n : node) : Prop :=
  exists i, (i < G)%nat /\ mread m (n_addr n + n_size n + N.of_nat i) <> pat i.

Lemma valid_guard_true m p : valid_guard m p = true <-> forall i, (i < G)%nat -> mread m (p + N.of_nat i) = pat i.
Proof.
  unfold valid_guard. rewrite forallb_forall. split; intros H i Hi.
  - apply N.eqb_eq. apply H. apply in_seq. lia.
  - apply N.eqb_eq. apply H. apply in_seq in Hi. lia.
Qed.
Lemma valid_guard_false m n : valid_guard m (n_addr n + n_size n) = false <-> guard_changed m n.
Proof.
  unfold guard_changed, valid_guard. split.
  - intros H. assert (E : existsb (fun i => negb (mread m (n_addr n + n_size n + N.of_nat i) =? pat i)) (seq 0 G) = true).
    { clear -H. induction (seq 0 G) as [|x l IH]; cbn in H |- *; [discriminate|].
      destruct (mread m (n_addr n + n_size n + N.of_nat x) =? pat x); cbn in H |- *; [apply IH; exact H | reflexivity]. }
    apply existsb_exists in E. destruct E as (i & Hi & Hn). apply in_seq in Hi. exists i. split; [lia|].
    apply negb_true_iff, N.eqb_neq in Hn. assumption.
  - intros (i & Hi & Hn). destruct (forallb _ _) eqn:E; [|reflexivity].
    rewrite forallb_forall in E. specialize (E i). rewrite in_seq in E. specialize (E ltac:(lia)). apply N.eqb_eq in E. contradiction.
Qed.
Lemma guard_changed_dec m n : guard_changed m n \/ ~ guard_changed m n.
Proof. rewrite <- valid_guard_false. destruct (valid_guard m (n_addr n + n_size n)); [right|left]; congruence. Qed.

(* the guard check is the comparison of the G bytes behind the user bytes with the pattern *)
Lemma bytes_eqb_maps (f g : nat -> N) : forall l, bytes_eqb (map f l) (map g l) = forallb (fun i => f i =? g i) l.
Proof. induction l as [|x l IH]; cbn; [reflexivity|]. rewrite IH. reflexivity. Qed.
Lemma valid_guard_range m p : valid_guard m p = bytes_eqb (mrange m p G) pattern.
Proof. unfold valid_guard, mrange, pattern. rewrite bytes_eqb_maps. reflexivity. Qed.

(* ------------------------------------------------------------------ families *)
Definition fam_of (ds : list adesc) (al : nat) : list N := name_of ds (actual_of ds al).

Lemma equal_type_spec ds f a : equal_type ds f a = bytes_eqb (name_of ds a) (name_of ds f).
Proof.
  unfold equal_type. destruct (str_cmp (name_of ds f) (name_of ds a)) eqn:E.
  - apply str_cmp_eq in E. rewrite E. symmetry. apply bytes_eqb_refl.
  - symmetry. apply bytes_eqb_neq. intro H. rewrite H in E. rewrite (proj2 (str_cmp_eq _ _) eq_refl) in E. discriminate.
  - symmetry. apply bytes_eqb_neq. intro H. rewrite H in E. rewrite (proj2 (str_cmp_eq _ _) eq_refl) in E. discriminate.
Qed.
(* the pointer comparison in matchingAllocation is only a short cut: the same object has the same name *)
Lemma matching_spec ds tc a f : matching ds tc a f = negb tc || bytes_eqb (name_of ds a) (name_of ds f).
Proof.
  unfold matching. destruct (Nat.eqb_spec a f) as [->|_].
  - rewrite bytes_eqb_refl. rewrite orb_true_r. reflexivity.
  - destruct tc; cbn; [apply equal_type_spec|reflexivity].
Qed.

(* ------------------------------------------------------------------ what checkForCorruption reports *)
Definition mismatch (ds : list adesc) (tc : bool) (n : node) (al : nat) : Prop :=
  tc = true /\ fam_of ds (node_alloc n) <> fam_of ds al.

Lemma mismatch_dec ds tc n al : mismatch ds tc n al \/ ~ mismatch ds tc n al.
Proof.
  unfold mismatch. destruct tc; [|right; intros [? _]; discriminate].
  destruct (bytes_eqb (fam_of ds (node_alloc n)) (fam_of ds al)) eqn:E.
  - apply bytes_eqb_eq in E. right. intros [_ H]. contradiction.
  - apply bytes_eqb_neq in E. left. auto.
Qed.

Lemma check_exact ds st n al :
  (check ds st n al = CMismatch <-> mismatch ds (s_tc st) n al) /\
  (check ds st n al = CCorrupt <-> ~ mismatch ds (s_tc st) n al /\ guard_changed (s_mem st) n) /\
  (check ds st n al = CNone <-> ~ mismatch ds (s_tc st) n al /\ ~ guard_changed (s_mem st) n) /\
  check ds st n al <> CNonAlloc.
Proof.
  unfold check. rewrite matching_spec. fold (fam_of ds (node_alloc n)). fold (fam_of ds al).
  destruct (mismatch_dec ds (s_tc st) n al) as [M|M].
  - assert (E : negb (s_tc st) || bytes_eqb (fam_of ds (node_alloc n)) (fam_of ds al) = false).
    { destruct M as [-> Hn]. cbn. apply bytes_eqb_neq. assumption. }
    rewrite E. cbn. (split; [|split; [|split]]); try (split; intros X); try reflexivity; try discriminate; try tauto; try congruence.
  - assert (E : negb (s_tc st) || bytes_eqb (fam_of ds (node_alloc n)) (fam_of ds al) = true).
    { unfold mismatch in M. destruct (s_tc st); cbn; [|reflexivity].
      destruct (bytes_eqb _ _) eqn:E; [reflexivity|]. apply bytes_eqb_neq in E. exfalso. apply M. auto. }
    rewrite E. cbn. destruct (guard_changed_dec (s_mem st) n) as [C|C].
    + rewrite (proj2 (valid_guard_false _ _) C). cbn. (split; [|split; [|split]]); try (split; intros X); try reflexivity; try discriminate; try tauto; try congruence.
    + assert (V : valid_guard (s_mem st) (n_addr n + n_size n) = true).
      { destruct (valid_guard _ _) eqn:V; [reflexivity|]. apply valid_guard_false in V. contradiction. }
      rewrite V. cbn. (split; [|split; [|split]]); try (split; intros X); try reflexivity; try discriminate; try tauto; try congruence.
Qed.

(* ------------------------------------------------------------------ the table, through its flat view (C04) *)
Lemma retrieve_flat a t : Inv t -> t_retrieve a t = l_retrieve a (flat t).
Proof.
  intros (L & B & ND). destruct (at_hash a t L B) as (T1 & b & T2 & E & L1 & N1 & N2 & Fb & Bok).
  unfold t_retrieve. rewrite <- L1. rewrite E at 1. rewrite get_b_app.
  rewrite E, flat_mid, retrieve_app, (retrieve_notin _ _ N1), retrieve_app.
  destruct (l_retrieve a b); [reflexivity|]. rewrite (retrieve_notin _ _ N2). reflexivity.
Qed.
Lemma remove_cases a t : Inv t ->
  (l_retrieve a (flat t) = None /\ ~ In a (addrs (flat t)) /\ fst (t_remove a t) = None) \/
  (exists n, l_retrieve a (flat t) = Some n /\ n_addr n = a /\ In n (flat t) /\ fst (t_remove a t) = Some n /\
             flat (snd (t_remove a t)) = rm a (flat t) /\ Inv (snd (t_remove a t)) /\ ~ In a (addrs (flat (snd (t_remove a t))))).
Proof.
  intros I. destruct (remove_flat a t I) as (F & R & I'). destruct (l_retrieve a (flat t)) as [n|] eqn:E.
  - right. exists n. destruct (retrieve_some _ _ _ E) as (A & B & EA & Ha & Hn & Hr).
    split; [reflexivity|]. split; [assumption|]. split; [rewrite EA; apply in_or_app; right; left; reflexivity|].
    split; [assumption|]. split; [assumption|]. split; [assumption|].
    rewrite R. destruct I as (_ & _ & ND). rewrite rm_drop by assumption.
    unfold drop, addrs. rewrite in_map_iff. intros (x & Hx & Hin). apply filter_In in Hin. destruct Hin as [_ Hf].
    unfold has_addr in Hf. rewrite Hx, N.eqb_refl in Hf. discriminate.
  - left. split; [reflexivity|]. split; [apply retrieve_none; assumption|assumption].
Qed.
Lemma total_all t : t_total PAll t = N.of_nat (length (flat t)).
Proof.
  rewrite total_flat. f_equal. f_equal.
  rewrite (filter_ext _ (fun _ => true)) by (intros c; reflexivity).
  induction (flat t) as [|c r IH]; [reflexivity|]. cbn [filter]. rewrite IH. reflexivity.
Qed.
Lemma rm_length a : forall l n, l_retrieve a l = Some n -> S (length (rm a l)) = length l.
Proof.
  induction l as [|c r IH]; cbn; intros n H; [discriminate|].
  destruct (n_addr c =? a); [reflexivity|]. cbn. f_equal. eapply IH. eassumption.
Qed.

(* ------------------------------------------------------------------ C06_category_exact *)
Definition outstanding (st : dstate) (a : N) : Prop := In a (addrs (flat (s_tbl st))).
Definition dealloc_cat ds jump st al p : cat := snd (fst (d_dealloc ds jump st al p)).
Definition realloc_cat ds jump st al p na size : cat := snd (fst (d_realloc ds jump st al p na size)).

(* the case analysis of the property, for a category c reported when address p is released through allocator al *)
Definition category_is (ds : list adesc) (st : dstate) (al : nat) (p : option N) (c : cat) : Prop :=
  match p with
  | None => c = CNone
  | Some a =>
      (c = CNonAlloc <-> ~ outstanding st a) /\
      (forall n, l_retrieve a (flat (s_tbl st)) = Some n ->
         (c = CMismatch <-> mismatch ds (s_tc st) n al) /\
         (c = CCorrupt <-> ~ mismatch ds (s_tc st) n al /\ guard_changed (s_mem st) n) /\
         (c = CNone <-> ~ mismatch ds (s_tc st) n al /\ ~ guard_changed (s_mem st) n))
  end.

Lemma dealloc_category ds jump st al p : Inv (s_tbl st) -> category_is ds st al p (dealloc_cat ds jump st al p).
Proof.
  intros I. unfold category_is, dealloc_cat, d_dealloc. destruct p as [a|]; [|reflexivity].
  destruct (remove_cases a (s_tbl st) I) as [(E & Hn & F)|(n & E & Ha & Hin & F & R & I' & Hout)].
  - destruct (t_remove a (s_tbl st)) as [r t'] eqn:TR. cbn in F. subst r. cbn. split; [tauto|]. intros n H. congruence.
  - destruct (t_remove a (s_tbl st)) as [r t'] eqn:TR. cbn in F. subst r.
    set (st' := with_tbl st t').
    destruct (check_exact ds st' n al) as (C1 & C2 & C3 & C4). cbn [s_tc s_mem st' with_tbl] in *.
    assert (O : outstanding st a). { unfold outstanding. rewrite <- Ha. apply in_map. assumption. }
    assert (Q : snd (fst (match check ds st' n al with
                          | CNone => (st', check ds st' n al, [(a, n_size n)])
                          | _ => if jump then (st', check ds st' n al, []) else (st', check ds st' n al, [(a, n_size n)]) end))
                = check ds st' n al) by (destruct (check ds st' n al), jump; reflexivity).
    rewrite Q. split.
    + split; [intro H; exfalso; apply C4; assumption | intro H; contradiction].
    + intros n' H'. rewrite E in H'. inversion H'; subst n'. tauto.
Qed.

Lemma realloc_category ds jump st al p na size : Inv (s_tbl st) -> category_is ds st al p (realloc_cat ds jump st al p na size).
Proof.
  intros I. unfold category_is, realloc_cat, d_realloc. destruct p as [a|]; [|reflexivity].
  destruct (remove_cases a (s_tbl st) I) as [(E & Hn & F)|(n & E & Ha & Hin & F & R & I' & Hout)].
  - destruct (t_remove a (s_tbl st)) as [r t'] eqn:TR. cbn in F. subst r. cbn. split; [tauto|]. intros n H. congruence.
  - destruct (t_remove a (s_tbl st)) as [r t'] eqn:TR. cbn in F. subst r.
    set (st' := with_tbl st t').
    destruct (check_exact ds st' n al) as (C1 & C2 & C3 & C4). cbn [s_tc s_mem st' with_tbl] in *.
    assert (O : outstanding st a). { unfold outstanding. rewrite <- Ha. apply in_map. assumption. }
    assert (Q : snd (fst (match check ds st' n al with
                          | CNone => (d_store st' na size al, check ds st' n al, true)
                          | _ => if jump then (st', check ds st' n al, false) else (d_store st' na size al, check ds st' n al, true) end))
                = check ds st' n al) by (destruct (check ds st' n al), jump; reflexivity).
    rewrite Q. split.
    + split; [intro H; exfalso; apply C4; assumption | intro H; contradiction].
    + intros n' H'. rewrite E in H'. inversion H'; subst n'. tauto.
Qed.

(* the poison fill of operator delete / delete[] / free does not reach the guard *)
Lemma invalidate_tbl st p : s_tbl (d_invalidate st p) = s_tbl st /\ s_tc (d_invalidate st p) = s_tc st.
Proof. unfold d_invalidate. destruct p as [a|]; [|auto]. destruct (t_retrieve a (s_tbl st)); auto. Qed.
Lemma invalidate_guard st a n : Inv (s_tbl st) -> l_retrieve a (flat (s_tbl st)) = Some n ->
  forall i, mread (s_mem (d_invalidate st (Some a))) (n_addr n + n_size n + N.of_nat i) = mread (s_mem st) (n_addr n + n_size n + N.of_nat i).
Proof.
  intros I E i. unfold d_invalidate. rewrite (retrieve_flat _ _ I), E. cbn.
  destruct (retrieve_some _ _ _ E) as (_ & _ & _ & Ha & _). subst a.
  apply mread_outside. right. rewrite repeat_length, N2Nat.id. lia.
Qed.

(* total, mutually exclusive, and exactly as the property words it -- for all five release paths *)
Definition C06_category_exact_stmt : Prop :=
  forall ds jump st al p, Inv (s_tbl st) ->
    category_is ds st al p (dealloc_cat ds jump st al p) /\                                  (* MemoryLeakAllocator::free_memory *)
    category_is ds st al p (dealloc_cat ds jump (d_invalidate st p) al p) /\                 (* delete, delete[], free *)
    (forall na size, category_is ds st al p (realloc_cat ds jump st al p na size)).          (* realloc *)
Lemma category_exact : C06_category_exact_stmt.
Proof.
  intros ds jump st al p I. split; [apply dealloc_category; assumption|]. split; [|intros; apply realloc_category; assumption].
  destruct (invalidate_tbl st p) as [Et Ec].
  assert (I2 : Inv (s_tbl (d_invalidate st p))) by (rewrite Et; assumption).
  pose proof (dealloc_category ds jump (d_invalidate st p) al p I2) as H.
  unfold category_is in *. destruct p as [a|]; [|assumption].
  unfold outstanding in *. rewrite Et, Ec in H. destruct H as [H1 H2]. split; [assumption|].
  intros n E. specialize (H2 n E).
  assert (GC : guard_changed (s_mem (d_invalidate st (Some a))) n <-> guard_changed (s_mem st) n).
  { unfold guard_changed. split; intros (i & Hi & Hn); exists i; (split; [assumption|]).
    - rewrite <- (invalidate_guard st a n I E i). assumption.
    - rewrite (invalidate_guard st a n I E i). assumption. }
  rewrite GC in H2. assumption.
Qed.

(* ------------------------------------------------------------------ the category as a function of the flat table *)
Definition lookup_cat (ds : list adesc) (st : dstate) (al : nat) (p : option N) : cat :=
  match p with
  | None => CNone
  | Some a => match l_retrieve a (flat (s_tbl st)) with None => CNonAlloc | Some n => check ds st n al end
  end.
(* checkForCorruption reads the type-checking switch and the memory -- not the table, not the period, not the stage *)
Lemma check_ext ds st1 st2 n al : s_tc st1 = s_tc st2 -> s_mem st1 = s_mem st2 -> check ds st1 n al = check ds st2 n al.
Proof. intros Ec Em. unfold check. rewrite Ec, Em. reflexivity. Qed.
Lemma check_with_tbl ds st t n al : check ds (with_tbl st t) n al = check ds st n al.
Proof. reflexivity. Qed.
Lemma dealloc_cat_eq ds jump st al p : Inv (s_tbl st) -> dealloc_cat ds jump st al p = lookup_cat ds st al p.
Proof.
  intros I. unfold dealloc_cat, d_dealloc, lookup_cat. destruct p as [a|]; [|reflexivity].
  destruct (remove_cases a (s_tbl st) I) as [(E & Hn & F)|(n & E & Ha & Hin & F & R & I' & Hout)];
    destruct (t_remove a (s_tbl st)) as [r t'] eqn:TR; cbn in F; subst r; rewrite E; [reflexivity|].
  rewrite check_with_tbl. destruct (check ds st n al), jump; reflexivity.
Qed.
Lemma realloc_cat_eq ds jump st al p na size : Inv (s_tbl st) -> realloc_cat ds jump st al p na size = lookup_cat ds st al p.
Proof.
  intros I. unfold realloc_cat, d_realloc, lookup_cat. destruct p as [a|]; [|reflexivity].
  destruct (remove_cases a (s_tbl st) I) as [(E & Hn & F)|(n & E & Ha & Hin & F & R & I' & Hout)];
    destruct (t_remove a (s_tbl st)) as [r t'] eqn:TR; cbn in F; subst r; rewrite E; [reflexivity|].
  rewrite check_with_tbl. destruct (check ds st n al), jump; reflexivity.
Qed.

(* two memories that show the same guard bytes for every tracked block *)
Definition guards_agree (l : list node) (m1 m2 : memory) : Prop :=
  forall k i, In k l -> (i < G)%nat -> mread m1 (n_addr k + n_size k + N.of_nat i) = mread m2 (n_addr k + n_size k + N.of_nat i).
Lemma guards_agree_refl l m : guards_agree l m m.
Proof. intros k i _ _. reflexivity. Qed.
Lemma guards_agree_trans l m1 m2 m3 : guards_agree l m1 m2 -> guards_agree l m2 m3 -> guards_agree l m1 m3.
Proof. intros H1 H2 k i Hk Hi. rewrite (H1 k i Hk Hi). apply H2; assumption. Qed.
Lemma valid_guard_ext m1 m2 p : (forall i, (i < G)%nat -> mread m1 (p + N.of_nat i) = mread m2 (p + N.of_nat i)) ->
  valid_guard m1 p = valid_guard m2 p.
Proof. intros H. rewrite !valid_guard_range. f_equal. apply mrange_ext. assumption. Qed.
Lemma lookup_cat_ext ds st1 st2 al p :
  s_tbl st1 = s_tbl st2 -> s_tc st1 = s_tc st2 -> guards_agree (flat (s_tbl st1)) (s_mem st1) (s_mem st2) ->
  lookup_cat ds st1 al p = lookup_cat ds st2 al p.
Proof.
  intros Et Ec Ag. unfold lookup_cat. destruct p as [a|]; [|reflexivity]. rewrite <- Et.
  destruct (l_retrieve a (flat (s_tbl st1))) as [n|] eqn:E; [|reflexivity].
  destruct (retrieve_some _ _ _ E) as (A & B & EA & _).
  assert (Hin : In n (flat (s_tbl st1))) by (rewrite EA; apply in_or_app; right; left; reflexivity).
  unfold check. rewrite Ec. rewrite (valid_guard_ext (s_mem st1) (s_mem st2)); [reflexivity|].
  intros i Hi. apply Ag; assumption.
Qed.

(* ------------------------------------------------------------------ slots: the regions of tracked blocks are disjoint *)
Definition slot_ok (n : node) : Prop := n_addr n mod slot_size = 0 /\ n_size n <= max_size.
Definition slots_ok (l : list node) : Prop := Forall slot_ok l.
Lemma G_fits : max_size + N.of_nat G + 1 <= slot_size.
Proof. vm_compute. intro H. discriminate H. Qed.
Lemma slot_sep a1 a2 : a1 mod slot_size = 0 -> a2 mod slot_size = 0 -> a1 <> a2 -> a1 + slot_size <= a2 \/ a2 + slot_size <= a1.
Proof.
  unfold slot_size. intros H1 H2 Hn.
  pose proof (N.div_mod a1 4608 ltac:(discriminate)) as D1. pose proof (N.div_mod a2 4608 ltac:(discriminate)) as D2.
  rewrite H1 in D1. rewrite H2 in D2. destruct (N.lt_trichotomy (a1 / 4608) (a2 / 4608)) as [L|[L|L]]; lia.
Qed.
Lemma nodup_addr_inj : forall l k n, NoDup (addrs l) -> In k l -> In n l -> n_addr k = n_addr n -> k = n.
Proof.
  induction l as [|c r IH]; cbn; intros k n ND Hk Hn E; [tauto|]. inversion ND as [|x y Hx Hy]; subst.
  destruct Hk as [<-|Hk], Hn as [<-|Hn]; auto.
  - exfalso. apply Hx. rewrite E. apply in_map. assumption.
  - exfalso. apply Hx. rewrite <- E. apply in_map. assumption.
Qed.
Lemma retrieve_in : forall l n, NoDup (addrs l) -> In n l -> l_retrieve (n_addr n) l = Some n.
Proof.
  induction l as [|c r IH]; cbn; intros n ND Hn; [tauto|]. inversion ND as [|x y Hx Hy]; subst.
  destruct Hn as [<-|Hn]; [rewrite N.eqb_refl; reflexivity|].
  destruct (N.eqb_spec (n_addr c) (n_addr n)) as [E|_]; [|apply IH; assumption].
  exfalso. apply Hx. rewrite E. apply in_map. assumption.
Qed.

(* a write of the user program that stays inside the user bytes of an outstanding block *)
Definition user_write (l : list node) (w : N) (bs : list N) : Prop :=
  exists n, In n l /\ n_addr n <= w /\ w + N.of_nat (length bs) <= n_addr n + n_size n.
Lemma user_write_agree l m w bs : slots_ok l -> NoDup (addrs l) -> user_write l w bs -> guards_agree l (mwrite m w bs) m.
Proof.
  intros SO ND (n & Hn & Hlo & Hhi) k i Hk Hi. apply mread_outside.
  unfold slots_ok in SO. rewrite Forall_forall in SO. destruct (SO k Hk) as [Mk Sk]. destruct (SO n Hn) as [Mn Sn].
  pose proof G_fits as GF.
  destruct (N.eq_dec (n_addr k) (n_addr n)) as [E|E].
  - assert (k = n) by (eapply nodup_addr_inj; eassumption). subst k. right. lia.
  - destruct (slot_sep _ _ Mk Mn E) as [S|S]; [left|right]; lia.
Qed.
Definition apply_writes (m : memory) (ws : list (N * list N)) : memory := fold_left (fun m w => mwrite m (fst w) (snd w)) ws m.
Lemma user_writes_agree l : slots_ok l -> NoDup (addrs l) -> forall ws m,
  Forall (fun w => user_write l (fst w) (snd w)) ws -> guards_agree l (apply_writes m ws) m.
Proof.
  intros SO ND. induction ws as [|w r IH]; intros m H; cbn; [apply guards_agree_refl|].
  inversion H; subst. eapply guards_agree_trans; [apply IH; assumption|]. apply user_write_agree; assumption.
Qed.
(* the poison fill is such a write *)
Lemma invalidate_agree st p : Inv (s_tbl st) -> slots_ok (flat (s_tbl st)) ->
  guards_agree (flat (s_tbl st)) (s_mem (d_invalidate st p)) (s_mem st).
Proof.
  intros I SO. unfold d_invalidate. destruct p as [a|]; [|apply guards_agree_refl].
  rewrite (retrieve_flat _ _ I). destruct (l_retrieve a (flat (s_tbl st))) as [n|] eqn:E; [|apply guards_agree_refl].
  cbn. destruct (retrieve_some _ _ _ E) as (A & B & EA & Ha & _). destruct I as (_ & _ & ND).
  apply user_write_agree; try assumption. exists n. split; [rewrite EA; apply in_or_app; right; left; reflexivity|].
  rewrite repeat_length, N2Nat.id. lia.
Qed.

(* ------------------------------------------------------------------ C06_user_writes_silent *)
Definition C06_user_writes_silent_stmt : Prop :=
  forall ds jump st ws al p, Inv (s_tbl st) -> slots_ok (flat (s_tbl st)) ->
    Forall (fun w => user_write (flat (s_tbl st)) (fst w) (snd w)) ws ->
    let st' := with_mem st (apply_writes (s_mem st) ws) in
    dealloc_cat ds jump st' al p = dealloc_cat ds jump st al p /\
    dealloc_cat ds jump (d_invalidate st' p) al p = dealloc_cat ds jump (d_invalidate st p) al p /\
    (forall na size, realloc_cat ds jump st' al p na size = realloc_cat ds jump st al p na size).
Lemma user_writes_silent : C06_user_writes_silent_stmt.
Proof.
  intros ds jump st ws al p I SO Hw st'. pose proof I as (_ & _ & ND).
  assert (Ag : guards_agree (flat (s_tbl st)) (s_mem st') (s_mem st)) by (apply user_writes_agree; assumption).
  assert (I' : Inv (s_tbl st')) by assumption.
  split; [|split].
  - rewrite !dealloc_cat_eq by assumption. apply lookup_cat_ext; auto.
  - destruct (invalidate_tbl st p) as [Et Ec]. destruct (invalidate_tbl st' p) as [Et' Ec'].
    rewrite !dealloc_cat_eq by (rewrite ?Et, ?Et'; assumption).
    apply lookup_cat_ext; [rewrite Et, Et'; reflexivity | rewrite Ec, Ec'; reflexivity |].
    rewrite Et'. cbn [s_tbl st' with_mem].
    eapply guards_agree_trans; [apply (invalidate_agree st' p); assumption|].
    eapply guards_agree_trans; [exact Ag|]. intros k i Hk Hi. symmetry. apply (invalidate_agree st p I SO k i Hk Hi).
  - intros na size. rewrite !realloc_cat_eq by assumption. apply lookup_cat_ext; auto.
Qed.

(* ------------------------------------------------------------------ C06_every_guard_byte *)
Definition all_paths (ds : list adesc) (jump : bool) (st : dstate) (al : nat) (p : option N) (c : cat) : Prop :=
  dealloc_cat ds jump st al p = c /\ dealloc_cat ds jump (d_invalidate st p) al p = c /\
  (forall na size, realloc_cat ds jump st al p na size = c).
Lemma all_paths_lookup ds jump st al p : Inv (s_tbl st) -> slots_ok (flat (s_tbl st)) -> all_paths ds jump st al p (lookup_cat ds st al p).
Proof.
  intros I SO. split; [apply dealloc_cat_eq; assumption|]. split; [|intros; apply realloc_cat_eq; assumption].
  destruct (invalidate_tbl st p) as [Et Ec]. rewrite dealloc_cat_eq by (rewrite Et; assumption).
  apply lookup_cat_ext; auto. rewrite Et. apply invalidate_agree; assumption.
Qed.

Definition C06_every_guard_byte_stmt : Prop :=
  forall ds jump st n al i v, Inv (s_tbl st) -> slots_ok (flat (s_tbl st)) -> In n (flat (s_tbl st)) ->
    (i < G)%nat -> v <> pat i ->
    let st' := with_mem st (mwrite (s_mem st) (n_addr n + n_size n + N.of_nat i) [v]) in
    (~ mismatch ds (s_tc st) n al -> all_paths ds jump st' al (Some (n_addr n)) CCorrupt) /\
    (mismatch ds (s_tc st) n al -> all_paths ds jump st' al (Some (n_addr n)) CMismatch).
Lemma every_guard_byte : C06_every_guard_byte_stmt.
Proof.
  intros ds jump st n al i v I SO Hin Hi Hv st'. pose proof I as (_ & _ & ND).
  assert (L : lookup_cat ds st' al (Some (n_addr n)) = check ds st' n al).
  { unfold lookup_cat. cbn [s_tbl st' with_mem]. rewrite (retrieve_in _ _ ND Hin). reflexivity. }
  assert (GC : guard_changed (s_mem st') n).
  { exists i. split; [assumption|]. cbn [s_mem st' with_mem].
    rewrite mread_mwrite.
    assert (S : in_seg (n_addr n + n_size n + N.of_nat i) [v] (n_addr n + n_size n + N.of_nat i) = true) by (apply in_seg_true; cbn; lia).
    rewrite S, N.sub_diag. cbn. assumption. }
  destruct (check_exact ds st' n al) as (C1 & C2 & C3 & C4). cbn [s_tc st' with_mem] in *.
  pose proof (all_paths_lookup ds jump st' al (Some (n_addr n)) I SO) as AP. rewrite L in AP.
  split; intros M.
  - rewrite (proj2 C2 (conj M GC)) in AP. assumption.
  - rewrite (proj2 C1 M) in AP. assumption.
Qed.

(* ------------------------------------------------------------------ C06_null_silent *)
Definition C06_null_silent_stmt : Prop :=
  forall ds jump st al,
    d_dealloc ds jump (d_invalidate st None) al None = (st, CNone, []) /\
    d_realloc ds jump st al None = (fun na size => (d_store st na size al, CNone, true)) /\
    (forall e, exists x, step ds jump st (OpFree e al None) = (st, Some x) /\ o_calls x = 0 /\ o_cat x = 0 /\ o_freed x = []).
Lemma null_silent : C06_null_silent_stmt.
Proof.
  intros ds jump st al. split; [reflexivity|]. split; [reflexivity|].
  intros e. destruct e; cbn; eexists; (split; [reflexivity|]); cbn; auto.
Qed.

(* ------------------------------------------------------------------ storing a block *)
Lemma retrieve_insert a' : forall A n B, ~ In (n_addr n) (addrs (A ++ B)) ->
  l_retrieve a' (A ++ n :: B) = if n_addr n =? a' then Some n else l_retrieve a' (A ++ B).
Proof.
  intros A n B Hn. rewrite !retrieve_app. cbn. apply notin_app in Hn. destruct Hn as [HA HB].
  destruct (N.eqb_spec (n_addr n) a') as [E|E].
  - subst a'. rewrite (retrieve_notin _ _ HA). reflexivity.
  - reflexivity.
Qed.
Lemma store_facts st a size al : Inv (s_tbl st) -> ~ outstanding st a ->
  let st1 := d_store st a size al in
  Inv (s_tbl st1) /\
  (forall a', l_retrieve a' (flat (s_tbl st1)) = if a =? a' then Some (mk_node a size al (s_period st) (s_stage st)) else l_retrieve a' (flat (s_tbl st))) /\
  (forall x, In x (flat (s_tbl st1)) <-> x = mk_node a size al (s_period st) (s_stage st) \/ In x (flat (s_tbl st))) /\
  length (flat (s_tbl st1)) = S (length (flat (s_tbl st))) /\
  s_tc st1 = s_tc st /\ s_mem st1 = mwrite (s_mem st) (a + size) pattern.
Proof.
  intros I Hn st1. unfold outstanding in Hn.
  destruct (add_flat (mk_node a size al (s_period st) (s_stage st)) (s_tbl st) I Hn) as (I1 & A & B & EF & EF1).
  cbn [st1 d_store with_mem with_tbl s_tbl s_tc s_mem]. split; [assumption|]. split; [|split; [|split; [|split; reflexivity]]].
  - intros a'. rewrite EF1, EF. apply retrieve_insert. cbn. rewrite <- EF. assumption.
  - intros x. rewrite EF1, EF, !in_app_iff. cbn. intuition.
  - rewrite EF1, EF, !app_length. cbn. lia.
Qed.

(* ------------------------------------------------------------------ C06_paired_silent *)
Definition C06_paired_silent_stmt : Prop :=
  forall ds jump st a size al al2 ws, Inv (s_tbl st) -> slots_ok (flat (s_tbl st)) ->
    ~ outstanding st a -> a mod slot_size = 0 -> size <= max_size ->
    Forall (fun w => a <= fst w /\ fst w + N.of_nat (length (snd w)) <= a + size) ws ->
    fam_of ds al2 = fam_of ds al ->
    let st1 := d_store st a size al in
    let st2 := with_mem st1 (apply_writes (s_mem st1) ws) in
    all_paths ds jump st2 al2 (Some a) CNone.
Lemma paired_silent : C06_paired_silent_stmt.
Proof.
  intros ds jump st a size al al2 ws I SO Hn Ha Hs Hw Hf st1 st2.
  destruct (store_facts st a size al I Hn) as (I1 & R1 & In1 & _ & Tc1 & M1). fold st1 in I1, R1, In1, Tc1, M1.
  assert (SO1 : slots_ok (flat (s_tbl st1))).
  { unfold slots_ok. rewrite Forall_forall. intros x Hx. apply In1 in Hx. destruct Hx as [->|Hx].
    - split; assumption.
    - unfold slots_ok in SO. rewrite Forall_forall in SO. apply SO. assumption. }
  pose proof I1 as (_ & _ & ND1).
  assert (Hin : In (mk_node a size al (s_period st) (s_stage st)) (flat (s_tbl st1))) by (apply In1; left; reflexivity).
  assert (UW : Forall (fun w => user_write (flat (s_tbl st1)) (fst w) (snd w)) ws).
  { rewrite Forall_forall in *. intros w Hwi. exists (mk_node a size al (s_period st) (s_stage st)). split; [assumption|]. cbn. apply Hw. assumption. }
  assert (Ag : guards_agree (flat (s_tbl st1)) (s_mem st2) (s_mem st1)) by (apply user_writes_agree; assumption).
  pose proof (all_paths_lookup ds jump st2 al2 (Some a) I1 SO1) as AP.
  assert (L : lookup_cat ds st2 al2 (Some a) = CNone).
  { unfold lookup_cat. cbn [s_tbl st2 with_mem]. rewrite R1, N.eqb_refl.
    destruct (check_exact ds st2 (mk_node a size al (s_period st) (s_stage st)) al2) as (_ & _ & C3 & _). apply C3. split.
    - intros [_ Hd]. apply Hd. unfold node_alloc. cbn. rewrite Nat2N.id. symmetry. assumption.
    - intros (i & Hi & Hc). apply Hc. rewrite (Ag _ i Hin Hi). rewrite M1. cbn [n_addr n_size mk_node].
      rewrite mread_inside by (rewrite pattern_length; assumption). apply pattern_nth. assumption. }
  rewrite L in AP. assumption.
Qed.

(* ------------------------------------------------------------------ C06_poison_before_free *)
(* operator delete / delete[] / free of an outstanding block: whenever the block reaches the allocator's free_memory, the
   allocator sees `size` copies of the poison byte at its address -- also when a mismatch or a corruption was reported *)
Definition C06_poison_before_free_stmt : Prop :=
  forall ds jump st e al a n x st', Inv (s_tbl st) -> poisons e = true ->
    l_retrieve a (flat (s_tbl st)) = Some n ->
    step ds jump st (OpFree e al (Some a)) = (st', Some x) ->
    (o_freed x = [] \/ o_freed x = [(a, Some (repeat poison (N.to_nat (n_size n))))]) /\
    (o_cat x = 0 \/ jump = false -> o_freed x = [(a, Some (repeat poison (N.to_nat (n_size n))))]).
Lemma poison_before_free : C06_poison_before_free_stmt.
Proof.
  intros ds jump st e al a n x st' I He E Hs.
  assert (S1 : step ds jump st (OpFree e al (Some a)) =
               let '(st2, c, fr) := d_dealloc ds jump (d_invalidate st (Some a)) (det_alloc ds e al) (Some a) in
               (st2, Some (mkO (calls_of c) (cat_code c) (seen st2 false fr) (total_of st2) false))).
  { unfold step. rewrite He. reflexivity. }
  rewrite S1 in Hs. clear S1.
  assert (Ei : d_invalidate st (Some a) = with_mem st (mwrite (s_mem st) a (repeat poison (N.to_nat (n_size n))))).
  { unfold d_invalidate. rewrite (retrieve_flat _ _ I), E. reflexivity. }
  rewrite Ei in Hs. unfold d_dealloc in Hs. cbn [s_tbl s_tc s_mem with_mem] in Hs.
  destruct (remove_cases a (s_tbl st) I) as [(E0 & _)|(n' & E' & Ha & Hin & F & R & I' & Hout)]; [congruence|].
  rewrite E in E'. inversion E'; subst n'. clear E'.
  destruct (t_remove a (s_tbl st)) as [r t'] eqn:TR. cbn in F. subst r.
  set (m' := mwrite (s_mem st) a (repeat poison (N.to_nat (n_size n)))) in *.
  assert (MR : mrange m' a (N.to_nat (n_size n)) = repeat poison (N.to_nat (n_size n))).
  { unfold m'. pose proof (mrange_written (s_mem st) a (repeat poison (N.to_nat (n_size n)))) as H. rewrite repeat_length in H. exact H. }
  set (s2 := with_tbl (with_mem st m') t') in *.
  assert (Em : s_mem s2 = m') by reflexivity.
  destruct (check_exact ds s2 n (det_alloc ds e al)) as (_ & _ & _ & C4).
  destruct (check ds s2 n (det_alloc ds e al)) eqn:C; [|exfalso; apply C4; reflexivity|destruct jump|destruct jump];
    inversion Hs; unfold seen; cbn [map fst snd o_freed o_cat cat_code negb]; rewrite ?Em, ?MR;
    (split; [first [right; reflexivity | left; reflexivity] | intros [H|H]; first [reflexivity | discriminate H]]).
Qed.

(* ------------------------------------------------------------------ C06_block_removed_after_report *)
(* whatever was reported about the release of an outstanding block, its record is gone afterwards: the count drops by one,
   every other record stays, and releasing the same address again is 'non-allocated' *)
Definition C06_block_removed_after_report_stmt : Prop :=
  forall ds jump st al a, Inv (s_tbl st) -> outstanding st a ->
    forall st' c fr, d_dealloc ds jump st al (Some a) = (st', c, fr) ->
      Inv (s_tbl st') /\ ~ outstanding st' a /\
      total_of st = total_of st' + 1 /\
      (forall a', a' <> a -> l_retrieve a' (flat (s_tbl st')) = l_retrieve a' (flat (s_tbl st))) /\
      (forall al2 jump2, dealloc_cat ds jump2 st' al2 (Some a) = CNonAlloc /\
                         dealloc_cat ds jump2 (d_invalidate st' (Some a)) al2 (Some a) = CNonAlloc /\
                         forall na size, realloc_cat ds jump2 st' al2 (Some a) na size = CNonAlloc).
Lemma retrieve_rm_other a a' : forall l, a' <> a -> l_retrieve a' (rm a l) = l_retrieve a' l.
Proof.
  induction l as [|c r IH]; cbn; intros H; [reflexivity|].
  destruct (N.eqb_spec (n_addr c) a) as [E|E].
  - destruct (N.eqb_spec (n_addr c) a'); [congruence|reflexivity].
  - cbn. rewrite IH by assumption. reflexivity.
Qed.
Lemma block_removed_after_report : C06_block_removed_after_report_stmt.
Proof.
  intros ds jump st al a I O st' c fr Hd. unfold d_dealloc in Hd.
  destruct (remove_cases a (s_tbl st) I) as [(E0 & Hn & _)|(n & E & Ha & Hin & F & R & I' & Hout)]; [contradiction|].
  destruct (t_remove a (s_tbl st)) as [r t'] eqn:TR. cbn [fst snd] in F, R, I', Hout. subst r.
  assert (Et : s_tbl st' = t').
  { destruct (check ds (with_tbl st t') n al), jump; inversion Hd; reflexivity. }
  rewrite Et. split; [assumption|]. split; [unfold outstanding; rewrite Et; assumption|].
  split; [|split].
  - unfold total_of. rewrite Et, !total_all, R. rewrite <- (rm_length a _ n E). lia.
  - intros a' Hne. rewrite R. apply retrieve_rm_other. assumption.
  - intros al2 jump2.
    assert (I2 : Inv (s_tbl st')) by (rewrite Et; assumption).
    assert (L : forall st2, s_tbl st2 = t' -> lookup_cat ds st2 al2 (Some a) = CNonAlloc).
    { intros st2 E2. unfold lookup_cat. rewrite E2, (retrieve_notin _ _ Hout). reflexivity. }
    split; [|split].
    + rewrite dealloc_cat_eq by assumption. apply L. assumption.
    + destruct (invalidate_tbl st' (Some a)) as [Ei _]. rewrite dealloc_cat_eq by (rewrite Ei; assumption). apply L. rewrite Ei. assumption.
    + intros na size. rewrite realloc_cat_eq by assumption. apply L. assumption.
Qed.
