(* C06 -- the period (disabled / enabled / checking), the allocation stage and the flavour of the installed overloads are
   invisible to the misuse reports and to the poisoning: two histories that differ only in the enable / disable / startChecking /
   stopChecking / increase- / decreaseAllocationStage / overload switching operations between the same allocations, writes and
   releases produce the same observation, item for item -- whatever the period and stage the detector started in, and whatever
   period and stage stamps the records of the outstanding blocks carry. *)
From Coq Require Import NArith List Bool Arith Lia.
From CppUVerif Require Import gen.Gen_Common gen.Gen_C06 lib.Str C04_Model C06_Model.
Import ListNotations.
Local Open Scope N_scope.
Arguments pat : simpl never.
Arguments G : simpl never.
Arguments pattern : simpl never.
Arguments poison : simpl never.

(* ------------------------------------------------------------------ forgetting the stamps *)
Definition erase_node (n : node) : node :=
  mkNode (n_addr n) (n_size n) (n_number n) (n_file n) (n_line n) (n_kind n) SDisabled 0.
Definition erase_tbl (t : table) : table := map (map erase_node) t.
Definition erase_st (st : dstate) : dstate := mkD (erase_tbl (s_tbl st)) (s_tc st) (s_mem st) SDisabled 0.
(* the operations that only move the detector between periods / stages / overload flavours *)
Definition env_op (o : op) : bool := match o with OpPeriod _ | OpStage _ | OpOverloads _ => true | _ => false end.
Definition erase_ops (ops : list op) : list op := filter (fun o => negb (env_op o)) ops.

Lemma get_b_erase i t : get_b i (erase_tbl t) = map erase_node (get_b i t).
Proof. unfold get_b, erase_tbl. change (@nil node) with (map erase_node []) at 1. apply map_nth. Qed.
Lemma set_b_erase : forall t i b, set_b i (map erase_node b) (erase_tbl t) = erase_tbl (set_b i b t).
Proof.
  induction t as [|x r IH]; intros i b; [destruct i; reflexivity|]. destruct i as [|j]; cbn; [reflexivity|].
  f_equal. apply IH.
Qed.
Lemma remove_walk_erase a : forall cur acc,
  l_remove_walk a (map erase_node acc) (map erase_node cur) =
  (option_map erase_node (fst (l_remove_walk a acc cur)), map erase_node (snd (l_remove_walk a acc cur))).
Proof.
  induction cur as [|c nxt IH]; intros acc; cbn [map l_remove_walk].
  - cbn. rewrite map_rev. reflexivity.
  - change (n_addr (erase_node c)) with (n_addr c). destruct (n_addr c =? a).
    + cbn. rewrite map_app, map_rev. reflexivity.
    + apply (IH (c :: acc)).
Qed.
Lemma retrieve_erase a : forall b, l_retrieve a (map erase_node b) = option_map erase_node (l_retrieve a b).
Proof.
  induction b as [|c nxt IH]; [reflexivity|]. cbn [map l_retrieve]. change (n_addr (erase_node c)) with (n_addr c).
  destruct (n_addr c =? a); [reflexivity|apply IH].
Qed.
Lemma t_retrieve_erase a t : t_retrieve a (erase_tbl t) = option_map erase_node (t_retrieve a t).
Proof. unfold t_retrieve. rewrite get_b_erase. apply retrieve_erase. Qed.
Lemma t_remove_erase a t :
  t_remove a (erase_tbl t) = (option_map erase_node (fst (t_remove a t)), erase_tbl (snd (t_remove a t))).
Proof.
  unfold t_remove, l_remove. rewrite get_b_erase.
  pose proof (remove_walk_erase a (get_b (hashN a) t) []) as H. cbn [map] in H. rewrite H.
  destruct (l_remove_walk a [] (get_b (hashN a) t)) as [r b']. cbn [fst snd]. rewrite set_b_erase. reflexivity.
Qed.
Lemma t_add_erase n t : t_add (erase_node n) (erase_tbl t) = erase_tbl (t_add n t).
Proof.
  unfold t_add. change (n_addr (erase_node n)) with (n_addr n). rewrite get_b_erase.
  unfold l_add. change (erase_node n :: map erase_node (get_b (hashN (n_addr n)) t)) with (map erase_node (n :: get_b (hashN (n_addr n)) t)).
  apply set_b_erase.
Qed.
Lemma l_total_erase : forall b, l_total PAll (map erase_node b) = l_total PAll b.
Proof. induction b as [|c nxt IH]; [reflexivity|]. cbn [map l_total]. rewrite IH. reflexivity. Qed.
Lemma t_total_erase : forall t, t_total PAll (erase_tbl t) = t_total PAll t.
Proof.
  induction t as [|b r IH]; [reflexivity|]. unfold erase_tbl in *. cbn [map t_total]. rewrite IH, l_total_erase. reflexivity.
Qed.

(* ------------------------------------------------------------------ the detector's functions commute with forgetting *)
Lemma erase_with_tbl st t : erase_st (with_tbl st t) = with_tbl (erase_st st) (erase_tbl t).
Proof. reflexivity. Qed.
Lemma erase_with_mem st m : erase_st (with_mem st m) = with_mem (erase_st st) m.
Proof. reflexivity. Qed.
Lemma store_erase st a size al : d_store (erase_st st) a size al = erase_st (d_store st a size al).
Proof.
  unfold d_store. rewrite erase_with_mem, erase_with_tbl. cbn [erase_st s_tbl s_mem s_period s_stage].
  change (mk_node a size al SDisabled 0) with (erase_node (mk_node a size al (s_period st) (s_stage st))).
  rewrite t_add_erase. reflexivity.
Qed.
Lemma invalidate_erase st p : d_invalidate (erase_st st) p = erase_st (d_invalidate st p).
Proof.
  unfold d_invalidate. destruct p as [a|]; [|reflexivity]. cbn [erase_st s_tbl]. rewrite t_retrieve_erase.
  destruct (t_retrieve a (s_tbl st)) as [n|]; reflexivity.
Qed.
(* checkForCorruption reads address, size and allocator of the record, the type-checking switch and the memory *)
Lemma check_erase ds st n al : check ds (erase_st st) (erase_node n) al = check ds st n al.
Proof. reflexivity. Qed.
Definition erase3 {A} (r : dstate * cat * A) : dstate * cat * A := (erase_st (fst (fst r)), snd (fst r), snd r).
Lemma dealloc_erase ds jump st al p : d_dealloc ds jump (erase_st st) al p = erase3 (d_dealloc ds jump st al p).
Proof.
  unfold d_dealloc. destruct p as [a|]; [|reflexivity]. cbn [erase_st s_tbl]. rewrite t_remove_erase.
  destruct (t_remove a (s_tbl st)) as [[n|] t']; cbn [fst snd option_map]; [|reflexivity].
  fold (erase_st st). rewrite <- erase_with_tbl. rewrite check_erase. change (n_size (erase_node n)) with (n_size n).
  destruct (check ds (with_tbl st t') n al), jump; reflexivity.
Qed.
Lemma realloc_erase ds jump st al p na size : d_realloc ds jump (erase_st st) al p na size = erase3 (d_realloc ds jump st al p na size).
Proof.
  unfold d_realloc. destruct p as [a|]; [|unfold erase3; cbn [fst snd]; rewrite store_erase; reflexivity].
  cbn [erase_st s_tbl]. rewrite t_remove_erase.
  destruct (t_remove a (s_tbl st)) as [[n|] t']; cbn [fst snd option_map]; [|reflexivity].
  fold (erase_st st). rewrite <- erase_with_tbl. rewrite check_erase, store_erase.
  destruct (check ds (with_tbl st t') n al), jump; reflexivity.
Qed.
Lemma total_erase st : total_of (erase_st st) = total_of st.
Proof. unfold total_of. cbn [erase_st s_tbl]. apply t_total_erase. Qed.

(* one operation: the switching operations vanish, every other one does the same thing and shows the same item *)
Lemma step_env ds jump st o : env_op o = true ->
  erase_st (fst (step ds jump st o)) = erase_st st /\ snd (step ds jump st o) = None.
Proof. destruct o; cbn [env_op]; intros H; try discriminate H; split; reflexivity. Qed.
Lemma step_erase ds jump st o : env_op o = false ->
  step ds jump (erase_st st) o = (erase_st (fst (step ds jump st o)), snd (step ds jump st o)).
Proof.
  destruct o as [e al a size|e al p|al p na size|w bs|b|k|up|ts]; cbn [env_op]; intros H; try discriminate H; cbn [step].
  - rewrite store_erase. reflexivity.
  - assert (E : (if poisons e then d_invalidate (erase_st st) p else erase_st st) = erase_st (if poisons e then d_invalidate st p else st))
      by (destruct (poisons e); [apply invalidate_erase|reflexivity]).
    rewrite E, dealloc_erase.
    destruct (d_dealloc ds jump (if poisons e then d_invalidate st p else st) (det_alloc ds e al) p) as [[s2 c] fr].
    unfold erase3. cbn [fst snd]. rewrite total_erase. reflexivity.
  - rewrite realloc_erase. destruct (d_realloc ds jump st al p na size) as [[s2 c] res].
    unfold erase3. cbn [fst snd]. rewrite total_erase. reflexivity.
  - reflexivity.
  - reflexivity.
Qed.

Lemma run_erase ds jump : forall ops st, run_from ds jump st ops = run_from ds jump (erase_st st) (erase_ops ops).
Proof.
  induction ops as [|o r IH]; intros st; [reflexivity|]. cbn [run_from erase_ops filter].
  destruct (env_op o) eqn:Eo; cbn [negb].
  - destruct (step_env ds jump st o Eo) as [E1 E2]. destruct (step ds jump st o) as [st' x]. cbn [fst snd] in E1, E2. subst x.
    rewrite IH, E1. reflexivity.
  - cbn [run_from]. rewrite (step_erase ds jump st o Eo). destruct (step ds jump st o) as [st' x]. cbn [fst snd].
    destruct x; rewrite IH; reflexivity.
Qed.

(* ------------------------------------------------------------------ C06_period_independent *)
Definition C06_period_independent_stmt : Prop :=
  (forall ds jump st1 st2 ops1 ops2,
     erase_st st1 = erase_st st2 -> erase_ops ops1 = erase_ops ops2 ->
     run_from ds jump st1 ops1 = run_from ds jump st2 ops2) /\
  (forall s1 s2, sc_jump s1 = sc_jump s2 -> sc_allocs s1 = sc_allocs s2 -> erase_ops (sc_ops s1) = erase_ops (sc_ops s2) ->
     run s1 = run s2 /\ (forall obs, spec s1 obs = spec s2 obs)) /\
  (* one operation: what a release (or any other non-switching operation) shows does not depend on the period and the stage it finds *)
  (forall ds jump st per stg o, env_op o = false ->
     snd (step ds jump (with_stage (with_period st per) stg) o) = snd (step ds jump st o)).

Lemma spec_erase ds : forall ops ss obs, spec_from ds ss ops obs = spec_from ds ss (erase_ops ops) obs.
Proof.
  induction ops as [|o r IH]; intros ss obs; [reflexivity|].
  destruct o as [e al a size|e al p|al p na size|w bs|b|k|up|ts]; cbn [erase_ops filter env_op negb spec_from]; fold (erase_ops r);
    try apply IH.
  - destruct obs as [|x obs']; [reflexivity|]. rewrite IH. reflexivity.
  - destruct obs as [|x obs']; [reflexivity|]. rewrite IH. reflexivity.
Qed.

Lemma period_independent : C06_period_independent_stmt.
Proof.
  split; [|split].
  - intros ds jump st1 st2 ops1 ops2 Es Eo. rewrite (run_erase ds jump ops1 st1), (run_erase ds jump ops2 st2), Es, Eo. reflexivity.
  - intros [j1 d1 o1] [j2 d2 o2]. cbn [sc_jump sc_allocs sc_ops]. intros -> -> Eo. split.
    + unfold run. cbn [sc_jump sc_allocs sc_ops]. rewrite (run_erase d2 j2 o1), (run_erase d2 j2 o2), Eo. reflexivity.
    + intros obs. unfold spec. cbn [sc_allocs sc_ops]. rewrite (spec_erase d2 o1), (spec_erase d2 o2), Eo. reflexivity.
  - intros ds jump st per stg o Eo.
    pose proof (step_erase ds jump (with_stage (with_period st per) stg) o Eo) as H1.
    pose proof (step_erase ds jump st o Eo) as H2.
    change (erase_st (with_stage (with_period st per) stg)) with (erase_st st) in H1. rewrite H2 in H1.
    inversion H1. reflexivity.
Qed.

(* ------------------------------------------------------------------ the pointed form: allocate in one period, release in another *)
(* a block allocated while the detector is in period p1 / stage g1 and released (delete, delete[] or free, through any allocator) after
   the detector was moved to period p2 / stage g2: the state reached, the category, and what the allocator's free_memory is handed are
   those of the same allocation and release with the detector left alone *)
Definition C06_release_in_any_period_stmt : Prop :=
  forall ds jump st e al a size ws e2 al2 p k1 up1 k2 up2,
    let mid := map (fun w => OpWrite (fst w) (snd w)) ws in
    run_from ds jump st ([OpPeriod k1; OpStage up1; OpAlloc e al a size] ++ mid ++ [OpPeriod k2; OpStage up2; OpFree e2 al2 p]) =
    run_from ds jump st ([OpAlloc e al a size] ++ mid ++ [OpFree e2 al2 p]).
Lemma erase_ops_app l1 l2 : erase_ops (l1 ++ l2) = erase_ops l1 ++ erase_ops l2.
Proof. unfold erase_ops. apply filter_app. Qed.
Lemma erase_ops_writes ws : erase_ops (map (fun w => OpWrite (fst w) (snd w)) ws) = map (fun w => OpWrite (fst w) (snd w)) ws.
Proof. induction ws as [|w r IH]; [reflexivity|]. cbn. f_equal. exact IH. Qed.
Lemma release_in_any_period : C06_release_in_any_period_stmt.
Proof.
  intros ds jump st e al a size ws e2 al2 p k1 up1 k2 up2 mid.
  apply (proj1 period_independent); [reflexivity|].
  rewrite !erase_ops_app. unfold mid. rewrite erase_ops_writes. reflexivity.
Qed.
