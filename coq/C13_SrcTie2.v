From Coq Require Import ZArith NArith Bool List Lia. From CppUVerif Require Import lib.CSem lib.CMem lib.CMemFacts lib.Str gen.Gen_LeafC13 gen.Gen_LoopC13 C13_Model C13_LeafTie C13_SrcTie. Import ListNotations. Local Open Scope Z_scope.
(* C13: the translated StrCmp, StrNCmp, MemCmp and StrStr of gen/Gen_LoopC13.v (tools/cxx2gal.py from /repo's
   SimpleString.cpp) are EQUAL to the hand-written StrCmp, StrNCmp, MemCmp, StrStr of C13_Model.v, for every memory of
   bytes, all pointers and every fuel above the length of the first view -- including the inputs on which the source reads
   outside a block (both sides say Oob).
   ONE genuine difference (StrStr): when *s1 == 0, *s2 != 0 and s2 has no NUL up to the end of its block, the source returns
   NULL without ever calling StrLen(s2), the model computes StrLen(s2) first and says Oob.  src_StrStr_tie excludes exactly
   these inputs by an explicit hypothesis, src_StrStr_unterminated says what the source does on them. *)

(* ------------------------------------------------------------------ helpers *)
Lemma diff_tie a b : (a < 256)%N -> (b < 256)%N -> cw 32 true (uchar a - uchar b) = diff a b.
Proof.
  intros Ha Hb. unfold uchar, diff. apply cw_s_small; [lia|]. change (2 ^ (32 - 1)) with 2147483648. lia.
Qed.

Lemma lift_ext {A R} (f g : A -> R) (r : C13_Model.res A) : (forall a, f a = g a) -> lift f r = lift g r.
Proof. intro H. destruct r; cbn [lift]; [f_equal; apply H|reflexivity|reflexivity|reflexivity]. Qed.

Lemma StrLen_le : forall l k, StrLen l = C13_Model.Ok k -> (k <= length l)%nat.
Proof.
  induction l as [|c r IH]; intros k H; cbn [StrLen] in H; [discriminate|].
  destruct (c =? 0)%N; [inversion H; cbn; lia|]. destruct (StrLen r) as [k'| | |]; cbn [bind] in H; try discriminate.
  inversion H; subst. specialize (IH k' eq_refl). cbn [length]. lia.
Qed.

Lemma StrLen_ok_or_oob : forall l, (exists k, StrLen l = C13_Model.Ok k) \/ StrLen l = C13_Model.Oob.
Proof.
  induction l as [|c r IH]; cbn [StrLen]; [right; reflexivity|].
  destruct (c =? 0)%N; [left; eexists; reflexivity|].
  destruct IH as [[k Hk]|Ho]; rewrite ?Hk, ?Ho; cbn [bind]; [left; eexists; reflexivity|right; reflexivity].
Qed.

(* ------------------------------------------------------------------ StrCmp *)
Lemma StrCmp_loop_tie : forall l1 l2 fuel0 fuel m b1 o1 b2 o2, bytes_ok l1 -> bytes_ok l2 ->
  view m (Ptr b1 o1) = l1 -> view m (Ptr b2 o2) = l2 -> (length l1 < fuel)%nat ->
  finish (R := Z) (A := unit)
    (match src_StrCmp_loop1 fuel0 fuel m (Ptr b1 o1) (Ptr b2 o2) with
     | Go (s1, s2) =>
         match load m s1 with None => CMem.Oob | Some x =>
           match load m s2 with None => CMem.Oob | Some y => Done (cw 32 true (uchar x - uchar y)) end end
     | Done r => Done r | CMem.Oob => CMem.Oob | CMem.NoFuel => CMem.NoFuel end)
  = lift (fun z => z) (StrCmp l1 l2).
Proof.
  induction l1 as [|a r1 IH]; intros l2 fuel0 fuel m b1 o1 b2 o2 H1 H2 Hv1 Hv2 Hf.
  - destruct fuel as [|fuel]; [cbn in Hf; lia|]. cbn [src_StrCmp_loop1 StrCmp].
    rewrite (view_nil_load _ _ Hv1). reflexivity.
  - destruct fuel as [|fuel]; [cbn in Hf; lia|]. cbn [src_StrCmp_loop1].
    rewrite (view_cons_load _ _ _ _ _ Hv1).
    pose proof (Forall_inv H1) as Ha. pose proof (Forall_inv_tail H1) as Hr1. cbn beta in Ha.
    unfold c_ne. rewrite (schar_zero a Ha).
    destruct l2 as [|b r2].
    + rewrite (view_nil_load _ _ Hv2). cbn [StrCmp].
      destruct (N.eqb_spec a 0) as [->|Hn]; cbn [negb b2z z2b Z.eqb]; [|reflexivity].
      rewrite (view_cons_load _ _ _ _ _ Hv1), (view_nil_load _ _ Hv2). reflexivity.
    + rewrite (view_cons_load _ _ _ _ _ Hv2). cbn [StrCmp].
      pose proof (Forall_inv H2) as Hb. pose proof (Forall_inv_tail H2) as Hr2. cbn beta in Hb.
      unfold c_eq. rewrite (schar_inj a b Ha Hb).
      destruct (N.eqb_spec a 0) as [Hz|Hn]; cbn [negb andb b2z z2b Z.eqb].
      * rewrite (view_cons_load _ _ _ _ _ Hv1), (view_cons_load _ _ _ _ _ Hv2). cbn [finish lift].
        f_equal. apply diff_tie; assumption.
      * destruct (N.eqb_spec a b) as [Hab|Hab]; cbn [negb andb b2z z2b Z.eqb].
        -- subst b. destruct (view_padd1 _ _ _ _ _ Hv1) as [Hp1 Hv1']. destruct (view_padd1 _ _ _ _ _ Hv2) as [Hp2 Hv2'].
           rewrite Hp1, Hp2. apply IH; try assumption. cbn in Hf; lia.
        -- rewrite (view_cons_load _ _ _ _ _ Hv1), (view_cons_load _ _ _ _ _ Hv2). cbn [finish lift].
           f_equal. apply diff_tie; assumption.
Qed.

Lemma src_StrCmp_tie : forall fuel m b1 o1 b2 o2, mem_ok m -> (length (view m (Ptr b1 o1)) < fuel)%nat ->
  src_StrCmp fuel m (Ptr b1 o1) (Ptr b2 o2) = lift (fun z => z) (StrCmp (view m (Ptr b1 o1)) (view m (Ptr b2 o2))).
Proof.
  intros fuel m b1 o1 b2 o2 Hm Hf. unfold src_StrCmp.
  apply StrCmp_loop_tie; try reflexivity; try assumption; apply view_ok; exact Hm.
Qed.

(* ------------------------------------------------------------------ StrNCmp *)
Lemma StrNCmp_loop_tie : forall l1 l2 fuel0 fuel m b1 o1 b2 o2 n, bytes_ok l1 -> bytes_ok l2 ->
  view m (Ptr b1 o1) = l1 -> view m (Ptr b2 o2) = l2 -> (length l1 < fuel)%nat -> 0 <= n < M64 ->
  finish (R := Z) (A := unit)
    (match src_StrNCmp_loop1 fuel0 fuel m (Ptr b1 o1) (Ptr b2 o2) n with
     | Go (s1, s2, k) =>
         if z2b (c_ne k 0) then
           match load m s1 with None => CMem.Oob | Some x =>
             match load m s2 with None => CMem.Oob | Some y => Done (cw 32 true (uchar x - uchar y)) end end
         else Done 0
     | Done r => Done r | CMem.Oob => CMem.Oob | CMem.NoFuel => CMem.NoFuel end)
  = lift (fun z => z) (StrNCmp l1 l2 (Z.to_nat n)).
Proof.
  induction l1 as [|a r1 IH]; intros l2 fuel0 fuel m b1 o1 b2 o2 n H1 H2 Hv1 Hv2 Hf Hn.
  - destruct fuel as [|fuel]; [cbn in Hf; lia|]. cbn [src_StrNCmp_loop1]. unfold c_ne.
    destruct (n =? 0) eqn:En; cbn [negb b2z z2b Z.eqb].
    + apply Z.eqb_eq in En. subst n. reflexivity.
    + apply Z.eqb_neq in En. replace (Z.to_nat n) with (S (Z.to_nat (n - 1))) by lia. cbn [StrNCmp].
      rewrite (view_nil_load _ _ Hv1). reflexivity.
  - destruct fuel as [|fuel]; [cbn in Hf; lia|]. cbn [src_StrNCmp_loop1]. unfold c_ne.
    destruct (n =? 0) eqn:En; cbn [negb b2z z2b Z.eqb].
    + rewrite En. apply Z.eqb_eq in En. subst n. reflexivity.
    + pose proof En as En'. apply Z.eqb_neq in En'.
      replace (Z.to_nat n) with (S (Z.to_nat (n - 1))) by lia.
      rewrite (view_cons_load _ _ _ _ _ Hv1).
      pose proof (Forall_inv H1) as Ha. pose proof (Forall_inv_tail H1) as Hr1. cbn beta in Ha.
      rewrite (schar_zero a Ha).
      destruct l2 as [|b r2].
      * rewrite (view_nil_load _ _ Hv2). cbn [StrNCmp].
        destruct (N.eqb_spec a 0) as [Hz|Hz]; cbn [negb b2z z2b Z.eqb]; [|reflexivity].
        rewrite En. cbn [negb b2z z2b Z.eqb].
        rewrite (view_cons_load _ _ _ _ _ Hv1), (view_nil_load _ _ Hv2). reflexivity.
      * rewrite (view_cons_load _ _ _ _ _ Hv2). cbn [StrNCmp].
        pose proof (Forall_inv H2) as Hb. pose proof (Forall_inv_tail H2) as Hr2. cbn beta in Hb.
        unfold c_eq. rewrite (schar_inj a b Ha Hb).
        destruct (N.eqb_spec a 0) as [Hz|Hz]; cbn [negb andb b2z z2b Z.eqb].
        -- rewrite En. cbn [negb b2z z2b Z.eqb].
           rewrite (view_cons_load _ _ _ _ _ Hv1), (view_cons_load _ _ _ _ _ Hv2). cbn [finish lift].
           f_equal. apply diff_tie; assumption.
        -- destruct (N.eqb_spec a b) as [Hab|Hab]; cbn [negb andb b2z z2b Z.eqb].
           ++ subst b. destruct (view_padd1 _ _ _ _ _ Hv1) as [Hp1 Hv1']. destruct (view_padd1 _ _ _ _ _ Hv2) as [Hp2 Hv2'].
              rewrite Hp1, Hp2. rewrite (cw_u_small 64 (n - 1)) by (unfold M64 in Hn; lia).
              apply IH; try assumption; [cbn in Hf; lia | lia].
           ++ rewrite En. cbn [negb b2z z2b Z.eqb].
              rewrite (view_cons_load _ _ _ _ _ Hv1), (view_cons_load _ _ _ _ _ Hv2). cbn [finish lift].
              f_equal. apply diff_tie; assumption.
Qed.

Lemma src_StrNCmp_tie : forall fuel m b1 o1 b2 o2 n, mem_ok m -> 0 <= n < M64 ->
  (length (view m (Ptr b1 o1)) < fuel)%nat ->
  src_StrNCmp fuel m (Ptr b1 o1) (Ptr b2 o2) n
  = lift (fun z => z) (StrNCmp (view m (Ptr b1 o1)) (view m (Ptr b2 o2)) (Z.to_nat n)).
Proof.
  intros fuel m b1 o1 b2 o2 n Hm Hn Hf. unfold src_StrNCmp.
  apply StrNCmp_loop_tie; try reflexivity; try assumption; apply view_ok; exact Hm.
Qed.

(* ------------------------------------------------------------------ MemCmp *)
Lemma MemCmp_loop_tie : forall l1 l2 fuel0 fuel m b1 o1 b2 o2 n, bytes_ok l1 -> bytes_ok l2 ->
  view m (Ptr b1 o1) = l1 -> view m (Ptr b2 o2) = l2 -> (length l1 < fuel)%nat -> 0 <= n < M64 ->
  finish (R := Z) (A := unit)
    (match src_MemCmp_loop1 fuel0 fuel m n (Ptr b1 o1) (Ptr b2 o2) with
     | Go (k, p1, p2) => Done 0
     | Done r => Done r | CMem.Oob => CMem.Oob | CMem.NoFuel => CMem.NoFuel end)
  = lift (fun z => z) (MemCmp l1 l2 (Z.to_nat n)).
Proof.
  induction l1 as [|a r1 IH]; intros l2 fuel0 fuel m b1 o1 b2 o2 n H1 H2 Hv1 Hv2 Hf Hn.
  - destruct fuel as [|fuel]; [cbn in Hf; lia|]. cbn [src_MemCmp_loop1]. unfold c_ne.
    destruct (n =? 0) eqn:En; cbn [negb b2z z2b Z.eqb].
    + apply Z.eqb_eq in En. subst n. reflexivity.
    + apply Z.eqb_neq in En. replace (Z.to_nat n) with (S (Z.to_nat (n - 1))) by lia. cbn [MemCmp].
      rewrite (view_nil_load _ _ Hv1). reflexivity.
  - destruct fuel as [|fuel]; [cbn in Hf; lia|]. cbn [src_MemCmp_loop1]. unfold c_ne.
    destruct (n =? 0) eqn:En; cbn [negb b2z z2b Z.eqb].
    + apply Z.eqb_eq in En. subst n. reflexivity.
    + apply Z.eqb_neq in En. replace (Z.to_nat n) with (S (Z.to_nat (n - 1))) by lia.
      rewrite (view_cons_load _ _ _ _ _ Hv1).
      pose proof (Forall_inv H1) as Ha. pose proof (Forall_inv_tail H1) as Hr1. cbn beta in Ha.
      destruct l2 as [|b r2].
      * rewrite (view_nil_load _ _ Hv2). reflexivity.
      * rewrite (view_cons_load _ _ _ _ _ Hv2). cbn [MemCmp].
        pose proof (Forall_inv H2) as Hb. pose proof (Forall_inv_tail H2) as Hr2. cbn beta in Hb.
        rewrite (uchar_inj a b).
        destruct (N.eqb_spec a b) as [Hab|Hab]; cbn [negb b2z z2b Z.eqb].
        -- subst b. destruct (view_padd1 _ _ _ _ _ Hv1) as [Hp1 Hv1']. destruct (view_padd1 _ _ _ _ _ Hv2) as [Hp2 Hv2'].
           rewrite Hp1, Hp2. rewrite (cw_u_small 64 (n - 1)) by (unfold M64 in Hn; lia).
           apply IH; try assumption; [cbn in Hf; lia | lia].
        -- cbn [finish lift]. f_equal. apply diff_tie; assumption.
Qed.

Lemma src_MemCmp_tie : forall fuel m b1 o1 b2 o2 n, mem_ok m -> 0 <= n < M64 ->
  (length (view m (Ptr b1 o1)) < fuel)%nat ->
  src_MemCmp fuel m (Ptr b1 o1) (Ptr b2 o2) n
  = lift (fun z => z) (MemCmp (view m (Ptr b1 o1)) (view m (Ptr b2 o2)) (Z.to_nat n)).
Proof.
  intros fuel m b1 o1 b2 o2 n Hm Hn Hf. unfold src_MemCmp. cbv zeta.
  apply MemCmp_loop_tie; try reflexivity; try assumption; apply view_ok; exact Hm.
Qed.

(* ------------------------------------------------------------------ StrStr *)
Lemma StrStr_loop_tie : forall m b2 o2 lq fuel0, mem_ok m ->
  StrLen (view m (Ptr b2 o2)) = C13_Model.Ok lq ->
  (length (view m (Ptr b2 o2)) < fuel0)%nat -> Z.of_nat (length (view m (Ptr b2 o2))) < M64 ->
  forall l1 fuel b1 o1 off, view m (Ptr b1 o1) = l1 -> (length l1 < fuel)%nat -> (length l1 < fuel0)%nat ->
  finish (R := ptr) (A := unit)
    (match src_StrStr_loop1 fuel0 fuel m (Ptr b2 o2) (Ptr b1 o1) with
     | Go s1 => Done Null
     | Done r => Done r | CMem.Oob => CMem.Oob | CMem.NoFuel => CMem.NoFuel end)
  = lift (fun r => match r with Some k => Ptr b1 (o1 - Z.of_nat off + Z.of_nat k) | None => Null end)
      (StrStr_loop l1 (view m (Ptr b2 o2)) lq off).
Proof.
  intros m b2 o2 lq fuel0 Hm HL Hf2 Hl2.
  pose proof (StrLen_le _ _ HL) as Hle.
  induction l1 as [|c r IH]; intros fuel b1 o1 off Hv1 Hf Hf0.
  - destruct fuel as [|fuel]; [cbn in Hf; lia|]. cbn [src_StrStr_loop1 StrStr_loop].
    rewrite (view_nil_load _ _ Hv1). reflexivity.
  - destruct fuel as [|fuel]; [cbn in Hf; lia|]. cbn [src_StrStr_loop1 StrStr_loop].
    rewrite (view_cons_load _ _ _ _ _ Hv1).
    assert (Hc : (c < 256)%N).
    { pose proof (view_ok m (Ptr b1 o1) Hm) as Hb. rewrite Hv1 in Hb. exact (Forall_inv Hb). }
    unfold c_ne. rewrite (schar_zero c Hc).
    destruct (N.eqb_spec c 0) as [Hz|Hz]; cbn [negb b2z z2b Z.eqb]; [reflexivity|].
    rewrite (src_StrLen_tie fuel0 m b2 o2 Hm Hf2 Hl2). rewrite HL. cbn [lift].
    rewrite (src_StrNCmp_tie fuel0 m b1 o1 b2 o2 (Z.of_nat lq) Hm) by (rewrite ?Hv1; unfold M64 in *; lia).
    rewrite Nat2Z.id. rewrite Hv1.
    destruct (StrNCmp (c :: r) (view m (Ptr b2 o2)) lq) as [d| | |]; cbn [lift bind]; try reflexivity.
    unfold c_eq. destruct (d =? 0); cbn [negb b2z z2b Z.eqb].
    + cbn [finish lift]. f_equal. f_equal. lia.
    + destruct (view_padd1 _ _ _ _ _ Hv1) as [Hp1 Hv1']. rewrite Hp1.
      replace (o1 - Z.of_nat off) with (o1 + 1 - Z.of_nat (S off)) by lia.
      apply IH; [exact Hv1' | cbn in Hf; lia | cbn in Hf0; lia].
Qed.

(* The statement as first asked (without the third hypothesis below) is FALSE:
     m = [[0]; [1]], s1 = Ptr 0 0, s2 = Ptr 1 0 : src_StrStr 5 m s1 s2 = FOk Null, StrStr [0] [1] = Oob
   (Example StrStr_counterexample at the end).  The hypothesis excludes exactly: *s1 = 0, s2 non-empty, no NUL in s2. *)
Lemma src_StrStr_tie : forall fuel m b1 o1 b2 o2, mem_ok m ->
  (length (view m (Ptr b1 o1)) < fuel)%nat -> (length (view m (Ptr b2 o2)) < fuel)%nat ->
  Z.of_nat (length (view m (Ptr b2 o2))) < M64 ->
  (forall r, view m (Ptr b1 o1) = 0%N :: r -> StrLen (view m (Ptr b2 o2)) = C13_Model.Oob -> view m (Ptr b2 o2) = []) ->
  src_StrStr fuel m (Ptr b1 o1) (Ptr b2 o2)
  = lift (fun r => match r with Some k => Ptr b1 (o1 + Z.of_nat k) | None => Null end)
      (StrStr (view m (Ptr b1 o1)) (view m (Ptr b2 o2))).
Proof.
  intros fuel m b1 o1 b2 o2 Hm Hf1 Hf2 Hl2 Hex. unfold src_StrStr, StrStr.
  rewrite (load_view m (Ptr b2 o2)).
  destruct (StrLen_ok_or_oob (view m (Ptr b2 o2))) as [[lq HL]|HL]; rewrite HL.
  - destruct (view m (Ptr b2 o2)) as [|c2 r2] eqn:Hv2; [reflexivity|]. cbn [rd bind].
    assert (Hc : (c2 < 256)%N).
    { pose proof (view_ok m (Ptr b2 o2) Hm) as Hb. rewrite Hv2 in Hb. exact (Forall_inv Hb). }
    unfold c_lnot, c_ne. rewrite (schar_zero c2 Hc).
    destruct (N.eqb_spec c2 0) as [Hz|Hz]; cbn [negb b2z z2b Z.eqb].
    + cbn [finish lift]. f_equal. f_equal. lia.
    + rewrite <- Hv2. rewrite <- Hv2 in HL, Hf2, Hl2.
      rewrite (StrStr_loop_tie m b2 o2 lq fuel Hm HL Hf2 Hl2 (view m (Ptr b1 o1)) fuel b1 o1 0%nat eq_refl Hf1 Hf1).
      apply lift_ext. intros [k|]; [f_equal; lia|reflexivity].
  - destruct (view m (Ptr b2 o2)) as [|c2 r2] eqn:Hv2; [reflexivity|]. cbn [rd bind].
    assert (Hc : (c2 < 256)%N).
    { pose proof (view_ok m (Ptr b2 o2) Hm) as Hb. rewrite Hv2 in Hb. exact (Forall_inv Hb). }
    unfold c_lnot, c_ne. rewrite (schar_zero c2 Hc).
    destruct (N.eqb_spec c2 0) as [Hz|Hz]; cbn [negb b2z z2b Z.eqb].
    + subst c2. cbn [StrLen N.eqb] in HL. discriminate HL.
    + cbn [lift]. destruct fuel as [|fuel0]; [cbn in Hf1; lia|].
      cbn [src_StrStr_loop1]. rewrite (load_view m (Ptr b1 o1)).
      destruct (view m (Ptr b1 o1)) as [|c r] eqn:Hv1; [reflexivity|].
      assert (Hc1 : (c < 256)%N).
      { pose proof (view_ok m (Ptr b1 o1) Hm) as Hb. rewrite Hv1 in Hb. exact (Forall_inv Hb). }
      unfold c_ne. rewrite (schar_zero c Hc1).
      destruct (N.eqb_spec c 0) as [Hz1|Hz1]; cbn [negb b2z z2b Z.eqb].
      * subst c. specialize (Hex r eq_refl HL). discriminate Hex.
      * rewrite <- Hv2 in Hf2, Hl2.
        rewrite (src_StrLen_tie (S fuel0) m b2 o2 Hm Hf2 Hl2). rewrite Hv2, HL. reflexivity.
Qed.

(* what the translated source does on the inputs excluded above (whatever StrLen of s2 is): it answers NULL *)
Lemma src_StrStr_unterminated : forall fuel m b1 o1 b2 o2 r c2 r2, mem_ok m -> (0 < fuel)%nat ->
  view m (Ptr b1 o1) = 0%N :: r -> view m (Ptr b2 o2) = c2 :: r2 -> c2 <> 0%N ->
  src_StrStr fuel m (Ptr b1 o1) (Ptr b2 o2) = FOk Null.
Proof.
  intros fuel m b1 o1 b2 o2 r c2 r2 Hm Hf Hv1 Hv2 Hc2. unfold src_StrStr.
  rewrite (view_cons_load _ _ _ _ _ Hv2).
  assert (Hc : (c2 < 256)%N).
  { pose proof (view_ok m (Ptr b2 o2) Hm) as Hb. rewrite Hv2 in Hb. exact (Forall_inv Hb). }
  unfold c_lnot, c_ne. rewrite (schar_zero c2 Hc).
  destruct (N.eqb_spec c2 0) as [Hz|Hz]; [contradiction|]. cbn [negb b2z z2b Z.eqb].
  destruct fuel as [|fuel0]; [lia|]. cbn [src_StrStr_loop1].
  rewrite (view_cons_load _ _ _ _ _ Hv1). reflexivity.
Qed.

(* ------------------------------------------------------------------ non-vacuity: the translated functions on a concrete memory *)
Definition ex_mem : memory := [[97; 98; 99; 0]; [97; 98; 100; 0]; [98; 99; 0]; [200; 1]]%N.

Example src_StrCmp_ex :
  (src_StrCmp 5 ex_mem (Ptr 0 0) (Ptr 1 0), src_StrCmp 5 ex_mem (Ptr 3 0) (Ptr 0 0), src_StrCmp 5 ex_mem (Ptr 3 0) (Ptr 3 0))
  = (FOk (-1), FOk 103, FOob).
Proof. vm_compute. reflexivity. Qed.

Example src_StrNCmp_ex :
  (src_StrNCmp 5 ex_mem (Ptr 0 0) (Ptr 1 0) 2, src_StrNCmp 5 ex_mem (Ptr 0 0) (Ptr 1 0) 3, src_StrNCmp 5 ex_mem (Ptr 3 0) (Ptr 3 0) 3)
  = (FOk 0, FOk (-1), FOob).
Proof. vm_compute. reflexivity. Qed.

Example src_MemCmp_ex :
  (src_MemCmp 5 ex_mem (Ptr 0 0) (Ptr 1 0) 2, src_MemCmp 5 ex_mem (Ptr 1 0) (Ptr 0 0) 4, src_MemCmp 5 ex_mem (Ptr 3 0) (Ptr 3 0) 3)
  = (FOk 0, FOk 1, FOob).
Proof. vm_compute. reflexivity. Qed.

Example src_StrStr_ex :
  (src_StrStr 5 ex_mem (Ptr 0 0) (Ptr 2 0), src_StrStr 5 ex_mem (Ptr 1 0) (Ptr 2 0), src_StrStr 5 ex_mem (Ptr 0 0) (Ptr 3 0))
  = (FOk (Ptr 0 1), FOk Null, FOob).
Proof. vm_compute. reflexivity. Qed.

(* the counterexample to the tie without the exclusion hypothesis *)
Example StrStr_counterexample :
  let m := [[0]; [1]]%N in
  (src_StrStr 5 m (Ptr 0 0) (Ptr 1 0), StrStr (view m (Ptr 0 0)) (view m (Ptr 1 0))) = (FOk Null, C13_Model.Oob).
Proof. vm_compute. reflexivity. Qed.
