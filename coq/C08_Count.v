(* C08 -- proofs, part 5: the counting theorem on the reference semantics M.  For a judged scenario of one scope, M passes iff the
   multiset of checked calls equals the multiset of expectations expanded by their counts (any order), resp. iff the calls follow
   the expanded expectation sequence (strict order): verdict_agrees. *)
From Coq Require Import ZArith NArith Bool List Lia.
From CppUVerif Require Import lib.CInt lib.Str C08_Model C08_Proofs C08_Proofs2 C08_Scopes.
Import ListNotations.
Local Open Scope N_scope.

(* ------------------------------------------------------------------ a call seen through its three projections *)
Definition fits (e : sexp) (c : scall) : bool := matches e (sc_f c) (sc_items c).
Definition ps_of (its : list item) : list (name * pv) := flat_map (fun it => match it with IIn n v => [(n, v)] | _ => [] end) its.
Definition obj_ok (e : sexp) (a : Z) : bool := match sx_obj e with Some b => (b =? a)%Z | None => true end.

Lemma in_names_ps its : in_names its = map fst (ps_of its).
Proof.
  induction its as [|[n v|n b|a] r IH]; [reflexivity| |exact IH|exact IH].
  change (n :: in_names r = n :: map fst (ps_of r)). rewrite IH. reflexivity.
Qed.
Lemma agrees_split e its :
  agrees_upto e its = forallb (has_pv (sx_ps e)) (ps_of its) && forallb (fun n => has_name n (sx_outs e)) (out_names its) &&
                      forallb (obj_ok e) (objs_of its).
Proof.
  unfold agrees_upto. induction its as [|[n v|n b|a] r IH]; cbn [forallb ps_of out_names objs_of flat_map app accepts]; [reflexivity| | |]; rewrite IH.
  - destruct (has_pv (sx_ps e) (n, v)); reflexivity.
  - destruct (has_name n (sx_outs e)); cbn; [reflexivity|]. rewrite andb_false_r. reflexivity.
  - unfold obj_ok at 2. destruct (match sx_obj e with Some b => (b =? a)%Z | None => true end); cbn; [reflexivity|]. rewrite !andb_false_r. reflexivity.
Qed.

Lemma lookup_In n (ps : list (name * pv)) v : lookup n ps = Some v -> In (n, v) ps.
Proof.
  unfold lookup. destruct (find (fun x => fst x =? n) ps) as [[m w]|] eqn:E; [|discriminate]. intro H. inversion H; subst.
  apply find_some in E. destruct E as [A B]. cbn in B. apply N.eqb_eq in B. subst. exact A.
Qed.
Lemma lookup_name n (ps : list (name * pv)) : existsb (N.eqb n) (map fst ps) = true -> exists v, lookup n ps = Some v.
Proof.
  unfold lookup. induction ps as [|[m w] r IH]; cbn; [discriminate|]. rewrite (N.eqb_sym n m). destruct (m =? n); cbn; [eauto|exact IH].
Qed.
Lemma has_pv_name ps n v : has_pv ps (n, v) = true -> existsb (N.eqb n) (map fst ps) = true.
Proof.
  unfold has_pv. cbn. destruct (lookup n ps) as [w|] eqn:E; [|discriminate]. intros _. apply lookup_In in E.
  apply existsb_exists. exists n. split; [apply (in_map fst) in E; exact E|apply N.eqb_refl].
Qed.
Lemma lookup_nodup n v (ps : list (name * pv)) : nodup_names (map fst ps) = true -> In (n, v) ps -> lookup n ps = Some v.
Proof.
  unfold lookup. induction ps as [|[m w] r IH]; cbn; intros ND H; [destruct H|]. apply andb_true_iff in ND. destruct ND as [N1 N2].
  destruct H as [H|H].
  - inversion H; subst. rewrite N.eqb_refl. reflexivity.
  - destruct (m =? n) eqn:E; [|apply IH; assumption]. apply N.eqb_eq in E. subst m. exfalso. apply negb_true_iff in N1.
    rewrite existsb_false in N1. specialize (N1 n (in_map fst _ _ H)). rewrite N.eqb_refl in N1. discriminate.
Qed.

Definition sub_v (X Y : list (name * pv)) : bool := forallb (has_pv Y) X.
Definition sub_n (X Y : list name) : bool := forallb (fun n => existsb (N.eqb n) Y) X.
Lemma same_call_parts c d :
  same_call c d = ((sc_f c =? sc_f d) && sub_v (sc_ps c) (sc_ps d) && sub_v (sc_ps d) (sc_ps c) &&
                   sub_n (out_names (sc_items c)) (out_names (sc_items d)) && sub_n (out_names (sc_items d)) (out_names (sc_items c)) &&
                   opt_z_eqb (hd_error (objs_of (sc_items c))) (hd_error (objs_of (sc_items d)))).
Proof. reflexivity. Qed.
Lemma opt_z_eqb_sym a b : opt_z_eqb a b = opt_z_eqb b a.
Proof. destruct a, b; cbn; try reflexivity. apply Z.eqb_sym. Qed.
Lemma same_call_sym c d : same_call c d = same_call d c.
Proof.
  rewrite !same_call_parts. rewrite (N.eqb_sym (sc_f c)), (opt_z_eqb_sym (hd_error (objs_of (sc_items c)))).
  destruct (sc_f d =? sc_f c), (sub_v (sc_ps c) (sc_ps d)), (sub_v (sc_ps d) (sc_ps c)), (sub_n (out_names (sc_items c)) (out_names (sc_items d))),
    (sub_n (out_names (sc_items d)) (out_names (sc_items c))); reflexivity.
Qed.
Lemma sc_ps_of c : sc_ps c = ps_of (sc_items c). Proof. reflexivity. Qed.

Lemma same_call_refl c : call_ok c = true -> same_call c c = true.
Proof.
  unfold call_ok. intro H. apply andb_true_iff in H. destruct H as [H _]. apply andb_true_iff in H. destruct H as [H1 _].
  rewrite in_names_ps in H1. rewrite same_call_parts, N.eqb_refl. cbn [andb].
  assert (A : sub_v (sc_ps c) (sc_ps c) = true).
  { unfold sub_v. apply forallb_forall. intros [n v] Hx. unfold has_pv. cbn [fst snd]. rewrite (lookup_nodup n v (sc_ps c) H1 Hx). apply veq_refl. }
  assert (B : sub_n (out_names (sc_items c)) (out_names (sc_items c)) = true).
  { unfold sub_n. apply forallb_forall. intros n Hn. apply existsb_exists. exists n. split; [exact Hn|apply N.eqb_refl]. }
  rewrite A, B. cbn. destruct (hd_error (objs_of (sc_items c))); cbn; [apply Z.eqb_refl|reflexivity].
Qed.

(* what "fits" says, projection by projection *)
Lemma fits_parts e c :
  fits e c = ((sx_f e =? sc_f c) &&
              (sub_v (sc_ps c) (sx_ps e) && forallb (fun n => has_name n (sx_outs e)) (out_names (sc_items c)) && forallb (obj_ok e) (objs_of (sc_items c))) &&
              (forallb (fun q => existsb (N.eqb (fst q)) (map fst (sc_ps c))) (sx_ps e) &&
               forallb (fun q => existsb (N.eqb (fst q)) (out_names (sc_items c))) (sx_outs e) &&
               match sx_obj e with Some _ => negb (match objs_of (sc_items c) with [] => true | _ => false end) | None => true end)).
Proof. unfold fits, matches, covers. rewrite agrees_split, in_names_ps. reflexivity. Qed.

Record fitsP (e : sexp) (c : scall) : Prop := {
  fp_f : sx_f e = sc_f c;
  fp_in : forall n v, In (n, v) (sc_ps c) -> exists u, lookup n (sx_ps e) = Some u /\ veq u v = true;
  fp_out : forall n, In n (out_names (sc_items c)) -> has_name n (sx_outs e) = true;
  fp_obj : forall a, In a (objs_of (sc_items c)) -> obj_ok e a = true;
  fp_cin : forall q, In q (sx_ps e) -> existsb (N.eqb (fst q)) (map fst (sc_ps c)) = true;
  fp_cout : forall q, In q (sx_outs e) -> existsb (N.eqb (fst q)) (out_names (sc_items c)) = true;
  fp_cobj : sx_obj e <> None -> objs_of (sc_items c) <> [] }.
Lemma fits_iff e c : fits e c = true <-> fitsP e c.
Proof.
  rewrite fits_parts. split.
  - intro H. apply andb_true_iff in H. destruct H as [H C]. apply andb_true_iff in H. destruct H as [F A].
    apply andb_true_iff in A. destruct A as [A A3]. apply andb_true_iff in A. destruct A as [A1 A2].
    apply andb_true_iff in C. destruct C as [C C3]. apply andb_true_iff in C. destruct C as [C1 C2].
    unfold sub_v in A1. rewrite forallb_forall in A1, A2, A3, C1, C2. constructor.
    + apply N.eqb_eq. exact F.
    + intros n v Hx. specialize (A1 (n, v) Hx). unfold has_pv in A1. cbn in A1. destruct (lookup n (sx_ps e)) as [u|]; [eauto|discriminate].
    + exact A2.
    + exact A3.
    + exact C1.
    + exact C2.
    + intros Ho X. rewrite X in C3. destruct (sx_obj e); [discriminate C3|congruence].
  - intros [F A1 A2 A3 C1 C2 C3]. apply andb_true_iff. split; [apply andb_true_iff; split|].
    + apply N.eqb_eq. exact F.
    + apply andb_true_iff. split; [apply andb_true_iff; split|]; try (apply forallb_forall; assumption).
      unfold sub_v. apply forallb_forall. intros [n v] Hx. destruct (A1 n v Hx) as [u [L V]]. unfold has_pv. cbn. rewrite L. exact V.
    + apply andb_true_iff. split; [apply andb_true_iff; split|]; try (apply forallb_forall; assumption).
      destruct (sx_obj e) eqn:O; [|reflexivity]. destruct (objs_of (sc_items c)); [exfalso; apply C3; [discriminate|reflexivity]|reflexivity].
Qed.

Lemma sub_v_spec X Y : sub_v X Y = true <-> forall n v, In (n, v) X -> exists w, lookup n Y = Some w /\ veq w v = true.
Proof.
  unfold sub_v. rewrite forallb_forall. split.
  - intros H n v Hx. specialize (H (n, v) Hx). unfold has_pv in H. cbn in H. destruct (lookup n Y) as [w|]; [eauto|discriminate].
  - intros H [n v] Hx. destruct (H n v Hx) as [w [L V]]. unfold has_pv. cbn. rewrite L. exact V.
Qed.
Lemma sub_n_spec X Y : sub_n X Y = true <-> forall n, In n X -> In n Y.
Proof.
  unfold sub_n. rewrite forallb_forall. split; intros H n Hn; specialize (H n Hn); apply existsb_eqb_In; exact H.
Qed.
Lemma name_In n (l : list name) : existsb (N.eqb n) l = true <-> In n l.
Proof. apply existsb_eqb_In. Qed.
Lemma hd_In {A} (l : list A) x : hd_error l = Some x -> In x l.
Proof. destruct l; cbn; [discriminate|]. intro H. inversion H. left. reflexivity. Qed.

(* a call of the same shape fits the same expectations *)
Lemma fits_same e c d : fitsP e c -> same_call c d = true -> (length (objs_of (sc_items d)) <= 1)%nat -> fitsP e d.
Proof.
  intros [F A1 A2 A3 C1 C2 C3] S LD. rewrite same_call_parts in S.
  apply andb_true_iff in S. destruct S as [S S6]. apply andb_true_iff in S. destruct S as [S S5]. apply andb_true_iff in S. destruct S as [S S4].
  apply andb_true_iff in S. destruct S as [S S3]. apply andb_true_iff in S. destruct S as [S1 S2].
  apply N.eqb_eq in S1. rewrite sub_v_spec in S2, S3. rewrite sub_n_spec in S4, S5.
  constructor.
  - congruence.
  - intros n w Hx. destruct (S3 n w Hx) as [v [L V]]. apply lookup_In in L. destruct (A1 n v L) as [u [Lu Vu]]. exists u. split; [exact Lu|].
    apply (veq_trans u v w); assumption.
  - intros n Hn. apply A2. apply S5. exact Hn.
  - intros b Hb. unfold obj_ok. destruct (sx_obj e) as [a|] eqn:O; [|reflexivity].
    assert (NE : objs_of (sc_items c) <> []) by (apply C3; discriminate).
    destruct (objs_of (sc_items c)) as [|x r] eqn:Jc; [congruence|]. pose proof (A3 x (or_introl eq_refl)) as Ax. unfold obj_ok in Ax. rewrite O in Ax.
    apply Z.eqb_eq in Ax. subst x. cbn in S6. destruct (objs_of (sc_items d)) as [|y r2] eqn:Jd; [destruct Hb|]. cbn in S6. apply Z.eqb_eq in S6. subst y.
    destruct r2; [|cbn in LD; lia]. destruct Hb as [<-|[]]. apply Z.eqb_refl.
  - intros q Hq. specialize (C1 q Hq). apply name_In in C1. apply in_map_iff in C1. destruct C1 as [[n v] [E Hx]]. cbn in E. subst n.
    destruct (S2 (fst q) v Hx) as [w [L _]]. apply lookup_In in L. apply name_In. apply (in_map fst) in L. exact L.
  - intros q Hq. specialize (C2 q Hq). apply name_In in C2. apply name_In. apply S4. exact C2.
  - intros Ho X. specialize (C3 Ho). destruct (objs_of (sc_items c)) as [|x r]; [congruence|]. rewrite X in S6. cbn in S6. discriminate S6.
Qed.
(* two calls that fit one expectation have the same shape *)
Lemma same_fits e c d :
  fitsP e c -> fitsP e d -> (sx_obj e = None -> objs_of (sc_items c) = [] /\ objs_of (sc_items d) = []) -> same_call c d = true.
Proof.
  intros [F A1 A2 A3 C1 C2 C3] [F' B1 B2 B3 D1 D2 D3] HO. rewrite same_call_parts.
  assert (SV : forall c d : scall, (forall n v, In (n, v) (sc_ps c) -> exists u, lookup n (sx_ps e) = Some u /\ veq u v = true) ->
               (forall n v, In (n, v) (sc_ps d) -> exists u, lookup n (sx_ps e) = Some u /\ veq u v = true) ->
               (forall q, In q (sx_ps e) -> existsb (N.eqb (fst q)) (map fst (sc_ps d)) = true) -> sub_v (sc_ps c) (sc_ps d) = true).
  { intros c0 d0 X1 Y1 Y2. apply sub_v_spec. intros n v Hx. destruct (X1 n v Hx) as [u [L V]].
    pose proof (Y2 (n, u) (lookup_In _ _ _ L)) as Nd. cbn in Nd. destruct (lookup_name n (sc_ps d0) Nd) as [w Lw]. exists w. split; [exact Lw|].
    destruct (Y1 n w (lookup_In _ _ _ Lw)) as [u' [L' V']]. rewrite L in L'. inversion L'; subst u'.
    apply (veq_trans w u v); [rewrite veq_sym; exact V'|exact V]. }
  assert (SN : forall c d : scall, (forall n, In n (out_names (sc_items c)) -> has_name n (sx_outs e) = true) ->
               (forall q, In q (sx_outs e) -> existsb (N.eqb (fst q)) (out_names (sc_items d)) = true) ->
               sub_n (out_names (sc_items c)) (out_names (sc_items d)) = true).
  { intros c0 d0 X2 Y2. apply sub_n_spec. intros n Hn. specialize (X2 n Hn). unfold has_name in X2. apply existsb_exists in X2.
    destruct X2 as [q [Hq E]]. apply N.eqb_eq in E. subst n. apply name_In. apply Y2. exact Hq. }
  rewrite (SV c d A1 B1 D1), (SV d c B1 A1 C1), (SN c d A2 D2), (SN d c B2 C2).
  assert (Ff : (sc_f c =? sc_f d) = true) by (apply N.eqb_eq; congruence). rewrite Ff. cbn [andb].
  destruct (sx_obj e) as [a|] eqn:O.
  - assert (H1 : forall c0 : scall, (forall b, In b (objs_of (sc_items c0)) -> obj_ok e b = true) -> objs_of (sc_items c0) <> [] ->
                 hd_error (objs_of (sc_items c0)) = Some a).
    { intros c0 X3 X4. destruct (objs_of (sc_items c0)) as [|x r]; [congruence|]. specialize (X3 x (or_introl eq_refl)). unfold obj_ok in X3.
      rewrite O in X3. apply Z.eqb_eq in X3. subst. reflexivity. }
    rewrite (H1 c A3 (C3 ltac:(discriminate))), (H1 d B3 (D3 ltac:(discriminate))). cbn. apply Z.eqb_refl.
  - destruct (HO eq_refl) as [Jc Jd]. rewrite Jc, Jd. reflexivity.
Qed.

(* ------------------------------------------------------------------ counting: any order *)
Definition capx (xs : list mexp) (c : scall) : N := fold_right (fun x a => if fits (x_e x) c then x_left x + a else a) 0 xs.
Fixpoint runM (xs : list mexp) (o : N) (cs : list scall) : bool :=
  match cs with
  | [] => negb (existsb x_open xs)
  | c :: r => match consume (sc_f c) (sc_items c) o xs with Some (xs', _) => runM xs' (o + 1) r | None => false end
  end.
Definition MSP (xs : list mexp) (cs : list scall) : Prop :=
  (forall c, In c cs -> count_calls c cs = capx xs c) /\
  (forall x, In x xs -> x_left x = 0 \/ exists c, In c cs /\ fits (x_e x) c = true).
Definition okc (es : list sexp) (cs : list scall) : Prop :=
  (forall c, In c cs -> call_ok c = true) /\
  (forall e c, In e es -> In c cs -> sx_obj e = None -> sx_f e = sc_f c -> objs_of (sc_items c) = []).

Lemma call_ok_objs c : call_ok c = true -> (length (objs_of (sc_items c)) <= 1)%nat.
Proof. unfold call_ok. intro H. apply andb_true_iff in H. destruct H as [_ H]. apply Nat.leb_le. exact H. Qed.

(* with an expectation that c fits as anchor: the calls of c's shape are the calls that fit it *)
Lemma anchor es cs e c y : okc es cs -> In e es -> In c cs -> In y cs -> fits e c = true -> same_call c y = fits e y.
Proof.
  intros [OK OB] He Hc Hy Fc. apply fits_iff in Fc. destruct (fits e y) eqn:Fy.
  - apply fits_iff in Fy. apply (same_fits e c y Fc Fy). intro O. split.
    + apply (OB e c He Hc O). apply (fp_f _ _ Fc).
    + apply (OB e y He Hy O). apply (fp_f _ _ Fy).
  - destruct (same_call c y) eqn:S; [|reflexivity]. exfalso.
    pose proof (fits_same e c y Fc S (call_ok_objs y (OK y Hy))) as X. apply fits_iff in X. congruence.
Qed.
Lemma fits_cong es cs e c y : okc es cs -> In c cs -> In y cs -> same_call c y = true -> fits e c = fits e y.
Proof.
  intros [OK OB] Hc Hy S. destruct (fits e c) eqn:Fc.
  - apply fits_iff in Fc. symmetry. apply fits_iff. apply (fits_same e c y Fc S (call_ok_objs y (OK y Hy))).
  - destruct (fits e y) eqn:Fy; [|reflexivity]. apply fits_iff in Fy. rewrite same_call_sym in S.
    pose proof (fits_same e y c Fy S (call_ok_objs c (OK c Hc))) as X. apply fits_iff in X. congruence.
Qed.

Lemma capx_app l1 l2 c : capx (l1 ++ l2) c = capx l1 c + capx l2 c.
Proof. unfold capx. induction l1 as [|x r IH]; cbn; [reflexivity|]. rewrite IH. destruct (fits (x_e x) c); lia. Qed.
Lemma capx_zero xs c : (forall x, In x xs -> fits (x_e x) c = true -> x_left x = 0) <-> capx xs c = 0.
Proof.
  unfold capx. induction xs as [|x r IH]; cbn; [split; [reflexivity|intros _ x []]|]. split.
  - intro H. destruct (fits (x_e x) c) eqn:F.
    + rewrite (H x (or_introl eq_refl) F). cbn. apply IH. intros y Hy. apply H. right. exact Hy.
    + apply IH. intros y Hy. apply H. right. exact Hy.
  - intros H y [E|Hy] Fy.
    + subst y. rewrite Fy in H. lia.
    + apply (proj2 IH); [|exact Hy|exact Fy]. destruct (fits (x_e x) c); lia.
Qed.
Lemma capx_ge xs x c : In x xs -> fits (x_e x) c = true -> x_left x <= capx xs c.
Proof.
  unfold capx. induction xs as [|y r IH]; cbn; intros H F; [destruct H|]. destruct H as [E|H].
  - subst y. rewrite F. lia.
  - specialize (IH H F). destruct (fits (x_e y) c); lia.
Qed.
Lemma capx_ext xs c d : (forall x, In x xs -> fits (x_e x) c = fits (x_e x) d) -> capx xs c = capx xs d.
Proof.
  unfold capx. induction xs as [|x r IH]; cbn; intro H; [reflexivity|]. rewrite (H x (or_introl eq_refl)), IH; [reflexivity|].
  intros y Hy. apply H. right. exact Hy.
Qed.

Lemma count_cons c d r : count_calls c (d :: r) = (if same_call c d then 1 else 0) + count_calls c r.
Proof. unfold count_calls. cbn. destruct (same_call c d); cbn [length]; lia. Qed.
Lemma count_pos c r : 0 < count_calls c r -> exists y, In y r /\ same_call c y = true.
Proof.
  unfold count_calls. destruct (filter (same_call c) r) as [|y l] eqn:E; cbn; [lia|]. intros _. exists y.
  apply filter_In. rewrite E. left. reflexivity.
Qed.
Lemma count_zero c r : (forall y, In y r -> same_call c y = false) -> count_calls c r = 0.
Proof.
  intro H. unfold count_calls. replace (filter (same_call c) r) with (@nil scall); [reflexivity|].
  symmetry. induction r as [|y l IH]; cbn; [reflexivity|]. rewrite (H y (or_introl eq_refl)). apply IH. intros z Hz. apply H. right. exact Hz.
Qed.
Lemma count_ext c d r : (forall y, In y r -> same_call c y = same_call d y) -> count_calls c r = count_calls d r.
Proof. intro H. unfold count_calls. rewrite (filter_ext_in _ _ r H). reflexivity. Qed.

Lemma consume_split f its o xs xs' e :
  consume f its o xs = Some (xs', e) ->
  exists l1 x0 l2, xs = l1 ++ x0 :: l2 /\ xs' = l1 ++ upd_m o x0 :: l2 /\ e = x_e x0 /\ x_open x0 = true /\ matches (x_e x0) f its = true /\
                   forall x, In x l1 -> x_open x && matches (x_e x) f its = false.
Proof.
  revert xs'. induction xs as [|x r IH]; cbn; intros xs' H; [discriminate|]. destruct (x_open x && matches (x_e x) f its) eqn:E.
  - inversion H; subst. apply andb_true_iff in E. destruct E as [E1 E2]. exists [], x, r. cbn. repeat split; auto. intros y [].
  - destruct (consume f its o r) as [[r' w]|] eqn:C; [|discriminate]. inversion H; subst.
    destruct (IH r' eq_refl) as [l1 [x0 [l2 [A [B [C0 [D [F G]]]]]]]]. exists (x :: l1), x0, l2. subst. cbn. repeat split; auto.
    intros y [Hy|Hy]; [subst; exact E|apply G; exact Hy].
Qed.
Lemma open_left x : x_open x = true <-> 1 <= x_left x.
Proof. unfold x_open. rewrite N.ltb_lt. lia. Qed.
Lemma open_false x : x_open x = false <-> x_left x = 0.
Proof. unfold x_open. rewrite N.ltb_ge. lia. Qed.

Theorem run_MSP es : forall cs xs o,
  okc es cs -> (forall x, In x xs -> In (x_e x) es) -> (runM xs o cs = true <-> MSP xs cs).
Proof.
  induction cs as [|c r IH]; intros xs o OKC XE.
  - cbn [runM]. rewrite negb_true_iff, existsb_false. unfold MSP. split.
    + intro H. split; [intros c []|]. intros x Hx. left. apply open_false. apply H. exact Hx.
    + intros [_ H] x Hx. apply open_false. destruct (H x Hx) as [E|[c [[] _]]]. exact E.
  - pose proof OKC as [OK OB].
    assert (OKr : okc es r).
    { split; [intros y Hy; apply OK; right; exact Hy|]. intros e y He Hy. apply OB; [exact He|right; exact Hy]. }
    assert (Hc : In c (c :: r)) by (left; reflexivity).
    assert (Rc : same_call c c = true) by (apply same_call_refl; apply OK; exact Hc).
    cbn [runM]. destruct (consume (sc_f c) (sc_items c) o xs) as [[xs' e]|] eqn:CS.
    + destruct (consume_split _ _ _ _ _ _ CS) as [l1 [x0 [l2 [EX [EX' [Ee [O0 [M0 L1]]]]]]]].
      change (fits (x_e x0) c = true) in M0.
      assert (XE' : forall x, In x xs' -> In (x_e x) es).
      { intros x Hx. subst xs'. apply in_app_or in Hx. destruct Hx as [Hx|[Hx|Hx]].
        - apply XE. subst xs. apply in_or_app. left. exact Hx.
        - subst x. cbn. apply XE. subst xs. apply in_or_app. right. left. reflexivity.
        - apply XE. subst xs. apply in_or_app. right. right. exact Hx. }
      rewrite (IH xs' (o + 1) OKr XE'). clear IH.
      assert (H0 : In (x_e x0) es). { apply XE. subst xs. apply in_or_app. right. left. reflexivity. }
      assert (L0 : 1 <= x_left x0) by (apply open_left; exact O0).
      assert (F1 : forall d, capx xs d = capx xs' d + (if fits (x_e x0) d then 1 else 0)).
      { intro d. subst xs xs'. rewrite !capx_app. unfold capx at 2 4. cbn [fold_right upd_m x_e x_left]. fold (capx l2 d).
        destruct (fits (x_e x0) d); lia. }
      assert (F2 : forall y, In y (c :: r) -> same_call c y = fits (x_e x0) y).
      { intros y Hy. apply (anchor es (c :: r) (x_e x0) c y OKC H0 Hc Hy M0). }
      assert (SUB : forall x, In x xs -> x = x0 \/ In x xs').
      { intros x Hx. subst xs xs'. apply in_app_or in Hx. destruct Hx as [Hx|[Hx|Hx]].
        - right. apply in_or_app. left. exact Hx.
        - left. auto.
        - right. apply in_or_app. right. right. exact Hx. }
      unfold MSP. split.
      * (* MSP xs' r -> MSP xs (c :: r) *)
        intros [B1 B2]. split.
        -- intros d [Ed|Hd].
           ++ subst d. rewrite count_cons, Rc, F1, M0.
              assert (G : count_calls c r = capx xs' c); [|lia].
              destruct (existsb (same_call c) r) eqn:EX1.
              ** apply existsb_exists in EX1. destruct EX1 as [y [Hy Sy]].
                 assert (Fy : fits (x_e x0) y = true) by (rewrite <- (F2 y (or_intror Hy)); exact Sy).
                 rewrite (count_ext c y r).
                 2: { intros z Hz. rewrite (F2 z (or_intror Hz)). symmetry. apply (anchor es (c :: r) (x_e x0) y z OKC H0 (or_intror Hy) (or_intror Hz) Fy). }
                 rewrite (B1 y Hy). symmetry. apply capx_ext. intros x Hx. apply (fits_cong es (c :: r) (x_e x) c y OKC Hc (or_intror Hy) Sy).
              ** rewrite existsb_false in EX1. rewrite (count_zero c r EX1). symmetry. apply capx_zero. intros x Hx Fx.
                 destruct (B2 x Hx) as [E|[z [Hz Fz]]]; [exact E|]. exfalso.
                 pose proof (anchor es (c :: r) (x_e x) c z OKC (XE' x Hx) Hc (or_intror Hz) Fx) as A. rewrite Fz, (EX1 z Hz) in A. discriminate A.
           ++ rewrite count_cons, F1, (same_call_sym d c), (F2 d (or_intror Hd)), (B1 d Hd). destruct (fits (x_e x0) d); lia.
        -- intros x Hx. destruct (SUB x Hx) as [E|Hx'].
           ++ subst x. right. exists c. auto.
           ++ destruct (B2 x Hx') as [E|[z [Hz Fz]]]; [left; exact E|right; exists z; split; [right; exact Hz|exact Fz]].
      * (* MSP xs (c :: r) -> MSP xs' r *)
        intros [A1 A2]. split.
        -- intros d Hd. pose proof (A1 d (or_intror Hd)) as X. rewrite count_cons, F1, (same_call_sym d c), (F2 d (or_intror Hd)) in X.
           destruct (fits (x_e x0) d); lia.
        -- (* two units of capacity for c's shape need a second call of that shape *)
           assert (TWO : 2 <= capx xs c -> exists y, In y r /\ same_call c y = true).
           { intro G. apply count_pos. pose proof (A1 c Hc) as X. rewrite count_cons, Rc in X. lia. }
           intros x Hx. rewrite EX' in Hx. apply in_app_or in Hx. destruct Hx as [Hx|[Hx|Hx]].
           ++ assert (Hxs : In x (l1 ++ x0 :: l2)) by (apply in_or_app; left; exact Hx).
              rewrite <- EX in Hxs. destruct (A2 x Hxs) as [E|[z [[Ez|Hz] Fz]]]; [left; exact E| |right; exists z; auto].
              subst z. destruct (N.eq_dec (x_left x) 0) as [E|NE]; [left; exact E|]. right.
              destruct TWO as [y [Hy Sy]].
              { rewrite EX, capx_app. pose proof (capx_ge l1 x c Hx Fz) as G1. unfold capx at 2. cbn [fold_right]. rewrite M0. lia. }
              exists y. split; [exact Hy|]. rewrite <- (fits_cong es (c :: r) (x_e x) c y OKC Hc (or_intror Hy) Sy). exact Fz.
           ++ subst x. cbn [upd_m x_left x_e]. destruct (N.eq_dec (x_left x0 - 1) 0) as [E|NE]; [left; exact E|]. right.
              destruct TWO as [y [Hy Sy]].
              { rewrite EX. assert (I0 : In x0 (l1 ++ x0 :: l2)) by (apply in_or_app; right; left; reflexivity).
                pose proof (capx_ge (l1 ++ x0 :: l2) x0 c I0 M0) as G1. lia. }
              exists y. split; [exact Hy|]. rewrite <- (F2 y (or_intror Hy)). exact Sy.
           ++ assert (Hxs : In x (l1 ++ x0 :: l2)) by (apply in_or_app; right; right; exact Hx).
              rewrite <- EX in Hxs. destruct (A2 x Hxs) as [E|[z [[Ez|Hz] Fz]]]; [left; exact E| |right; exists z; auto].
              subst z. destruct (N.eq_dec (x_left x) 0) as [E|NE]; [left; exact E|]. right.
              destruct TWO as [y [Hy Sy]].
              { rewrite EX, capx_app. unfold capx at 2. cbn [fold_right]. fold (capx l2 c). rewrite M0. pose proof (capx_ge l2 x c Hx Fz) as G1. lia. }
              exists y. split; [exact Hy|]. rewrite <- (fits_cong es (c :: r) (x_e x) c y OKC Hc (or_intror Hy) Sy). exact Fz.
    + split; [discriminate|]. intros [A1 _]. exfalso. pose proof (A1 c Hc) as X. rewrite count_cons, Rc in X.
      assert (Z : capx xs c = 0); [|lia]. apply capx_zero. intros x Hx Fx. apply open_false.
      destruct (x_open x) eqn:O; [|reflexivity]. exfalso.
      assert (Y : exists xs' v, consume (sc_f c) (sc_items c) o xs = Some (xs', v)).
      { clear - Hx O Fx. unfold fits in Fx. induction xs as [|y l IHl]; [destruct Hx|]. cbn. destruct Hx as [E|Hx].
        - subst y. rewrite O, Fx. cbn. eauto.
        - destruct (x_open y && matches (x_e y) (sc_f c) (sc_items c)); [eauto|]. destruct (IHl Hx) as [xs' [v H]]. rewrite H. eauto. }
      destruct Y as [xs' [v Y]]. congruence.
Qed.

(* ------------------------------------------------------------------ from the counting statement to the spec's multiset_ok *)
Lemma capx_init st from es c : capx (init_m st from es) c = capacity es c.
Proof.
  unfold capx, capacity. revert from. induction es as [|e r IH]; intro from; cbn; [reflexivity|]. rewrite IH. reflexivity.
Qed.
Lemma MSP_multiset st from es cs : MSP (init_m st from es) cs <-> multiset_ok es cs = true.
Proof.
  unfold MSP, multiset_ok. rewrite andb_true_iff, !forallb_forall. split.
  - intros [A B]. split.
    + intros c Hc. apply N.eqb_eq. rewrite <- capx_init with (st := st) (from := from). apply A. exact Hc.
    + intros e He.
      assert (X : exists x, In x (init_m st from es) /\ x_e x = e /\ x_left x = sx_n e).
      { clear - He. revert from. induction es as [|a r IH]; intro from; [destruct He|]. cbn. destruct He as [E|He].
        - subst a. eexists. split; [left; reflexivity|]. cbn. auto.
        - destruct (IH He (from + sx_n a)) as [x [H1 H2]]. exists x. split; [right; exact H1|exact H2]. }
      destruct X as [x [Hx [Ex Lx]]]. destruct (B x Hx) as [Z|[c [Hc Fc]]].
      * rewrite Lx in Z. rewrite Z. reflexivity.
      * apply orb_true_iff. right. apply existsb_exists. exists c. split; [exact Hc|]. rewrite <- Ex. exact Fc.
  - intros [A B]. split.
    + intros c Hc. rewrite capx_init. apply N.eqb_eq. apply A. exact Hc.
    + intros x Hx.
      assert (X : In (x_e x) es /\ x_left x = sx_n (x_e x)).
      { clear - Hx. revert from Hx. induction es as [|a r IH]; intros from Hx; [destruct Hx|]. cbn in Hx. destruct Hx as [E|Hx].
        - subst x. cbn. auto.
        - destruct (IH _ Hx) as [H1 H2]. split; [right; exact H1|exact H2]. }
      destruct X as [He Lx]. specialize (B _ He). apply orb_true_iff in B. destruct B as [Z|E].
      * left. rewrite Lx. apply N.eqb_eq. exact Z.
      * right. apply existsb_exists in E. destruct E as [c [Hc Fc]]. exists c. auto.
Qed.

(* M without strict ordering is the counting run over the checked calls *)
Definition NS (xs : list mexp) : Prop := forall x, In x xs -> x_lo x = 0 /\ x_ooo x = false.
Lemma m_pass_pend ign kn st cs d : s_pend st = Some d -> m_pass ign kn st cs = false.
Proof.
  intro P. destruct cs as [|c r]; cbn.
  - unfold m_final. cbn. rewrite P. reflexivity.
  - unfold m_call. rewrite P. reflexivity.
Qed.
Lemma NS_consume f its o xs xs' e : NS xs -> consume f its o xs = Some (xs', e) -> NS xs'.
Proof.
  intros N CS. destruct (consume_split _ _ _ _ _ _ CS) as [l1 [x0 [l2 [EX [EX' _]]]]]. subst. intros x Hx.
  apply in_app_or in Hx. destruct Hx as [Hx|[Hx|Hx]].
  - apply N. apply in_or_app. left. exact Hx.
  - subst x. destruct (N x0) as [A B]; [apply in_or_app; right; left; reflexivity|]. cbn. rewrite A, B. cbn. auto.
  - apply N. apply in_or_app. right. right. exact Hx.
Qed.
Definition checkedf (ign : bool) (kn : name -> bool) (cs : list scall) : list scall :=
  filter (fun c => negb (ign && negb (kn (sc_f c)))) cs.
Lemma m_pass_runM ign kn : forall cs st,
  NS (s_xs st) -> s_pend st = None -> m_pass ign kn st cs = runM (s_xs st) (s_order st + 1) (checkedf ign kn cs).
Proof.
  induction cs as [|c r IH]; intros st N P.
  - cbn. unfold m_final. cbn. rewrite P. cbn. rewrite !orb_false_r.
    assert (Z : existsb x_ooo (s_xs st) = false) by (apply existsb_false; intros x Hx; apply N; exact Hx).
    rewrite Z. destruct (existsb x_open (s_xs st)); reflexivity.
  - cbn [m_pass checkedf filter]. unfold m_call. rewrite P. destruct (ign && negb (kn (sc_f c))) eqn:IG; cbn [negb].
    + apply IH; assumption.
    + cbn [runM]. destruct (consume (sc_f c) (sc_items c) (s_order st + 1) (s_xs st)) as [[xs' e]|] eqn:CS.
      * rewrite (IH {| s_xs := xs'; s_order := s_order st + 1; s_pend := None |} (NS_consume _ _ _ _ _ _ N CS) eq_refl). reflexivity.
      * destruct (deviation (sc_f c) (sc_items c) (s_xs st)) as [d df]. destruct (df && negb (sc_want c)); [|reflexivity].
        apply (m_pass_pend _ _ _ _ d). reflexivity.
Qed.
Lemma NS_init from es : NS (init_m false from es).
Proof.
  revert from. induction es as [|e r IH]; intros from x Hx; [destruct Hx|]. cbn in Hx. destruct Hx as [E|Hx]; [subst x; cbn; auto|apply (IH _ x Hx)].
Qed.
Lemma init_xe st from es x : In x (init_m st from es) -> In (x_e x) es.
Proof. intro H. apply (in_map x_e) in H. rewrite xe_init in H. exact H. Qed.

Lemma judged_okc k : judged k = true -> okc (k_exps k) (checked_calls k).
Proof.
  unfold judged. intro H. apply andb_true_iff in H. destruct H as [H1 H2]. rewrite forallb_forall in H1. split.
  - intros c Hc. apply H1. unfold checked_calls in Hc. apply filter_In in Hc. apply Hc.
  - intros e c He Hc O F. unfold obj_uniform in H2. rewrite forallb_forall in H2. specialize (H2 e He). rewrite O in H2.
    rewrite forallb_forall in H2. unfold checked_calls in Hc. apply filter_In in Hc. destruct Hc as [Hc _]. specialize (H2 c Hc).
    rewrite <- F, N.eqb_refl in H2. cbn in H2. destruct (objs_of (sc_items c)); [reflexivity|discriminate H2].
Qed.

Theorem verdict_agrees_any_order k : judged k = true -> k_strict k = false ->
  verdict_ok k = match mr_fail (expected_res k) with None => true | Some _ => false end.
Proof.
  intros Hj Hs. unfold verdict_ok. rewrite Hs.
  assert (E : mr_fail (expected_res k) = None <-> multiset_ok (k_exps k) (checked_calls k) = true).
  { unfold expected_res. rewrite Hs. rewrite m_calls_pass, (m_pass_runM _ _ _ (mst0 false (k_exps k)) (NS_init 0 (k_exps k)) eq_refl).
    cbn [mst0 s_xs s_order].
    replace (checkedf (k_ignore k) (knows (k_exps k)) (k_calls k)) with (checked_calls k) by reflexivity.
    rewrite (run_MSP (k_exps k) (checked_calls k) (init_m false 0 (k_exps k)) (0 + 1) (judged_okc k Hj) (init_xe false 0 (k_exps k))).
    apply MSP_multiset. }
  destruct (mr_fail (expected_res k)); destruct (multiset_ok (k_exps k) (checked_calls k)); try reflexivity.
  - destruct E as [_ E]. specialize (E eq_refl). discriminate E.
  - destruct E as [E _]. specialize (E eq_refl). discriminate E.
Qed.

(* ------------------------------------------------------------------ counting: strict order *)
Fixpoint runS (xs : list mexp) (o : N) (cs : list scall) : bool :=
  match cs with
  | [] => negb (existsb x_open xs) && negb (existsb x_ooo xs)
  | c :: r => match consume (sc_f c) (sc_items c) o xs with Some (xs', _) => runS xs' (o + 1) r | None => false end
  end.
Lemma m_pass_runS ign kn : forall cs st,
  s_pend st = None -> m_pass ign kn st cs = runS (s_xs st) (s_order st + 1) (checkedf ign kn cs).
Proof.
  induction cs as [|c r IH]; intros st P.
  - cbn. unfold m_final. cbn. rewrite P. cbn. rewrite !orb_false_r.
    destruct (existsb x_open (s_xs st)); [reflexivity|]. destruct (existsb x_ooo (s_xs st)); reflexivity.
  - cbn [m_pass checkedf filter]. unfold m_call. rewrite P. destruct (ign && negb (kn (sc_f c))) eqn:IG; cbn [negb].
    + apply IH; assumption.
    + cbn [runS]. destruct (consume (sc_f c) (sc_items c) (s_order st + 1) (s_xs st)) as [[xs' e]|] eqn:CS.
      * rewrite (IH {| s_xs := xs'; s_order := s_order st + 1; s_pend := None |} eq_refl). reflexivity.
      * destruct (deviation (sc_f c) (sc_items c) (s_xs st)) as [d df]. destruct (df && negb (sc_want c)); [|reflexivity].
        apply (m_pass_pend _ _ _ _ d). reflexivity.
Qed.
(* an out-of-order mark never goes away *)
Lemma ooo_fail : forall cs xs o, existsb x_ooo xs = true -> runS xs o cs = false.
Proof.
  induction cs as [|c r IH]; intros xs o H; cbn.
  - rewrite H. apply andb_false_r.
  - destruct (consume (sc_f c) (sc_items c) o xs) as [[xs' e]|] eqn:CS; [|reflexivity]. apply IH.
    destruct (consume_split _ _ _ _ _ _ CS) as [l1 [x0 [l2 [EX [EX' _]]]]]. subst. rewrite existsb_app in *. cbn [existsb] in *.
    apply orb_true_iff in H. destruct H as [H|H]; [rewrite H; reflexivity|]. apply orb_true_iff in H. destruct H as [H|H].
    + cbn [upd_m x_ooo]. rewrite H. destruct (negb (x_lo x0 =? 0) && ((o <? x_lo x0) || (x_hi x0 <? o))); cbn; rewrite orb_true_r; reflexivity.
    + rewrite H, !orb_true_r. reflexivity.
Qed.

Definition slots (xs : list mexp) : list sexp := flat_map (fun x => repeat (x_e x) (N.to_nat (x_left x))) xs.
(* expectations not yet touched, windows laid out from s on *)
Fixpoint pristine (s : N) (l : list mexp) : Prop :=
  match l with
  | [] => True
  | y :: r => x_ooo y = false /\ s <> 0 /\ x_lo y = s /\ x_hi y + 1 = s + x_left y /\ pristine (x_hi y + 1) r
  end.
(* used-up expectations, then one that owns the next order number o, then untouched ones *)
Fixpoint chain (o : N) (l : list mexp) : Prop :=
  match l with
  | [] => True
  | x :: r => x_ooo x = false /\
              (if x_left x =? 0 then chain o r
               else x_lo x <> 0 /\ x_lo x <= o /\ x_hi x + 1 = o + x_left x /\ pristine (x_hi x + 1) r)
  end.
Lemma pristine_chain : forall l s, pristine s l -> chain s l.
Proof.
  induction l as [|y r IH]; intros s H; cbn; [exact I|]. destruct H as [A [B [C [D E]]]]. split; [exact A|].
  destruct (x_left y =? 0) eqn:Z.
  - apply N.eqb_eq in Z. apply IH. replace s with (x_hi y + 1) by lia. exact E.
  - repeat split; try assumption; lia.
Qed.
Lemma pristine_init : forall es from, pristine (from + 1) (init_m true from es).
Proof.
  induction es as [|e r IH]; intro from; cbn; [exact I|]. repeat split; try lia. replace (from + sx_n e + 1) with ((from + sx_n e) + 1) by lia. apply IH.
Qed.
Lemma slots_init : forall es st from, slots (init_m st from es) = expand es.
Proof. induction es as [|e r IH]; intros st from; cbn; [reflexivity|]. unfold slots in IH. rewrite IH. reflexivity. Qed.
Lemma pristine_ooo : forall l s, pristine s l -> existsb x_ooo l = false.
Proof. induction l as [|y r IH]; intros s H; cbn; [reflexivity|]. destruct H as [A [_ [_ [_ E]]]]. rewrite A. apply (IH _ E). Qed.
Lemma chain_ooo : forall l o, chain o l -> existsb x_ooo l = false.
Proof.
  induction l as [|y r IH]; intros o H; cbn; [reflexivity|]. destruct H as [A B]. rewrite A. cbn. destruct (x_left y =? 0).
  - apply (IH _ B).
  - destruct B as [_ [_ [_ E]]]. apply (pristine_ooo _ _ E).
Qed.
(* an expectation further down the untouched part starts after s *)
Lemma pristine_lo : forall l s y, pristine s l -> In y l -> x_lo y <> 0 /\ s <= x_lo y.
Proof.
  induction l as [|z r IH]; intros s y H Hy; [destruct Hy|]. destruct H as [A [B [C [D E]]]]. destruct Hy as [Ey|Hy].
  - subst z. split; [congruence|lia].
  - destruct (IH _ y E Hy) as [F G]. split; [exact F|lia].
Qed.
Lemma seq_ok_nil_r xs : seq_ok xs [] = match xs with [] => true | _ => false end.
Proof. destruct xs; reflexivity. Qed.
Lemma slots_nil xs : slots xs = [] <-> existsb x_open xs = false.
Proof.
  unfold slots. rewrite flat_map_nil, existsb_false. split; intros H x Hx; specialize (H x Hx).
  - apply open_false. destruct (N.to_nat (x_left x)) eqn:E; [lia|discriminate H].
  - apply open_false in H. rewrite H. reflexivity.
Qed.

Lemma runS_skip x : x_open x = false -> x_ooo x = false -> forall cs l o, runS (x :: l) o cs = runS l o cs.
Proof.
  intros NO OX. induction cs as [|c r IH]; intros l o; cbn [runS existsb consume].
  - rewrite NO, OX. reflexivity.
  - rewrite NO. cbn [andb]. destruct (consume (sc_f c) (sc_items c) o l) as [[l' e]|]; [apply IH|reflexivity].
Qed.

Theorem run_seq : forall cs xs o, chain o xs -> runS xs o cs = seq_ok (slots xs) cs.
Proof.
  induction cs as [|c r IH]; intros xs o CH.
  - cbn [runS]. rewrite (chain_ooo _ _ CH), andb_true_r, seq_ok_nil_r. destruct (existsb x_open xs) eqn:E.
    + destruct (slots xs) eqn:S; [apply slots_nil in S; congruence|reflexivity].
    + apply slots_nil in E. rewrite E. reflexivity.
  - cbn [runS]. revert o CH. induction xs as [|x l IHx]; intros o CH.
    + reflexivity.
    + destruct CH as [OX CH]. destruct (x_left x =? 0) eqn:Z.
      * (* used up: skipped by consume, no slot *)
        apply N.eqb_eq in Z. assert (NO : x_open x = false) by (apply open_false; exact Z).
        cbn [consume]. rewrite NO. cbn [andb]. unfold slots. cbn [flat_map]. rewrite Z. cbn [N.to_nat repeat app]. fold (slots l).
        specialize (IHx o CH). destruct (consume (sc_f c) (sc_items c) o l) as [[l' e]|] eqn:CS.
        -- rewrite <- IHx. apply (runS_skip x NO OX).
        -- exact IHx.
      * (* the expectation that owns order number o *)
        apply N.eqb_neq in Z. destruct CH as [LO [LE [HI PR]]].
        assert (OP : x_open x = true) by (apply open_left; lia).
        assert (SL : slots (x :: l) = x_e x :: slots ({| x_e := x_e x; x_left := x_left x - 1; x_done := x_done x + 1; x_lo := x_lo x; x_hi := x_hi x; x_ooo := false |} :: l)).
        { unfold slots. cbn [flat_map x_e x_left]. replace (N.to_nat (x_left x)) with (S (N.to_nat (x_left x - 1))) by lia. reflexivity. }
        rewrite SL. cbn [seq_ok consume]. rewrite OP. cbn [andb]. destruct (matches (x_e x) (sc_f c) (sc_items c)) eqn:M; cbn [andb].
        -- (* consumed inside its window *)
           assert (NW : (negb (x_lo x =? 0) && ((o <? x_lo x) || (x_hi x <? o))) = false).
           { apply andb_false_iff. right. apply orb_false_iff. split; [apply N.ltb_ge; exact LE|apply N.ltb_ge; lia]. }
           rewrite NW, OX. apply IH. cbn [chain x_ooo x_left x_lo x_hi]. split; [reflexivity|].
           destruct (x_left x - 1 =? 0) eqn:Z2.
           ++ apply pristine_chain. replace (o + 1) with (x_hi x + 1) by (apply N.eqb_eq in Z2; lia). exact PR.
           ++ repeat split; try assumption; lia.
        -- (* skipped: whatever is consumed further down is out of its window *)
           destruct (consume (sc_f c) (sc_items c) o l) as [[l' e]|] eqn:CS; [|reflexivity].
           apply ooo_fail. cbn [existsb]. apply orb_true_iff. right.
           destruct (consume_split _ _ _ _ _ _ CS) as [m1 [y [m2 [EX [EX' [_ [Oy _]]]]]]]. subst l l'.
           rewrite existsb_app. cbn [existsb upd_m x_ooo]. apply orb_true_iff. right. apply orb_true_iff. left.
           assert (Iy : In y (m1 ++ y :: m2)) by (apply in_or_app; right; left; reflexivity).
           destruct (pristine_lo _ _ y PR Iy) as [Ly Gy].
           assert (W : (negb (x_lo y =? 0) && ((o <? x_lo y) || (x_hi y <? o))) = true).
           { apply andb_true_iff. split; [apply negb_true_iff; apply N.eqb_neq; exact Ly|]. apply orb_true_iff. left. apply N.ltb_lt. lia. }
           rewrite W. reflexivity.
Qed.

Theorem verdict_agrees_strict k : k_strict k = true ->
  verdict_ok k = match mr_fail (expected_res k) with None => true | Some _ => false end.
Proof.
  intros Hs. unfold verdict_ok. rewrite Hs.
  assert (E : mr_fail (expected_res k) = None <-> seq_ok (expand (k_exps k)) (checked_calls k) = true).
  { unfold expected_res. rewrite Hs. rewrite m_calls_pass, (m_pass_runS _ _ _ (mst0 true (k_exps k)) eq_refl).
    cbn [mst0 s_xs s_order].
    replace (checkedf (k_ignore k) (knows (k_exps k)) (k_calls k)) with (checked_calls k) by reflexivity.
    rewrite (run_seq (checked_calls k) (init_m true 0 (k_exps k)) (0 + 1) (pristine_chain _ _ (pristine_init (k_exps k) 0))).
    rewrite slots_init. reflexivity. }
  destruct (mr_fail (expected_res k)); destruct (seq_ok (expand (k_exps k)) (checked_calls k)); try reflexivity.
  - destruct E as [_ E]. specialize (E eq_refl). discriminate E.
  - destruct E as [E _]. specialize (E eq_refl). discriminate E.
Qed.

(* the counting theorem: on every judged scenario M's verdict is the multiset (strict: sequence) verdict *)
Theorem verdict_counting k : judged k = true ->
  verdict_ok k = match fst (expected k) with None => true | Some _ => false end.
Proof.
  intro Hj. unfold expected. cbn [fst]. destruct (k_strict k) eqn:Hs; [apply verdict_agrees_strict; exact Hs|apply verdict_agrees_any_order; assumption].
Qed.
