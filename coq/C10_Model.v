(* C10 -- thread-safe allocation mode.  Executable model of N threads running allocation scripts through the eleven
   overloaded entry points (src/CppUTest/MemoryLeakWarningPlugin.cpp) against one shared detector (allocation table +
   sequence counter, src/CppUTest/MemoryLeakDetector.cpp) guarded by one non-recursive mutex (SimpleMutex / pthread).
   Every detector operation is split into the micro-steps a scheduler can interleave:
       acquire (MemLeakScopedMutex constructor)  ->  read the shared state  ->  write it back (and decide whether a misuse
       is reported)  ->  release (destructor)            | on a misuse: MemoryLeakWarningReporter::fail = give the lock
       back, print the failure (the output may allocate through the same overloads), longjmp to the end of the test.
   Which entry point takes the lock and which detector action it performs is NOT written here: it is the table
   gen/Gen_C10.v regenerated from the source on every run.  The pre-repair reporter (lock not given back before the
   longjmp, D17) is the same machine with cfg_reporter_unlocks = false (run_old).
   No proofs in this file. *)
From Coq Require Import NArith Arith Bool List.
From CppUVerif Require Import C10_Wiring gen.Gen_C10.
Import ListNotations.

(* ---------------------------------------------------------------- scripts *)
(* slots are the thread's own pointer variables; a thread only ever passes its own pointers (or a wild one) *)
(* why a realloc request is turned down: RGuard = the size is so large that size + guard bytes + record would wrap around
   size_t (MemoryLeakDetector::reallocMemory gives up before it looks at the block); RUnderlying = the size passes that
   test and the underlying PlatformSpecificRealloc returns NULL (the record has been taken out of the table by then and is
   put back) *)
Inductive refusal := RGuard | RUnderlying.

Inductive op :=
| OAlloc (k : nat) (sz : N) (e : entry)   (* slot[k] = <e>(sz)        e one of the seven allocating entry points *)
| OFree (k : nat) (e : entry)             (* <e>(slot[k]); slot[k] = NULL     e one of delete, delete[], free *)
| ORealloc (k : nat) (sz : N)             (* slot[k] = realloc(slot[k], sz) *)
| OOverrun (k : nat)                      (* slot[k][size] = 'x'   (first guard byte) *)
| OWild (e : entry)                       (* <e>(pointer that was never allocated)   e one of delete, delete[], free, realloc *)
| OBoundary                               (* end of one test, start of the next (test thread only) *)
| ORefused (k : nat) (r : refusal).       (* q = realloc(slot[k], n) for an n that cannot be had: q = NULL, slot[k] keeps its block *)

Record slotinfo := { s_size : N; s_fam : fam; s_bad : bool }.     (* what the thread knows about the block it holds *)
Definition slots := list (nat * slotinfo).
Fixpoint slot_get (k : nat) (sl : slots) : option slotinfo :=
  match sl with
  | [] => None
  | (k', v) :: r => if Nat.eqb k' k then Some v else slot_get k r
  end.
Definition slot_del (k : nat) (sl : slots) : slots := filter (fun p => negb (Nat.eqb (fst p) k)) sl.
Definition slot_set (k : nat) (v : slotinfo) (sl : slots) : slots := (k, v) :: slot_del k sl.

(* thread-local state: held blocks, index of the running test, tests failed so far, allocations made *)
Record local := { l_slots : slots; l_test : nat; l_fails : list nat; l_allocs : N }.
Definition l0 : local := {| l_slots := []; l_test := 0; l_fails := []; l_allocs := 0 |}.
Definition with_slots (L : local) (sl : slots) : local :=
  {| l_slots := sl; l_test := l_test L; l_fails := l_fails L; l_allocs := l_allocs L |}.
Definition count_alloc (L : local) : local :=
  {| l_slots := l_slots L; l_test := l_test L; l_fails := l_fails L; l_allocs := N.succ (l_allocs L) |}.
Definition next_test (L : local) : local :=
  {| l_slots := l_slots L; l_test := S (l_test L); l_fails := l_fails L; l_allocs := l_allocs L |}.
Definition record_fail (L : local) : local :=
  {| l_slots := l_slots L; l_test := l_test L; l_fails := l_test L :: l_fails L; l_allocs := l_allocs L |}.

Definition entry_fam (e : entry) : fam :=
  match e with
  | ENewArr | ENewArrNothrow | ENewArrDebug | EDeleteArr => FNewArr
  | EMalloc | ERealloc | EFree => FMalloc
  | ENew | ENewNothrow | ENewDebug | EDelete => FNew
  end.
Definition is_alloc_entry (e : entry) : bool :=
  match e with ENew | ENewNothrow | ENewDebug | ENewArr | ENewArrNothrow | ENewArrDebug | EMalloc => true | _ => false end.
Definition is_release_entry (e : entry) : bool := match e with EDelete | EDeleteArr | EFree => true | _ => false end.
Definition is_wild_entry (e : entry) : bool := match e with EDelete | EDeleteArr | EFree | ERealloc => true | _ => false end.

(* ---------------------------------------------------------------- one thread on its own ("one after another") *)
(* effect of one operation on what the thread holds, and whether it is a misuse (mismatched family, overrun block,
   pointer never allocated).  This is the language-level reading of the script; it knows nothing of tables or locks. *)
Definition lstep (o : op) (L : local) : local * bool :=
  match o with
  | OAlloc k sz e => (count_alloc (with_slots L (slot_set k {| s_size := sz; s_fam := entry_fam e; s_bad := false |} (l_slots L))), false)
  | OFree k e =>
      match slot_get k (l_slots L) with
      | None => (L, false)                                          (* releasing NULL does nothing *)
      | Some si => (with_slots L (slot_del k (l_slots L)), negb (fam_eqb (s_fam si) (entry_fam e)) || s_bad si)
      end
  | ORealloc k sz =>
      match slot_get k (l_slots L) with
      | None => (count_alloc (with_slots L (slot_set k {| s_size := sz; s_fam := FMalloc; s_bad := false |} (l_slots L))), false)
      | Some si =>
          if negb (fam_eqb (s_fam si) FMalloc) || s_bad si then (with_slots L (slot_del k (l_slots L)), true)
          else (count_alloc (with_slots L (slot_set k {| s_size := sz; s_fam := FMalloc; s_bad := false |} (l_slots L))), false)
      end
  | OOverrun k =>
      match slot_get k (l_slots L) with
      | None => (L, false)
      | Some si => (with_slots L (slot_set k {| s_size := s_size si; s_fam := s_fam si; s_bad := true |} (l_slots L)), false)
      end
  | OWild _ => (L, true)
  | OBoundary => (next_test L, false)
  | ORefused _ _ => (L, false)                                      (* a failed realloc leaves the old block as it is *)
  end.

(* a misuse fails the running test and leaves it: the rest of that test's operations are not executed *)
Fixpoint lrun (ops : list op) (skipping : bool) (L : local) : local :=
  match ops with
  | [] => L
  | o :: r =>
      if skipping then
        match o with
        | OBoundary => lrun r false (next_test L)
        | _ => lrun r true L
        end
      else
        match lstep o L with
        | (L', true) => lrun r true (record_fail L')
        | (L', false) => lrun r false L'
        end
  end.

(* ---------------------------------------------------------------- shared state of the detector *)
Record tentry := { t_owner : nat; t_slot : nat; t_size : N; t_fam : fam; t_seq : N }.
Record shared := { sh_table : list tentry; sh_seq : N }.          (* memoryTable_, allocationSequenceNumber_ *)
Definition sh0 : shared := {| sh_table := []; sh_seq := 1 |}.
Definition key_is (t k : nat) (x : tentry) : bool := Nat.eqb (t_owner x) t && Nat.eqb (t_slot x) k.
Definition tbl_find (t k : nat) (tb : list tentry) : option tentry := find (key_is t k) tb.           (* retrieveNode *)
Definition tbl_remove (t k : nat) (tb : list tentry) : list tentry := filter (fun x => negb (key_is t k x)) tb.   (* removeNode *)

Inductive lockst := LFree | LHeld (t : nat).
Definition lock_free (l : lockst) : bool := match l with LFree => true | _ => false end.
Definition held_by (t : nat) (l : lockst) : bool := match l with LHeld u => Nat.eqb u t | LFree => false end.

Inductive phase :=
| PIdle                      (* between operations *)
| PLocked                    (* inside the wrapper, lock taken, detector not yet entered *)
| PRead (snap : shared)      (* detector has read the shared state *)
| PExit                      (* detector has written the shared state back; the wrapper returns (scoped lock destructor) *)
| PFailing                   (* detector has written back and calls reporter_->fail() *)
| PPrint.                    (* reporter: failure about to be added to the result (printed), then longjmp *)

Record thread := { th_pc : list op; th_phase : phase; th_loc : local; th_skip : bool }.
Record state := { st_sh : shared; st_lock : lockst; st_threads : list thread; st_outallocs : N }.

Record cfg := { cfg_wiring : wtable;             (* which function is installed behind each entry point *)
                cfg_outalloc : bool;             (* the test output allocates while it prints a failure (as JUnitTestOutput does) *)
                cfg_reporter_unlocks : bool }.   (* MemoryLeakWarningReporter::fail gives the scoped lock back before failWith *)

Definition op_entry (o : op) : option entry :=
  match o with
  | OAlloc _ _ e | OFree _ e | OWild e => Some e
  | ORealloc _ _ | ORefused _ _ => Some ERealloc
  | _ => None
  end.
Definition plain_wrapper : wrapper := {| w_locks := false; w_action := APlain |}.
Definition wrapper_of (c : cfg) (e : entry) : wrapper :=
  match wlookup (cfg_wiring c) e with Some w => w | None => plain_wrapper end.
Definition op_locks (c : cfg) (o : op) : bool :=
  match op_entry o with Some e => w_locks (wrapper_of c e) | None => false end.

(* ---------------------------------------------------------------- the detector's part of one operation *)
Definition add_entry (t k : nat) (sz : N) (f : fam) (sh : shared) : shared :=
  {| sh_table := {| t_owner := t; t_slot := k; t_size := sz; t_fam := f; t_seq := sh_seq sh |} :: sh_table sh;
     sh_seq := N.succ (sh_seq sh) |}.                                   (* storeLeakInformation *)
Definition del_entry (t k : nat) (sh : shared) : shared :=
  {| sh_table := tbl_remove t k (sh_table sh); sh_seq := sh_seq sh |}.
Definition readd_entry (x : tentry) (sh : shared) : shared :=
  {| sh_table := x :: sh_table sh; sh_seq := sh_seq sh |}.                (* addNewNode(node): the same record, the same number *)

(* new shared state computed from the snapshot, and whether reporter_->fail() is called.  The decision is taken from what
   the detector sees: the table entry's allocator against the wrapper's, the guard bytes (s_bad is the memory content). *)
Definition detector (c : cfg) (t : nat) (o : op) (L : local) (snap : shared) : shared * bool :=
  match o with
  | OAlloc k sz e =>
      match w_action (wrapper_of c e) with
      | AAlloc f => (add_entry t k sz f snap, false)
      | _ => (snap, false)
      end
  | OFree k e =>
      match w_action (wrapper_of c e), slot_get k (l_slots L) with
      | ARelease f, Some si =>
          match tbl_find t k (sh_table snap) with
          | None => (snap, true)                                        (* Deallocating non-allocated memory *)
          | Some x => (del_entry t k snap, negb (fam_eqb (t_fam x) f) || s_bad si)
          end
      | _, _ => (snap, false)                                           (* NULL, or not through the detector *)
      end
  | ORealloc k sz =>
      match w_action (wrapper_of c ERealloc) with
      | ARealloc f =>
          match slot_get k (l_slots L) with
          | None => (add_entry t k sz f snap, false)
          | Some si =>
              match tbl_find t k (sh_table snap) with
              | None => (snap, true)
              | Some x =>
                  if negb (fam_eqb (t_fam x) f) || s_bad si then (del_entry t k snap, true)
                  else (add_entry t k sz f (del_entry t k snap), false)
              end
          end
      | _ => (snap, false)
      end
  | OWild e =>
      match w_action (wrapper_of c e) with
      | ARelease _ | ARealloc _ => (snap, true)                         (* retrieveNode finds nothing *)
      | _ => (snap, false)
      end
  | ORefused k r =>
      match w_action (wrapper_of c ERealloc) with
      | ARealloc f =>
          match r with
          | RGuard => (snap, false)                                     (* sizeLeavesRoomForAccountingInformation: before anything else *)
          | RUnderlying =>
              match slot_get k (l_slots L) with
              | None => (snap, false)                                   (* realloc(NULL, n) fails: there was no record *)
              | Some si =>
                  match tbl_find t k (sh_table snap) with
                  | None => (snap, true)
                  | Some x =>                                           (* removeNode, checkForCorruption, realloc fails, addNewNode *)
                      if negb (fam_eqb (t_fam x) f) || s_bad si then (del_entry t k snap, true)
                      else (readd_entry x (del_entry t k snap), false)
                  end
              end
          end
      | _ => (snap, false)
      end
  | _ => (snap, false)
  end.

(* ---------------------------------------------------------------- micro-steps *)
Fixpoint set_nth {A} (l : list A) (i : nat) (x : A) : list A :=
  match l, i with
  | [], _ => []
  | _ :: r, O => x :: r
  | y :: r, S j => y :: set_nth r j x
  end.
Definition upd_thread (st : state) (t : nat) (th : thread) : state :=
  {| st_sh := st_sh st; st_lock := st_lock st; st_threads := set_nth (st_threads st) t th; st_outallocs := st_outallocs st |}.
Definition mk_state (sh : shared) (l : lockst) (ths : list thread) (oa : N) : state :=
  {| st_sh := sh; st_lock := l; st_threads := ths; st_outallocs := oa |}.
Definition mk_thread (pc : list op) (ph : phase) (L : local) (sk : bool) : thread :=
  {| th_pc := pc; th_phase := ph; th_loc := L; th_skip := sk |}.

(* what thread t does next; a thread that cannot move (blocked on the lock, finished, unknown) leaves the state as it is *)
Definition step (c : cfg) (t : nat) (st : state) : state :=
  match nth_error (st_threads st) t with
  | None => st
  | Some th =>
    match th_pc th with
    | [] => st
    | o :: r =>
      match th_phase th with
      | PIdle =>
          if th_skip th then
            match o with
            | OBoundary => upd_thread st t (mk_thread r PIdle (next_test (th_loc th)) false)
            | _ => upd_thread st t (mk_thread r PIdle (th_loc th) true)
            end
          else
            match op_entry o with
            | None => upd_thread st t (mk_thread r PIdle (fst (lstep o (th_loc th))) false)        (* overrun, boundary: local *)
            | Some _ =>
                if op_locks c o then
                  if lock_free (st_lock st)
                  then mk_state (st_sh st) (LHeld t) (set_nth (st_threads st) t (mk_thread (o :: r) PLocked (th_loc th) false)) (st_outallocs st)
                  else st                                                                          (* pthread_mutex_lock blocks *)
                else upd_thread st t (mk_thread (o :: r) (PRead (st_sh st)) (th_loc th) false)
            end
      | PLocked => upd_thread st t (mk_thread (o :: r) (PRead (st_sh st)) (th_loc th) false)
      | PRead snap =>
          match detector c t o (th_loc th) snap with
          | (sh', failed) =>
              mk_state sh' (st_lock st)
                       (set_nth (st_threads st) t (mk_thread (o :: r) (if failed then PFailing else PExit) (fst (lstep o (th_loc th))) false))
                       (st_outallocs st)
          end
      | PExit =>
          mk_state (st_sh st) (if op_locks c o && held_by t (st_lock st) then LFree else st_lock st)
                   (set_nth (st_threads st) t (mk_thread r PIdle (th_loc th) false)) (st_outallocs st)
      | PFailing =>
          mk_state (st_sh st) (if cfg_reporter_unlocks c && held_by t (st_lock st) then LFree else st_lock st)
                   (set_nth (st_threads st) t (mk_thread (o :: r) PPrint (th_loc th) false)) (st_outallocs st)
      | PPrint =>
          if cfg_outalloc c then
            if lock_free (st_lock st)                                  (* the output's new/delete go through the same wrappers *)
            then mk_state {| sh_table := sh_table (st_sh st); sh_seq := N.succ (sh_seq (st_sh st)) |} (st_lock st)
                          (set_nth (st_threads st) t (mk_thread r PIdle (record_fail (th_loc th)) true)) (N.succ (st_outallocs st))
            else st                                                    (* non-recursive mutex: blocks, also on its own holder *)
          else upd_thread st t (mk_thread r PIdle (record_fail (th_loc th)) true)
      end
    end
  end.

Definition exec (c : cfg) (sched : list nat) (st : state) : state := fold_left (fun s t => step c t s) sched st.

(* ---------------------------------------------------------------- running to the end *)
Definition thread_done (th : thread) : bool := match th_pc th with [] => true | _ => false end.
Definition all_done (st : state) : bool := forallb thread_done (st_threads st).

Definition enabled (c : cfg) (st : state) (t : nat) : bool :=
  match nth_error (st_threads st) t with
  | None => false
  | Some th =>
    match th_pc th with
    | [] => false
    | o :: _ =>
      match th_phase th with
      | PIdle => th_skip th || negb (op_locks c o) || lock_free (st_lock st)
      | PPrint => negb (cfg_outalloc c) || lock_free (st_lock st)
      | _ => true
      end
    end
  end.
Definition first_enabled (c : cfg) (st : state) : option nat := find (enabled c st) (seq 0 (length (st_threads st))).

(* micro-steps still to do (an upper bound: a failing operation drops the rest of its test) *)
Definition phase_weight (p : phase) : nat :=
  match p with PIdle => 5 | PLocked => 4 | PRead _ => 3 | PExit => 1 | PFailing => 2 | PPrint => 1 end.
Definition thread_weight (th : thread) : nat :=
  match th_pc th with
  | [] => 0
  | _ :: r => phase_weight (th_phase th) + 5 * length r
  end.
Definition weight (st : state) : nat := fold_right (fun th a => thread_weight th + a) 0 (st_threads st).

(* lowest-numbered runnable thread first, until nothing can move *)
Fixpoint drain (c : cfg) (fuel : nat) (st : state) : state :=
  match fuel with
  | O => st
  | S f => match first_enabled c st with
           | None => st
           | Some t => drain c f (step c t st)
           end
  end.
Definition complete (c : cfg) (st : state) : state := drain c (weight st) st.

(* ---------------------------------------------------------------- how many threads are inside the locked region *)
(* from the return of Lock() to the call of Unlock() *)
Definition in_cs (p : phase) : bool := match p with PLocked | PRead _ | PExit | PFailing => true | _ => false end.
Definition occupancy (st : state) : nat := length (filter (fun th => in_cs (th_phase th)) (st_threads st)).
(* the largest occupancy over the states an execution goes through (the same walks as exec and drain) *)
Fixpoint exec_peak (c : cfg) (sched : list nat) (st : state) : nat :=
  match sched with
  | [] => occupancy st
  | t :: r => Nat.max (occupancy st) (exec_peak c r (step c t st))
  end.
Fixpoint drain_peak (c : cfg) (fuel : nat) (st : state) : nat :=
  match fuel with
  | O => occupancy st
  | S f => match first_enabled c st with
           | None => occupancy st
           | Some t => Nat.max (occupancy st) (drain_peak c f (step c t st))
           end
  end.
Definition run_peak (c : cfg) (sched : list nat) (st : state) : nat :=
  let st1 := exec c sched st in Nat.max (exec_peak c sched st) (drain_peak c (weight st1) st1).

(* ---------------------------------------------------------------- scenarios and observations *)
Record scenario := { sc_outalloc : bool; sc_scripts : list (list op); sc_sched : list nat }.

Definition init_state (s : scenario) : state :=
  mk_state sh0 LFree (map (fun sc => mk_thread sc PIdle l0 false) (sc_scripts s)) 0.
Definition cfg_of (tb : wtable) (unlocks : bool) (s : scenario) : cfg :=
  {| cfg_wiring := tb; cfg_outalloc := sc_outalloc s; cfg_reporter_unlocks := unlocks |}.

Record obs := { o_done : bool;                       (* the run came to its end (no thread left blocked) *)
                o_verdicts : list bool;              (* per test of the test thread: failed? *)
                o_wfail : N;                         (* misuse reports raised on the other threads *)
                o_adv : N;                           (* sequence numbers handed out to the scripts *)
                o_distinct : bool;                   (* outstanding blocks carry distinct numbers below the counter *)
                o_foreign : N;                       (* outstanding records that no thread holds *)
                o_rest : N;                          (* records left once every thread has released what it holds *)
                o_overlap : N;                       (* threads seen inside the locked region at one moment, beyond the one the lock admits *)
                o_entries : list (nat * nat * N) }.  (* outstanding blocks the threads hold: (thread, slot, size) *)

Definition count_boundaries (ops : list op) : nat :=
  length (filter (fun o => match o with OBoundary => true | _ => false end) ops).
Definition n_tests (s : scenario) : nat :=
  match sc_scripts s with [] => 0 | sc :: _ => S (count_boundaries sc) end.
Definition verdicts_of (n : nat) (fails : list nat) : list bool :=
  map (fun i => existsb (Nat.eqb i) fails) (seq 0 n).

Definition held (ths : list thread) (x : tentry) : bool :=
  match nth_error ths (t_owner x) with
  | Some th => match slot_get (t_slot x) (l_slots (th_loc th)) with Some _ => true | None => false end
  | None => false
  end.
Fixpoint nodup_N (l : list N) : bool :=
  match l with
  | [] => true
  | x :: r => negb (existsb (N.eqb x) r) && nodup_N r
  end.
Definition Nlen {A} (l : list A) : N := N.of_nat (length l).

Definition observe (s : scenario) (peak : nat) (st : state) : obs :=
  let tb := sh_table (st_sh st) in
  let ths := st_threads st in
  {| o_done := all_done st;
     o_verdicts := verdicts_of (n_tests s) (match ths with th :: _ => l_fails (th_loc th) | [] => [] end);
     o_wfail := Nlen (flat_map (fun th => l_fails (th_loc th)) (tl ths));
     o_adv := sh_seq (st_sh st) - 1 - st_outallocs st;
     o_distinct := nodup_N (map t_seq tb) && forallb (fun x => (1 <=? t_seq x)%N && (t_seq x <? sh_seq (st_sh st))%N) tb;
     o_foreign := Nlen (filter (fun x => negb (held ths x)) tb);
     o_rest := Nlen (filter (fun x => negb (held ths x)) tb);
     o_overlap := N.of_nat (peak - 1);
     o_entries := map (fun x => (t_owner x, t_slot x, t_size x)) (filter (held ths) tb) |}.

(* the observation of the execution that follows `sched` and is then run to its end *)
Definition completed_obs (c : cfg) (s : scenario) (sched : list nat) : obs :=
  observe s (run_peak c sched (init_state s)) (complete c (exec c sched (init_state s))).
Definition run_with (tb : wtable) (unlocks : bool) (s : scenario) : obs :=
  completed_obs (cfg_of tb unlocks s) s (sc_sched s).

(* the code as it is: the wiring table regenerated from the source, the repaired reporter *)
Definition run (s : scenario) : obs := run_with ts_table true s.
(* the reporter before the repair (D17): the lock is still held when the test is left *)
Definition run_old (s : scenario) : obs := run_with ts_table false s.

(* ---------------------------------------------------------------- validity *)
Definition max_threads : nat := 16.
Definition max_slot : nat := 64.
Definition max_size : N := 65536.

(* a script is well-formed on its own: allocations go to empty slots, overruns hit held blocks, entry points of the
   right kind; `ok_misuse` says whether the thread may misuse (only the thread that runs the tests can be failed) *)
Fixpoint script_ok (ops : list op) (skipping : bool) (L : local) (may_misuse : bool) : bool :=
  match ops with
  | [] => true
  | o :: r =>
      let shape :=
        match o with
        | OAlloc k sz e => (k <? max_slot) && (sz <=? max_size)%N && is_alloc_entry e
        | OFree k e => (k <? max_slot) && is_release_entry e
        | ORealloc k sz => (k <? max_slot) && (sz <=? max_size)%N
        | OOverrun k => k <? max_slot
        | OWild e => is_wild_entry e
        | OBoundary => may_misuse
        | ORefused k _ => k <? max_slot
        end in
      shape &&
      (if skipping then
         match o with
         | OBoundary => script_ok r false (next_test L) may_misuse
         | _ => script_ok r true L may_misuse
         end
       else
         (match o with
          | OAlloc k _ _ => match slot_get k (l_slots L) with None => true | Some _ => false end
          | OOverrun k => match slot_get k (l_slots L) with None => false | Some _ => true end
          | ORefused k _ => match slot_get k (l_slots L) with               (* NULL, or an intact block that realloc may be given *)
                            | None => true
                            | Some si => fam_eqb (s_fam si) FMalloc && negb (s_bad si)
                            end
          | _ => true
          end) &&
         match lstep o L with
         | (L', true) => may_misuse && script_ok r true (record_fail L') may_misuse
         | (L', false) => script_ok r false L' may_misuse
         end)
  end.

Definition valid (s : scenario) : bool :=
  match sc_scripts s with
  | [] => false
  | sc0 :: rest =>
      (length (sc_scripts s) <=? max_threads) && script_ok sc0 false l0 true
      && forallb (fun sc => script_ok sc false l0 false) rest
  end.

(* ---------------------------------------------------------------- the property as an oracle over the observation *)
(* "the outstanding set equals the union of what each thread still holds, exactly as if the operations had run one after
   another": every thread's script is read on its own with lrun; nothing here mentions tables, locks or schedules.
   A realloc that is turned down leaves its block with the thread, so the block stays in the union. *)
Definition final_local (sc : list op) : local := lrun sc false l0.
Fixpoint expected_entries (t : nat) (scripts : list (list op)) : list (nat * nat * N) :=
  match scripts with
  | [] => []
  | sc :: r => map (fun p => (t, fst p, s_size (snd p))) (l_slots (final_local sc)) ++ expected_entries (S t) r
  end.
Definition expected_allocs (scripts : list (list op)) : N :=
  fold_right (fun sc a => (l_allocs (final_local sc) + a)%N) 0%N scripts.
Definition expected_verdicts (s : scenario) : list bool :=
  match sc_scripts s with
  | [] => []
  | sc :: _ => verdicts_of (n_tests s) (l_fails (final_local sc))
  end.

Definition triple_eqb (a b : nat * nat * N) : bool :=
  match a, b with (t, k, z), (t', k', z') => Nat.eqb t t' && Nat.eqb k k' && N.eqb z z' end.
Definition key_eqb (a b : nat * nat * N) : bool :=
  match a, b with (t, k, _), (t', k', _) => Nat.eqb t t' && Nat.eqb k k' end.
Fixpoint nodup_keys (l : list (nat * nat * N)) : bool :=
  match l with
  | [] => true
  | x :: r => negb (existsb (key_eqb x) r) && nodup_keys r
  end.
Definition same_set (got want : list (nat * nat * N)) : bool :=
  nodup_keys got && forallb (fun x => existsb (triple_eqb x) want) got && forallb (fun x => existsb (triple_eqb x) got) want.
Fixpoint list_bool_eqb (a b : list bool) : bool :=
  match a, b with
  | [], [] => true
  | x :: r, y :: r' => Bool.eqb x y && list_bool_eqb r r'
  | _, _ => false
  end.

Definition spec (s : scenario) (o : obs) : bool :=
  o_done o                                                     (* the run continues to its end; the lock is not left held *)
  && list_bool_eqb (o_verdicts o) (expected_verdicts s)        (* a misuse fails exactly the test it happens in *)
  && N.eqb (o_wfail o) 0                                       (* every block released was outstanding: no report elsewhere *)
  && N.eqb (o_adv o) (expected_allocs (sc_scripts s))          (* no allocation number lost or handed out twice *)
  && o_distinct o
  && N.eqb (o_foreign o) 0 && N.eqb (o_rest o) 0               (* nothing outstanding but what the threads hold *)
  && N.eqb (o_overlap o) 0                                     (* never two threads inside the locked region: no race on the state *)
  && same_set (o_entries o) (expected_entries 0 (sc_scripts s)).
