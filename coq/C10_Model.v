(* C10 -- thread-safe allocation mode.  Executable model of N threads running allocation scripts through the eleven
   overloaded entry points (src/CppUTest/MemoryLeakWarningPlugin.cpp) against one shared detector (allocation table +
   sequence counter, src/CppUTest/MemoryLeakDetector.cpp) guarded by one non-recursive mutex (SimpleMutex / pthread).
   Every detector operation is split into the micro-steps a scheduler can interleave:
       acquire (MemLeakScopedMutex constructor)  ->  read the shared state  ->  write it back (and decide whether a misuse
       is reported)  ->  release (destructor)            | on a misuse: MemoryLeakWarningReporter::fail = give the lock
       back, print the failure (the output may allocate through the same overloads), longjmp to the end of the test.
   Which entry point takes the lock and which detector action it performs is NOT written here: it is the table
   gen/Gen_C10.v regenerated from the source on every run.  The pre-repair reporter (lock not given back before the
   longjmp, D17) is the same machine with cfg_reporter_unlocks = false (run_old).
   Round 4: the history of the overload switches.  A run is a sequence of EPOCHS: all threads finish epoch i, the test thread
   (alone) calls some of turnOff / turnOnDefaultNotThreadSafe / turnOnThreadSafe / saveAndDisable / restore NewDeleteOverloads
   and probes every entry point once, then all threads run their scripts of epoch i+1 under whatever wiring the switches left
   (the eleven pointers, the eleven saved_ pointers and save_counter as the source has them: sw_step).  Per epoch the model
   counts the calls of entry points made and those that took the lock.
   No proofs in this file. *)
From Coq Require Import NArith ZArith Arith Bool List.
From CppUVerif Require Import C10_Wiring gen.Gen_C10.
Import ListNotations.

(* ---------------------------------------------------------------- scripts *)
(* slots are the thread's own pointer variables; a thread only ever passes its own pointers (or a wild one) *)
(* why a realloc request is turned down: RGuard = the size is so large that size + guard bytes + record would wrap around
   size_t (MemoryLeakDetector::reallocMemory gives up before it looks at the block); RUnderlying = the size passes that
   test and the underlying PlatformSpecificRealloc returns NULL (the record has been taken out of the table by then and is
   put back) *)
Inductive refusal := RGuard | RUnderlying.

Inductive op :=
| OAlloc (k : nat) (sz : N) (e : entry)   (* slot[k] = <e>(sz)        e one of the seven allocating entry points *)
| OFree (k : nat) (e : entry)             (* <e>(slot[k]); slot[k] = NULL     e one of delete, delete[], free *)
| ORealloc (k : nat) (sz : N)             (* slot[k] = realloc(slot[k], sz) *)
| OOverrun (k : nat)                      (* slot[k][size] = 'x'   (first guard byte) *)
| OWild (e : entry)                       (* <e>(pointer that was never allocated)   e one of delete, delete[], free, realloc *)
| OBoundary                               (* end of one test, start of the next (test thread only) *)
| ORefused (k : nat) (r : refusal).       (* q = realloc(slot[k], n) for an n that cannot be had: q = NULL, slot[k] keeps its block *)

Record slotinfo := { s_size : N; s_fam : fam; s_bad : bool }.     (* what the thread knows about the block it holds *)
Definition slots := list (nat * slotinfo).
Fixpoint slot_get (k : nat) (sl : slots) : option slotinfo :=
  match sl with
  | [] => None
  | (k', v) :: r => if Nat.eqb k' k then Some v else slot_get k r
  end.
Definition slot_del (k : nat) (sl : slots) : slots := filter (fun p => negb (Nat.eqb (fst p) k)) sl.
Definition slot_set (k : nat) (v : slotinfo) (sl : slots) : slots := (k, v) :: slot_del k sl.

(* thread-local state: held blocks, index of the running test, tests failed so far, allocations made *)
Record local := { l_slots : slots; l_test : nat; l_fails : list nat; l_allocs : N }.
Definition l0 : local := {| l_slots := []; l_test := 0; l_fails := []; l_allocs := 0 |}.
Definition with_slots (L : local) (sl : slots) : local :=
  {| l_slots := sl; l_test := l_test L; l_fails := l_fails L; l_allocs := l_allocs L |}.
Definition count_alloc (L : local) : local :=
  {| l_slots := l_slots L; l_test := l_test L; l_fails := l_fails L; l_allocs := N.succ (l_allocs L) |}.
Definition next_test (L : local) : local :=
  {| l_slots := l_slots L; l_test := S (l_test L); l_fails := l_fails L; l_allocs := l_allocs L |}.
Definition record_fail (L : local) : local :=
  {| l_slots := l_slots L; l_test := l_test L; l_fails := l_test L :: l_fails L; l_allocs := l_allocs L |}.

Definition entry_fam (e : entry) : fam :=
  match e with
  | ENewArr | ENewArrNothrow | ENewArrDebug | EDeleteArr => FNewArr
  | EMalloc | ERealloc | EFree => FMalloc
  | ENew | ENewNothrow | ENewDebug | EDelete => FNew
  end.
Definition is_alloc_entry (e : entry) : bool :=
  match e with ENew | ENewNothrow | ENewDebug | ENewArr | ENewArrNothrow | ENewArrDebug | EMalloc => true | _ => false end.
Definition is_release_entry (e : entry) : bool := match e with EDelete | EDeleteArr | EFree => true | _ => false end.
Definition is_wild_entry (e : entry) : bool := match e with EDelete | EDeleteArr | EFree | ERealloc => true | _ => false end.

(* ---------------------------------------------------------------- one thread on its own ("one after another") *)
(* effect of one operation on what the thread holds, and whether it is a misuse (mismatched family, overrun block,
   pointer never allocated).  This is the language-level reading of the script; it knows nothing of tables or locks. *)
Definition lstep (o : op) (L : local) : local * bool :=
  match o with
  | OAlloc k sz e => (count_alloc (with_slots L (slot_set k {| s_size := sz; s_fam := entry_fam e; s_bad := false |} (l_slots L))), false)
  | OFree k e =>
      match slot_get k (l_slots L) with
      | None => (L, false)                                          (* releasing NULL does nothing *)
      | Some si => (with_slots L (slot_del k (l_slots L)), negb (fam_eqb (s_fam si) (entry_fam e)) || s_bad si)
      end
  | ORealloc k sz =>
      match slot_get k (l_slots L) with
      | None => (count_alloc (with_slots L (slot_set k {| s_size := sz; s_fam := FMalloc; s_bad := false |} (l_slots L))), false)
      | Some si =>
          if negb (fam_eqb (s_fam si) FMalloc) || s_bad si then (with_slots L (slot_del k (l_slots L)), true)
          else (count_alloc (with_slots L (slot_set k {| s_size := sz; s_fam := FMalloc; s_bad := false |} (l_slots L))), false)
      end
  | OOverrun k =>
      match slot_get k (l_slots L) with
      | None => (L, false)
      | Some si => (with_slots L (slot_set k {| s_size := s_size si; s_fam := s_fam si; s_bad := true |} (l_slots L)), false)
      end
  | OWild _ => (L, true)
  | OBoundary => (next_test L, false)
  | ORefused _ _ => (L, false)                                      (* a failed realloc leaves the old block as it is *)
  end.

(* a misuse fails the running test and leaves it: the rest of that test's operations are not executed *)
Fixpoint lrun (ops : list op) (skipping : bool) (L : local) : local :=
  match ops with
  | [] => L
  | o :: r =>
      if skipping then
        match o with
        | OBoundary => lrun r false (next_test L)
        | _ => lrun r true L
        end
      else
        match lstep o L with
        | (L', true) => lrun r true (record_fail L')
        | (L', false) => lrun r false L'
        end
  end.

(* ---------------------------------------------------------------- shared state of the detector *)
Record tentry := { t_owner : nat; t_slot : nat; t_size : N; t_fam : fam; t_seq : N }.
Record shared := { sh_table : list tentry; sh_seq : N }.          (* memoryTable_, allocationSequenceNumber_ *)
Definition sh0 : shared := {| sh_table := []; sh_seq := 1 |}.
Definition key_is (t k : nat) (x : tentry) : bool := Nat.eqb (t_owner x) t && Nat.eqb (t_slot x) k.
Definition tbl_find (t k : nat) (tb : list tentry) : option tentry := find (key_is t k) tb.           (* retrieveNode *)
Definition tbl_remove (t k : nat) (tb : list tentry) : list tentry := filter (fun x => negb (key_is t k x)) tb.   (* removeNode *)

Inductive lockst := LFree | LHeld (t : nat).
Definition lock_free (l : lockst) : bool := match l with LFree => true | _ => false end.
Definition held_by (t : nat) (l : lockst) : bool := match l with LHeld u => Nat.eqb u t | LFree => false end.

Inductive phase :=
| PIdle                      (* between operations *)
| PLocked                    (* inside the wrapper, lock taken, detector not yet entered *)
| PRead (snap : shared)      (* detector has read the shared state *)
| PExit                      (* detector has written the shared state back; the wrapper returns (scoped lock destructor) *)
| PFailing                   (* detector has written back and calls reporter_->fail() *)
| PPrint.                    (* reporter: failure about to be added to the result (printed), then longjmp *)

Record thread := { th_pc : list op; th_phase : phase; th_loc : local; th_skip : bool }.
Record state := { st_sh : shared; st_lock : lockst; st_threads : list thread; st_outallocs : N }.

Record cfg := { cfg_wiring : wtable;             (* which function is installed behind each entry point *)
                cfg_outalloc : bool;             (* the test output allocates while it prints a failure (as JUnitTestOutput does) *)
                cfg_reporter_unlocks : bool }.   (* MemoryLeakWarningReporter::fail gives the scoped lock back before failWith *)

Definition op_entry (o : op) : option entry :=
  match o with
  | OAlloc _ _ e | OFree _ e | OWild e => Some e
  | ORealloc _ _ | ORefused _ _ => Some ERealloc
  | _ => None
  end.
Definition plain_wrapper : wrapper := {| w_locks := false; w_action := APlain |}.
Definition wrapper_of (c : cfg) (e : entry) : wrapper :=
  match wlookup (cfg_wiring c) e with Some w => w | None => plain_wrapper end.
Definition op_locks (c : cfg) (o : op) : bool :=
  match op_entry o with Some e => w_locks (wrapper_of c e) | None => false end.

(* ---------------------------------------------------------------- the detector's part of one operation *)
Definition add_entry (t k : nat) (sz : N) (f : fam) (sh : shared) : shared :=
  {| sh_table := {| t_owner := t; t_slot := k; t_size := sz; t_fam := f; t_seq := sh_seq sh |} :: sh_table sh;
     sh_seq := N.succ (sh_seq sh) |}.                                   (* storeLeakInformation *)
Definition del_entry (t k : nat) (sh : shared) : shared :=
  {| sh_table := tbl_remove t k (sh_table sh); sh_seq := sh_seq sh |}.
Definition readd_entry (x : tentry) (sh : shared) : shared :=
  {| sh_table := x :: sh_table sh; sh_seq := sh_seq sh |}.                (* addNewNode(node): the same record, the same number *)

(* new shared state computed from the snapshot, and whether reporter_->fail() is called.  The decision is taken from what
   the detector sees: the table entry's allocator against the wrapper's, the guard bytes (s_bad is the memory content). *)
Definition detector (c : cfg) (t : nat) (o : op) (L : local) (snap : shared) : shared * bool :=
  match o with
  | OAlloc k sz e =>
      match w_action (wrapper_of c e) with
      | AAlloc f => (add_entry t k sz f snap, false)
      | _ => (snap, false)
      end
  | OFree k e =>
      match w_action (wrapper_of c e), slot_get k (l_slots L) with
      | ARelease f, Some si =>
          match tbl_find t k (sh_table snap) with
          | None => (snap, true)                                        (* Deallocating non-allocated memory *)
          | Some x => (del_entry t k snap, negb (fam_eqb (t_fam x) f) || s_bad si)
          end
      | _, _ => (snap, false)                                           (* NULL, or not through the detector *)
      end
  | ORealloc k sz =>
      match w_action (wrapper_of c ERealloc) with
      | ARealloc f =>
          match slot_get k (l_slots L) with
          | None => (add_entry t k sz f snap, false)
          | Some si =>
              match tbl_find t k (sh_table snap) with
              | None => (snap, true)
              | Some x =>
                  if negb (fam_eqb (t_fam x) f) || s_bad si then (del_entry t k snap, true)
                  else (add_entry t k sz f (del_entry t k snap), false)
              end
          end
      | _ => (snap, false)
      end
  | OWild e =>
      match w_action (wrapper_of c e) with
      | ARelease _ | ARealloc _ => (snap, true)                         (* retrieveNode finds nothing *)
      | _ => (snap, false)
      end
  | ORefused k r =>
      match w_action (wrapper_of c ERealloc) with
      | ARealloc f =>
          match r with
          | RGuard => (snap, false)                                     (* sizeLeavesRoomForAccountingInformation: before anything else *)
          | RUnderlying =>
              match slot_get k (l_slots L) with
              | None => (snap, false)                                   (* realloc(NULL, n) fails: there was no record *)
              | Some si =>
                  match tbl_find t k (sh_table snap) with
                  | None => (snap, true)
                  | Some x =>                                           (* removeNode, checkForCorruption, realloc fails, addNewNode *)
                      if negb (fam_eqb (t_fam x) f) || s_bad si then (del_entry t k snap, true)
                      else (readd_entry x (del_entry t k snap), false)
                  end
              end
          end
      | _ => (snap, false)
      end
  | _ => (snap, false)
  end.

(* ---------------------------------------------------------------- micro-steps *)
Fixpoint set_nth {A} (l : list A) (i : nat) (x : A) : list A :=
  match l, i with
  | [], _ => []
  | _ :: r, O => x :: r
  | y :: r, S j => y :: set_nth r j x
  end.
Definition upd_thread (st : state) (t : nat) (th : thread) : state :=
  {| st_sh := st_sh st; st_lock := st_lock st; st_threads := set_nth (st_threads st) t th; st_outallocs := st_outallocs st |}.
Definition mk_state (sh : shared) (l : lockst) (ths : list thread) (oa : N) : state :=
  {| st_sh := sh; st_lock := l; st_threads := ths; st_outallocs := oa |}.
Definition mk_thread (pc : list op) (ph : phase) (L : local) (sk : bool) : thread :=
  {| th_pc := pc; th_phase := ph; th_loc := L; th_skip := sk |}.

(* what thread t does next; a thread that cannot move (blocked on the lock, finished, unknown) leaves the state as it is *)
Definition step (c : cfg) (t : nat) (st : state) : state :=
  match nth_error (st_threads st) t with
  | None => st
  | Some th =>
    match th_pc th with
    | [] => st
    | o :: r =>
      match th_phase th with
      | PIdle =>
          if th_skip th then
            match o with
            | OBoundary => upd_thread st t (mk_thread r PIdle (next_test (th_loc th)) false)
            | _ => upd_thread st t (mk_thread r PIdle (th_loc th) true)
            end
          else
            match op_entry o with
            | None => upd_thread st t (mk_thread r PIdle (fst (lstep o (th_loc th))) false)        (* overrun, boundary: local *)
            | Some _ =>
                if op_locks c o then
                  if lock_free (st_lock st)
                  then mk_state (st_sh st) (LHeld t) (set_nth (st_threads st) t (mk_thread (o :: r) PLocked (th_loc th) false)) (st_outallocs st)
                  else st                                                                          (* pthread_mutex_lock blocks *)
                else upd_thread st t (mk_thread (o :: r) (PRead (st_sh st)) (th_loc th) false)
            end
      | PLocked => upd_thread st t (mk_thread (o :: r) (PRead (st_sh st)) (th_loc th) false)
      | PRead snap =>
          match detector c t o (th_loc th) snap with
          | (sh', failed) =>
              mk_state sh' (st_lock st)
                       (set_nth (st_threads st) t (mk_thread (o :: r) (if failed then PFailing else PExit) (fst (lstep o (th_loc th))) false))
                       (st_outallocs st)
          end
      | PExit =>
          mk_state (st_sh st) (if op_locks c o && held_by t (st_lock st) then LFree else st_lock st)
                   (set_nth (st_threads st) t (mk_thread r PIdle (th_loc th) false)) (st_outallocs st)
      | PFailing =>
          mk_state (st_sh st) (if cfg_reporter_unlocks c && held_by t (st_lock st) then LFree else st_lock st)
                   (set_nth (st_threads st) t (mk_thread (o :: r) PPrint (th_loc th) false)) (st_outallocs st)
      | PPrint =>
          if cfg_outalloc c then
            if lock_free (st_lock st)                                  (* the output's new/delete go through the same wrappers *)
            then mk_state {| sh_table := sh_table (st_sh st); sh_seq := N.succ (sh_seq (st_sh st)) |} (st_lock st)
                          (set_nth (st_threads st) t (mk_thread r PIdle (record_fail (th_loc th)) true)) (N.succ (st_outallocs st))
            else st                                                    (* non-recursive mutex: blocks, also on its own holder *)
          else upd_thread st t (mk_thread r PIdle (record_fail (th_loc th)) true)
      end
    end
  end.

Definition exec (c : cfg) (sched : list nat) (st : state) : state := fold_left (fun s t => step c t s) sched st.

(* ---------------------------------------------------------------- running to the end *)
Definition thread_done (th : thread) : bool := match th_pc th with [] => true | _ => false end.
Definition all_done (st : state) : bool := forallb thread_done (st_threads st).

Definition enabled (c : cfg) (st : state) (t : nat) : bool :=
  match nth_error (st_threads st) t with
  | None => false
  | Some th =>
    match th_pc th with
    | [] => false
    | o :: _ =>
      match th_phase th with
      | PIdle => th_skip th || negb (op_locks c o) || lock_free (st_lock st)
      | PPrint => negb (cfg_outalloc c) || lock_free (st_lock st)
      | _ => true
      end
    end
  end.
Definition first_enabled (c : cfg) (st : state) : option nat := find (enabled c st) (seq 0 (length (st_threads st))).

(* micro-steps still to do (an upper bound: a failing operation drops the rest of its test) *)
Definition phase_weight (p : phase) : nat :=
  match p with PIdle => 5 | PLocked => 4 | PRead _ => 3 | PExit => 1 | PFailing => 2 | PPrint => 1 end.
Definition thread_weight (th : thread) : nat :=
  match th_pc th with
  | [] => 0
  | _ :: r => phase_weight (th_phase th) + 5 * length r
  end.
Definition weight (st : state) : nat := fold_right (fun th a => thread_weight th + a) 0 (st_threads st).

(* lowest-numbered runnable thread first, until nothing can move *)
Fixpoint drain (c : cfg) (fuel : nat) (st : state) : state :=
  match fuel with
  | O => st
  | S f => match first_enabled c st with
           | None => st
           | Some t => drain c f (step c t st)
           end
  end.
Definition complete (c : cfg) (st : state) : state := drain c (weight st) st.

(* ---------------------------------------------------------------- how many threads are inside the locked region *)
(* from the return of Lock() to the call of Unlock() *)
Definition in_cs (p : phase) : bool := match p with PLocked | PRead _ | PExit | PFailing => true | _ => false end.
Definition occupancy (st : state) : nat := length (filter (fun th => in_cs (th_phase th)) (st_threads st)).
(* the largest occupancy over the states an execution goes through (the same walks as exec and drain) *)
Fixpoint exec_peak (c : cfg) (sched : list nat) (st : state) : nat :=
  match sched with
  | [] => occupancy st
  | t :: r => Nat.max (occupancy st) (exec_peak c r (step c t st))
  end.
Fixpoint drain_peak (c : cfg) (fuel : nat) (st : state) : nat :=
  match fuel with
  | O => occupancy st
  | S f => match first_enabled c st with
           | None => occupancy st
           | Some t => Nat.max (occupancy st) (drain_peak c f (step c t st))
           end
  end.
Definition run_peak (c : cfg) (sched : list nat) (st : state) : nat :=
  let st1 := exec c sched st in Nat.max (exec_peak c sched st) (drain_peak c (weight st1) st1).

(* ---------------------------------------------------------------- the switches of the overloads *)
Inductive swop :=
| SwOff             (* turnOffNewDeleteOverloads *)
| SwDefault         (* turnOnDefaultNotThreadSafeNewDeleteOverloads *)
| SwSafe            (* turnOnThreadSafeNewDeleteOverloads *)
| SwSave            (* saveAndDisableNewDeleteOverloads *)
| SwRestore.        (* restoreNewDeleteOverloads *)

(* the eleven pointers, the eleven saved_ pointers, save_counter (an int) *)
Record swst := { sw_cur : wtable; sw_saved : wtable; sw_count : Z }.
Definition mk_sw (cur saved : wtable) (n : Z) : swst := {| sw_cur := cur; sw_saved := saved; sw_count := n |}.
(* MemoryLeakWarningPlugin.cpp as it is: the three turnOn/Off functions assign the regenerated tables;
   save: if (++save_counter > 1) return; saved_x = x (eleven times); turnOff.
   restore: if (--save_counter > 0) return; x = saved_x (eleven times) *)
Definition sw_step (o : swst) (k : swop) : swst :=
  match k with
  | SwOff => mk_sw off_table (sw_saved o) (sw_count o)
  | SwDefault => mk_sw default_table (sw_saved o) (sw_count o)
  | SwSafe => mk_sw ts_table (sw_saved o) (sw_count o)
  | SwSave => let n := (sw_count o + 1)%Z in
              if (1 <? n)%Z then mk_sw (sw_cur o) (sw_saved o) n else mk_sw off_table (sw_cur o) n
  | SwRestore => let n := (sw_count o - 1)%Z in
                 if (0 <? n)%Z then mk_sw (sw_cur o) (sw_saved o) n else mk_sw (sw_saved o) (sw_saved o) n
  end.
(* a variant that is NOT the code (seeded change C10-2 of round 4): save remembers only whether the overloads were on
   (areNewDeleteOverloaded: operator new is not the plain one), restore switches the DEFAULT overloads on *)
Definition table_on (tb : wtable) : bool :=
  match wlookup tb ENew with Some w => negb (action_eqb (w_action w) APlain) | None => false end.
Definition sw_step_old (o : swst) (k : swop) : swst :=
  match k with
  | SwSave => let n := (sw_count o + 1)%Z in
              if (1 <? n)%Z then mk_sw (sw_cur o) (sw_saved o) n
              else mk_sw off_table (if table_on (sw_cur o) then default_table else off_table) n
  | SwRestore => let n := (sw_count o - 1)%Z in
                 if (0 <? n)%Z then mk_sw (sw_cur o) (sw_saved o) n
                 else mk_sw (if table_on (sw_saved o) then default_table else sw_cur o) (sw_saved o) n
  | _ => sw_step o k
  end.
(* the state turnOnThreadSafeNewDeleteOverloads leaves in a fresh process: the saved_ pointers still hold their static
   initialisers (the default overloads), save_counter is 0 *)
Definition sw_start (tb : wtable) : swst := mk_sw tb default_table 0%Z.

(* ---------------------------------------------------------------- calls of entry points, and calls that took the lock *)
Definition b2n (b : bool) : nat := if b then 1 else 0.
(* calls that thread t's next micro-step BEGINS: a script operation entering its wrapper (for a locking wrapper: the step
   that gets the lock; a blocked step begins nothing), the output's new[] and delete[] while it prints a failure *)
Definition step_calls (c : cfg) (t : nat) (st : state) : nat :=
  match nth_error (st_threads st) t with
  | Some th =>
      match th_pc th, th_phase th with
      | o :: _, PIdle =>
          if th_skip th then 0 else
          match op_entry o with
          | Some _ => if op_locks c o then b2n (lock_free (st_lock st)) else 1
          | None => 0
          end
      | _ :: _, PPrint => if cfg_outalloc c && lock_free (st_lock st) then 2 else 0
      | _, _ => 0
      end
  | None => 0
  end.
(* ... of which: calls through a wrapper that takes the lock *)
Definition step_locked (c : cfg) (t : nat) (st : state) : nat :=
  match nth_error (st_threads st) t with
  | Some th =>
      match th_pc th, th_phase th with
      | o :: _, PIdle =>
          if th_skip th then 0 else
          match op_entry o with
          | Some _ => b2n (op_locks c o && lock_free (st_lock st))
          | None => 0
          end
      | _ :: _, PPrint => if cfg_outalloc c && lock_free (st_lock st)
                          then b2n (w_locks (wrapper_of c ENewArr)) + b2n (w_locks (wrapper_of c EDeleteArr)) else 0
      | _, _ => 0
      end
  | None => 0
  end.
(* summed over an execution (the same walks as exec and drain) *)
Fixpoint exec_count (f : cfg -> nat -> state -> nat) (c : cfg) (sched : list nat) (st : state) : nat :=
  match sched with
  | [] => 0
  | t :: r => f c t st + exec_count f c r (step c t st)
  end.
Fixpoint drain_count (f : cfg -> nat -> state -> nat) (c : cfg) (fuel : nat) (st : state) : nat :=
  match fuel with
  | O => 0
  | S k => match first_enabled c st with
           | None => 0
           | Some t => f c t st + drain_count f c k (step c t st)
           end
  end.
Definition run_count (f : cfg -> nat -> state -> nat) (c : cfg) (sched : list nat) (st : state) : nat :=
  let st1 := exec c sched st in exec_count f c sched st + drain_count f c (weight st1) st1.
(* the probe the test thread runs, alone, at the start of every epoch: new / new nothrow / new debug and the three of new[],
   each given back through delete / delete[]; malloc, realloc, free.  Nothing is left outstanding. *)
Definition probe_entries : list entry :=
  [ENew; EDelete; ENewNothrow; EDelete; ENewDebug; EDelete; ENewArr; EDeleteArr; ENewArrNothrow; EDeleteArr; ENewArrDebug; EDeleteArr;
   EMalloc; ERealloc; EFree].
Definition probe_calls : nat := length probe_entries.
Definition probe_locked (c : cfg) : nat := length (filter (fun e => w_locks (wrapper_of c e)) probe_entries).
Definition epoch_counts (c : cfg) (sched : list nat) (st : state) : N * N :=
  (N.of_nat (probe_calls + run_count step_calls c sched st), N.of_nat (probe_locked c + run_count step_locked c sched st)).

(* ---------------------------------------------------------------- scenarios and observations *)
(* a further epoch: the switches the test thread flips in front of it, every thread's script for it, the schedule *)
Record epoch := { ep_sw : list swop; ep_scripts : list (list op); ep_sched : list nat }.
(* the first epoch follows turnOnThreadSafeNewDeleteOverloads directly *)
Record scenario := { sc_outalloc : bool; sc_scripts : list (list op); sc_sched : list nat; sc_more : list epoch }.

Definition init_state (s : scenario) : state :=
  mk_state sh0 LFree (map (fun sc => mk_thread sc PIdle l0 false) (sc_scripts s)) 0.
Definition cfg_of (tb : wtable) (unlocks : bool) (s : scenario) : cfg :=
  {| cfg_wiring := tb; cfg_outalloc := sc_outalloc s; cfg_reporter_unlocks := unlocks |}.

(* every thread's script as a whole: its scripts of the epochs one after another; on the test thread a new epoch is a new test *)
Definition extend (cum segs : list (list op)) : list (list op) :=
  match cum, segs with
  | c0 :: cr, s0 :: sr => (c0 ++ OBoundary :: s0) :: map (fun p => fst p ++ snd p) (combine cr sr)
  | _, _ => cum
  end.
Definition whole_scripts (s : scenario) : list (list op) := fold_left extend (map ep_scripts (sc_more s)) (sc_scripts s).

Record obs := { o_done : bool;                       (* the run came to its end (no thread left blocked) *)
                o_verdicts : list bool;              (* per test of the test thread: failed? *)
                o_wfail : N;                         (* misuse reports raised on the other threads *)
                o_adv : N;                           (* sequence numbers handed out to the scripts *)
                o_distinct : bool;                   (* outstanding blocks carry distinct numbers below the counter *)
                o_foreign : N;                       (* outstanding records that no thread holds *)
                o_rest : N;                          (* records left once every thread has released what it holds *)
                o_overlap : N;                       (* threads seen inside the locked region at one moment, beyond the one the lock admits *)
                o_entries : list (nat * nat * N);    (* outstanding blocks the threads hold: (thread, slot, size) *)
                o_epochs : list (N * N) }.           (* per epoch: calls of entry points made, calls that took the lock (once) *)

Definition count_boundaries (ops : list op) : nat :=
  length (filter (fun o => match o with OBoundary => true | _ => false end) ops).
Definition n_tests_of (scripts : list (list op)) : nat :=
  match scripts with [] => 0 | sc :: _ => S (count_boundaries sc) end.
Definition n_tests (s : scenario) : nat := n_tests_of (whole_scripts s).
Definition verdicts_of (n : nat) (fails : list nat) : list bool :=
  map (fun i => existsb (Nat.eqb i) fails) (seq 0 n).

Definition held (ths : list thread) (x : tentry) : bool :=
  match nth_error ths (t_owner x) with
  | Some th => match slot_get (t_slot x) (l_slots (th_loc th)) with Some _ => true | None => false end
  | None => false
  end.
Fixpoint nodup_N (l : list N) : bool :=
  match l with
  | [] => true
  | x :: r => negb (existsb (N.eqb x) r) && nodup_N r
  end.
Definition Nlen {A} (l : list A) : N := N.of_nat (length l).

Definition observe_core (ntests : nat) (peak : nat) (counts : list (N * N)) (st : state) : obs :=
  let tb := sh_table (st_sh st) in
  let ths := st_threads st in
  {| o_done := all_done st;
     o_verdicts := verdicts_of ntests (match ths with th :: _ => l_fails (th_loc th) | [] => [] end);
     o_wfail := Nlen (flat_map (fun th => l_fails (th_loc th)) (tl ths));
     o_adv := sh_seq (st_sh st) - 1 - st_outallocs st;
     o_distinct := nodup_N (map t_seq tb) && forallb (fun x => (1 <=? t_seq x)%N && (t_seq x <? sh_seq (st_sh st))%N) tb;
     o_foreign := Nlen (filter (fun x => negb (held ths x)) tb);
     o_rest := Nlen (filter (fun x => negb (held ths x)) tb);
     o_overlap := N.of_nat (peak - 1);
     o_entries := map (fun x => (t_owner x, t_slot x, t_size x)) (filter (held ths) tb);
     o_epochs := counts |}.
Definition observe (s : scenario) : nat -> list (N * N) -> state -> obs := observe_core (n_tests s).

(* ---------------------------------------------------------------- the run, epoch by epoch *)
(* where the run stands: the state, the switches, the largest occupancy of the locked region so far, the counts of the
   epochs that have been run *)
Record progress := { pr_st : state; pr_sw : swst; pr_peak : nat; pr_counts : list (N * N) }.
Definition mk_progress (st : state) (sw : swst) (pk : nat) (cn : list (N * N)) : progress :=
  {| pr_st := st; pr_sw := sw; pr_peak := pk; pr_counts := cn |}.
Definition sw_cfg (oa unlocks : bool) (sw : swst) : cfg :=
  {| cfg_wiring := sw_cur sw; cfg_outalloc := oa; cfg_reporter_unlocks := unlocks |}.

(* one epoch from a state whose threads stand at the start of their scripts: follow the schedule, then run to the end *)
Definition run_epoch (oa unlocks : bool) (p : progress) (sched : list nat) : progress :=
  let c := sw_cfg oa unlocks (pr_sw p) in
  mk_progress (complete c (exec c sched (pr_st p))) (pr_sw p)
              (Nat.max (pr_peak p) (run_peak c sched (pr_st p)))
              (pr_counts p ++ [epoch_counts c sched (pr_st p)]).

(* the threads take up their scripts of the next epoch; the test thread starts a new test *)
Definition rearm_threads (ths : list thread) (segs : list (list op)) : list thread :=
  match ths, segs with
  | th0 :: tr, s0 :: sr =>
      mk_thread s0 PIdle (next_test (th_loc th0)) false
      :: map (fun p => mk_thread (snd p) PIdle (th_loc (fst p)) false) (combine tr sr)
  | _, _ => ths
  end.
Definition rearm (st : state) (segs : list (list op)) : state :=
  mk_state (st_sh st) (st_lock st) (rearm_threads (st_threads st) segs) (st_outallocs st).
(* between two epochs: the switches (stepf: how the code reacts to one), the threads re-armed *)
Definition arm (stepf : swst -> swop -> swst) (p : progress) (e : epoch) : progress :=
  mk_progress (rearm (pr_st p) (ep_scripts e)) (fold_left stepf (ep_sw e) (pr_sw p)) (pr_peak p) (pr_counts p).

Fixpoint run_more (stepf : swst -> swop -> swst) (oa unlocks : bool) (p : progress) (eps : list epoch) : progress :=
  match eps with
  | [] => p
  | e :: r =>
      if all_done (pr_st p)
      then run_more stepf oa unlocks (run_epoch oa unlocks (arm stepf p e) (ep_sched e)) r
      else p                                           (* a thread is left blocked: the run gets no further *)
  end.

Definition first_progress (tb : wtable) (s : scenario) : progress := mk_progress (init_state s) (sw_start tb) 0 [].
Definition run_gen (stepf : swst -> swop -> swst) (tb : wtable) (unlocks : bool) (s : scenario) : obs :=
  let p := run_more stepf (sc_outalloc s) unlocks
                    (run_epoch (sc_outalloc s) unlocks (first_progress tb s) (sc_sched s)) (sc_more s) in
  observe s (pr_peak p) (pr_counts p) (pr_st p).
Definition run_with (tb : wtable) (unlocks : bool) (s : scenario) : obs := run_gen sw_step tb unlocks s.

(* the code as it is: the wiring table regenerated from the source, the repaired reporter *)
Definition run (s : scenario) : obs := run_with ts_table true s.
(* the reporter before the repair (D17): the lock is still held when the test is left *)
Definition run_old (s : scenario) : obs := run_with ts_table false s.
(* save / restore that remember only "the overloads were on" (not the code) *)
Definition run_swold (s : scenario) : obs := run_gen sw_step_old ts_table true s.

(* the same scenario with other schedules (the first epoch's, then one per further epoch; missing ones are empty) *)
Fixpoint resched_more (eps : list epoch) (scheds : list (list nat)) : list epoch :=
  match eps with
  | [] => []
  | e :: r => {| ep_sw := ep_sw e; ep_scripts := ep_scripts e; ep_sched := hd [] scheds |} :: resched_more r (tl scheds)
  end.
Definition resched (s : scenario) (sched : list nat) (scheds : list (list nat)) : scenario :=
  {| sc_outalloc := sc_outalloc s; sc_scripts := sc_scripts s; sc_sched := sched; sc_more := resched_more (sc_more s) scheds |}.

(* ---------------------------------------------------------------- validity *)
Definition max_threads : nat := 16.
Definition max_slot : nat := 64.
Definition max_size : N := 65536.
Definition max_epochs : nat := 32.

(* a script is well-formed on its own: allocations go to empty slots, overruns hit held blocks, entry points of the
   right kind; `ok_misuse` says whether the thread may misuse (only the thread that runs the tests can be failed) *)
Fixpoint script_ok (ops : list op) (skipping : bool) (L : local) (may_misuse : bool) : bool :=
  match ops with
  | [] => true
  | o :: r =>
      let shape :=
        match o with
        | OAlloc k sz e => (k <? max_slot) && (sz <=? max_size)%N && is_alloc_entry e
        | OFree k e => (k <? max_slot) && is_release_entry e
        | ORealloc k sz => (k <? max_slot) && (sz <=? max_size)%N
        | OOverrun k => k <? max_slot
        | OWild e => is_wild_entry e
        | OBoundary => may_misuse
        | ORefused k _ => k <? max_slot
        end in
      shape &&
      (if skipping then
         match o with
         | OBoundary => script_ok r false (next_test L) may_misuse
         | _ => script_ok r true L may_misuse
         end
       else
         (match o with
          | OAlloc k _ _ => match slot_get k (l_slots L) with None => true | Some _ => false end
          | OOverrun k => match slot_get k (l_slots L) with None => false | Some _ => true end
          | ORefused k _ => match slot_get k (l_slots L) with               (* NULL, or an intact block that realloc may be given *)
                            | None => true
                            | Some si => fam_eqb (s_fam si) FMalloc && negb (s_bad si)
                            end
          | _ => true
          end) &&
         match lstep o L with
         | (L', true) => may_misuse && script_ok r true (record_fail L') may_misuse
         | (L', false) => script_ok r false L' may_misuse
         end)
  end.

(* ---------------------------------------------------------------- what the switches mean (no pointer in sight) *)
(* turnOff / turnOnDefaultNotThreadSafe / turnOnThreadSafe choose which overloads are in force; saveAndDisable .. restore
   bracket a stretch in which they are off, the brackets nest, and after the restore that closes the outermost
   saveAndDisable the overloads that were in force before it are in force again.  For histories in which every restore
   closes a saveAndDisable and the three direct switches are used outside the brackets only (hist_ok), that fixes which
   overloads are in force after the history: inside a bracket none, outside the ones named by the last direct switch. *)
Inductive mode := MOff | MDefault | MSafe.
Fixpoint hist_depth (h : list swop) (d : nat) : option nat :=
  match h with
  | [] => Some d
  | SwSave :: r => hist_depth r (S d)
  | SwRestore :: r => match d with O => None | S d' => hist_depth r d' end
  | _ :: r => hist_depth r d
  end.
Fixpoint last_direct (h : list swop) (m : mode) : mode :=
  match h with
  | [] => m
  | SwOff :: r => last_direct r MOff
  | SwDefault :: r => last_direct r MDefault
  | SwSafe :: r => last_direct r MSafe
  | _ :: r => last_direct r m
  end.
Fixpoint hist_ok (h : list swop) (d : nat) : bool :=
  match h with
  | [] => true
  | SwSave :: r => hist_ok r (S d)
  | SwRestore :: r => match d with O => false | S d' => hist_ok r d' end
  | _ :: r => Nat.eqb d 0 && hist_ok r d
  end.
(* the history starts where turnOnThreadSafeNewDeleteOverloads has just been called *)
Definition doc_mode (h : list swop) : mode :=
  match hist_depth h 0 with
  | Some O => last_direct h MSafe
  | _ => MOff
  end.
Definition doc_safe (h : list swop) : bool := match doc_mode h with MSafe => true | _ => false end.
(* per epoch: do the switches so far say "thread-safe"? *)
Fixpoint doc_flags_from (h : list swop) (eps : list epoch) : list bool :=
  match eps with
  | [] => []
  | e :: r => doc_safe (h ++ ep_sw e) :: doc_flags_from (h ++ ep_sw e) r
  end.
Definition doc_flags (s : scenario) : list bool := true :: doc_flags_from [] (sc_more s).

Definition seg_empty (l : list op) : bool := match l with [] => true | _ => false end.
(* further epochs: as many scripts as threads; a history the documented meaning speaks of; scripts run only while it says
   "thread-safe" (the property's precondition) -- otherwise the epoch consists of the switches and the probe *)
Fixpoint more_ok (n : nat) (h : list swop) (eps : list epoch) : bool :=
  match eps with
  | [] => true
  | e :: r =>
      Nat.eqb (length (ep_scripts e)) n && hist_ok (h ++ ep_sw e) 0
      && (doc_safe (h ++ ep_sw e) || forallb seg_empty (ep_scripts e))
      && more_ok n (h ++ ep_sw e) r
  end.

Definition scripts_ok (scripts : list (list op)) : bool :=
  match scripts with
  | [] => false
  | sc0 :: rest => script_ok sc0 false l0 true && forallb (fun sc => script_ok sc false l0 false) rest
  end.
Definition valid (s : scenario) : bool :=
  (length (sc_scripts s) <=? max_threads) && (length (sc_more s) <=? max_epochs)
  && more_ok (length (sc_scripts s)) [] (sc_more s)
  && scripts_ok (whole_scripts s).

(* ---------------------------------------------------------------- the property as an oracle over the observation *)
(* "the outstanding set equals the union of what each thread still holds, exactly as if the operations had run one after
   another": every thread's script is read on its own with lrun; nothing here mentions tables, locks or schedules.
   A realloc that is turned down leaves its block with the thread, so the block stays in the union. *)
Definition final_local (sc : list op) : local := lrun sc false l0.
Fixpoint expected_entries (t : nat) (scripts : list (list op)) : list (nat * nat * N) :=
  match scripts with
  | [] => []
  | sc :: r => map (fun p => (t, fst p, s_size (snd p))) (l_slots (final_local sc)) ++ expected_entries (S t) r
  end.
Definition expected_allocs (scripts : list (list op)) : N :=
  fold_right (fun sc a => (l_allocs (final_local sc) + a)%N) 0%N scripts.
Definition expected_verdicts (scripts : list (list op)) : list bool :=
  match scripts with
  | [] => []
  | sc :: _ => verdicts_of (n_tests_of scripts) (l_fails (final_local sc))
  end.

Definition triple_eqb (a b : nat * nat * N) : bool :=
  match a, b with (t, k, z), (t', k', z') => Nat.eqb t t' && Nat.eqb k k' && N.eqb z z' end.
Definition key_eqb (a b : nat * nat * N) : bool :=
  match a, b with (t, k, _), (t', k', _) => Nat.eqb t t' && Nat.eqb k k' end.
Fixpoint nodup_keys (l : list (nat * nat * N)) : bool :=
  match l with
  | [] => true
  | x :: r => negb (existsb (key_eqb x) r) && nodup_keys r
  end.
Definition same_set (got want : list (nat * nat * N)) : bool :=
  nodup_keys got && forallb (fun x => existsb (triple_eqb x) want) got && forallb (fun x => existsb (triple_eqb x) got) want.
Fixpoint list_bool_eqb (a b : list bool) : bool :=
  match a, b with
  | [], [] => true
  | x :: r, y :: r' => Bool.eqb x y && list_bool_eqb r r'
  | _, _ => false
  end.

(* the accounting, over the threads' whole scripts *)
Definition spec_core (scripts : list (list op)) (o : obs) : bool :=
  o_done o                                                     (* the run continues to its end; the lock is not left held *)
  && list_bool_eqb (o_verdicts o) (expected_verdicts scripts)  (* a misuse fails exactly the test it happens in *)
  && N.eqb (o_wfail o) 0                                       (* every block released was outstanding: no report elsewhere *)
  && N.eqb (o_adv o) (expected_allocs scripts)                 (* no allocation number lost or handed out twice *)
  && o_distinct o
  && N.eqb (o_foreign o) 0 && N.eqb (o_rest o) 0               (* nothing outstanding but what the threads hold *)
  && N.eqb (o_overlap o) 0                                     (* never two threads inside the locked region: no race on the state *)
  && same_set (o_entries o) (expected_entries 0 scripts).
(* "with the thread-safe overloads switched on": in every epoch in which the switches so far say "thread-safe", every call
   of an entry point took the detector's lock (once), and the epoch's probe was made *)
Fixpoint epochs_ok (flags : list bool) (counts : list (N * N)) : bool :=
  match flags, counts with
  | [], [] => true
  | f :: fr, (calls, locked) :: cr =>
      (if f then N.eqb locked calls && (N.of_nat probe_calls <=? calls)%N else true) && epochs_ok fr cr
  | _, _ => false
  end.
Definition spec (s : scenario) (o : obs) : bool :=
  spec_core (whole_scripts s) o && epochs_ok (doc_flags s) (o_epochs o).
