From Coq Require Import ExtrOcamlBasic.
From CppUVerif Require Import C02_Model.
Extraction "c02_model.ml" C02_Model.run C02_Model.spec C02_Model.valid.
