(* C06 -- sizes at the edges: what a release sees after a request that was not granted. *)
From Coq Require Import NArith List Bool Arith Lia.
From CppUVerif Require Import gen.Gen_Common gen.Gen_C06 lib.Str C04_Model C04_Lists C04_Table C06_Model C06_Proofs C06_Plug C06_Edge C06_EdgeProofs C06_EdgeSim.
Import ListNotations.
Local Open Scope N_scope.

(* realloc(p, size) of an outstanding, correctly paired block with a size that is not granted (no room for the accounting
   information, or no block of that size): NULL, no report, and EVERY later release -- of p or of any other address, through any
   allocator -- is judged exactly as if the realloc had never been made: the paired release of p stays silent, a wrongly paired one is
   still a mismatch, an address that was not outstanding still is not; the outstanding total is what it was *)
Definition C06_release_after_failed_realloc_stmt : Prop :=
  forall ds jump st al a n na size st2 c res,
    Inv (s_tbl (e_d st)) -> l_retrieve a (flat (s_tbl (e_d st))) = Some n ->
    granted size = false -> check ds (e_d st) n al = CNone ->
    e_realloc ds jump st al (Some a) na size = (st2, c, res) ->
    c = CNone /\ res = false /\
    total_of (e_d st2) = total_of (e_d st) /\
    (forall al2 p, dealloc_cat ds jump (e_d st2) al2 p = dealloc_cat ds jump (e_d st) al2 p) /\
    dealloc_cat ds jump (e_d st2) al (Some a) = CNone /\
    e_c st2 = e_c st.
Lemma release_after_failed_realloc : C06_release_after_failed_realloc_stmt.
Proof.
  intros ds jump st al a n na size st2 c res I E Gr Ck Hr.
  destruct (failed_realloc_keeps_block ds jump st al a n na size I E Gr Ck) as (st2' & Hr' & I2 & Rt & Ln & Mm & Tc & Cc & Lk).
  rewrite Hr' in Hr. inversion Hr; subst st2' c res. clear Hr.
  split; [reflexivity|]. split; [reflexivity|]. split; [|split; [|split]].
  - unfold total_of. rewrite !total_all, Ln. reflexivity.
  - intros al2 p. rewrite !dealloc_cat_eq by assumption. apply Lk.
  - rewrite dealloc_cat_eq by assumption. rewrite Lk. unfold lookup_cat. rewrite E. exact Ck.
  - exact Cc.
Qed.
