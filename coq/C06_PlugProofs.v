(* C06 -- the plugin layer (C06_Plug.v): for every history of overload switches each of the eleven function pointers holds the
   function of its own name from one single set, so every form of operator new / delete and every malloc wrapper books and
   compares with the family the language gives it; the lowering of a valid plugin scenario is exactly what the property's
   words name, hence prun meets pspec; a block allocated with form a and released with form r is a reported mismatch iff type
   checking is on and the families differ, and its record carries the allocator of family(a). *)
From Coq Require Import NArith ZArith List Bool Arith Lia.
From CppUVerif Require Import gen.Gen_Common gen.Gen_C06 lib.Str C04_Model C04_Lists C04_Table C06_Model C06_Proofs C06_Sim C06_Plug.
Import ListNotations.
Arguments pat : simpl never.
Arguments G : simpl never.
Arguments pattern : simpl never.
Arguments poison : simpl never.
Local Open Scope N_scope.

(* ------------------------------------------------------------------ the pointer tables follow the flavour *)
Definition wire_of (f : flav) : wiring := match f with FlOff => wire_off | FlDefault => wire_default | FlSafe => wire_safe end.
Definition group_of (f : flav) : hgroup := match f with FlOff => HNormal | FlDefault => HLeak | FlSafe => HSafe end.

Lemma wire_of_own_name f s : wire_of f s = (group_of f, s).
Proof. destruct f, s; reflexivity. Qed.

Record coh (o : ovs) (a : aov) : Prop := mkCoh {
  coh_cur : forall s, ov_cur o s = wire_of (a_cur a) s;
  coh_saved : forall s, ov_saved o s = wire_of (a_saved a) s;
  coh_count : ov_count o = a_count a }.

Lemma coh_init : coh ov_init a_init.
Proof. split; [intros s; destruct s; reflexivity | intros s; destruct s; reflexivity | reflexivity]. Qed.

Lemma coh_step o a k : coh o a -> coh (sw_step o k) (a_sw a k).
Proof.
  intros [Hc Hs Hn]. destruct k; cbn [sw_step a_sw].
  - split; cbn; auto.
  - split; cbn; auto.
  - split; cbn; auto.
  - rewrite Hn. destruct (1 <? a_count a + 1)%Z; split; cbn; auto.
  - rewrite Hn. destruct (0 <? a_count a - 1)%Z; split; cbn; auto.
Qed.

Definition ov_after (h : list swop) : ovs := fold_left sw_step h ov_init.
Definition flav_after (h : list swop) : aov := fold_left a_sw h a_init.

Lemma coh_fold : forall h o a, coh o a -> coh (fold_left sw_step h o) (fold_left a_sw h a).
Proof. induction h as [|k r IH]; intros o a C; [exact C|]. cbn. apply IH. apply coh_step. exact C. Qed.

(* whatever switches were made, in whatever order and nesting: every pointer holds the function named after it, all eleven from
   the same set; the same holds of the saved pointers; the set is the one the documented meaning of the switches names *)
Definition C06_wiring_coherent_stmt : Prop :=
  forall h : list swop,
    (forall s, ov_cur (ov_after h) s = (group_of (a_cur (flav_after h)), s)) /\
    (forall s, ov_saved (ov_after h) s = (group_of (a_saved (flav_after h)), s)) /\
    ov_count (ov_after h) = a_count (flav_after h).
Lemma wiring_coherent : C06_wiring_coherent_stmt.
Proof.
  intros h. destruct (coh_fold h ov_init a_init coh_init) as [Hc Hs Hn]. fold (ov_after h) in *. fold (flav_after h) in *.
  split; [|split; [|exact Hn]]; intros s; rewrite ?Hc, ?Hs; apply wire_of_own_name.
Qed.

(* ------------------------------------------------------------------ form -> family, for every history *)
Lemma act_alloc o a f : coh o a -> is_on a = true -> handler_act (ov_cur o (aform_slot f)) = AAlloc (aform_fam f).
Proof.
  intros [Hc _ _] On. rewrite Hc, wire_of_own_name. unfold is_on in On.
  destruct (a_cur a); [discriminate| |]; destruct f; reflexivity.
Qed.
Lemma act_release o a f : coh o a -> is_on a = true -> handler_act (ov_cur o (rform_slot f)) = ARelease (rform_fam f).
Proof.
  intros [Hc _ _] On. rewrite Hc, wire_of_own_name. unfold is_on in On.
  destruct (a_cur a); [discriminate| |]; destruct f; reflexivity.
Qed.
Lemma act_realloc o a : coh o a -> is_on a = true -> handler_act (ov_cur o SRealloc) = ARealloc FMal.
Proof.
  intros [Hc _ _] On. rewrite Hc, wire_of_own_name. unfold is_on in On.
  destruct (a_cur a); [discriminate| |]; reflexivity.
Qed.
Lemma act_off o a s : coh o a -> is_on a = false -> handler_act (ov_cur o s) = AUntracked.
Proof.
  intros [Hc _ _] Off. rewrite Hc, wire_of_own_name. unfold is_on in Off. destruct (a_cur a); [reflexivity|discriminate|discriminate].
Qed.

(* the entry point table: after every history that leaves the overloads on, each allocating form books with the current
   allocator of the family the language gives it, each releasing form compares with that of its own; with the overloads off
   nothing reaches the detector *)
Definition C06_entry_family_stmt : Prop :=
  forall h : list swop,
    (is_on (flav_after h) = true ->
       (forall f, handler_act (ov_cur (ov_after h) (aform_slot f)) = AAlloc (aform_fam f)) /\
       (forall f, handler_act (ov_cur (ov_after h) (rform_slot f)) = ARelease (rform_fam f)) /\
       handler_act (ov_cur (ov_after h) SRealloc) = ARealloc FMal) /\
    (is_on (flav_after h) = false -> forall s, handler_act (ov_cur (ov_after h) s) = AUntracked).
Lemma entry_family : C06_entry_family_stmt.
Proof.
  intros h. pose proof (coh_fold h ov_init a_init coh_init) as C. fold (ov_after h) in C. fold (flav_after h) in C. split.
  - intros On. split; [|split].
    + intros f. eapply act_alloc; eassumption.
    + intros f. eapply act_release; eassumption.
    + eapply act_realloc; eassumption.
  - intros Off s. eapply act_off; eassumption.
Qed.

(* ------------------------------------------------------------------ the lowering is what the property's words name *)
Lemma get_set c f al : get_cur (set_cur c f al) f = al.
Proof. destruct f; reflexivity. Qed.

Lemma lower_view : forall xs st a, coh (p_ov st) a -> on_ok a xs = true -> lower_from st xs = prop_view xs.
Proof.
  induction xs as [|x r IH]; intros st a C V; [reflexivity|].
  destruct x as [f al ad size|f al p|al p na size|k|d]; cbn [on_ok] in V; cbn [lower_from lower_step prop_view flat_map prop_ops].
  - rewrite !andb_true_iff in V. destruct V as [[On _] Vr].
    rewrite (act_alloc _ _ f C On), get_set. cbn [app]. f_equal. apply (IH _ a); [exact C|exact Vr].
  - rewrite !andb_true_iff in V. destruct V as [On Vr].
    rewrite (act_release _ _ f C On), get_set. cbn [app]. f_equal. apply (IH _ a); [exact C|exact Vr].
  - rewrite !andb_true_iff in V. destruct V as [On Vr].
    rewrite (act_realloc _ _ C On), get_set. cbn [app]. f_equal. apply (IH _ a); [exact C|exact Vr].
  - cbn [app]. apply (IH _ (a_sw a k)); [cbn; apply coh_step; exact C|exact V].
  - rewrite andb_true_iff in V. destruct V as [_ Vr]. cbn [app]. f_equal. apply (IH _ a); [exact C|exact Vr].
Qed.

Definition C06_lowering_is_property_view_stmt : Prop := forall xs, on_ok a_init xs = true -> lower xs = prop_view xs.
Lemma lowering_is_property_view : C06_lowering_is_property_view_stmt.
Proof. intros xs V. unfold lower. apply (lower_view xs p_init a_init); [exact coh_init|exact V]. Qed.

(* ------------------------------------------------------------------ C06_run_meets_spec on the extended language *)
Definition C06_prun_meets_spec_stmt : Prop := forall s, pvalid s = true -> pspec s (prun s) = true.
Theorem prun_meets_spec : C06_prun_meets_spec_stmt.
Proof.
  intros s V. unfold pvalid in V. rewrite !andb_true_iff in V. destruct V as [[_ On] V].
  unfold pspec, prun. rewrite (lowering_is_property_view _ On). apply run_spec; [apply rel_init|exact V].
Qed.

(* ------------------------------------------------------------------ allocate with one form, release with another *)
Definition fam_differs (ds : list adesc) (tc : bool) (al al2 : nat) : Prop := tc = true /\ fam_of ds al <> fam_of ds al2.

Lemma store_then_release ds jump st a size al al2 :
  Inv (s_tbl st) -> slots_ok (flat (s_tbl st)) -> ~ outstanding st a -> a mod slot_size = 0 -> size <= max_size ->
  let st1 := d_store st a size al in
  let c := dealloc_cat ds jump (d_invalidate st1 (Some a)) al2 (Some a) in
  (c = CMismatch <-> fam_differs ds (s_tc st) al al2) /\ (c = CNone <-> ~ fam_differs ds (s_tc st) al al2).
Proof.
  intros I SO Hn Ha Hs st1 c.
  destruct (store_facts st a size al I Hn) as (I1 & R1 & In1 & _ & Tc1 & M1). fold st1 in I1, R1, In1, Tc1, M1.
  assert (SO1 : slots_ok (flat (s_tbl st1))).
  { unfold slots_ok. rewrite Forall_forall. intros x Hx. apply In1 in Hx. destruct Hx as [->|Hx].
    - split; assumption.
    - unfold slots_ok in SO. rewrite Forall_forall in SO. apply SO. assumption. }
  pose proof (all_paths_lookup ds jump st1 al2 (Some a) I1 SO1) as (_ & AP & _).
  fold c in AP.
  set (nd := mk_node a size al (s_period st) (s_stage st)) in *.
  assert (L : lookup_cat ds st1 al2 (Some a) = check ds st1 nd al2).
  { unfold lookup_cat. rewrite R1, N.eqb_refl. reflexivity. }
  rewrite L in AP.
  destruct (check_exact ds st1 nd al2) as (C1 & C2 & C3 & _). rewrite Tc1 in C1, C2, C3.
  assert (NA : node_alloc nd = al) by (unfold node_alloc, nd; cbn; apply Nat2N.id).
  assert (MM : mismatch ds (s_tc st) nd al2 <-> fam_differs ds (s_tc st) al al2).
  { unfold mismatch, fam_differs. rewrite NA. tauto. }
  assert (NG : ~ guard_changed (s_mem st1) nd).
  { intros (i & Hi & Hc). apply Hc. rewrite M1. cbn [n_addr n_size nd mk_node].
    rewrite mread_inside by (rewrite pattern_length; assumption). apply pattern_nth. assumption. }
  rewrite AP. split.
  - rewrite C1. exact MM.
  - rewrite C3. rewrite MM. tauto.
Qed.

Lemma det_alloc_fam ds g al : det_alloc ds (entry_of g) al = al.
Proof. destruct g; reflexivity. Qed.
Lemma poisons_fam g : poisons (entry_of g) = true.
Proof. destruct g; reflexivity. Qed.

Lemma prop_view_app xs ys : prop_view (xs ++ ys) = prop_view xs ++ prop_view ys.
Proof. unfold prop_view. apply flat_map_app. Qed.
Lemma prop_view_switches h : prop_view (map XSwitch h) = [].
Proof. induction h as [|k r IH]; [reflexivity|]. cbn. exact IH. Qed.
Lemma on_ok_switches : forall h a r, on_ok a (map XSwitch h ++ r) = on_ok (fold_left a_sw h a) r.
Proof. induction h as [|k t IH]; intros a r; [reflexivity|]. cbn. apply IH. Qed.

(* allocate through form fa, release through form fr, with any switch history before the allocation and any between the two
   (each leaving the overloads on at the moment of the call), on any detector state: exactly the detector operations of the two
   families are made; the record stored for the block names the allocator object of family(fa); the release is reported as a
   mismatch iff type checking is on and the two allocators are of different families, is silent otherwise, with one callback
   iff reported *)
Definition C06_form_pair_exact_stmt : Prop :=
  forall ds jump st (h1 h2 : list swop) fa fr al al2 a size,
    Inv (s_tbl st) -> slots_ok (flat (s_tbl st)) -> ~ outstanding st a -> a mod slot_size = 0 -> size <= max_size ->
    form_size_ok fa size = true ->
    is_on (flav_after h1) = true -> is_on (flav_after (h1 ++ h2)) = true ->
    let xs := map XSwitch h1 ++ XAlloc fa al a size :: map XSwitch h2 ++ [XFree fr al2 (Some a)] in
    lower xs = [OpAlloc (entry_of (aform_fam fa)) al a size; OpFree (entry_of (rform_fam fr)) al2 (Some a)] /\
    (exists n, l_retrieve a (flat (s_tbl (fst (step ds jump st (OpAlloc (entry_of (aform_fam fa)) al a size))))) = Some n /\
               node_alloc n = al /\ n_size n = size) /\
    exists x, run_from ds jump st (lower xs) = [x] /\
      (o_cat x = 2 <-> fam_differs ds (s_tc st) al al2) /\
      (o_cat x = 0 <-> ~ fam_differs ds (s_tc st) al al2) /\
      (o_calls x = 1 <-> fam_differs ds (s_tc st) al al2) /\
      (o_calls x = 0 <-> ~ fam_differs ds (s_tc st) al al2).
Lemma form_pair_exact : C06_form_pair_exact_stmt.
Proof.
  intros ds jump st h1 h2 fa fr al al2 a size I SO Hn Ha Hs Hf On1 On2 xs.
  assert (V : on_ok a_init xs = true).
  { unfold xs. rewrite on_ok_switches. fold (flav_after h1). cbn [on_ok]. rewrite On1, Hf. cbn [andb].
    rewrite on_ok_switches. unfold flav_after in On2. rewrite fold_left_app in On2. fold (flav_after h1) in On2.
    cbn [on_ok]. rewrite On2. reflexivity. }
  assert (L : lower xs = [OpAlloc (entry_of (aform_fam fa)) al a size; OpFree (entry_of (rform_fam fr)) al2 (Some a)]).
  { rewrite (lowering_is_property_view _ V). unfold xs. rewrite prop_view_app, prop_view_switches. cbn [app].
    change (XAlloc fa al a size :: map XSwitch h2 ++ [XFree fr al2 (Some a)]) with ([XAlloc fa al a size] ++ map XSwitch h2 ++ [XFree fr al2 (Some a)]).
    rewrite !prop_view_app, prop_view_switches. reflexivity. }
  split; [exact L|].
  assert (S1 : step ds jump st (OpAlloc (entry_of (aform_fam fa)) al a size) = (d_store st a size al, None)).
  { cbn [step]. rewrite det_alloc_fam. reflexivity. }
  destruct (store_facts st a size al I Hn) as (_ & R1 & _).
  split.
  { rewrite S1. cbn [fst]. exists (mk_node a size al (s_period st) (s_stage st)). rewrite R1, N.eqb_refl.
    split; [reflexivity|]. split; [unfold node_alloc; cbn; apply Nat2N.id | reflexivity]. }
  rewrite L. cbn [run_from]. rewrite S1.
  destruct (store_then_release ds jump st a size al al2 I SO Hn Ha Hs) as [CM CN].
  cbn [step]. rewrite poisons_fam, det_alloc_fam. cbn [negb].
  unfold dealloc_cat in CM, CN.
  destruct (d_dealloc ds jump (d_invalidate (d_store st a size al) (Some a)) al2 (Some a)) as [[st2 c] fr2]. cbn [fst snd] in CM, CN.
  eexists. split; [reflexivity|]. cbn [o_cat o_calls].
  assert (D : fam_differs ds (s_tc st) al al2 \/ ~ fam_differs ds (s_tc st) al al2).
  { unfold fam_differs. destruct (s_tc st); [|right; intros [? _]; discriminate].
    destruct (bytes_eqb (fam_of ds al) (fam_of ds al2)) eqn:E.
    - apply bytes_eqb_eq in E. right. intros [_ H]. contradiction.
    - apply bytes_eqb_neq in E. left. auto. }
  destruct D as [D|D].
  - rewrite (proj2 CM D). cbn. clear CM CN. unfold fam_differs in *. intuition (try congruence).
  - rewrite (proj2 CN D). cbn. clear CM CN. unfold fam_differs in *. intuition (try congruence).
Qed.

(* with one allocator object per family whose names tell the families apart (the three standard allocators do): mismatch iff type
   checking is on and family(fa) <> family(fr) *)
Definition C06_form_pair_by_family_stmt : Prop :=
  forall ds jump st (h1 h2 : list swop) fa fr (cur : fam -> nat) a size,
    Inv (s_tbl st) -> slots_ok (flat (s_tbl st)) -> ~ outstanding st a -> a mod slot_size = 0 -> size <= max_size ->
    form_size_ok fa size = true ->
    (forall g1 g2, fam_of ds (cur g1) = fam_of ds (cur g2) -> g1 = g2) ->
    is_on (flav_after h1) = true -> is_on (flav_after (h1 ++ h2)) = true ->
    let xs := map XSwitch h1 ++ XAlloc fa (cur (aform_fam fa)) a size :: map XSwitch h2 ++ [XFree fr (cur (rform_fam fr)) (Some a)] in
    exists x, run_from ds jump st (lower xs) = [x] /\
      (o_cat x = 2 <-> s_tc st = true /\ aform_fam fa <> rform_fam fr) /\
      (o_cat x = 0 <-> ~ (s_tc st = true /\ aform_fam fa <> rform_fam fr)).
Lemma form_pair_by_family : C06_form_pair_by_family_stmt.
Proof.
  intros ds jump st h1 h2 fa fr cur a size I SO Hn Ha Hs Hf Inj On1 On2 xs.
  destruct (form_pair_exact ds jump st h1 h2 fa fr (cur (aform_fam fa)) (cur (rform_fam fr)) a size I SO Hn Ha Hs Hf On1 On2)
    as (_ & _ & x & R & C2 & C0 & _).
  exists x. split; [exact R|].
  assert (E : fam_differs ds (s_tc st) (cur (aform_fam fa)) (cur (rform_fam fr)) <-> s_tc st = true /\ aform_fam fa <> rform_fam fr).
  { unfold fam_differs. split; intros [T H]; (split; [exact T|]).
    - intros F. apply H. rewrite F. reflexivity.
    - intros F. apply H. apply Inj. exact F. }
  rewrite <- E. split; assumption.
Qed.

(* ------------------------------------------------------------------ the earlier scenario language is a part of this one *)
(* operator new / new[] / malloc entries of a detector-level scenario written as their plain forms, `overloads installed` as the
   switch itself *)
Definition embed_op (o : op) : xop :=
  match o with
  | OpAlloc ENew al a size => XAlloc ANew al a size
  | OpAlloc ENewArr al a size => XAlloc AArr al a size
  | OpAlloc EMalloc al a size => XAlloc AMalloc al a size
  | OpFree ENew al p => XFree RDel al p
  | OpFree ENewArr al p => XFree RArr al p
  | OpFree EMalloc al p => XFree RFree al p
  | OpRealloc al p na size => XRealloc al p na size
  | OpOverloads ts => XSwitch (if ts then SwSafe else SwDefault)
  | _ => XDet o
  end.
Definition strip_overloads (ops : list op) : list op := filter (fun o => match o with OpOverloads _ => false | _ => true end) ops.

Lemma embed_view : forall ops, prop_view (map embed_op ops) = strip_overloads ops.
Proof.
  induction ops as [|o r IH]; [reflexivity|]. cbn [map]. change (prop_view (embed_op o :: map embed_op r)) with (prop_ops (embed_op o) ++ prop_view (map embed_op r)).
  rewrite IH. destruct o as [e al a size|e al p|al p na size|w bs|b|k|up|ts]; try destruct e; reflexivity.
Qed.
Lemma embed_on : forall ops a, is_on a = true -> on_ok a (map embed_op ops) = true.
Proof.
  induction ops as [|o r IH]; intros a On; [reflexivity|].
  destruct o as [e al ad size|e al p|al p na size|w bs|b|k|up|ts]; try destruct e; cbn [map embed_op on_ok det_ok poisons negb form_size_ok andb];
    rewrite ?On; cbn [andb]; try (apply IH; exact On).
  apply IH. destruct ts; reflexivity.
Qed.
Lemma run_strip ds jump : forall ops st, run_from ds jump st (strip_overloads ops) = run_from ds jump st ops.
Proof.
  induction ops as [|o r IH]; intros st; [reflexivity|].
  destruct o as [e al ad size|e al p|al p na size|w bs|b|k|up|ts]; cbn [strip_overloads filter]; fold (strip_overloads r);
    try (cbn [run_from]; destruct (step ds jump st _) as [st' [i|]]; rewrite IH; reflexivity).
  cbn [run_from step]. apply IH.
Qed.
Lemma spec_strip ds : forall ops ss obs, spec_from ds ss (strip_overloads ops) obs = spec_from ds ss ops obs.
Proof.
  induction ops as [|o r IH]; intros ss obs; [reflexivity|].
  destruct o as [e al ad size|e al p|al p na size|w bs|b|k|up|ts]; cbn [strip_overloads filter]; fold (strip_overloads r); cbn [spec_from];
    try (apply IH); try (destruct obs as [|x obs']; [reflexivity|]; rewrite IH; reflexivity).
Qed.

Definition C06_old_language_embedded_stmt : Prop :=
  forall s : scenario,
    let ps := mkPS (sc_jump s) (sc_allocs s) (map embed_op (sc_ops s)) in
    prun ps = run s /\ (forall obs, pspec ps obs = spec s obs).
Lemma old_language_embedded : C06_old_language_embedded_stmt.
Proof.
  intros s ps. split.
  - unfold prun, run, ps. cbn [ps_allocs ps_jump ps_ops].
    rewrite (lowering_is_property_view _ (embed_on (sc_ops s) a_init eq_refl)), embed_view. apply run_strip.
  - intros obs. unfold pspec, spec, ps. cbn [ps_allocs ps_ops]. rewrite embed_view. apply spec_strip.
Qed.
