From Coq Require Import String Ascii.
From Coq Require Import NArith ZArith Bool List Lia.
From CppUVerif Require Import gen.Gen_C12 lib.Str C12_Model.
Import ListNotations.
Lemma stub : valid 0 [] = true. Proof. reflexivity. Qed.
