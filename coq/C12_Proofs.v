(* C12 -- lemmas about the parser model: totality (every dispatch rule has an action, structural recursion),
   the per-option steps and the refinement to the documented grammar, the runner on a rejected vector. *)
From Coq Require Import NArith ZArith Bool List Lia ZifyBool Arith.
From CppUVerif Require Import gen.Gen_C12 lib.Str C12_Model.
Import ListNotations.
Local Open Scope N_scope.

(* ================================================================ totality *)
Lemma set_repeat_count_known c a nx : set_repeat_count c a nx <> HUnknown.
Proof. unfold set_repeat_count. destruct (Nat.ltb 2 (length a)); [discriminate|]. destruct nx; discriminate. Qed.
Lemma set_shuffle_known tm c a nx : set_shuffle tm c a nx <> HUnknown.
Proof.
  unfold set_shuffle. destruct (Nat.ltb 2 (length a)).
  - destruct (atou (skipn 2 a) =? 0); discriminate.
  - destruct nx as [n|].
    + destruct (atou n =? 0); [|discriminate]. match goal with |- (if ?b then _ else _) <> _ => destruct b end; discriminate.
    + match goal with |- (if ?b then _ else _) <> _ => destruct b end; discriminate.
Qed.
Lemma add_filter_known g s i n c a nx : add_filter g s i n c a nx <> HUnknown.
Proof. unfold add_filter. destruct (param_field n a nx). discriminate. Qed.
Lemma add_group_dot_name_known s i n c a nx : add_group_dot_name s i n c a nx <> HUnknown.
Proof.
  unfold add_group_dot_name. destruct (param_field n a nx) as [v u].
  destruct (split_incl 46 v) as [|t0 [|t1 [|t2 r]]]; discriminate.
Qed.
Lemma add_verbose_test_known n c a nx : add_verbose_test n c a nx <> HUnknown.
Proof. unfold add_verbose_test. destruct (param_field n a nx). discriminate. Qed.
Lemma set_output_type_known n c a nx : set_output_type n c a nx <> HUnknown.
Proof.
  unfold set_output_type. destruct (param_field n a nx) as [v u]. destruct v; [discriminate|].
  destruct (lookup_output c12_outputs (n0 :: v)); discriminate.
Qed.
Lemma set_package_name_known n c a nx : set_package_name n c a nx <> HUnknown.
Proof. unfold set_package_name. destruct (param_field n a nx). discriminate. Qed.

(* every rule of the dispatch table re-read from the source has an action in the model *)
Lemma action_known r : In r c12_dispatch -> forall tm c a nx, action tm c (fst r) (snd r) a nx <> HUnknown.
Proof.
  intros H tm c a nx. unfold c12_dispatch in H.
  repeat (destruct H as [H|H]; [subst r; cbn [fst snd];
    first [ discriminate
          | apply set_repeat_count_known | apply set_shuffle_known | apply add_filter_known | apply add_group_dot_name_known
          | apply add_verbose_test_known | apply set_output_type_known | apply set_package_name_known
          | (cbv [action key match_eqb bytes_eqb N.eqb Pos.eqb andb]; destruct (plugin_accepts a); discriminate) ] |]).
  destruct H.
Qed.
Lemma first_match_in tbl a r : first_match tbl a = Some r -> In r tbl.
Proof.
  induction tbl as [|x t IH]; cbn; [discriminate|]. destruct (rule_matches x a).
  - intro E. inversion E. left. reflexivity.
  - intro E. right. apply IH. exact E.
Qed.
Lemma handle_known tm c a nx : handle tm c a nx <> HUnknown.
Proof.
  unfold handle. destruct (first_match c12_dispatch a) as [[k lit]|] eqn:E; [|discriminate].
  apply first_match_in in E. apply (action_known (k, lit) E).
Qed.
(* the loop is a structural recursion over the remaining arguments (every iteration consumes one or two of them); its result
   is a rejection or a configuration, never the "rule without action" value *)
Lemma parse_args_known_n n : forall tm c args, (length args <= n)%nat -> parse_args tm c args <> Unknown.
Proof.
  induction n as [|n IH]; intros tm c args L.
  - destruct args; [discriminate | cbn in L; lia].
  - destruct args as [|a rest]; [discriminate|]. cbn [parse_args]. cbn in L.
    pose proof (handle_known tm c a (hd_error rest)) as K.
    destruct (handle tm c a (hd_error rest)) as [h|c' [|]|]; [discriminate | | | congruence].
    + destruct rest as [|b rest']; [discriminate|]. apply IH. cbn in L. lia.
    + apply IH. lia.
Qed.
Lemma parse_total tm argv : (exists h, parse tm argv = Reject h) \/ (exists c, parse tm argv = Accept c).
Proof.
  pose proof (parse_args_known_n (length (tl argv)) tm default_config (tl argv) (le_n _)) as K. unfold parse.
  destruct (parse_args tm default_config (tl argv)) as [h|c|] eqn:E; [| |congruence].
  - left. exists h. reflexivity.
  - right. exists c. reflexivity.
Qed.

(* ================================================================ string-helper facts used by the refinement *)
Lemma find_idx_skip ch g : without ch g = true -> forall r, find_idx ch (g ++ r) = option_map (Nat.add (length g)) (find_idx ch r).
Proof.
  induction g as [|x g IH]; intros W r; cbn.
  - destruct (find_idx ch r); reflexivity.
  - cbn in W. apply andb_true_iff in W. destruct W as [W1 W2]. destruct (x =? ch); [discriminate|].
    rewrite (IH W2). destruct (find_idx ch r); reflexivity.
Qed.
Lemma find_idx_hit ch g r : without ch g = true -> find_idx ch (g ++ ch :: r) = Some (length g).
Proof. intro W. rewrite (find_idx_skip ch g W). cbn. rewrite N.eqb_refl. cbn. f_equal. lia. Qed.
Lemma skipn_app_len {A} (g r : list A) : skipn (length g) (g ++ r) = r.
Proof. induction g; cbn; auto. Qed.
Lemma firstn_app_len {A} (g r : list A) : firstn (length g) (g ++ r) = g.
Proof. induction g; cbn; [destruct r; reflexivity | f_equal; auto]. Qed.

(* the group of "TEST(<group>, <name>)": from the first character up to the first comma *)
Lemma verbose_group g r : without 44 g = true -> sub_from_till (at0 (g ++ 44 :: r)) 44 (g ++ 44 :: r) = g.
Proof.
  intro W. unfold sub_from_till, find_from. destruct g as [|x g].
  - cbn. reflexivity.
  - cbn [app at0 hd find_idx]. rewrite N.eqb_refl. cbn [skipn option_map].
    change (x :: g ++ 44 :: r) with ((x :: g) ++ 44 :: r). rewrite (find_idx_hit 44 (x :: g) r W).
    cbn [option_map Nat.add]. rewrite Nat.sub_0_r. apply firstn_app_len.
Qed.
(* the name: from the first comma up to the first closing bracket after it, minus the two characters ", " *)
Lemma verbose_name g n : without 44 g = true -> without 41 n = true ->
  skipn 2 (sub_from_till 44 41 (g ++ 44 :: 32 :: n ++ [41])) = n.
Proof.
  intros Wg Wn. unfold sub_from_till, find_from. rewrite (find_idx_hit 44 g _ Wg). rewrite skipn_app_len.
  change (44 :: 32 :: n ++ [41]) with ((44 :: 32 :: n) ++ 41 :: []).
  assert (W2 : without 41 (44 :: 32 :: n) = true) by (cbn; exact Wn).
  set (w := 44 :: 32 :: n) in *. rewrite (find_idx_hit 41 w [] W2). cbn [option_map].
  replace (length g + length w - length g)%nat with (length w) by lia.
  rewrite firstn_app_len. reflexivity.
Qed.

(* split(".") of "<group>.<name>" *)
Lemma split_go_plain d s : without d s = true -> s <> [] -> split_go d s = [s].
Proof.
  induction s as [|c r IH]; intros W NE; [congruence|]. cbn in W. apply andb_true_iff in W. destruct W as [W1 W2].
  cbn. destruct (c =? d); [discriminate|]. destruct r as [|c2 r2]; [reflexivity|]. rewrite IH by (auto; discriminate). reflexivity.
Qed.
Lemma split_go_piece d g r : without d g = true -> split_go d (g ++ d :: r) = (g ++ [d]) :: split_go d r.
Proof.
  induction g as [|c g IH]; intro W; cbn.
  - rewrite N.eqb_refl. reflexivity.
  - cbn in W. apply andb_true_iff in W. destruct W as [W1 W2]. destruct (c =? d); [discriminate|]. rewrite (IH W2). reflexivity.
Qed.
Lemma split_group_dot_name g n : without 46 g = true -> without 46 n = true -> nonempty n = true ->
  split_incl 46 (g ++ 46 :: n) = [g ++ [46]; n].
Proof.
  intros Wg Wn NE. unfold split_incl. destruct (g ++ 46 :: n) eqn:E; [destruct g; discriminate|]. rewrite <- E.
  rewrite (split_go_piece 46 g n Wg). rewrite split_go_plain; [reflexivity | exact Wn |]. destruct n; [discriminate NE | discriminate].
Qed.
Lemma firstn_drop_last {A} (g : list A) (x : A) : firstn (length (g ++ [x]) - 1) (g ++ [x]) = g.
Proof. rewrite app_length. cbn. replace (length g + 1 - 1)%nat with (length g) by lia. apply firstn_app_len. Qed.

(* decimal numbers: 1..9 digits *)
Lemma digits_val_fold ds : forallb is_digit ds = true -> forall acc, digits_val acc ds = fold_left (fun a d => a * 10 + (d - 48)) ds acc.
Proof.
  induction ds as [|d r IH]; intros D acc; cbn; [reflexivity|]. cbn in D. apply andb_true_iff in D. destruct D as [D1 D2].
  rewrite D1. apply IH. exact D2.
Qed.
Lemma fold_bound ds : forallb is_digit ds = true -> forall acc, fold_left (fun a d => a * 10 + (d - 48)) ds acc < (acc + 1) * 10 ^ N.of_nat (length ds).
Proof.
  induction ds as [|d r IH]; intros D acc.
  - cbn. lia.
  - cbn [fold_left length]. cbn in D. apply andb_true_iff in D. destruct D as [D1 D2].
    specialize (IH D2 (acc * 10 + (d - 48))). rewrite Nat2N.inj_succ, N.pow_succ_r'.
    unfold is_digit in D1. eapply N.lt_le_trans; [exact IH|].
    assert (acc * 10 + (d - 48) + 1 <= (acc + 1) * 10) by lia.
    replace ((acc + 1) * (10 * 10 ^ N.of_nat (length r))) with ((acc + 1) * 10 * 10 ^ N.of_nat (length r)) by lia.
    apply N.mul_le_mono_r. exact H.
Qed.
Lemma number_facts ds : number ds = true ->
  size_of_int (atoi ds) = dec_value ds /\ atou ds = dec_value ds /\ dec_value ds <> 0 /\
  exists d r, ds = d :: r /\ is_digit d = true.
Proof.
  unfold number. intro H. repeat (apply andb_true_iff in H; destruct H as [H ?]).
  destruct ds as [|d r]; [discriminate H|]. clear H.
  assert (Hd : is_digit d = true) by (cbn in H1; apply andb_true_iff in H1; tauto).
  assert (B : dec_value (d :: r) < 1000000000).
  { unfold dec_value. eapply N.lt_le_trans; [apply (fold_bound _ H1 0)|].
    change ((0 + 1) * 10 ^ N.of_nat (length (d :: r))) with (1 * 10 ^ N.of_nat (length (d :: r))). rewrite N.mul_1_l.
    change 1000000000 with (10 ^ 9). apply N.pow_le_mono_r; [lia|]. apply Nat.leb_le in H2. lia. }
  assert (NS : is_space d = false) by (unfold is_digit in Hd; unfold is_space; lia).
  assert (S1 : skip_spaces (d :: r) = d :: r) by (cbn; rewrite NS; reflexivity).
  assert (SG : (d =? 45) || (d =? 43) = false) by (unfold is_digit in Hd; lia).
  assert (SG2 : (d =? 45) = false) by (unfold is_digit in Hd; lia).
  assert (DV : digits_val 0 (d :: r) = dec_value (d :: r)) by (apply digits_val_fold; exact H1).
  repeat split.
  - unfold atoi, atoi_digits. rewrite S1, SG, SG2, DV. unfold size_of_int.
    rewrite Z.mod_small by lia. apply N2Z.id.
  - unfold atou. rewrite S1, DV. apply N.mod_small. lia.
  - apply negb_true_iff in H0. apply N.eqb_neq in H0. exact H0.
  - exists d, r. split; [reflexivity | exact Hd].
Qed.
Lemma digit_cases d : is_digit d = true -> In d [48; 49; 50; 51; 52; 53; 54; 55; 56; 57].
Proof. unfold is_digit. intro H. cbn. lia. Qed.

(* ================================================================ no configuration shuffles with seed 0 *)
Ltac inv_step H :=
  repeat match type of H with
         | context [let (_, _) := ?x in _] => destruct x
         | context [match ?x with _ => _ end] => destruct x eqn:?
         | context [if ?x then _ else _] => destruct x eqn:?
         end;
  try discriminate H; inversion H; subst.
Lemma action_seed tm c k lit a nx c' u : seed_ok c = true -> action tm c k lit a nx = HOk c' u -> seed_ok c' = true.
Proof.
  intros I H. unfold action in H.
  repeat (match type of H with (if key ?p ?q ?r ?s then _ else _) = _ => destruct (key p q r s) end;
    [ solve [ discriminate H
            | (inversion H; subst; exact I)
            | (unfold set_repeat_count, add_filter, add_group_dot_name, add_verbose_test, set_output_type, set_package_name, set_shuffle in H; cbv beta zeta in H;
               inv_step H;
               solve [ exact I
                     | (unfold seed_ok; cbn [c_shuf c_seed set_seed set_shuf negb orb]; reflexivity)
                     | (unfold seed_ok; cbn [c_shuf c_seed set_seed set_shuf negb orb];
                        apply negb_true_iff; assumption) ]) ] |]).
  discriminate H.
Qed.
Lemma handle_seed tm c a nx c' u : seed_ok c = true -> handle tm c a nx = HOk c' u -> seed_ok c' = true.
Proof. unfold handle. destruct (first_match c12_dispatch a) as [[k lit]|]; [apply action_seed | discriminate]. Qed.
Lemma parse_args_seed_n n : forall tm c args r, (length args <= n)%nat -> seed_ok c = true -> parse_args tm c args = Accept r -> seed_ok r = true.
Proof.
  induction n as [|n IH]; intros tm c args r L I P.
  - destruct args; [inversion P; subst; exact I | cbn in L; lia].
  - destruct args as [|a rest]; [inversion P; subst; exact I|]. cbn [parse_args] in P. cbn in L.
    destruct (handle tm c a (hd_error rest)) as [h|c' u|] eqn:E; try discriminate P.
    pose proof (handle_seed _ _ _ _ _ _ I E) as I'. destruct u.
    + destruct rest as [|b rest']; [inversion P; subst; exact I'|]. apply (IH tm c' rest' r); [cbn in L; lia | exact I' | exact P].
    + apply (IH tm c' rest r); [lia | exact I' | exact P].
Qed.
Lemma parse_seed tm argv c : parse tm argv = Accept c -> seed_ok c = true.
Proof. unfold parse. apply (parse_args_seed_n (length (tl argv))); [lia | reflexivity]. Qed.
