(* C09 -- executable mirror of MockNamedValue::equals and the integer getters
   (src/CppUTestExt/MockNamedValue.cpp), LP64.  A stored value carries its type tag and, for integers,
   the mathematical integer it denotes (always in range of its type: setValue(T) takes a T). *)
From Coq Require Import ZArith Bool List.
From CppUVerif Require Import lib.CInt lib.Dbl lib.Str.
Import ListNotations.
Local Open Scope Z_scope.

Inductive value :=
| VBool (b : bool)
| VInt (t : ity) (z : Z)
| VDouble (d tol : dbl)
| VStr (s : option (list N))          (* const char*: None = NULL *)
| VPtr (a : Z) | VConstPtr (a : Z) | VFun (a : Z)
| VMem (bytes : list N).              (* setMemoryBuffer(ptr,size), ptr non-NULL *)

Definition valid (v : value) : bool :=
  match v with VInt t z => in_range t z | _ => true end.

(* SimpleString of a C string: NULL becomes the empty string, a C string stops at its first NUL *)
Definition sstr (s : option (list N)) : list N := match s with None => [] | Some l => cut_nul l end.

(* the 30 mixed-type branches, in the order and with the casts of the source *)
Definition int_equals (t1 : ity) (z1 : Z) (t2 : ity) (z2 : Z) : bool :=
  match t1, t2 with
  | TLong, TInt => c_eq TLong z1 TInt z2
  | TInt, TLong => c_eq TInt z1 TLong z2
  | TUInt, TInt => (0 <=? z2) && c_eq TUInt z1 TUInt (cast TUInt z2)
  | TInt, TUInt => (0 <=? z1) && c_eq TUInt (cast TUInt z1) TUInt z2
  | TULong, TInt => (0 <=? z2) && c_eq TULong z1 TULong (cast TULong z2)
  | TInt, TULong => (0 <=? z1) && c_eq TULong (cast TULong z1) TULong z2
  | TUInt, TLong => (0 <=? z2) && c_eq TUInt z1 TULong (cast TULong z2)
  | TLong, TUInt => (0 <=? z1) && c_eq TULong (cast TULong z1) TUInt z2
  | TUInt, TULong => c_eq TUInt z1 TULong z2
  | TULong, TUInt => c_eq TULong z1 TUInt z2
  | TLong, TULong => (0 <=? z1) && c_eq TULong (cast TULong z1) TULong z2
  | TULong, TLong => (0 <=? z2) && c_eq TULong z1 TULong (cast TULong z2)
  | TLLong, TInt => c_eq TLLong z1 TInt z2
  | TInt, TLLong => c_eq TInt z1 TLLong z2
  | TLLong, TLong => c_eq TLLong z1 TLong z2
  | TLong, TLLong => c_eq TLong z1 TLLong z2
  | TLLong, TUInt => (0 <=? z1) && c_eq TULLong (cast TULLong z1) TUInt z2
  | TUInt, TLLong => (0 <=? z2) && c_eq TUInt z1 TULLong (cast TULLong z2)
  | TLLong, TULong => (0 <=? z1) && c_eq TULLong (cast TULLong z1) TULong z2
  | TULong, TLLong => (0 <=? z2) && c_eq TULong z1 TULLong (cast TULLong z2)
  | TLLong, TULLong => (0 <=? z1) && c_eq TULLong (cast TULLong z1) TULLong z2
  | TULLong, TLLong => (0 <=? z2) && c_eq TULLong z1 TULLong (cast TULLong z2)
  | TULLong, TInt => (0 <=? z2) && c_eq TULLong z1 TULLong (cast TULLong z2)
  | TInt, TULLong => (0 <=? z1) && c_eq TULLong (cast TULLong z1) TULLong z2
  | TULLong, TUInt => c_eq TULLong z1 TUInt z2
  | TUInt, TULLong => c_eq TUInt z1 TULLong z2
  | TULLong, TLong => (0 <=? z2) && c_eq TULLong z1 TULLong (cast TULLong z2)
  | TLong, TULLong => (0 <=? z1) && c_eq TULLong (cast TULLong z1) TULLong z2
  | TULLong, TULong => c_eq TULLong z1 TULong z2
  | TULong, TULLong => c_eq TULong z1 TULLong z2
  (* same type: falls through the chain to `type_ != p.type_` and the same-type comparison *)
  | TInt, TInt | TUInt, TUInt | TLong, TLong | TULong, TULong | TLLong, TLLong | TULLong, TULLong => c_eq t1 z1 t2 z2
  end.

(* this->equals(p): `a` is *this (for doubles: the side whose tolerance is used) *)
Definition equals (a p : value) : bool :=
  match a, p with
  | VInt t1 z1, VInt t2 z2 => int_equals t1 z1 t2 z2
  | VBool x, VBool y => Bool.eqb x y
  | VStr x, VStr y => bytes_eqb (sstr x) (sstr y)
  | VPtr x, VPtr y => x =? y
  | VConstPtr x, VConstPtr y => x =? y
  | VFun x, VFun y => x =? y
  | VDouble d1 t1, VDouble d2 _ => doubles_equal d1 d2 t1
  | VMem x, VMem y => (Z.of_nat (length x) =? Z.of_nat (length y)) && bytes_eqb x y
  | _, _ => false
  end.

(* getters: None = the STRCMP_EQUAL on the type name fails the test *)
Definition get_int (v : value) : option Z :=
  match v with VInt TInt z => Some z | _ => None end.
Definition get_uint (v : value) : option Z :=
  match v with
  | VInt TInt z => if 0 <=? z then Some (cast TUInt z) else None
  | VInt TUInt z => Some z
  | _ => None end.
Definition get_long (v : value) : option Z :=
  match v with
  | VInt TInt z => Some (cast TLong z)
  | VInt TUInt z => Some (cast TLong z)
  | VInt TLong z => Some z
  | _ => None end.
Definition get_ulong (v : value) : option Z :=
  match v with
  | VInt TUInt z => Some (cast TULong z)
  | VInt TInt z => if 0 <=? z then Some (cast TULong z) else None
  | VInt TLong z => if 0 <=? z then Some (cast TULong z) else None
  | VInt TULong z => Some z
  | _ => None end.
(* getLongLongIntValue: the "unsigned long int" branch is taken only when the converted value is >= 0
   (repair of defect D18; get_llong_old below is the code before the repair) *)
Definition get_llong (v : value) : option Z :=
  match v with
  | VInt TInt z => Some (cast TLLong z)
  | VInt TUInt z => Some (cast TLLong z)
  | VInt TLong z => Some (cast TLLong z)
  | VInt TULong z => if 0 <=? cast TLLong z then Some (cast TLLong z) else None
  | VInt TLLong z => Some z
  | _ => None end.
Definition get_llong_old (v : value) : option Z :=
  match v with
  | VInt TULong z => Some (cast TLLong z)
  | _ => get_llong v end.
Definition get_ullong (v : value) : option Z :=
  match v with
  | VInt TUInt z => Some (cast TULLong z)
  | VInt TInt z => if 0 <=? z then Some (cast TULLong z) else None
  | VInt TLong z => if 0 <=? z then Some (cast TULLong z) else None
  | VInt TULong z => Some (cast TULLong z)
  | VInt TLLong z => if 0 <=? z then Some (cast TULLong z) else None
  | VInt TULLong z => Some z
  | _ => None end.

Inductive getter := GInt | GUInt | GLong | GULong | GLLong | GULLong.
Definition get (g : getter) : value -> option Z :=
  match g with GInt => get_int | GUInt => get_uint | GLong => get_long
             | GULong => get_ulong | GLLong => get_llong | GULLong => get_ullong end.
Definition all_getters := [GInt; GUInt; GLong; GULong; GLLong; GULLong].

(* scenario = a pair of values; observation = equals both ways + every getter on the first value *)
Record obs := { o_ab : bool; o_ba : bool; o_get : list (option Z) }.
Definition run (a b : value) : obs :=
  {| o_ab := equals a b; o_ba := equals b a; o_get := map (fun g => get g a) all_getters |}.

(* -------- spec: what the property demands of an observation (model-free) -------- *)
Definition same_kind (a b : value) : bool :=
  match a, b with
  | VBool _, VBool _ | VInt _ _, VInt _ _ | VDouble _ _, VDouble _ _ | VStr _, VStr _
  | VPtr _, VPtr _ | VConstPtr _, VConstPtr _ | VFun _, VFun _ | VMem _, VMem _ => true
  | _, _ => false end.

(* the mathematical answer, where the property fixes one *)
Definition math_equal (a b : value) : option bool :=
  match a, b with
  | VInt _ z1, VInt _ z2 => Some (z1 =? z2)
  | VBool x, VBool y => Some (Bool.eqb x y)
  | VStr (Some x), VStr (Some y) => Some (bytes_eqb (cut_nul x) (cut_nul y))
  | VStr _, VStr _ => None                    (* NULL strings: not fixed by the property *)
  | VPtr x, VPtr y | VConstPtr x, VConstPtr y | VFun x, VFun y => Some (x =? y)
  | VMem x, VMem y => Some (bytes_eqb x y)
  | VDouble d1 t1, VDouble d2 _ =>
      if d_is_nan d1 || d_is_nan d2 then Some false
      else Some (doubles_equal d1 d2 t1)
      (* non-NaN doubles: "by the expectation's tolerance" = the IEEE-754 predicate |d1 - d2| <= t1 with the same-infinity rule,
         as defined in lib/Dbl.v over Flocq; C03's theorems relate that definition to the real-number statement *)
  | _, _ => Some false
  end.

Definition getter_ok (a : value) (r : option Z) : bool :=
  match r with
  | None => true
  | Some z' => match a with VInt _ z => z' =? z | _ => false end
  end.

Definition spec (a b : value) (o : obs) : bool :=
  match math_equal a b with Some e => Bool.eqb (o_ab o) e | None => true end &&
  match math_equal b a with Some e => Bool.eqb (o_ba o) e | None => true end &&
  (Nat.eqb (length (o_get o)) 6) && forallb (getter_ok a) (o_get o).

(* -------- scenarios: WHERE the pointer-like payloads live --------
   A MockNamedValue stores only the address of a string / memory buffer.  SPair: every payload in an allocation of its own.
   SAliasMem / SAliasStr: both values point into ONE allocation `ar` (the same start address with different lengths,
   windows overlapping at an offset, the identical pointer and length; a char pointer into the middle of the other string).
   For these the model below works on ADDRESSES (offsets into the arena), as the code does; the property speaks of
   contents only (sc_values), so `sc_spec` reads the contents and never the offsets. *)
Definition slice (o l : nat) (ar : list N) : list N := firstn l (skipn o ar).

Inductive scenario :=
| SPair (a b : value)
| SAliasMem (ar : list N) (oa la ob lb : nat)      (* setMemoryBuffer(ar+oa, la) / setMemoryBuffer(ar+ob, lb) *)
| SAliasStr (ar : list N) (oa ob : nat).           (* setValue((const char* )ar+oa) / (ar+ob); the arena is followed by one NUL *)

Definition sc_valid (s : scenario) : bool :=
  match s with
  | SPair a b => valid a && valid b
  | SAliasMem ar oa la ob lb => Nat.leb (oa + la) (length ar) && Nat.leb (ob + lb) (length ar)
  | SAliasStr ar oa ob => Nat.leb oa (length ar) && Nat.leb ob (length ar)
  end.

(* the contents the two values denote: all the property speaks about *)
Definition sc_values (s : scenario) : value * value :=
  match s with
  | SPair a b => (a, b)
  | SAliasMem ar oa la ob lb => (VMem (slice oa la ar), VMem (slice ob lb ar))
  | SAliasStr ar oa ob => (VStr (Some (skipn oa ar)), VStr (Some (skipn ob ar)))
  end.

(* SimpleString::MemCmp(p, q, n) == 0 on one memory: while (n--) if ( *p != *q) return difference; else ++p, ++q *)
Fixpoint memcmp_eq (mem : list N) (p q n : nat) : bool :=
  match n with
  | O => true
  | S n' => if N.eqb (nth p mem 0%N) (nth q mem 0%N) then memcmp_eq mem (S p) (S q) n' else false
  end.
(* the "const unsigned char*" branch of equals: size_ != p.size_ -> false, else MemCmp over size_ bytes *)
Definition mem_equals_at (mem : list N) (pa la pb lb : nat) : bool :=
  if negb (Z.of_nat la =? Z.of_nat lb) then false else memcmp_eq mem pa pb la.
(* SimpleString(const char* ) copies from the address up to the first NUL; operator== compares the copies *)
Definition cstr_at (mem : list N) (p : nat) : list N := cut_nul (skipn p mem).
Definition str_equals_at (mem : list N) (pa pb : nat) : bool := bytes_eqb (cstr_at mem pa) (cstr_at mem pb).

Definition no_getter_applies : list (option Z) := map (fun _ => None) all_getters.

Definition sc_run (s : scenario) : obs :=
  match s with
  | SPair a b => run a b
  | SAliasMem ar oa la ob lb =>
      {| o_ab := mem_equals_at ar oa la ob lb; o_ba := mem_equals_at ar ob lb oa la; o_get := no_getter_applies |}
  | SAliasStr ar oa ob =>
      let mem := ar ++ [0%N] in
      {| o_ab := str_equals_at mem oa ob; o_ba := str_equals_at mem ob oa; o_get := no_getter_applies |}
  end.

Definition sc_spec (s : scenario) (o : obs) : bool := spec (fst (sc_values s)) (snd (sc_values s)) o.
