(* C03 / C09: the model of doubles_equal (lib/Dbl.v) is EQUAL to the definition tools/cxx2coq.py regenerates from /repo's
   Utest.cpp on every run (gen/Gen_LeafDbl.v). *)
From Coq Require Import ZArith Bool.
From CppUVerif Require Import lib.CSem lib.Dbl gen.Gen_LeafC03.

Lemma C03_doubles_equal_is_the_source : forall d1 d2 t, leaf_doubles_equal d1 d2 t = b2z (doubles_equal d1 d2 t).
Proof.
  intros. unfold leaf_doubles_equal, doubles_equal, c_lor, c_land, c_ne.
  destruct (d_is_nan d1), (d_is_nan d2), (d_is_nan t), (d_is_inf d1), (d_is_inf d2), (d_eq d1 d2); reflexivity.
Qed.
