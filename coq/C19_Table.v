(* C19 -- types of the wiring tables that tools/gen/C19.py regenerates from include/CppUTestExt/MockSupport_c.h and
   src/CppUTestExt/MockSupport_c.cpp on every run (coq/gen/Gen_C19.v).  No proofs here. *)
From Coq Require Import NArith ZArith List.
From Coq Require Import Strings.Byte.
From CppUVerif Require Import lib.CInt lib.Str.

(* identifiers and C text as byte strings (bytes are N, as everywhere in this development), with a string notation so that the
   regenerated tables stay readable: "withParameter" denotes Nm [119; 105; ...] *)
Inductive name := Nm (l : list N).
Definition name_of_bytes (l : list byte) : name := Nm (map Byte.to_N l).
Definition bytes_of_name (n : name) : list byte :=
  match n with Nm l => map (fun x => match Byte.of_N x with Some b => b | None => x00 end) l end.
Declare Scope name_scope.
Delimit Scope name_scope with name.
Bind Scope name_scope with name.
String Notation name name_of_bytes bytes_of_name : name_scope.
Definition name_eqb (a b : name) : bool := match a, b with Nm x, Nm y => bytes_eqb x y end.
Definition napp (a b : name) : name := match a, b with Nm x, Nm y => Nm (x ++ y) end.
Infix "=?" := name_eqb (at level 70) : name_scope.
Infix "++" := napp (right associativity, at level 60) : name_scope.

(* C types that occur in the three structs and in the forwarders *)
Inductive cty := TVoid | TI (t : ity) | TDouble | TCharP | TUCharP | TVoidP | TCVoidP | TFunP | TSize | TValueC
               | TExpTbl | TActTbl | TSupTbl | TEqFn | TStrFn | TCopyFn | TTag.
Definition csig := (cty * list cty)%type.        (* return type, parameter types *)

(* argument expression of the forwarded C++ call, over the forwarder's own parameters (by position) *)
Inductive aexp :=
| AParam (i : nat)                 (* the parameter, unchanged: the C++ overload is selected by its C type *)
| ANonZero (i : nat)               (* (p != 0) / (0 != p): int standing for bool *)
| ACastFun (i : nat)               (* (cpputest_cpp_function_pointer) p *)
| ACast (ty : name) (i : nat)    (* any other cast *)
| ALit (s : name).               (* anything else, verbatim *)

(* what is done to the C++ result before it is returned to C *)
Inductive rwrap := WNone | WBool01 (* e ? 1 : 0 *) | WFunCast (* (void ( * )()) e *) | WValueC (* getMockValueCFromNamedValue(e) *).

(* body of a forwarder, in normal form *)
Inductive fbody :=
| BChain (target recv method : name) (args : list aexp) (table : name)   (* target = &recv->method(args); return &table; *)
| BVoid (recv method : name) (args : list aexp)                            (* recv->method(args); *)
| BRet (w : rwrap) (recv method : name) (args : list aexp)                 (* return w(recv->method(args)); *)
| BOrDefault (has : name) (dflt : nat) (get : name)                      (* if (!has()) { return p_dflt; } return get(); *)
| BSelect (scope : aexp) (reporter : name)                                   (* currentMockSupport = &mock(scope, reporter); return &gMockSupport; *)
| BInstallCmp | BInstallCopy | BRemoveAll                                    (* the three adaptor-owning functions, matched verbatim *)
| BOther (text : name).
Record fdef := { f_name : name; f_sig : csig; f_body : fbody }.

(* one branch of getMockValueCFromNamedValue *)
Record dispatch := { d_type : name; d_tag : name; d_member : name; d_getter : name; d_wrap : rwrap }.
