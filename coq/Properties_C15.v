(* C15 -- Injected out-of-memory hits exactly the designated allocations.
   Only statements; every proof is `exact <lemma>` into C15_Proofs.v. *)
From Coq Require Import ZArith NArith Bool List.
From CppUVerif Require Import lib.Str C15_Model C15_Proofs.
Import ListNotations.
Local Open Scope Z_scope.

(* for every set of designations (no allocation denoted twice) and every allocation history, each allocation fails
   -- NULL or bad_alloc according to its family -- iff an installed designation denotes it, where "denotes" is
   defined by counting the history (target), independently of the pending list *)
Theorem C15_exactly_designated : forall ops,
  valid_from 0 [] ops 0 = true -> alloc_results (run_from st0 ops) = expected_allocs 0 [] ops 0.
Proof. exact exactly_designated. Qed.
Print Assumptions C15_exactly_designated.

(* the same, pointwise: after any prefix of any valid history *)
Theorem C15_next_alloc_fails_iff : forall pre f l suf,
  valid_from 0 [] (pre ++ Alloc f l :: suf) 0 = true ->
  snd (mstep (mrun st0 pre) (Alloc f l)) =
  Some (OAlloc (if existsb (hits (length pre)) (snd (srun 0 [] pre (Alloc f l :: suf) 0)) then fail_res f else ROk)).
Proof. exact next_alloc_fails_iff. Qed.
Print Assumptions C15_next_alloc_fails_iff.

(* checkAllFailedAllocsWereDone raises iff a designation still waits for its allocation ... *)
Theorem C15_never_done_reported : forall ops,
  valid_from 0 [] ops 0 = true -> check_flags (run_from st0 ops) = expected_checks 0 [] ops 0.
Proof. exact never_done_reported. Qed.
Print Assumptions C15_never_done_reported.

(* ... and the failure names one that really does *)
Theorem C15_never_done_names_pending : forall pre suf rp,
  valid_from 0 [] (pre ++ Check :: suf) 0 = true -> check_report (mrun st0 pre) = Some rp ->
  exists e, In e (snd (srun 0 [] pre (Check :: suf) 0)) /\ pending (length pre) e = true /\ rep_matches (e_d e) rp = true.
Proof. exact never_done_names_pending. Qed.
Print Assumptions C15_never_done_names_pending.

(* clearFailedAllocs: whatever happened before, the allocator then behaves like a fresh one *)
Theorem C15_clear_restores : forall pre suf,
  run_from st0 (pre ++ Clear :: suf) = run_from st0 pre ++ run_from st0 suf.
Proof. exact clear_restores. Qed.
Print Assumptions C15_clear_restores.

(* countdown n armed from a clean state: the i-th allocation (through any wrapper) fails iff 0 <= n <= i;
   n >= 1: allocations 1..n-1 succeed, all from n on fail; n = 0: all fail; n < 0: none *)
Theorem C15_countdown : forall custom n fams,
  alloc_results (run (SCount custom (CCountdown n :: map CAlloc fams))) =
  map (fun i => if (0 <=? n) && (n <=? i) then RNull else ROk) (zseq 1 (length fams)).
Proof. exact countdown_closed. Qed.
Print Assumptions C15_countdown.

(* all histories of arm / allocate / reset in the documented usage: failures as the closed form says, and every reset
   restores the allocator that was current before (also a test-installed one) *)
Theorem C15_countdown_all_histories : forall custom cops,
  cvalid custom None 0 cops = true -> ccheck custom None 0 cops (crun_from (cst0 custom) cops) = true.
Proof. exact countdown_all_histories. Qed.
Print Assumptions C15_countdown_all_histories.

(* a failed allocation is delivered as NULL (bad_alloc by the throwing operator new), never as a crash *)
Theorem C15_c_wrappers_null :
  (forall f, deliver f true = fail_res f /\ deliver f true <> RCrash /\ deliver f true <> ROk) /\ (forall cf, cdeliver cf true = RNull).
Proof. exact wrappers_null. Qed.
Print Assumptions C15_c_wrappers_null.

(* the code as it was before the `fix:` commits *)
Theorem C15_exactly_designated_old_refuted_D6 : ~ exactly_designated_old_stmt.
Proof. exact exactly_designated_old_refuted_D6. Qed.
Print Assumptions C15_exactly_designated_old_refuted_D6.
Theorem C15_exactly_designated_old_refuted_D7 : ~ exactly_designated_old_stmt.
Proof. exact exactly_designated_old_refuted_D7. Qed.
Print Assumptions C15_exactly_designated_old_refuted_D7.
Theorem C15_c_wrappers_null_old_refuted : ~ wrappers_null_old_stmt.
Proof. exact wrappers_null_old_refuted. Qed.
Print Assumptions C15_c_wrappers_null_old_refuted.

(* the executable oracle used on the implementation's observations accepts every model observation *)
Theorem C15_run_meets_spec : forall s, valid s = true -> spec s (run s) = true.
Proof. exact run_meets_spec. Qed.
Print Assumptions C15_run_meets_spec.
