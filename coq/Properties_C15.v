(* C15 -- Injected out-of-memory hits exactly the designated allocations.
   Only statements; every proof is `exact <lemma>` into C15_Proofs.v. *)
From Coq Require Import ZArith NArith Bool List.
From CppUVerif Require Import lib.Str C15_Model C15_Proofs C15_InTest C15_Release.
Import ListNotations.
Local Open Scope Z_scope.

(* for every set of designations (no allocation denoted twice) and every allocation history, each allocation fails
   -- NULL or bad_alloc according to its family -- iff an installed designation denotes it, where "denotes" is
   defined by counting the history (target), independently of the pending list *)
Theorem C15_exactly_designated : forall ops,
  valid_from 0 [] ops 0 = true -> alloc_results (run_from st0 ops) = expected_allocs 0 [] ops 0.
Proof. exact exactly_designated. Qed.
Print Assumptions C15_exactly_designated.

(* the same, pointwise: after any prefix of any valid history *)
Theorem C15_next_alloc_fails_iff : forall pre f l suf,
  valid_from 0 [] (pre ++ Alloc f l :: suf) 0 = true ->
  snd (mstep (mrun st0 pre) (Alloc f l)) =
  Some (OAlloc (if existsb (hits (length pre)) (snd (srun 0 [] pre (Alloc f l :: suf) 0)) then fail_res f else ROk)).
Proof. exact next_alloc_fails_iff. Qed.
Print Assumptions C15_next_alloc_fails_iff.

(* checkAllFailedAllocsWereDone raises iff a designation still waits for its allocation ... *)
Theorem C15_never_done_reported : forall ops,
  valid_from 0 [] ops 0 = true -> check_flags (run_from st0 ops) = expected_checks 0 [] ops 0.
Proof. exact never_done_reported. Qed.
Print Assumptions C15_never_done_reported.

(* ... and the failure names one that really does *)
Theorem C15_never_done_names_pending : forall pre suf rp,
  valid_from 0 [] (pre ++ Check :: suf) 0 = true -> check_report (mrun st0 pre) = Some rp ->
  exists e, In e (snd (srun 0 [] pre (Check :: suf) 0)) /\ pending (length pre) e = true /\ rep_matches (e_d e) rp = true.
Proof. exact never_done_names_pending. Qed.
Print Assumptions C15_never_done_names_pending.

(* clearFailedAllocs: whatever happened before, the allocator then behaves like a fresh one *)
Theorem C15_clear_restores : forall pre suf,
  run_from st0 (pre ++ Clear :: suf) = run_from st0 pre ++ run_from st0 suf.
Proof. exact clear_restores. Qed.
Print Assumptions C15_clear_restores.

(* countdown n armed from a clean state: the i-th allocation (through any wrapper) fails iff 0 <= n <= i;
   n >= 1: allocations 1..n-1 succeed, all from n on fail; n = 0: all fail; n < 0: none *)
Theorem C15_countdown : forall custom n fams,
  alloc_results (run (SCount custom (CCountdown n :: map CAlloc fams))) =
  map (fun i => if (0 <=? n) && (n <=? i) then RNull else ROk) (zseq 1 (length fams)).
Proof. exact countdown_closed. Qed.
Print Assumptions C15_countdown.

(* all histories of arm / allocate / reset in the documented usage: failures as the closed form says, and every reset
   restores the allocator that was current before (also a test-installed one) *)
Theorem C15_countdown_all_histories : forall custom cops,
  cvalid custom None 0 cops = true -> ccheck custom None 0 cops (crun_from (cst0 custom) cops) = true.
Proof. exact countdown_all_histories. Qed.
Print Assumptions C15_countdown_all_histories.

(* a failed allocation is delivered as NULL (bad_alloc by the throwing operator new), never as a crash *)
Theorem C15_c_wrappers_null :
  (forall f, deliver f true = fail_res f /\ deliver f true <> RCrash /\ deliver f true <> ROk) /\ (forall cf, cdeliver cf true = RNull).
Proof. exact wrappers_null. Qed.
Print Assumptions C15_c_wrappers_null.

(* the code as it was before the `fix:` commits *)
Theorem C15_exactly_designated_old_refuted_D6 : ~ exactly_designated_old_stmt.
Proof. exact exactly_designated_old_refuted_D6. Qed.
Print Assumptions C15_exactly_designated_old_refuted_D6.
Theorem C15_exactly_designated_old_refuted_D7 : ~ exactly_designated_old_stmt.
Proof. exact exactly_designated_old_refuted_D7. Qed.
Print Assumptions C15_exactly_designated_old_refuted_D7.
Theorem C15_c_wrappers_null_old_refuted : ~ wrappers_null_old_stmt.
Proof. exact wrappers_null_old_refuted. Qed.
Print Assumptions C15_c_wrappers_null_old_refuted.

(* the executable oracle used on the implementation's observations accepts every model observation *)
Theorem C15_run_meets_spec : forall s, valid s = true -> spec s (run s) = true.
Proof. exact run_meets_spec. Qed.
Print Assumptions C15_run_meets_spec.

(* --------------------------------------------------------------------------------------------------------------
   Releases and reallocs interleaved with the injected failures (scenario kind SRel): blocks handed out before
   out-of-memory begins (set_out_of_memory, a countdown reaching 0, a designated failure of a failable allocator) and
   released / reallocated / copied from while it lasts and after it was cleared.  The saved allocator, the allocator
   the stand-in was told it stands for and the current allocator are three variables of the model (c_orig, r_for, c_cur).
   -------------------------------------------------------------------------------------------------------------- *)
(* the stand-in is current exactly when, by counting the requests since the arming, out-of-memory is on *)
Theorem C15_rel_oom_state : forall b pre suf,
  valid (SRel b (pre ++ suf)) = true ->
  is_null (get_cur (r_c (rmrun (rst0 b) pre))) = q_oom_now (qrun b qst0 pre).
Proof. exact rel_oom_state. Qed.
Print Assumptions C15_rel_oom_state.

(* with releases and reallocs in between: a request is refused iff out-of-memory is on by then, or it reaches a failable
   allocator and its index among the requests that reached it is designated; every other request succeeds *)
Theorem C15_rel_alloc_fails_iff : forall b pre f suf,
  valid (SRel b (pre ++ RAlloc f :: suf)) = true ->
  snd (rstep (rmrun (rst0 b) pre) (RAlloc f)) = Some (OAlloc (if q_fails b (qrun b qst0 pre) then RNull else ROk)).
Proof. exact rel_alloc_fails_iff. Qed.
Print Assumptions C15_rel_alloc_fails_iff.

(* a release is never a failure: a live block released at any point of any valid history raises nothing, reaches the
   allocator that handed it out, and is no longer tracked *)
Theorem C15_release_never_fails : forall b pre i suf a,
  valid (SRel b (pre ++ RFree i :: suf)) = true ->
  nth_error (r_slots (rmrun (rst0 b) pre)) i = Some (SLive a) ->
  snd (rstep (rmrun (rst0 b) pre) (RFree i)) = Some (OFree false true) /\
  nth_error (r_slots (fst (rstep (rmrun (rst0 b) pre) (RFree i)))) i = Some SFreed /\
  r_lost (fst (rstep (rmrun (rst0 b) pre) (RFree i))) = false.
Proof. exact release_never_fails. Qed.
Print Assumptions C15_release_never_fails.

(* realloc while out-of-memory is simulated returns NULL, raises nothing and changes nothing: the block stays valid and tracked *)
Theorem C15_realloc_under_oom : forall b pre i sz suf a,
  valid (SRel b (pre ++ RRealloc i sz :: suf)) = true ->
  nth_error (r_slots (rmrun (rst0 b) pre)) i = Some (SLive a) ->
  q_oom_now (qrun b qst0 pre) = true ->
  rstep (rmrun (rst0 b) pre) (RRealloc i sz) = (rmrun (rst0 b) pre, Some (ORealloc RNull false true)).
Proof. exact realloc_under_oom. Qed.
Print Assumptions C15_realloc_under_oom.

(* ... and at any other time it succeeds without a failure (also under a failable allocator with designations pending) *)
Theorem C15_realloc_otherwise : forall b pre i sz suf a,
  valid (SRel b (pre ++ RRealloc i sz :: suf)) = true ->
  nth_error (r_slots (rmrun (rst0 b) pre)) i = Some (SLive a) ->
  q_oom_now (qrun b qst0 pre) = false ->
  snd (rstep (rmrun (rst0 b) pre) (RRealloc i sz)) = Some (ORealloc ROk false true) /\
  nth_error (r_slots (fst (rstep (rmrun (rst0 b) pre) (RRealloc i sz)))) i = Some (SLive b).
Proof. exact realloc_otherwise. Qed.
Print Assumptions C15_realloc_otherwise.

(* clearing restores normal behaviour: after set_not_out_of_memory the three variables read as at the start, and what
   follows runs exactly as from the state in which the stand-in was never told anything *)
Theorem C15_reset_restores : forall b pre suf,
  valid (SRel b (pre ++ RSetNot :: suf)) = true ->
  let r := rmrun (rst0 b) (pre ++ [RSetNot]) in
  c_counter (r_c r) = -1 /\ c_orig (r_c r) = None /\ get_cur (r_c r) = b /\
  rrun_from r suf = rrun_from (forget_for r) suf.
Proof. exact reset_restores. Qed.
Print Assumptions C15_reset_restores.

Theorem C15_rel_clear_restores : forall b pre, r_f (rmrun (rst0 b) (pre ++ [RClearF])) = st0.
Proof. exact rel_clear_restores. Qed.
Print Assumptions C15_rel_clear_restores.

(* the code before 4104eb1 (the Null allocator stood in on the release path too): malloc; set_out_of_memory; free *)
Theorem C15_release_old_refuted : ~ release_old_stmt.
Proof. exact release_old_refuted. Qed.
Print Assumptions C15_release_old_refuted.

(* --------------------------------------------------------------------------------------------------------------
   The never-done check asked from inside a running test (scenario kind STest): setup / body / teardown, the test
   having any number of failures recorded before (by a plugin, by addFailure, by a failed CHECK that left a test
   function, by an earlier never-done report).  t_n = failures of the running test.
   -------------------------------------------------------------------------------------------------------------- *)
(* whatever the failure count n of the asking test: a pending designation is reported (one more failure, the head of
   the list named, the test function left), an empty list changes nothing *)
Theorem C15_check_in_test_any_count : forall f n,
  match check_report f with
  | Some r => tstep_gen false {| t_f := f; t_n := n |} (TOp Check)
              = ({| t_f := f; t_n := n + 1 |}, Some (OCheckT n (n + 1) (Some r)), true)
  | None => tstep_gen false {| t_f := f; t_n := n |} (TOp Check)
              = ({| t_f := f; t_n := n |}, Some (OCheckT n n None), false)
  end.
Proof. exact check_in_test_any_count. Qed.
Print Assumptions C15_check_in_test_any_count.

(* the requests and checks of a test are those of the plain history of the events it carried out *)
Theorem C15_test_is_plain_history : forall pre su bo td,
  map strip (filter plain (run (STest pre su bo td))) = run_from st0 (ops_of (teff pre su bo td)).
Proof. exact test_is_plain_history. Qed.
Print Assumptions C15_test_is_plain_history.

(* every check of the test reports iff, by counting that history, a designation still waits *)
Theorem C15_test_never_done_reported : forall pre su bo td,
  valid (STest pre su bo td) = true ->
  check_flags (map strip (filter plain (run (STest pre su bo td)))) = expected_checks 0 [] (ops_of (teff pre su bo td)) 0.
Proof. exact test_never_done_reported. Qed.
Print Assumptions C15_test_never_done_reported.

(* a report is exactly one more failure of the test, no report leaves the count alone *)
Theorem C15_test_report_counts_once : forall pre su bo td, Forall count_exact (run (STest pre su bo td)).
Proof. exact test_report_counts_once. Qed.
Print Assumptions C15_test_report_counts_once.

(* the failures recorded before the test starts change neither the events carried out nor any request / report *)
Theorem C15_test_failures_before_irrelevant : forall pre pre' su bo td,
  teff pre su bo td = teff pre' su bo td /\
  map strip (run (STest pre su bo td)) = map strip (run (STest pre' su bo td)).
Proof. exact test_failures_before_irrelevant. Qed.
Print Assumptions C15_test_failures_before_irrelevant.

(* the variant that reports nothing once the running test has a failure (run_mute): designate; FAIL; check in teardown *)
Theorem C15_mute_when_failed_refuted : ~ mute_meets_spec_stmt.
Proof. exact mute_refuted. Qed.
Print Assumptions C15_mute_when_failed_refuted.

(* --------------------------------------------------------------------------------------------------------------
   The pending-failure list of the model IS the source: LocationToFailAllocNode and the list-walking member functions of FailableMemoryAllocator as tools/cxx2heap.py regenerates them from TestMemoryAllocator.cpp on every run (gen/Gen_HeapC15.v; objects are blocks of cells, C15_HeapRep.v: node_cells / chain / fail_at; a source file name is an opaque integer fc f, fc injective and never 0; the allocations let through and the nodes obtained / released are ghost events), run on a heap that represents a model state, return what the model's should_fail / mstep return and leave a heap that represents the model's new state. The two int counters wrap at 32 bits in the source and not in the model: excluded by no_wrap and s_cur + 1 < 2^31 (ex_wrap_node, ex_wrap_cur in C15_HeapTie.v show the difference)
   -------------------------------------------------------------------------------------------------------------- *)
From CppUVerif Require Import lib.CSem lib.CMem lib.CHeap gen.Gen_HeapC15 C15_HeapRep C15_HeapTie.
Local Open Scope Z_scope.
Theorem C15_node_layout_is_the_source :
  off_LocationToFailAllocNode_allocNumberToFail_ = 0 /\
  off_LocationToFailAllocNode_actualAllocNumber_ = 1 /\
  off_LocationToFailAllocNode_file_ = 2 /\
  off_LocationToFailAllocNode_line_ = 3 /\
  off_LocationToFailAllocNode_next_ = 4 /\
  cells_LocationToFailAllocNode = 5 /\
  off_FailableMemoryAllocator_head_ = 0 /\
  off_FailableMemoryAllocator_currentAllocNumber_ = 1 /\ cells_FailableMemoryAllocator = 2.
Proof. exact node_layout_is_the_source. Qed.
Print Assumptions C15_node_layout_is_the_source.

Theorem C15_src_fnode_shouldFail_spec :
  forall fc : list N -> Z,
  (forall a b : list N, fc a = fc b -> a = b) ->
  (forall a : list N, fc a <> 0) ->
  forall (fuel : nat) (h : heap) (evs : list hev) (nx : Z) (b : nat) (nd : node) (nxt : hptr) (g : Z) (l : loc),
  hblock h b = node_cells fc nd nxt ->
  (b < length h)%nat ->
  node_ok nd ->
  no_wrap l nd ->
  exists h' : heap,
  src_fnode_shouldFail fuel h evs nx (HPtr b 0) g (fc (fst l)) (Z.of_N (snd l)) =
  FOk (b2z (snd (should_fail g l nd)), h', evs, nx) /\
  hblock h' b = node_cells fc (fst (should_fail g l nd)) nxt /\
  node_ok (fst (should_fail g l nd)) /\
  length h' = length h /\ (forall b' : nat, b' <> b -> hblock h' b' = hblock h b').
Proof. exact src_fnode_shouldFail_spec. Qed.
Print Assumptions C15_src_fnode_shouldFail_spec.

Theorem C15_src_fail_failAllocNumber_spec :
  forall (fc : list N -> Z) (fuel : nat) (h : heap) (evs : list hev) (nx : Z) (bt : nat)
  (bs : list nat) (s : st) (n : Z),
  fail_at fc h bt bs s ->
  int_ok n ->
  exists h' : heap,
  src_fail_failAllocNumber fuel h evs nx (HPtr bt 0) n =
  FOk (tt, h', evs ++ [HAllocRec nx (HPtr (length h) 0) sizeof_LocationToFailAllocNode], nx + 1) /\
  fail_at fc h' bt (length h :: bs) (fst (mstep s (FailG n))) /\
  length h' = S (length h) /\ (forall b' : nat, b' <> bt -> (b' < length h)%nat -> hblock h' b' = hblock h b').
Proof. exact src_fail_failAllocNumber_spec. Qed.
Print Assumptions C15_src_fail_failAllocNumber_spec.

Theorem C15_src_fail_failNthAllocAt_spec :
  forall (fc : list N -> Z) (fuel : nat) (h : heap) (evs : list hev) (nx : Z) (bt : nat)
  (bs : list nat) (s : st) (n : Z) (l : list N * N),
  fail_at fc h bt bs s ->
  int_ok n ->
  (snd l < 2 ^ 64)%N ->
  exists h' : heap,
  src_fail_failNthAllocAt fuel h evs nx (HPtr bt 0) n (fc (fst l)) (Z.of_N (snd l)) =
  FOk (tt, h', evs ++ [HAllocRec nx (HPtr (length h) 0) sizeof_LocationToFailAllocNode], nx + 1) /\
  fail_at fc h' bt (length h :: bs) (fst (mstep s (FailAt n l))) /\
  length h' = S (length h) /\ (forall b' : nat, b' <> bt -> (b' < length h)%nat -> hblock h' b' = hblock h b').
Proof. exact src_fail_failNthAllocAt_spec. Qed.
Print Assumptions C15_src_fail_failNthAllocAt_spec.

Theorem C15_src_fail_alloc_memory_spec :
  forall fc : list N -> Z,
  (forall a b : list N, fc a = fc b -> a = b) ->
  (forall a : list N, fc a <> 0) ->
  forall (fuel : nat) (h : heap) (evs : list hev) (nx : Z) (bt : nat) (bs : list nat)
  (s : st) (size : Z) (l : loc),
  fail_at fc h bt bs s ->
  s_cur s + 1 < 2 ^ 31 ->
  Forall (no_wrap l) (s_nodes s) ->
  (length (s_nodes s) < fuel)%nat ->
  let g := s_cur s + 1 in
  let ns' := fst (walk g l false (s_nodes s)) in
  let failed := snd (walk g l false (s_nodes s)) in
  exists h' : heap,
  src_fail_alloc_memory fuel h evs nx (HPtr bt 0) size (fc (fst l)) (Z.of_N (snd l)) =
  FOk
  (if failed then 0 else nx, h',
  evs ++ [if failed then HFreeRec (t_ptr g l bs (s_nodes s)) size else HAllocBuf nx size],
  if failed then nx else nx + 1) /\
  fail_at fc h' bt (t_brem g l bs (s_nodes s)) {| s_nodes := ns'; s_cur := g |} /\
  length h' = length h /\
  (forall b' : nat, b' <> bt -> ~ In b' bs -> hblock h' b' = hblock h b') /\
  (failed = true <-> t_ptr g l bs (s_nodes s) <> HNull).
Proof. exact src_fail_alloc_memory_spec. Qed.
Print Assumptions C15_src_fail_alloc_memory_spec.

Theorem C15_src_fail_alloc_memory_mstep :
  forall fc : list N -> Z,
  (forall a b : list N, fc a = fc b -> a = b) ->
  (forall a : list N, fc a <> 0) ->
  forall (fuel : nat) (h : heap) (evs : list hev) (nx : Z) (bt : nat) (bs : list nat)
  (s : st) (size : Z) (f : family) (l : loc),
  fail_at fc h bt bs s ->
  s_cur s + 1 < 2 ^ 31 ->
  Forall (no_wrap l) (s_nodes s) ->
  (length (s_nodes s) < fuel)%nat ->
  0 < nx ->
  exists (r : Z) (h' : heap) (evs' : list hev) (nx' : Z) (bs' : list nat),
  src_fail_alloc_memory fuel h evs nx (HPtr bt 0) size (fc (fst l)) (Z.of_N (snd l)) = FOk (r, h', evs', nx') /\
  fail_at fc h' bt bs' (fst (mstep s (Alloc f l))) /\
  snd (mstep s (Alloc f l)) = Some (OAlloc (deliver f (r =? 0))) /\
  length h' = length h /\
  (forall b' : nat, b' <> bt -> ~ In b' bs -> hblock h' b' = hblock h b') /\
  (forall x : nat, In x bs' -> In x bs).
Proof. exact src_fail_alloc_memory_mstep. Qed.
Print Assumptions C15_src_fail_alloc_memory_mstep.

Theorem C15_src_fail_clearFailedAllocs_spec :
  forall (fc : list N -> Z) (fuel : nat) (h : heap) (evs : list hev) (nx : Z) (bt : nat)
  (bs : list nat) (s : st),
  fail_at fc h bt bs s ->
  (length (s_nodes s) < fuel)%nat ->
  exists h' : heap,
  src_fail_clearFailedAllocs fuel h evs nx (HPtr bt 0) =
  FOk (tt, h', evs ++ map (fun b : nat => HFreeRec (HPtr b 0) 0) bs, nx) /\
  fail_at fc h' bt [] (fst (mstep s Clear)) /\
  length h' = length h /\ (forall b' : nat, b' <> bt -> hblock h' b' = hblock h b').
Proof. exact src_fail_clearFailedAllocs_spec. Qed.
Print Assumptions C15_src_fail_clearFailedAllocs_spec.

(* --------------------------------------------------------------------------------------------------------------
   THE TRANSLATED SOURCE of the C allocation wrappers of TestHarness_c.cpp (gen/Gen_LoopC15.v, regenerated by tools/cxx2gal.py on every run): the countdown, malloc, strlen, strdup / strndup and calloc do what the textbook says, for every oracle answer of the allocation behind them
   -------------------------------------------------------------------------------------------------------------- *)
From CppUVerif Require Import lib.CSem lib.CMem lib.CMemOps gen.Gen_LoopC15 C15_CTie.
Local Open Scope Z_scope.
Theorem C15_countdown_spec :
  forall (fuel : nat) (mem : memory) (c mc : Z) (evs : list hcev) (blocks : list (option (list N))),
  c < I31 -> src_c_countdown fuel mem c mc evs blocks = FOk (tt, mem, t_tick c, mc, evs ++ t_tick_evs c, blocks).
Proof. exact countdown_spec. Qed.
Print Assumptions C15_countdown_spec.

Theorem C15_set_countdown_spec :
  forall (fuel : nat) (mem : memory) (c mc : Z) (evs : list hcev) (blocks : list (option (list N))) (n : Z),
  src_c_cpputest_malloc_set_out_of_memory_countdown fuel mem c mc evs blocks n =
  FOk (tt, mem, n, mc, evs ++ (if n =? 0 then [COutOfMemoryOn] else []), blocks).
Proof. exact set_countdown_spec. Qed.
Print Assumptions C15_set_countdown_spec.

Theorem C15_mallocs_spec :
  forall (fuel : nat) (file : ptr) (line : Z) (reqs : list req) (mem : memory) (c mc : Z)
  (evs : list hcev) (rest : list (option (list N))),
  c < I31 ->
  Forall wf_req reqs ->
  src_mallocs fuel mem c mc evs (map snd reqs ++ rest) (map fst reqs) file line =
  FOk
  (t_ptrs mem (map snd reqs), t_mems mem (map snd reqs), t_ticks c (length reqs),
  t_count mc (length reqs), evs ++ t_trace c reqs, rest).
Proof. exact mallocs_spec. Qed.
Print Assumptions C15_mallocs_spec.

Theorem C15_countdown_n_allocations :
  forall (fuel : nat) (mem : memory) (c0 mc : Z) (evs : list hcev) (reqs : list req)
  (rest : list (option (list N))) (n : Z) (file : ptr) (line : Z),
  1 <= n < I31 ->
  Forall wf_req reqs ->
  src_countdown_then_mallocs fuel mem c0 mc evs (map snd reqs ++ rest) n (map fst reqs) file line =
  FOk
  (t_ptrs mem (map snd reqs), t_mems mem (map snd reqs), Z.max 0 (n - Z.of_nat (length reqs)),
  t_count mc (length reqs),
  evs ++
  map cm (firstn (Z.to_nat n - 1) reqs) ++
  match skipn (Z.to_nat n - 1) reqs with
  | [] => []
  | r :: more => COutOfMemoryOn :: cm r :: map cm more
  end, rest).
Proof. exact countdown_n_allocations. Qed.
Print Assumptions C15_countdown_n_allocations.

Theorem C15_countdown_zero_at_once :
  forall (fuel : nat) (mem : memory) (c0 mc : Z) (evs : list hcev) (reqs : list req)
  (rest : list (option (list N))) (file : ptr) (line : Z),
  Forall wf_req reqs ->
  src_countdown_then_mallocs fuel mem c0 mc evs (map snd reqs ++ rest) 0 (map fst reqs) file line =
  FOk
  (t_ptrs mem (map snd reqs), t_mems mem (map snd reqs), 0, t_count mc (length reqs),
  evs ++ COutOfMemoryOn :: map cm reqs, rest).
Proof. exact countdown_zero_at_once. Qed.
Print Assumptions C15_countdown_zero_at_once.

Theorem C15_countdown_negative_never :
  forall (fuel : nat) (mem : memory) (c0 mc : Z) (evs : list hcev) (reqs : list req)
  (rest : list (option (list N))) (n : Z) (file : ptr) (line : Z),
  n <= -1 ->
  Forall wf_req reqs ->
  src_countdown_then_mallocs fuel mem c0 mc evs (map snd reqs ++ rest) n (map fst reqs) file line =
  FOk
  (t_ptrs mem (map snd reqs), t_mems mem (map snd reqs), n, t_count mc (length reqs), evs ++ map cm reqs, rest).
Proof. exact countdown_negative_never. Qed.
Print Assumptions C15_countdown_negative_never.

Theorem C15_malloc_location_spec :
  forall (fuel : nat) (mem : memory) (c mc : Z) (evs : list hcev) (o : option (list N))
  (bl : list (option (list N))) (size : Z) (file : ptr) (line : Z),
  c < I31 ->
  wf_ans size o ->
  src_c_cpputest_malloc_location fuel mem c mc evs (o :: bl) size file line =
  FOk
  (t_ptr mem o, t_mem mem o, t_tick c, cw 32 true (mc + 1), (evs ++ t_tick_evs c) ++ [CMalloc size (t_ans o)],
  bl).
Proof. exact malloc_location_spec. Qed.
Print Assumptions C15_malloc_location_spec.

Theorem C15_strlen_spec :
  forall (fuel : nat) (mem : memory) (c mc : Z) (evs : list hcev) (blocks : list (option (list N)))
  (p : ptr) (s r : list N),
  CMemFacts.mem_ok mem ->
  view mem p = s ++ 0%N :: r ->
  NN s ->
  (length s < fuel)%nat ->
  Z.of_nat (length s) < M64 ->
  src_c_test_harness_c_strlen fuel mem c mc evs blocks p = FOk (Z.of_nat (length s), mem, c, mc, evs, blocks).
Proof. exact strlen_spec. Qed.
Print Assumptions C15_strlen_spec.

Theorem C15_strlen_unterminated_oob :
  forall (fuel : nat) (mem : memory) (c mc : Z) (evs : list hcev) (blocks : list (option (list N))) (p : ptr),
  CMemFacts.mem_ok mem ->
  NN (view mem p) ->
  (length (view mem p) < fuel)%nat -> src_c_test_harness_c_strlen fuel mem c mc evs blocks p = FOob.
Proof. exact strlen_unterminated_oob. Qed.
Print Assumptions C15_strlen_unterminated_oob.

Theorem C15_strdup_refused :
  forall (fuel : nat) (mem : memory) (c mc : Z) (evs : list hcev) (bl : list (option (list N)))
  (p : ptr) (s r : list N) (file : ptr) (line : Z),
  CMemFacts.mem_ok mem ->
  c < I31 ->
  view mem p = s ++ 0%N :: r ->
  NN s ->
  (length s < fuel)%nat ->
  Z.of_nat (length (s ++ 0%N :: r)) < M64 ->
  src_c_cpputest_strdup_location fuel mem c mc evs (None :: bl) p file line =
  FOk
  (Null, mem, t_tick c, cw 32 true (mc + 1), (evs ++ t_tick_evs c) ++ [CMalloc (Z.of_nat (length s) + 1) 0],
  bl).
Proof. exact strdup_refused. Qed.
Print Assumptions C15_strdup_refused.

Theorem C15_strdup_copies_exactly_the_string :
  forall (fuel : nat) (mem : memory) (c mc : Z) (evs : list hcev) (b3 : list N) (bl : list (option (list N)))
  (p : ptr) (s r : list N) (file : ptr) (line : Z),
  CMemFacts.mem_ok mem ->
  c < I31 ->
  view mem p = s ++ 0%N :: r ->
  NN s ->
  (length s < fuel)%nat ->
  Z.of_nat (length (s ++ 0%N :: r)) < M64 ->
  length b3 = S (length s) ->
  src_c_cpputest_strdup_location fuel mem c mc evs (Some b3 :: bl) p file line =
  FOk
  (Ptr (length mem) 0, mem ++ [s ++ [0%N]], t_tick c, cw 32 true (mc + 1),
  (evs ++ t_tick_evs c) ++ [CMalloc (Z.of_nat (length s) + 1) 1], bl).
Proof. exact strdup_copies_exactly_the_string. Qed.
Print Assumptions C15_strdup_copies_exactly_the_string.

Theorem C15_strndup_spec :
  forall (fuel : nat) (mem : memory) (c mc : Z) (evs : list hcev) (b3 : list N) (bl : list (option (list N)))
  (p : ptr) (s r : list N) (n : Z) (file : ptr) (line : Z),
  CMemFacts.mem_ok mem ->
  c < I31 ->
  view mem p = s ++ 0%N :: r ->
  NN s ->
  (length s < fuel)%nat ->
  Z.of_nat (length (s ++ 0%N :: r)) < M64 ->
  0 <= n < M64 ->
  length b3 = S (Nat.min (length s) (Z.to_nat n)) ->
  src_c_cpputest_strndup_location fuel mem c mc evs (Some b3 :: bl) p n file line =
  FOk
  (Ptr (length mem) 0, mem ++ [firstn (Nat.min (length s) (Z.to_nat n)) s ++ [0%N]],
  t_tick c, cw 32 true (mc + 1),
  (evs ++ t_tick_evs c) ++ [CMalloc (Z.of_nat (Nat.min (length s) (Z.to_nat n)) + 1) 1], bl).
Proof. exact strndup_spec. Qed.
Print Assumptions C15_strndup_spec.

Theorem C15_strndup_size_no_wrap :
  forall (s r : list N) (n : Z),
  Z.of_nat (length (s ++ 0%N :: r)) < M64 ->
  0 <= n < M64 ->
  cw 64 false (Z.of_nat (Nat.min (length s) (Z.to_nat n)) + 1) = Z.of_nat (Nat.min (length s) (Z.to_nat n)) + 1 /\
  Z.of_nat (Nat.min (length s) (Z.to_nat n)) + 1 <= Z.of_nat (length (s ++ 0%N :: r)).
Proof. exact strndup_size_no_wrap. Qed.
Print Assumptions C15_strndup_size_no_wrap.

Theorem C15_calloc_overflows_iff :
  forall num size : Z, 0 <= num -> 0 <= size -> t_calloc_overflows num size = true <-> M64 <= num * size.
Proof. exact calloc_overflows_iff. Qed.
Print Assumptions C15_calloc_overflows_iff.

Theorem C15_calloc_overflow_refused :
  forall (fuel : nat) (mem : memory) (c mc : Z) (evs : list hcev) (blocks : list (option (list N)))
  (num size : Z) (file : ptr) (line : Z),
  0 <= num ->
  0 <= size < M64 ->
  M64 <= num * size ->
  src_c_cpputest_calloc_location fuel mem c mc evs blocks num size file line =
  FOk (Null, mem, c, mc, evs, blocks).
Proof. exact calloc_overflow_refused. Qed.
Print Assumptions C15_calloc_overflow_refused.

Theorem C15_calloc_spec :
  forall (fuel : nat) (mem : memory) (c mc : Z) (evs : list hcev) (o : option (list N))
  (bl : list (option (list N))) (num size : Z) (file : ptr) (line : Z),
  c < I31 ->
  0 <= num ->
  0 <= size < M64 ->
  num * size < M64 ->
  wf_ans (num * size) o ->
  src_c_cpputest_calloc_location fuel mem c mc evs (o :: bl) num size file line =
  FOk
  (t_ptr mem o, match o with
  | Some _ => mem ++ [repeat 0%N (Z.to_nat (num * size))]
  | None => mem
  end, t_tick c, cw 32 true (mc + 1), (evs ++ t_tick_evs c) ++ [CMalloc (num * size) (t_ans o)],
  bl).
Proof. exact calloc_spec. Qed.
Print Assumptions C15_calloc_spec.

Theorem C15_calloc_zero :
  forall (fuel : nat) (mem : memory) (c mc : Z) (evs : list hcev) (o : option (list N))
  (bl : list (option (list N))) (num size : Z) (file : ptr) (line : Z),
  c < I31 ->
  0 <= num ->
  0 <= size < M64 ->
  num = 0 \/ size = 0 ->
  wf_ans 0 o ->
  src_c_cpputest_calloc_location fuel mem c mc evs (o :: bl) num size file line =
  FOk
  (t_ptr mem o, match o with
  | Some _ => mem ++ [[]]
  | None => mem
  end, t_tick c, cw 32 true (mc + 1), (evs ++ t_tick_evs c) ++ [CMalloc 0 (t_ans o)], bl).
Proof. exact calloc_zero. Qed.
Print Assumptions C15_calloc_zero.

Theorem C15_link_C15_c_tick :
  forall s : cst,
  c_tick s =
  (let s1 := {| c_counter := t_tick (c_counter s); c_orig := c_orig s; c_cur := c_cur s |} in
  if t_fires (c_counter s) then c_set_oom s1 else s1).
Proof. exact link_C15_c_tick. Qed.
Print Assumptions C15_link_C15_c_tick.

Theorem C15_link_C05_calloc_guard :
  forall num size : N,
  negb (size =? 0)%N && ((C05_Model.W - 1) / size <? num)%N = t_calloc_overflows (Z.of_N num) (Z.of_N size).
Proof. exact link_C05_calloc_guard. Qed.
Print Assumptions C15_link_C05_calloc_guard.
