(* C13 -- allocation pairing for every sequence of buffer-management primitives executed by ANY number of objects whose lives
   interleave (C13_Pool.v): invariant "the log is well matched so far, the outstanding blocks are exactly the buffers the
   objects hold, and every object records the true size of its buffer". *)
From Coq Require Import NArith Arith Bool List Lia Permutation.
From CppUVerif Require Import C13_Alloc C13_Pool.
Import ListNotations.

Definition heldl (o : sobj) : list nat := match held o with Some n => [n] | None => [] end.
Definition okobj (o : sobj) : Prop := forall n, held o = Some n -> bsz o = n.
Definition pinv (p : pool) : Prop :=
  exists l, outstanding [] (rev (snd p)) = Some l /\ Permutation l (flat_map heldl (fst p)) /\ Forall okobj (fst p).

Lemma remove1_in n l : In n l -> exists l', remove1 n l = Some l' /\ Permutation l (n :: l').
Proof.
  induction l as [|x l IH]; intro H; [destruct H|]. cbn [remove1]. destruct (Nat.eqb x n) eqn:E.
  - apply Nat.eqb_eq in E. subst x. exists l. split; [reflexivity | apply Permutation_refl].
  - destruct H as [H|H]; [subst x; rewrite Nat.eqb_refl in E; discriminate E|].
    destruct (IH H) as [l' [R P]]. rewrite R. exists (x :: l'). split; [reflexivity|].
    apply perm_trans with (x :: n :: l'); [apply perm_skip; exact P | apply perm_swap].
Qed.
Lemma remove1_perm n l rest : Permutation l (n :: rest) -> exists l', remove1 n l = Some l' /\ Permutation l' rest.
Proof.
  intro P. assert (I : In n l) by (apply (Permutation_in n (Permutation_sym P)); left; reflexivity).
  destruct (remove1_in n l I) as [l' [R Q]]. exists l'. split; [exact R|].
  apply Permutation_cons_inv with n. apply perm_trans with l; [apply Permutation_sym; exact Q | exact P].
Qed.

Lemma out_snoc log e : forall live, outstanding live (log ++ [e]) =
  match outstanding live log with Some l => outstanding l [e] | None => None end.
Proof. intro live. apply outstanding_app. Qed.

(* one object inside an ambient set `rest` of blocks held by the others *)
Lemma amb_dealloc o log l rest : okobj o -> outstanding [] (rev log) = Some l -> Permutation l (heldl o ++ rest) ->
  exists l', outstanding [] (rev (snd (deallocateInternalBuffer (o, log)))) = Some l' /\ Permutation l' rest /\
             held (fst (deallocateInternalBuffer (o, log))) = None /\ okobj (fst (deallocateInternalBuffer (o, log))).
Proof.
  intros K H P. unfold deallocateInternalBuffer, heldl in *. destruct (held o) as [n|] eqn:E.
  - cbn [fst snd held rev]. destruct (remove1_perm n l rest P) as [l' [R Q]].
    exists l'. rewrite out_snoc, H. cbn [outstanding]. rewrite (K n E), R.
    split; [reflexivity|]. split; [exact Q|]. split; [reflexivity | intros m Hm; discriminate Hm].
  - cbn [fst snd]. exists l. split; [exact H|]. split; [exact P|]. split; [exact E | exact K].
Qed.
Lemma amb_fresh o log l rest size : outstanding [] (rev log) = Some l -> Permutation l rest -> held o = None ->
  exists l', outstanding [] (rev (EA size :: log)) = Some l' /\ Permutation l' (heldl {| held := Some size; bsz := size |} ++ rest) /\
             okobj {| held := Some size; bsz := size |}.
Proof.
  intros H P E. exists (size :: l). cbn [rev]. rewrite out_snoc, H. cbn [outstanding]. split; [reflexivity|].
  split; [unfold heldl; cbn [held app]; apply perm_skip; exact P | intros m Hm; cbn in *; congruence].
Qed.
Lemma amb_step o log l rest p : okobj o -> outstanding [] (rev log) = Some l -> Permutation l (heldl o ++ rest) ->
  exists l', outstanding [] (rev (snd (step (o, log) p))) = Some l' /\ Permutation l' (heldl (fst (step (o, log) p)) ++ rest) /\
             okobj (fst (step (o, log) p)).
Proof.
  intros K H P.
  assert (G : forall size, exists l', outstanding [] (rev (EA size :: snd (deallocateInternalBuffer (o, log)))) = Some l' /\
              Permutation l' (heldl {| held := Some size; bsz := size |} ++ rest) /\ okobj {| held := Some size; bsz := size |}).
  { intro size. destruct (amb_dealloc o log l rest K H P) as [l1 [H1 [P1 [E1 _]]]].
    exact (amb_fresh _ _ l1 rest size H1 P1 E1). }
  destruct p; cbn [step].
  - unfold setInternalBufferAsEmptyString. specialize (G 1%nat). destruct (deallocateInternalBuffer (o, log)) as [o1 log1]. exact G.
  - unfold copyBufferToNewInternalBuffer. specialize (G size). destruct (deallocateInternalBuffer (o, log)) as [o1 log1]. exact G.
  - unfold setInternalBufferToNewBuffer. specialize (G size). destruct (deallocateInternalBuffer (o, log)) as [o1 log1]. exact G.
  - (* the new block is requested first, then the old one released *)
    unfold allocThenSetInternalBufferTo.
    assert (H2 : outstanding [] (rev (EA size :: log)) = Some (size :: l)) by (cbn [rev]; rewrite out_snoc, H; reflexivity).
    assert (P2 : Permutation (size :: l) (heldl o ++ size :: rest)).
    { apply perm_trans with (size :: heldl o ++ rest); [apply perm_skip; exact P | apply Permutation_middle]. }
    destruct (amb_dealloc o (EA size :: log) (size :: l) (size :: rest) K H2 P2) as [l1 [H1 [P1 _]]].
    destruct (deallocateInternalBuffer (o, EA size :: log)) as [o1 log1]. cbn [fst snd] in *.
    exists l1. split; [exact H1|]. split; [unfold heldl; cbn [held app]; exact P1 | intros m Hm; cbn in *; congruence].
  - destruct (amb_dealloc o log l rest K H P) as [l1 [H1 [P1 [E1 K1]]]]. exists l1. split; [exact H1|].
    split; [unfold heldl; rewrite E1; exact P1 | exact K1].
Qed.

Lemma nth_split_upd (o' : sobj) : forall objs i o, nth_error objs i = Some o ->
  exists pre post, objs = pre ++ o :: post /\ upd_obj i o' objs = pre ++ o' :: post.
Proof.
  induction objs as [|x objs IH]; intros i o H; [destruct i; discriminate H|]. destruct i as [|i].
  - cbn in H. inversion H. subst x. exists [], objs. split; reflexivity.
  - cbn in H. destruct (IH i o H) as [pre [post [E U]]]. exists (x :: pre), post. cbn [upd_obj app]. rewrite <- E, U. split; reflexivity.
Qed.
Lemma pinv_step p ip : pinv p -> pinv (pstep p ip).
Proof.
  destruct p as [objs log]. intros [l [H [P F]]]. cbn [fst snd] in *. unfold pstep.
  destruct (nth_error objs (fst ip)) as [o|] eqn:N; [| exists l; split; [exact H | split; [exact P | exact F]]].
  destruct (nth_split_upd (fst (step (o, log) (snd ip))) objs (fst ip) o N) as [pre [post [E U]]].
  assert (Ko : okobj o /\ Forall okobj pre /\ Forall okobj post).
  { rewrite E in F. apply Forall_app in F. destruct F as [F1 F2]. inversion F2. subst. auto. }
  destruct Ko as [Ko [Fpre Fpost]].
  assert (P' : Permutation l (heldl o ++ flat_map heldl pre ++ flat_map heldl post)).
  { apply perm_trans with (flat_map heldl objs); [exact P|]. rewrite E, flat_map_app. cbn [flat_map].
    rewrite app_assoc. apply perm_trans with ((heldl o ++ flat_map heldl pre) ++ flat_map heldl post).
    - rewrite <- !app_assoc. apply Permutation_app_swap_app.
    - rewrite <- app_assoc. apply Permutation_refl. }
  destruct (amb_step o log l _ (snd ip) Ko H P') as [l' [H' [Q K]]].
  destruct (step (o, log) (snd ip)) as [o' log'] eqn:S. cbn [fst snd] in *.
  exists l'. cbn [fst snd]. split; [exact H'|]. split.
  - rewrite U, flat_map_app. cbn [flat_map]. apply perm_trans with (heldl o' ++ flat_map heldl pre ++ flat_map heldl post); [exact Q|].
    apply Permutation_app_swap_app.
  - rewrite U. apply Forall_app. split; [exact Fpre | constructor; [exact K | exact Fpost]].
Qed.
Lemma pinv_run ops : forall p, pinv p -> pinv (fold_left pstep ops p).
Proof. induction ops as [|x ops IH]; intros p I; [exact I|]. cbn [fold_left]. apply IH. apply pinv_step. exact I. Qed.
Lemma pinv_init n : pinv (repeat blank n, []).
Proof.
  exists []. cbn [fst snd rev outstanding]. split; [reflexivity|]. split.
  - induction n as [|n IH]; cbn; [apply perm_nil | exact IH].
  - induction n as [|n IH]; cbn; constructor; [intros m Hm; discriminate Hm | exact IH].
Qed.
Lemma destroy_ok os : forall log l rest, Forall okobj os -> outstanding [] (rev log) = Some l -> Permutation l (flat_map heldl os ++ rest) ->
  exists l', outstanding [] (rev (fold_left (fun lg o => snd (deallocateInternalBuffer (o, lg))) os log)) = Some l' /\ Permutation l' rest.
Proof.
  induction os as [|o os IH]; intros log l rest F H P; [exists l; split; [exact H | exact P]|].
  inversion F as [|? ? Ko Fos]. subst. cbn [fold_left flat_map] in *. rewrite <- app_assoc in P.
  destruct (amb_dealloc o log l _ Ko H P) as [l1 [H1 [P1 _]]]. exact (IH _ l1 rest Fos H1 P1).
Qed.

Theorem pool_pairing n ops : paired (pool_log n ops) = true.
Proof.
  unfold paired, pool_log, pool_run. rewrite paired_outstanding.
  destruct (pinv_run ops _ (pinv_init n)) as [l [H [P F]]].
  destruct (fold_left pstep ops (repeat blank n, [])) as [objs log]. cbn [fst snd] in *. unfold destroy_all.
  assert (P2 : Permutation l (flat_map heldl (rev objs) ++ [])).
  { rewrite app_nil_r. apply perm_trans with (flat_map heldl objs); [exact P|]. apply Permutation_flat_map. apply Permutation_rev. }
  assert (F2 : Forall okobj (rev objs)) by (apply Forall_rev; exact F).
  destruct (destroy_ok (rev objs) log l [] F2 H P2) as [l' [H' Q]]. rewrite H'.
  apply Permutation_sym, Permutation_nil in Q. subst l'. reflexivity.
Qed.

(* ---------------- padStringsToSameLength *)
Lemma pad_paired la lb : paired (pad_log la lb) = true.
Proof. apply pool_pairing. Qed.
Lemma pad_wrong_refuted : ~ (forall la lb, paired (pad_log_wrong la lb) = true).
Proof. intro H. specialize (H 1%nat 3%nat). vm_compute in H. discriminate H. Qed.
(* the wrong variant goes unnoticed exactly when nothing is padded *)
Lemma pad_wrong_same_length la : paired (pad_log_wrong la la) = true.
Proof. unfold pad_log_wrong. rewrite Nat.eqb_refl. unfold paired. cbn [paired_from remove1]. rewrite Nat.eqb_refl. cbn [paired_from remove1]. rewrite Nat.eqb_refl. reflexivity. Qed.
(* what the modelled log is, on an example: "ab" and "wxyz" padded *)
Example pad_log_2_4 : pad_log 2 4 = [EA 3; EA 5; EA 3; EA 3; EA 5; EF 3; EF 3; EA 5; EF 5; EF 3; EF 5; EF 5].
Proof. reflexivity. Qed.
