(* C16 -- from the callback order of the registry to the written files, and the files against the property. *)
From Coq Require Import NArith Bool List Lia Arith.
From Coq Require String.
Import String.StringSyntax.
From CppUVerif Require Import lib.Str gen.Gen_C16 C16_Events C16_Model C16_Escape C16_Parse.
Import ListNotations.
Local Open Scope N_scope.

(* ================= the registry loop visits the segments one after the other ================= *)
Definition seg_events (g : list test) : list ev :=
  match g with t :: _ => EGroupStart t :: flat_map test_events g ++ [EGroupEnd] | [] => [] end.

Lemma segments_head n rest : exists g gs, segments (n :: rest) = (n :: g) :: gs.
Proof.
  cbn [segments]. destruct (segments rest) as [|[|m g] gs].
  - exists [], []. reflexivity.
  - exists [], []. reflexivity.
  - destruct (bytes_eqb (t_group n) (t_group m)); eauto.
Qed.
Lemma reg_loop_flag t rest : reg_loop true (t :: rest) = EGroupStart t :: reg_loop false (t :: rest).
Proof. reflexivity. Qed.
Lemma reg_loop_segments ts : reg_loop true ts = flat_map seg_events (segments ts).
Proof.
  induction ts as [|t rest IH]; [reflexivity|].
  destruct rest as [|n rest'].
  - cbn. rewrite !app_nil_r. reflexivity.
  - destruct (segments_head n rest') as [g [gs Eg]].
    remember (n :: rest') as r eqn:Er.
    cbn [segments]. rewrite Eg in *.
    assert (IH' : reg_loop false r = flat_map test_events (n :: g) ++ [EGroupEnd] ++ flat_map seg_events gs).
    { rewrite Er in *. rewrite reg_loop_flag in IH. remember (reg_loop false (n :: rest')) as X eqn:EX.
      cbn [flat_map seg_events app] in IH. injection IH as IH. rewrite IH. cbn [flat_map]. rewrite <- !app_assoc. reflexivity. }
    cbn [reg_loop]. replace (end_of_group t r) with (negb (bytes_eqb (t_group t) (t_group n))) by (rewrite Er; reflexivity).
    destruct (bytes_eqb (t_group t) (t_group n)); cbn [negb].
    + rewrite IH'. cbn [flat_map seg_events app]. rewrite <- !app_assoc. reflexivity.
    + rewrite IH. cbn [flat_map seg_events app]. rewrite !app_nil_r, <- !app_assoc. reflexivity.
Qed.

(* every segment is non-empty and its tests carry the same group name *)
Definition same_group (g : list test) : Prop := Forall (fun t => t_group t = group_name g) g.
Lemma segments_wf ts : Forall (fun g => g <> [] /\ same_group g) (segments ts).
Proof.
  induction ts as [|t rest IH]; [constructor|].
  cbn [segments]. destruct (segments rest) as [|[|n g] gs] eqn:E.
  - repeat constructor. discriminate.
  - repeat constructor. discriminate.
  - inversion IH as [|? ? [_ Hs] Hr]; subst.
    destruct (bytes_eqb (t_group t) (t_group n)) eqn:Et.
    + constructor; [|exact Hr]. split; [discriminate|].
      apply bytes_eqb_eq in Et. constructor; [reflexivity|].
      unfold same_group in *. cbn [group_name] in *. rewrite Et. exact Hs.
    + constructor; [|exact IH]. split; [discriminate|]. constructor; [reflexivity | constructor].
Qed.
Lemma segments_concat ts : concat (segments ts) = ts.
Proof.
  induction ts as [|t rest IH]; [reflexivity|].
  cbn [segments]. destruct (segments rest) as [|[|n g] gs] eqn:E.
  - cbn in *. subst. reflexivity.
  - pose proof (segments_wf rest) as W. rewrite E in W. inversion W as [|? ? [Hne _] _]. contradiction.
  - destruct (bytes_eqb (t_group t) (t_group n)); cbn in *; rewrite IH; reflexivity.
Qed.

(* ================= the loop with the outside calls: same callbacks, same segments ================= *)
Fixpoint je_only (l : list jev) : list ev :=
  match l with [] => [] | JE e :: r => e :: je_only r | JOp _ :: r => je_only r end.
Lemma je_only_app a b : je_only (a ++ b) = je_only a ++ je_only b.
Proof. induction a as [|[e|o] a IH]; cbn [app je_only]; rewrite ?IH; reflexivity. Qed.
Lemma je_only_JE l : je_only (map JE l) = l.
Proof. induction l as [|e l IH]; cbn [map je_only]; rewrite ?IH; reflexivity. Qed.
Lemma je_only_JOp l : je_only (map JOp l) = [].
Proof. induction l as [|e l IH]; cbn [map je_only]; rewrite ?IH; reflexivity. Qed.
(* dropping the outside calls from the extended loop leaves the registry loop of C16_Events *)
Lemma oreg_loop_callbacks ts : forall b, je_only (oreg_loop b ts) = reg_loop b (map snd ts).
Proof.
  induction ts as [|[ops t] rest IH]; intro b; [reflexivity|].
  cbn [oreg_loop reg_loop map snd]. rewrite !je_only_app, je_only_JOp, je_only_JE. cbn [app].
  f_equal; [destruct b; reflexivity|]. f_equal.
  destruct (end_of_group t (map snd rest)); cbn [je_only]; rewrite IH; reflexivity.
Qed.

Lemma osegments_map ts : map (map snd) (osegments ts) = segments (map snd ts).
Proof.
  induction ts as [|t rest IH]; [reflexivity|].
  cbn [osegments map segments]. rewrite <- IH.
  destruct (osegments rest) as [|[|n g] gs]; cbn [map]; try reflexivity.
  destruct (bytes_eqb (t_group (snd t)) (t_group (snd n))); reflexivity.
Qed.

Definition otest_events (x : otest) : list jev := map JOp (fst x) ++ map JE (test_events (snd x)).
Definition oseg_events (g : list otest) : list jev :=
  match g with x :: _ => JE (EGroupStart (snd x)) :: flat_map otest_events g ++ [JE EGroupEnd] | [] => [] end.

Lemma osegments_head n rest : exists g gs, osegments (n :: rest) = (n :: g) :: gs.
Proof.
  cbn [osegments]. destruct (osegments rest) as [|[|m g] gs].
  - exists [], []. reflexivity.
  - exists [], []. reflexivity.
  - destruct (bytes_eqb (t_group (snd n)) (t_group (snd m))); eauto.
Qed.
Lemma oreg_loop_flag x rest : oreg_loop true (x :: rest) = JE (EGroupStart (snd x)) :: oreg_loop false (x :: rest).
Proof. destruct x. reflexivity. Qed.
Lemma oreg_loop_cons x rest :
  oreg_loop false (x :: rest) = otest_events x ++ (if end_of_group (snd x) (map snd rest) then JE EGroupEnd :: oreg_loop true rest else oreg_loop false rest).
Proof. destruct x as [ops t]. unfold otest_events. cbn [oreg_loop fst snd app]. rewrite <- app_assoc. reflexivity. Qed.
Lemma oreg_loop_segments ts : oreg_loop true ts = flat_map oseg_events (osegments ts).
Proof.
  induction ts as [|t rest IH]; [reflexivity|].
  rewrite oreg_loop_flag, oreg_loop_cons.
  destruct rest as [|n rest'].
  - cbn. rewrite !app_nil_r. reflexivity.
  - destruct (osegments_head n rest') as [g [gs Eg]].
    remember (n :: rest') as r eqn:Er.
    cbn [osegments]. rewrite Eg in *.
    assert (IH' : oreg_loop false r = flat_map otest_events (n :: g) ++ [JE EGroupEnd] ++ flat_map oseg_events gs).
    { rewrite Er in *. rewrite oreg_loop_flag in IH. remember (oreg_loop false (n :: rest')) as X eqn:EX.
      cbn [flat_map oseg_events app] in IH. injection IH as IH. rewrite IH. cbn [flat_map]. rewrite <- !app_assoc. reflexivity. }
    replace (end_of_group (snd t) (map snd r)) with (negb (bytes_eqb (t_group (snd t)) (t_group (snd n)))) by (rewrite Er; reflexivity).
    destruct (bytes_eqb (t_group (snd t)) (t_group (snd n))); cbn [negb].
    + rewrite IH'. cbn [flat_map oseg_events app]. rewrite <- !app_assoc. reflexivity.
    + rewrite IH. cbn [flat_map oseg_events app]. rewrite !app_nil_r, <- !app_assoc. reflexivity.
Qed.

Lemma osegments_wf ts : Forall (fun g => g <> [] /\ same_group (map snd g)) (osegments ts).
Proof.
  induction ts as [|t rest IH]; [constructor|].
  cbn [osegments]. destruct (osegments rest) as [|[|n g] gs] eqn:E.
  - repeat constructor. discriminate.
  - repeat constructor. discriminate.
  - inversion IH as [|? ? [_ Hs] Hr]; subst.
    destruct (bytes_eqb (t_group (snd t)) (t_group (snd n))) eqn:Et.
    + constructor; [|exact Hr]. split; [discriminate|].
      apply bytes_eqb_eq in Et. cbn [map]. constructor; [reflexivity|].
      unfold same_group in *. cbn [map group_name] in *. rewrite Et. exact Hs.
    + constructor; [|exact IH]. split; [discriminate|]. constructor; [reflexivity | constructor].
Qed.
Lemma osegments_concat ts : concat (osegments ts) = ts.
Proof.
  induction ts as [|t rest IH]; [reflexivity|].
  cbn [osegments]. destruct (osegments rest) as [|[|n g] gs] eqn:E.
  - cbn in *. subst. reflexivity.
  - pose proof (osegments_wf rest) as W. rewrite E in W. inversion W as [|? ? [Hne _] _]. contradiction.
  - destruct (bytes_eqb (t_group (snd t)) (t_group (snd n))); cbn in *; rewrite IH; reflexivity.
Qed.

(* the package after outside calls, and the names they were answered with *)
Lemma ops_pkg_app a : forall P b, ops_pkg P (a ++ b) = ops_pkg (ops_pkg P a) b.
Proof. induction a as [|[p|q] a IH]; intros P b; cbn [app ops_pkg]; auto. Qed.
Lemma ops_names_app a : forall P b, ops_names P (a ++ b) = ops_names P a ++ ops_names (ops_pkg P a) b.
Proof. induction a as [|[p|q] a IH]; intros P b; cbn [app ops_pkg ops_names]; rewrite ?IH; reflexivity. Qed.

(* ================= the writer's state after the callbacks of one segment ================= *)
Section WriterFacts.
Variable esc : bytes -> seg.
Notation jstep0 := (junit_step esc).
Notation jstepx := (jstep esc).

Definition jmk (NS : list jnode) (c f : N) (g o : bytes) (F : list (bytes * bytes)) (P : bytes) (Nm : list bytes) : jstate :=
  {| j_nodes := NS; j_testCount := c; j_failureCount := f; j_group := g; j_stdout := o; j_files := F; j_pkg := P; j_names := Nm |}.
Definition nmk (t : test) (fl : option (bytes * N * bytes)) (ch : N) : jnode :=
  {| n_name := t_name t; n_file := t_file t; n_line := t_line t; n_ignored := t_ignored t; n_failure := fl; n_checks := ch |}.
Definition or_first (a : option (bytes * N * bytes)) (b : option (bytes * N * bytes)) := match a with Some _ => a | None => b end.
Definition newfail (a b : option (bytes * N * bytes)) : N := match a, b with None, Some _ => 1 | _, _ => 0 end.

Lemma body_fold t b : forall NS c f g o F P Nm fl ch,
  fold_left jstep0 (fst (body_events t b)) (jmk (nmk t fl ch :: NS) c f g o F P Nm)
  = jmk (nmk t (or_first fl (first_failure b)) ch :: NS) c (f + newfail fl (first_failure b)) g (o ++ body_printed b) F P Nm.
Proof.
  induction b as [|s b IH]; intros NS c f g o F P Nm fl ch.
  - cbn [body_events fst fold_left first_failure body_printed]. rewrite app_nil_r.
    destruct fl; cbn [or_first newfail]; rewrite N.add_0_r; reflexivity.
  - destruct s as [x | fi l m | fi l m]; cbn [body_events].
    + destruct (body_events t b) as [e k] eqn:E. cbn [fst fold_left]. cbn [fst] in IH.
      change (jstep0 (jmk (nmk t fl ch :: NS) c f g o F P Nm) (EPrint x)) with (jmk (nmk t fl ch :: NS) c f g (o ++ x) F P Nm).
      rewrite IH. cbn [first_failure body_printed]. rewrite app_assoc. reflexivity.
    + destruct (body_events t b) as [e k] eqn:E. cbn [fst fold_left]. cbn [fst] in IH.
      destruct fl as [x|].
      * change (jstep0 (jmk (nmk t (Some x) ch :: NS) c f g o F P Nm) (EFailure t fi l m)) with (jmk (nmk t (Some x) ch :: NS) c f g o F P Nm).
        rewrite IH. cbn [first_failure body_printed or_first newfail]. reflexivity.
      * change (jstep0 (jmk (nmk t None ch :: NS) c f g o F P Nm) (EFailure t fi l m)) with (jmk (nmk t (Some (fi, l, m)) ch :: NS) c (f + 1) g o F P Nm).
        rewrite IH. cbn [first_failure body_printed or_first newfail]. rewrite N.add_0_r. reflexivity.
    + cbn [fst fold_left first_failure body_printed]. rewrite app_nil_r.
      destruct fl as [x|]; cbn [or_first newfail]; [rewrite N.add_0_r|]; reflexivity.
Qed.

Definition failed_n (t : test) : N := if test_failed t then 1 else 0.
Lemma test_fold t NS c f g o F P Nm :
  fold_left jstep0 (test_events t) (jmk NS c f g o F P Nm)
  = jmk (jnode_of t :: NS) (c + 1) (f + failed_n t) (t_group t) (o ++ test_printed t) F P Nm.
Proof.
  unfold test_events, jnode_of, failed_n, test_failed, test_failure, test_printed. destruct (t_ignored t) eqn:Ei.
  - cbn. rewrite Ei, app_nil_r, N.add_0_r. reflexivity.
  - destruct (body_events t (t_body t)) as [e k] eqn:E.
    cbn [fold_left]. rewrite fold_left_app.
    change (jstep0 (jmk NS c f g o F P Nm) (ETestStart t)) with (jmk (nmk t None 0 :: NS) (c + 1) f (t_group t) o F P Nm).
    pose proof (body_fold t (t_body t) NS (c + 1) f (t_group t) o F P Nm None 0) as X. rewrite E in X. cbn [fst] in X. rewrite X.
    cbn [fold_left or_first newfail snd]. unfold nmk. cbn. rewrite Ei.
    destruct (first_failure (t_body t)); reflexivity.
Qed.

(* outside calls: setPackageName stores, createFileName answers from the stored package; nothing else moves *)
Lemma fold_JE l : forall st, fold_left jstepx (map JE l) st = fold_left jstep0 l st.
Proof. induction l as [|e l IH]; intro st; [reflexivity|]. cbn [map fold_left jstep]. apply IH. Qed.
Lemma op_fold ops : forall NS c f g o F P Nm,
  fold_left jstepx (map JOp ops) (jmk NS c f g o F P Nm) = jmk NS c f g o F (ops_pkg P ops) (rev (ops_names P ops) ++ Nm).
Proof.
  induction ops as [|[p|q] ops IH]; intros NS c f g o F P Nm; cbn [map fold_left].
  - reflexivity.
  - change (jstepx (jmk NS c f g o F P Nm) (JOp (OSetPkg p))) with (jmk NS c f g o F p Nm). rewrite IH. reflexivity.
  - change (jstepx (jmk NS c f g o F P Nm) (JOp (OFileName q))) with (jmk NS c f g o F P (createFileName P q :: Nm)).
    rewrite IH, createFileName_spec. cbn [ops_pkg ops_names rev]. rewrite <- app_assoc. reflexivity.
Qed.
Lemma otest_fold x NS c f g o F P Nm :
  fold_left jstepx (otest_events x) (jmk NS c f g o F P Nm)
  = jmk (jnode_of (snd x) :: NS) (c + 1) (f + failed_n (snd x)) (t_group (snd x)) (o ++ test_printed (snd x)) F
        (ops_pkg P (fst x)) (rev (ops_names P (fst x)) ++ Nm).
Proof. unfold otest_events. rewrite fold_left_app, op_fold, fold_JE, test_fold. reflexivity. Qed.

Definition last_gn (g : list test) (gn : bytes) : bytes := match rev g with t :: _ => t_group t | [] => gn end.
Lemma tests_fold g : forall NS c f gn o F P Nm,
  fold_left jstepx (flat_map otest_events g) (jmk NS c f gn o F P Nm)
  = jmk (rev (map jnode_of (map snd g)) ++ NS) (c + N.of_nat (length (map snd g)))
        (f + N.of_nat (length (filter test_failed (map snd g))))
        (last_gn (map snd g) gn) (o ++ tests_printed (map snd g)) F
        (ops_pkg P (flat_map fst g)) (rev (ops_names P (flat_map fst g)) ++ Nm).
Proof.
  induction g as [|x g IH]; intros NS c f gn o F P Nm.
  - cbn. rewrite app_nil_r, !N.add_0_r. reflexivity.
  - cbn [flat_map]. rewrite fold_left_app, otest_fold, IH.
    unfold tests_printed. cbn [flat_map map rev length filter]. unfold failed_n.
    f_equal.
    + rewrite <- app_assoc. reflexivity.
    + lia.
    + destruct (test_failed (snd x)); cbn [length]; lia.
    + unfold last_gn. cbn [rev]. destruct (rev (map snd g)) eqn:E; reflexivity.
    + rewrite app_assoc. reflexivity.
    + rewrite ops_pkg_app. reflexivity.
    + rewrite ops_names_app, rev_app_distr, app_assoc. reflexivity.
Qed.

Lemma last_group g gn : g <> [] -> same_group g -> last_gn g gn = group_name g.
Proof.
  intros Hne Hs. unfold last_gn. destruct (rev g) as [|t r] eqn:E.
  - apply (f_equal (@rev test)) in E. rewrite rev_involutive in E. contradiction.
  - unfold same_group in Hs. rewrite Forall_forall in Hs. apply Hs. apply in_rev. rewrite E. left. reflexivity.
Qed.

(* files written for a list of segments: `pkg` = package when the first of them starts, `printed` = text printed before;
   each file is named after, and written with, the package in force when its group ends *)
Definition group_pkg (pkg : bytes) (g : list otest) : bytes := ops_pkg pkg (flat_map fst g).
Fixpoint group_files (pkg : bytes) (gs : list (list otest)) (printed : bytes) : list (bytes * bytes) :=
  match gs with
  | [] => []
  | g :: gs' =>
      (createFileName (group_pkg pkg g) (group_name (map snd g)), write_group esc (group_pkg pkg g) (group_state (map snd g) printed []))
      :: group_files (group_pkg pkg g) gs' (printed ++ tests_printed (map snd g))
  end.
Definition groups_pkg (pkg : bytes) (gs : list (list otest)) : bytes := fold_left group_pkg gs pkg.
Fixpoint group_names (pkg : bytes) (gs : list (list otest)) : list bytes :=
  match gs with
  | [] => []
  | g :: gs' => ops_names pkg (flat_map fst g) ++ group_names (group_pkg pkg g) gs'
  end.

Lemma seg_fold g printed F P Nm : g <> [] -> same_group (map snd g) ->
  fold_left jstepx (oseg_events g) (jmk [] 0 0 [] printed F P Nm)
  = jmk [] 0 0 [] (printed ++ tests_printed (map snd g))
        ((createFileName (group_pkg P g) (group_name (map snd g)), write_group esc (group_pkg P g) (group_state (map snd g) printed [])) :: F)
        (group_pkg P g) (rev (ops_names P (flat_map fst g)) ++ Nm).
Proof.
  intros Hne Hs. destruct g as [|t g']; [contradiction|].
  unfold oseg_events.
  change (fold_left jstepx (JE (EGroupStart (snd t)) :: flat_map otest_events (t :: g') ++ [JE EGroupEnd]) (jmk [] 0 0 [] printed F P Nm))
    with (fold_left jstepx (flat_map otest_events (t :: g') ++ [JE EGroupEnd]) (jmk [] 0 0 [] printed F P Nm)).
  assert (Hne' : map snd (t :: g') <> []) by discriminate.
  rewrite fold_left_app, tests_fold, (last_group (map snd (t :: g')) [] Hne' Hs), app_nil_r, !N.add_0_l.
  reflexivity.
Qed.

Lemma segs_fold gs : forall printed F P Nm, Forall (fun g => g <> [] /\ same_group (map snd g)) gs ->
  fold_left jstepx (flat_map oseg_events gs) (jmk [] 0 0 [] printed F P Nm)
  = jmk [] 0 0 [] (printed ++ flat_map (fun g => tests_printed (map snd g)) gs) (rev (group_files P gs printed) ++ F)
        (groups_pkg P gs) (rev (group_names P gs) ++ Nm).
Proof.
  induction gs as [|g gs IH]; intros printed F P Nm H.
  - cbn. rewrite app_nil_r. reflexivity.
  - inversion H as [|? ? [Hne Hs] Hr]; subst.
    cbn [flat_map]. rewrite fold_left_app, seg_fold by assumption. rewrite IH by exact Hr.
    cbn [group_files group_names groups_pkg fold_left rev]. rewrite rev_app_distr, <- !app_assoc. reflexivity.
Qed.

(* all outside calls of a run in call order answer as if nothing but setPackageName happened in between *)
Lemma group_names_flat gs : forall P post,
  group_names P gs ++ ops_names (groups_pkg P gs) post = ops_names P (flat_map fst (concat gs) ++ post).
Proof.
  induction gs as [|g gs IH]; intros P post; [reflexivity|].
  cbn [group_names groups_pkg fold_left concat]. rewrite flat_map_app, <- !app_assoc, ops_names_app. f_equal. apply IH.
Qed.

Theorem run_with_files ts post :
  run_with esc ts post = (group_files [] (osegments ts) [], ops_names [] (flat_map fst ts ++ post)).
Proof.
  unfold run_with, jevents_of. rewrite fold_left_app, oreg_loop_segments.
  change j_init with (jmk [] 0 0 [] [] [] [] []). rewrite segs_fold by apply osegments_wf.
  rewrite op_fold. cbn [j_files j_names jmk]. rewrite !app_nil_r, rev_app_distr, !rev_involutive.
  rewrite group_names_flat, osegments_concat. reflexivity.
Qed.
End WriterFacts.

(* ================= the written file parses to the erased tree ================= *)
Lemma digit_plain d : 48 <= d -> d <= 57 -> plainc d = true.
Proof.
  intros H1 H2. assert (Hc : d < 128) by lia.
  pose proof (forall_bytes (fun c => implb ((48 <=? c) && (c <=? 57)) (plainc c)) eq_refl d Hc) as X. cbv beta in X.
  apply N.leb_le in H1. apply N.leb_le in H2. rewrite H1, H2 in X. exact X.
Qed.
Lemma dec_go_plain fuel : forall n acc, forallb plainc acc = true -> forallb plainc (dec_go fuel n acc) = true.
Proof.
  induction fuel as [|f IH]; intros n acc H; [exact H|].
  cbn [dec_go].
  assert (Hd : forallb plainc ((48 + n mod 10) :: acc) = true).
  { cbn [forallb]. rewrite H, andb_true_r. assert (Hm : n mod 10 < 10) by (apply N.mod_lt; discriminate). revert Hm. generalize (n mod 10). intros m Hm. apply digit_plain; lia. }
  destruct (n / 10 =? 0); [exact Hd | apply IH; exact Hd].
Qed.
Lemma dec_plain n : forallb plainc (dec n) = true.
Proof. apply dec_go_plain. reflexivity. Qed.

Theorem parse_root n attrs kids : ptree_ok (PElem n attrs false kids) = true ->
  xml_parse (L_xml_header ++ [10] ++ print encodeXmlText (PElem n attrs false kids) ++ [10]) = Some (erase (PElem n attrs false kids)).
Proof.
  intro Hok. unfold xml_parse.
  assert (Ep : forall rest, strip_prolog (L_xml_header ++ rest) = Some rest) by reflexivity.
  rewrite Ep.
  cbn [ptree_ok] in Hok. apply andb_true_iff in Hok. destruct Hok as [Hok Hkids].
  apply andb_true_iff in Hok. destruct Hok as [Hok _]. apply andb_true_iff in Hok. destruct Hok as [Hn Ha].
  assert (Hk : Forall parses kids).
  { rewrite forallb_forall in Hkids. apply Forall_forall. intros x Hx. apply parses_all. auto. }
  destruct (name_ok_split _ Hn) as [c [r [En [Ec [Hr Hall]]]]].
  change ([10] ++ print encodeXmlText (PElem n attrs false kids) ++ [10])
    with (10 :: (print encodeXmlText (PElem n attrs false kids) ++ [10])).
  cbn [run_sm]. change (step init_pst 10) with (Some (mk [] None (MText [10] 0))).
  cbn [print].
  change (([60] ++ n ++ flat_map (attr_print encodeXmlText) attrs ++ [62] ++ flat_map (print encodeXmlText) kids ++ [60; 47] ++ n ++ [62]) ++ [10])
    with (60 :: ((n ++ flat_map (attr_print encodeXmlText) attrs ++ [62] ++ flat_map (print encodeXmlText) kids ++ [60; 47] ++ n ++ [62]) ++ [10])).
  cbn [run_sm]. change (step (mk [] None (MText [10] 0)) 60) with (Some (mk [] None MLt)).
  rewrite <- !app_assoc. rewrite run_sm_app.
  assert (E1 : run_sm (mk [] None MLt) n = Some (mk [] None (MOpenName (rev n)))).
  { rewrite En. cbn [run_sm].
    assert (E : step (mk [] None MLt) c = Some (mk [] None (MOpenName [c]))).
    { unfold step. cbn [p_mode p_stack p_root]. rewrite Ec. reflexivity. }
    rewrite E, open_name_chars by exact Hr. reflexivity. }
  rewrite E1, run_sm_app.
  destruct (attrs_all attrs [] None (MOpenName (rev n)) n []) as [m' [Hm' E2]].
  { right. split; [reflexivity|]. exists (rev n). split; [reflexivity | apply rev_involutive]. }
  { exact Ha. }
  { intros; reflexivity. }
  rewrite E2. rewrite app_nil_r in Hm'.
  change ([62] ++ flat_map (print encodeXmlText) kids ++ [60; 47] ++ n ++ [62] ++ [10])
    with (62 :: (flat_map (print encodeXmlText) kids ++ [60; 47] ++ n ++ [62] ++ [10])).
  cbn [run_sm]. rewrite (attrs_mode_gt [] None m' n _ Hm'). rewrite rev_involutive.
  rewrite run_sm_app.
  destruct (parses_kids kids Hk n (decA attrs) [] [] None [] 0%nat) as [b [Hb E3]]; [discriminate|].
  unfold frame in *. rewrite E3.
  change ([60; 47] ++ n ++ [62] ++ [10]) with (60 :: 47 :: (n ++ [62; 10])).
  cbn [run_sm]. rewrite open_lt. cbn [run_sm].
  assert (E4 : forall X, step (mk X None MLt) 47 = Some (mk X None (MCloseName []))) by reflexivity.
  rewrite E4, run_sm_app, close_name_chars by exact Hall. rewrite app_nil_r. cbn [run_sm].
  unfold step at 1. cbn [p_mode p_stack p_root]. cbn [classify N.eqb Pos.eqb]. rewrite rev_involutive.
  unfold close_elem. rewrite bytes_eqb_refl. cbn [add_node].
  reflexivity.
Qed.

(* ================= what the writer emits is within the parser's language ================= *)
Definition fail_ok (f : bytes * N * bytes) : bool := let '(file, _, msg) := f in oktext file && oktext msg.
Definition jnode_ok (n : jnode) : bool :=
  oktext (n_name n) && oktext (n_file n) && match n_failure n with Some f => fail_ok f | None => true end.
Definition jstate_ok (st : jstate) : bool := oktext (j_group st) && forallb jnode_ok (j_nodes st) && oktext (j_stdout st).

Lemma forallb_flat_map {A B} (f : B -> bool) (g : A -> list B) l :
  forallb f (flat_map g l) = forallb (fun x => forallb f (g x)) l.
Proof. induction l as [|x l IH]; [reflexivity|]. cbn. rewrite forallb_app, IH. reflexivity. Qed.

Lemma failure_ptree_ok f : fail_ok f = true -> ptree_ok (failure_ptree Esc f) = true.
Proof.
  destruct f as [[file line] msg]. cbn [fail_ok]. intro H. apply andb_true_iff in H. destruct H as [H1 H2].
  cbn [failure_ptree ptree_ok attrs_ok forallb seg_ok tseg_ok existsb fst].
  rewrite H1, H2, dec_plain. reflexivity.
Qed.

Lemma testcase_ptrees_ok pkg group n : oktext pkg = true -> oktext group = true -> jnode_ok n = true ->
  forallb ptree_ok (testcase_ptrees Esc pkg group n) = true.
Proof.
  intros Hp Hg Hn. unfold jnode_ok in Hn. apply andb_true_iff in Hn. destruct Hn as [Hn Hf].
  apply andb_true_iff in Hn. destruct Hn as [Hname Hfile].
  unfold testcase_ptrees.
  assert (Hk : forallb ptree_ok (nl :: match n_failure n with
                                       | Some f => [failure_ptree Esc f; nl]
                                       | None => if n_ignored n then [PElem L_skipped [] true []; nl] else []
                                       end) = true).
  { destruct (n_failure n) as [f|].
    - cbn [forallb]. rewrite (failure_ptree_ok f Hf). reflexivity.
    - destruct (n_ignored n); reflexivity. }
  remember (nl :: match n_failure n with
                   | Some f => [failure_ptree Esc f; nl]
                   | None => if n_ignored n then [PElem L_skipped [] true []; nl] else []
                   end) as kids eqn:Ek.
  cbn [forallb ptree_ok]. rewrite Hk.
  cbn [attrs_ok forallb seg_ok existsb fst]. rewrite Hp, Hg, Hname, Hfile, !dec_plain.
  destruct pkg; reflexivity.
Qed.

Theorem suite_ptree_ok pkg st : oktext pkg = true -> jstate_ok st = true -> ptree_ok (suite_ptree Esc pkg st) = true.
Proof.
  intros Hp H. unfold jstate_ok in H. apply andb_true_iff in H. destruct H as [H Ho].
  apply andb_true_iff in H. destruct H as [Hg Hn].
  unfold suite_ptree.
  assert (Hk : forallb ptree_ok
                 ([nl; PElem L_properties [] false [nl]; nl] ++
                  flat_map (testcase_ptrees Esc pkg (j_group st)) (rev (j_nodes st)) ++
                  [PElem L_system_out [] false [PText [Esc (j_stdout st)]]; nl; PElem L_system_err [] false []; nl]) = true).
  { rewrite !forallb_app. rewrite forallb_flat_map.
    assert (X : forallb (fun x => forallb ptree_ok (testcase_ptrees Esc pkg (j_group st) x)) (rev (j_nodes st)) = true).
    { apply forallb_forall. intros x Hx. apply testcase_ptrees_ok; try assumption.
      rewrite forallb_forall in Hn. apply Hn. apply in_rev. exact Hx. }
    rewrite X. cbn [forallb ptree_ok tseg_ok]. rewrite Ho. reflexivity. }
  remember ([nl; PElem L_properties [] false [nl]; nl] ++
                  flat_map (testcase_ptrees Esc pkg (j_group st)) (rev (j_nodes st)) ++
                  [PElem L_system_out [] false [PText [Esc (j_stdout st)]]; nl; PElem L_system_err [] false []; nl]) as kids eqn:Ek.
  cbn [ptree_ok]. rewrite Hk.
  cbn [attrs_ok forallb seg_ok existsb fst]. rewrite Hg, !dec_plain. reflexivity.
Qed.

Lemma oktext_app a b : oktext (a ++ b) = oktext a && oktext b.
Proof. apply forallb_app. Qed.

Lemma body_printed_ok b : forallb okstmt b = true -> oktext (body_printed b) = true.
Proof.
  induction b as [|s b IH]; intro H; [reflexivity|].
  cbn [forallb] in H. apply andb_true_iff in H. destruct H as [Hs Hb].
  destruct s; cbn [body_printed okstmt] in *; auto. rewrite oktext_app, Hs. auto.
Qed.
Lemma first_failure_ok b f : forallb okstmt b = true -> first_failure b = Some f -> fail_ok f = true.
Proof.
  induction b as [|s b IH]; intros H E; [discriminate E|].
  cbn [forallb] in H. apply andb_true_iff in H. destruct H as [Hs Hb].
  destruct s as [x|fi l m|fi l m]; cbn [first_failure okstmt] in *; auto;
    injection E as <-; cbn [fail_ok]; apply andb_true_iff in Hs; destruct Hs as [Hs Hm];
    apply andb_true_iff in Hs; destruct Hs as [Hf _]; rewrite Hf, Hm; reflexivity.
Qed.
Lemma jnode_of_ok t : oktest t = true -> jnode_ok (jnode_of t) = true /\ oktext (test_printed t) = true /\ oktext (t_group t) = true.
Proof.
  unfold oktest. rewrite !andb_true_iff. intros [[[[Hg Hn] Hf] Hl] Hb].
  unfold jnode_ok, jnode_of, test_failure, test_printed. cbn [n_name n_file n_failure]. rewrite Hn, Hf.
  destruct (t_ignored t).
  - auto.
  - split; [|split; [apply body_printed_ok; exact Hb | exact Hg]].
    destruct (first_failure (t_body t)) eqn:E; [|reflexivity]. apply (first_failure_ok _ _ Hb E).
Qed.
Lemma tests_printed_ok g : forallb oktest g = true -> oktext (tests_printed g) = true.
Proof.
  induction g as [|t g IH]; intro H; [reflexivity|].
  cbn [forallb] in H. apply andb_true_iff in H. destruct H as [Ht Hg].
  unfold tests_printed. cbn [flat_map]. rewrite oktext_app. destruct (jnode_of_ok t Ht) as [_ [-> _]]. apply IH. exact Hg.
Qed.
Lemma group_state_ok g printed F : forallb oktest g = true -> oktext printed = true -> jstate_ok (group_state g printed F) = true.
Proof.
  intros Hg Hp. unfold jstate_ok, group_state. cbn [j_group j_nodes j_stdout].
  rewrite oktext_app, Hp, (tests_printed_ok g Hg).
  assert (X : forallb jnode_ok (rev (map jnode_of g)) = true).
  { apply forallb_forall. intros x Hx. apply in_rev in Hx. apply in_map_iff in Hx. destruct Hx as [t [<- Ht]].
    rewrite forallb_forall in Hg. apply jnode_of_ok. auto. }
  rewrite X. destruct g as [|t g']; [reflexivity|]. cbn [group_name forallb] in *.
  apply andb_true_iff in Hg. destruct Hg as [Ht _]. destruct (jnode_of_ok t Ht) as [_ [_ ->]]. reflexivity.
Qed.

(* the round trip: the file of a group, parsed, is tree_of *)
Theorem group_roundtrip pkg g printed : oktext pkg = true -> forallb oktest g = true -> oktext printed = true ->
  xml_parse (write_group Esc pkg (group_state g printed [])) = Some (tree_of pkg g printed).
Proof.
  intros Hp Hg Hpr. unfold write_group, tree_of.
  pose proof (suite_ptree_ok pkg (group_state g printed []) Hp (group_state_ok g printed [] Hg Hpr)) as Hok.
  revert Hok. unfold suite_ptree at 1 2 3. intro Hok. apply parse_root. exact Hok.
Qed.

(* ================= the erased tree says what the property demands ================= *)
Local Arguments dec : simpl never.

Definition pelem_named (nm : bytes) (p : ptree) : bool := match p with PElem x _ _ _ => bytes_eqb x nm | PText _ => false end.
Lemma filter_flushK nm K acc : filter (is_elem nm) (flushK K acc) = filter (is_elem nm) K.
Proof. destruct acc; reflexivity. Qed.
Lemma elems_fold nm kids : forall K acc,
  filter (is_elem nm) (flushK (fst (fold_left (absorb erase) kids (K, acc))) (snd (fold_left (absorb erase) kids (K, acc))))
  = rev (map erase (filter (pelem_named nm) kids)) ++ filter (is_elem nm) K.
Proof.
  induction kids as [|p kids IH]; intros K acc.
  - cbn [fold_left fst snd filter map rev app]. apply filter_flushK.
  - cbn [fold_left]. destruct p as [x a sc ks | segs].
    + cbn [absorb fst snd]. rewrite IH. cbn [filter pelem_named].
      change (is_elem nm (erase (PElem x a sc ks))) with (bytes_eqb x nm).
      destruct (bytes_eqb x nm).
      * cbn [map rev]. rewrite filter_flushK, <- app_assoc. reflexivity.
      * rewrite filter_flushK. reflexivity.
    + cbn [absorb fst snd]. rewrite IH. reflexivity.
Qed.
Lemma filter_rev' {A} (f : A -> bool) l : filter f (rev l) = rev (filter f l).
Proof.
  induction l as [|x l IH]; [reflexivity|]. cbn [rev filter]. rewrite filter_app, IH. cbn [filter].
  destruct (f x); cbn [rev]; [reflexivity | apply app_nil_r].
Qed.
Lemma elems_named_erase nm kids : elems_named nm (erase_kids kids) = map erase (filter (pelem_named nm) kids).
Proof.
  unfold elems_named, erase_kids. rewrite filter_rev', elems_fold. cbn [filter]. rewrite app_nil_r. apply rev_involutive.
Qed.
Lemma erase_elem n a sc kids : erase (PElem n a sc kids) = Elem n (decA a) (erase_kids kids).
Proof. reflexivity. Qed.
Lemma text_of_single s : text_of (erase_kids [PText [Esc s]]) = s.
Proof.
  unfold erase_kids. cbn [fold_left absorb fst snd segs_dec flat_map seg_dec]. rewrite !app_nil_r.
  destruct s as [|c s]; [reflexivity|].
  unfold flushK. destruct (rev (c :: s)) eqn:E.
  - apply (f_equal (@rev N)) in E. rewrite rev_involutive in E. discriminate E.
  - rewrite <- E, rev_involutive. cbn. rewrite app_nil_r. reflexivity.
Qed.

Definition tc_elem (pkg group : bytes) (n : jnode) : ptree :=
  match testcase_ptrees Esc pkg group n with p :: _ => p | [] => nl end.
Lemma filter_testcases nm pkg group nodes :
  filter (pelem_named nm) (flat_map (testcase_ptrees Esc pkg group) nodes)
  = if bytes_eqb L_testcase nm then map (tc_elem pkg group) nodes else [].
Proof.
  induction nodes as [|n nodes IH].
  - destruct (bytes_eqb L_testcase nm); reflexivity.
  - cbn [flat_map]. rewrite filter_app, IH. unfold testcase_ptrees at 1. cbn [filter pelem_named nl].
    destruct (bytes_eqb L_testcase nm); reflexivity.
Qed.

Lemma test_failure_not_ignored t f : test_failure t = Some f -> t_ignored t = false.
Proof. unfold test_failure. destruct (t_ignored t); [discriminate | reflexivity]. Qed.

Lemma testcase_ok_erase pkg group t : testcase_ok t (erase (tc_elem pkg group (jnode_of t))) = true.
Proof.
  unfold tc_elem, testcase_ptrees. rewrite erase_elem. unfold jnode_of. cbn [n_name n_file n_line n_failure n_ignored n_checks].
  unfold testcase_ok.
  assert (E1 : forall cls asr, attr_is L_name (decA [(L_classname, cls); (L_name, [Esc (t_name t)]); (L_assertions, asr); (L_time, [Raw L_zero_time]);
                                               (L_file, [Esc (t_file t)]); (L_line, [Raw (dec (t_line t))])]) (t_name t) = true).
  { intros. unfold attr_is. cbn. rewrite app_nil_r. apply bytes_eqb_refl. }
  assert (E2 : forall cls asr, attr_is L_file (decA [(L_classname, cls); (L_name, [Esc (t_name t)]); (L_assertions, asr); (L_time, [Raw L_zero_time]);
                                               (L_file, [Esc (t_file t)]); (L_line, [Raw (dec (t_line t))])]) (t_file t) = true).
  { intros. unfold attr_is. cbn. rewrite app_nil_r. apply bytes_eqb_refl. }
  assert (E3 : forall cls asr, attr_is L_line (decA [(L_classname, cls); (L_name, [Esc (t_name t)]); (L_assertions, asr); (L_time, [Raw L_zero_time]);
                                               (L_file, [Esc (t_file t)]); (L_line, [Raw (dec (t_line t))])]) (dec (t_line t)) = true).
  { intros. unfold attr_is. cbn. rewrite app_nil_r. apply bytes_eqb_refl. }
  rewrite E1, E2, E3. cbn [andb].
  destruct (test_failure t) as [[[file line] msg]|] eqn:Ef.
  - rewrite (test_failure_not_ignored _ _ Ef). cbn. rewrite !app_nil_r.
    unfold attr_is. cbn. apply bytes_eqb_refl.
  - destruct (t_ignored t); reflexivity.
Qed.

Lemma all2_testcases pkg group g : all2 testcase_ok g (map erase (map (tc_elem pkg group) (map jnode_of g))) = true.
Proof.
  induction g as [|t g IH]; [reflexivity|]. cbn [map all2]. rewrite testcase_ok_erase. exact IH.
Qed.

Theorem suite_ok_tree pkg g printed : suite_ok g (printed ++ tests_printed g) (tests_printed g) (tree_of pkg g printed) = true.
Proof.
  unfold tree_of, suite_ptree. rewrite erase_elem.
  remember ([nl; PElem L_properties [] false [nl]; nl] ++
            flat_map (testcase_ptrees Esc pkg (j_group (group_state g printed []))) (rev (j_nodes (group_state g printed []))) ++
            [PElem L_system_out [] false [PText [Esc (j_stdout (group_state g printed []))]]; nl; PElem L_system_err [] false []; nl]) as kids eqn:Ek.
  unfold suite_ok.
  assert (A1 : forall a1 a2 a3 a5 a6 a7, attr_is L_name (decA [(L_errors, a1); (L_failures, a2); (L_hostname, a3); (L_name, [Esc (group_name g)]); (L_tests, a5); (L_time, a6); (L_timestamp, a7)]) (group_name g) = true).
  { intros. unfold attr_is. cbn. rewrite app_nil_r. apply bytes_eqb_refl. }
  assert (A2 : forall a1 a2 a3 a4 a6 a7 x, attr_is L_tests (decA [(L_errors, a1); (L_failures, a2); (L_hostname, a3); (L_name, a4); (L_tests, [Raw x]); (L_time, a6); (L_timestamp, a7)]) x = true).
  { intros. unfold attr_is. cbn. rewrite app_nil_r. apply bytes_eqb_refl. }
  assert (A3 : forall a1 a3 a4 a5 a6 a7 x, attr_is L_failures (decA [(L_errors, a1); (L_failures, [Raw x]); (L_hostname, a3); (L_name, a4); (L_tests, a5); (L_time, a6); (L_timestamp, a7)]) x = true).
  { intros. unfold attr_is. cbn. rewrite app_nil_r. apply bytes_eqb_refl. }
  cbn [group_state j_group j_testCount j_failureCount]. rewrite A1, A2, A3.
  replace (bytes_eqb L_testsuite L_testsuite) with true by reflexivity. cbn [andb].
  rewrite !elems_named_erase. subst kids. rewrite !filter_app, !filter_testcases.
  cbn [group_state j_nodes j_stdout j_group]. rewrite rev_involutive.
  replace (bytes_eqb L_testcase L_testcase) with true by reflexivity.
  replace (bytes_eqb L_testcase L_system_out) with false by reflexivity.
  cbn [filter pelem_named nl app map].
  replace (bytes_eqb L_properties L_testcase) with false by reflexivity.
  replace (bytes_eqb L_system_out L_testcase) with false by reflexivity.
  replace (bytes_eqb L_system_err L_testcase) with false by reflexivity.
  replace (bytes_eqb L_properties L_system_out) with false by reflexivity.
  replace (bytes_eqb L_system_out L_system_out) with true by reflexivity.
  replace (bytes_eqb L_system_err L_system_out) with false by reflexivity.
  cbn [app map]. rewrite app_nil_r, all2_testcases. rewrite erase_elem, text_of_single, bytes_eqb_refl. reflexivity.
Qed.

(* ================= spec ================= *)
Lemma ops_expect_names ops : forall P rest, ops_expect P ops (ops_names P ops ++ rest) = Some (ops_pkg P ops, rest).
Proof.
  induction ops as [|[p|q] ops IH]; intros P rest; cbn [ops_expect ops_names ops_pkg app]; [reflexivity | apply IH |].
  rewrite bytes_eqb_refl. apply IH.
Qed.
Lemma ops_pkg_ok ops : forall P, oktext P = true -> forallb okop ops = true -> oktext (ops_pkg P ops) = true.
Proof.
  induction ops as [|[p|q] ops IH]; intros P HP H; cbn [ops_pkg]; [exact HP | |];
    cbn [forallb okop] in H; apply andb_true_iff in H; destruct H as [H1 H2]; auto.
Qed.

Definition okgroup (g : list otest) : Prop := forallb oktest (map snd g) = true /\ forallb okop (flat_map fst g) = true.
Lemma okgroup_of g : forallb okotest g = true -> okgroup g.
Proof.
  induction g as [|x g IH]; intro H; [split; reflexivity|].
  cbn [forallb] in H. apply andb_true_iff in H. destruct H as [Hx Hg]. destruct (IH Hg) as [I1 I2].
  unfold okotest in Hx. apply andb_true_iff in Hx. destruct Hx as [Ho Ht].
  split; cbn [map flat_map forallb]; [rewrite Ht; exact I1 | rewrite forallb_app, Ho; exact I2].
Qed.
Lemma group_pkg_ok P g : oktext P = true -> okgroup g -> oktext (group_pkg P g) = true.
Proof. intros HP [_ H]. apply ops_pkg_ok; assumption. Qed.

Lemma spec_groups_files gs : forall pkg printed post rest,
  oktext pkg = true -> Forall okgroup gs -> oktext printed = true ->
  spec_groups pkg gs post printed (group_files Esc pkg gs printed) (group_names pkg gs ++ ops_names (groups_pkg pkg gs) post ++ rest)
  = match rest with [] => true | _ => false end.
Proof.
  induction gs as [|g gs IH]; intros pkg printed post rest Hp Hg Hpr.
  - cbn [spec_groups group_files group_names groups_pkg fold_left app]. rewrite ops_expect_names. reflexivity.
  - inversion Hg as [|? ? Hg1 Hg2]; subst. pose proof (group_pkg_ok pkg g Hp Hg1) as Hp'. destruct Hg1 as [Hg1 Ho1].
    cbn [group_files spec_groups group_names groups_pkg fold_left]. rewrite <- app_assoc, ops_expect_names.
    fold (group_pkg pkg g). rewrite createFileName_spec, bytes_eqb_refl.
    rewrite (group_roundtrip (group_pkg pkg g) (map snd g) printed Hp' Hg1 Hpr), suite_ok_tree. cbn [andb].
    apply IH; try assumption. rewrite oktext_app, Hpr. apply tests_printed_ok. exact Hg1.
Qed.

Lemma segments_okgroup ts : forallb okotest ts = true -> Forall okgroup (osegments ts).
Proof.
  intro H. rewrite <- (osegments_concat ts) in H. revert H. generalize (osegments ts). intro gs.
  induction gs as [|g gs IH]; intro H; [constructor|].
  cbn [concat] in H. rewrite forallb_app in H. apply andb_true_iff in H. destruct H. constructor; [apply okgroup_of|]; auto.
Qed.

(* the files of a run, one per segment, each named after the package in force when the group ended and parsing to tree_of *)
Fixpoint trees_of (pkg : bytes) (gs : list (list otest)) (printed : bytes) : list (bytes * option node) :=
  match gs with
  | [] => []
  | g :: gs' =>
      (expected_filename (group_pkg pkg g) (group_name (map snd g)), Some (tree_of (group_pkg pkg g) (map snd g) printed))
      :: trees_of (group_pkg pkg g) gs' (printed ++ tests_printed (map snd g))
  end.
Lemma roundtrip_files gs : forall pkg printed,
  oktext pkg = true -> Forall okgroup gs -> oktext printed = true ->
  map (fun f => (fst f, xml_parse (snd f))) (group_files Esc pkg gs printed) = trees_of pkg gs printed.
Proof.
  induction gs as [|g gs IH]; intros pkg printed Hp Hg Hpr; [reflexivity|].
  inversion Hg as [|? ? Hg1 Hg2]; subst. pose proof (group_pkg_ok pkg g Hp Hg1) as Hp'. destruct Hg1 as [Hg1 Ho1].
  cbn [group_files trees_of map fst snd]. rewrite createFileName_spec, (group_roundtrip (group_pkg pkg g) (map snd g) printed Hp' Hg1 Hpr).
  f_equal. apply IH; try assumption. rewrite oktext_app, Hpr. apply tests_printed_ok. exact Hg1.
Qed.
(* the package "at the time": the latest setPackageName wins, createFileName calls change nothing *)
Definition is_set (o : op) : bool := match o with OSetPkg _ => true | OFileName _ => false end.
Lemma ops_pkg_no_set ops : forall P, existsb is_set ops = false -> ops_pkg P ops = P.
Proof.
  induction ops as [|[p|q] ops IH]; intros P H; cbn [ops_pkg]; [reflexivity | discriminate H | apply IH; exact H].
Qed.
Lemma ops_pkg_latest before p after P : existsb is_set after = false -> ops_pkg P (before ++ OSetPkg p :: after) = p.
Proof. intro H. rewrite ops_pkg_app. cbn [ops_pkg]. apply ops_pkg_no_set. exact H. Qed.
(* a group written with package p: a later group's file carries the package of ITS time, not p (two groups, package changed between) *)
Lemma filename_follows_package g1 g2 P :
  map fst (trees_of P [g1; g2] []) =
  [expected_filename (group_pkg P g1) (group_name (map snd g1)); expected_filename (group_pkg (group_pkg P g1) g2) (group_name (map snd g2))].
Proof. reflexivity. Qed.

(* the parser does reject what the unrepaired writer produced: a raw '<', or a '&' that starts no reference, inside a value *)
Lemma value_rejects_lt S R nm A an q acc cr rest : q <> 60 -> run_sm (mk S R (MAttrVal nm A an q acc cr)) (60 :: rest) = None.
Proof.
  intro Hq. cbn [run_sm]. unfold step. cbn [p_mode p_stack p_root]. destruct (N.eqb_spec 60 q); [congruence | reflexivity].
Qed.
Lemma mismatched_close_rejected S R nm rest :
  match S with (fn, _, _) :: _ => fn <> nm | [] => True end ->
  run_sm (mk S R (MCloseName (rev nm))) (62 :: rest) = None.
Proof.
  intro H. cbn [run_sm]. unfold step. cbn [p_mode p_stack p_root]. cbn [classify N.eqb Pos.eqb]. rewrite rev_involutive.
  unfold close_elem. destruct S as [|[[fn fa] K] S']; [reflexivity|].
  destruct (bytes_eqb fn nm) eqn:E; [|reflexivity]. apply bytes_eqb_eq in E. contradiction.
Qed.

