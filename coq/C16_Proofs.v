(* C16 -- from the callback order of the registry to the written files, and the files against the property. *)
From Coq Require Import NArith Bool List Lia Arith.
From CppUVerif Require Import lib.Str gen.Gen_C16 C16_Events C16_Model C16_Escape C16_Parse.
Import ListNotations.
Local Open Scope N_scope.

(* ================= the registry loop visits the segments one after the other ================= *)
Definition seg_events (g : list test) : list ev :=
  match g with t :: _ => EGroupStart t :: flat_map test_events g ++ [EGroupEnd] | [] => [] end.

Lemma segments_head n rest : exists g gs, segments (n :: rest) = (n :: g) :: gs.
Proof.
  cbn [segments]. destruct (segments rest) as [|[|m g] gs].
  - exists [], []. reflexivity.
  - exists [], []. reflexivity.
  - destruct (bytes_eqb (t_group n) (t_group m)); eauto.
Qed.
Lemma reg_loop_flag t rest : reg_loop true (t :: rest) = EGroupStart t :: reg_loop false (t :: rest).
Proof. reflexivity. Qed.
Lemma reg_loop_segments ts : reg_loop true ts = flat_map seg_events (segments ts).
Proof.
  induction ts as [|t rest IH]; [reflexivity|].
  destruct rest as [|n rest'].
  - cbn. rewrite !app_nil_r. reflexivity.
  - destruct (segments_head n rest') as [g [gs Eg]].
    remember (n :: rest') as r eqn:Er.
    cbn [segments]. rewrite Eg in *.
    assert (IH' : reg_loop false r = flat_map test_events (n :: g) ++ [EGroupEnd] ++ flat_map seg_events gs).
    { rewrite Er in *. rewrite reg_loop_flag in IH. remember (reg_loop false (n :: rest')) as X eqn:EX.
      cbn [flat_map seg_events app] in IH. injection IH as IH. rewrite IH. cbn [flat_map]. rewrite <- !app_assoc. reflexivity. }
    cbn [reg_loop]. replace (end_of_group t r) with (negb (bytes_eqb (t_group t) (t_group n))) by (rewrite Er; reflexivity).
    destruct (bytes_eqb (t_group t) (t_group n)); cbn [negb].
    + rewrite IH'. cbn [flat_map seg_events app]. rewrite <- !app_assoc. reflexivity.
    + rewrite IH. cbn [flat_map seg_events app]. rewrite !app_nil_r, <- !app_assoc. reflexivity.
Qed.

(* every segment is non-empty and its tests carry the same group name *)
Definition same_group (g : list test) : Prop := Forall (fun t => t_group t = group_name g) g.
Lemma segments_wf ts : Forall (fun g => g <> [] /\ same_group g) (segments ts).
Proof.
  induction ts as [|t rest IH]; [constructor|].
  cbn [segments]. destruct (segments rest) as [|[|n g] gs] eqn:E.
  - repeat constructor. discriminate.
  - repeat constructor. discriminate.
  - inversion IH as [|? ? [_ Hs] Hr]; subst.
    destruct (bytes_eqb (t_group t) (t_group n)) eqn:Et.
    + constructor; [|exact Hr]. split; [discriminate|].
      apply bytes_eqb_eq in Et. constructor; [reflexivity|].
      unfold same_group in *. cbn [group_name] in *. rewrite Et. exact Hs.
    + constructor; [|exact IH]. split; [discriminate|]. constructor; [reflexivity | constructor].
Qed.
Lemma segments_concat ts : concat (segments ts) = ts.
Proof.
  induction ts as [|t rest IH]; [reflexivity|].
  cbn [segments]. destruct (segments rest) as [|[|n g] gs] eqn:E.
  - cbn in *. subst. reflexivity.
  - pose proof (segments_wf rest) as W. rewrite E in W. inversion W as [|? ? [Hne _] _]. contradiction.
  - destruct (bytes_eqb (t_group t) (t_group n)); cbn in *; rewrite IH; reflexivity.
Qed.

(* ================= the writer's state after the callbacks of one segment ================= *)
Section WriterFacts.
Variable esc : bytes -> seg.
Variable pkg : bytes.
Notation jstep := (junit_step esc pkg).

Definition jmk (NS : list jnode) (c f : N) (g o : bytes) (F : list (bytes * bytes)) : jstate :=
  {| j_nodes := NS; j_testCount := c; j_failureCount := f; j_group := g; j_stdout := o; j_files := F |}.
Definition nmk (t : test) (fl : option (bytes * N * bytes)) (ch : N) : jnode :=
  {| n_name := t_name t; n_file := t_file t; n_line := t_line t; n_ignored := t_ignored t; n_failure := fl; n_checks := ch |}.
Definition or_first (a : option (bytes * N * bytes)) (b : option (bytes * N * bytes)) := match a with Some _ => a | None => b end.
Definition newfail (a b : option (bytes * N * bytes)) : N := match a, b with None, Some _ => 1 | _, _ => 0 end.

Lemma body_fold t b : forall NS c f g o F fl ch,
  fold_left jstep (fst (body_events t b)) (jmk (nmk t fl ch :: NS) c f g o F)
  = jmk (nmk t (or_first fl (first_failure b)) ch :: NS) c (f + newfail fl (first_failure b)) g (o ++ body_printed b) F.
Proof.
  induction b as [|s b IH]; intros NS c f g o F fl ch.
  - cbn [body_events fst fold_left first_failure body_printed]. rewrite app_nil_r.
    destruct fl; cbn [or_first newfail]; rewrite N.add_0_r; reflexivity.
  - destruct s as [x | fi l m | fi l m]; cbn [body_events].
    + destruct (body_events t b) as [e k] eqn:E. cbn [fst fold_left]. cbn [fst] in IH.
      change (jstep (jmk (nmk t fl ch :: NS) c f g o F) (EPrint x)) with (jmk (nmk t fl ch :: NS) c f g (o ++ x) F).
      rewrite IH. cbn [first_failure body_printed]. rewrite app_assoc. reflexivity.
    + destruct (body_events t b) as [e k] eqn:E. cbn [fst fold_left]. cbn [fst] in IH.
      destruct fl as [x|].
      * change (jstep (jmk (nmk t (Some x) ch :: NS) c f g o F) (EFailure t fi l m)) with (jmk (nmk t (Some x) ch :: NS) c f g o F).
        rewrite IH. cbn [first_failure body_printed or_first newfail]. reflexivity.
      * change (jstep (jmk (nmk t None ch :: NS) c f g o F) (EFailure t fi l m)) with (jmk (nmk t (Some (fi, l, m)) ch :: NS) c (f + 1) g o F).
        rewrite IH. cbn [first_failure body_printed or_first newfail]. rewrite N.add_0_r. reflexivity.
    + cbn [fst fold_left first_failure body_printed]. rewrite app_nil_r.
      destruct fl as [x|]; cbn [or_first newfail]; [rewrite N.add_0_r|]; reflexivity.
Qed.

Definition failed_n (t : test) : N := if test_failed t then 1 else 0.
Lemma test_fold t NS c f g o F :
  fold_left jstep (test_events t) (jmk NS c f g o F)
  = jmk (jnode_of t :: NS) (c + 1) (f + failed_n t) (t_group t) (o ++ test_printed t) F.
Proof.
  unfold test_events, jnode_of, failed_n, test_failed, test_failure, test_printed. destruct (t_ignored t) eqn:Ei.
  - cbn. rewrite Ei, app_nil_r, N.add_0_r. reflexivity.
  - destruct (body_events t (t_body t)) as [e k] eqn:E.
    cbn [fold_left]. rewrite fold_left_app.
    change (jstep (jmk NS c f g o F) (ETestStart t)) with (jmk (nmk t None 0 :: NS) (c + 1) f (t_group t) o F).
    pose proof (body_fold t (t_body t) NS (c + 1) f (t_group t) o F None 0) as X. rewrite E in X. cbn [fst] in X. rewrite X.
    cbn [fold_left or_first newfail snd]. unfold nmk. cbn. rewrite Ei.
    destruct (first_failure (t_body t)); reflexivity.
Qed.

Definition last_gn (g : list test) (gn : bytes) : bytes := match rev g with t :: _ => t_group t | [] => gn end.
Lemma tests_fold g : forall NS c f gn o F,
  fold_left jstep (flat_map test_events g) (jmk NS c f gn o F)
  = jmk (rev (map jnode_of g) ++ NS) (c + N.of_nat (length g)) (f + N.of_nat (length (filter test_failed g)))
        (last_gn g gn) (o ++ tests_printed g) F.
Proof.
  induction g as [|t g IH]; intros NS c f gn o F.
  - cbn. rewrite app_nil_r, !N.add_0_r. reflexivity.
  - cbn [flat_map]. rewrite fold_left_app, test_fold, IH.
    unfold tests_printed. cbn [flat_map map rev length filter]. unfold failed_n.
    f_equal.
    + rewrite <- app_assoc. reflexivity.
    + lia.
    + destruct (test_failed t); cbn [length]; lia.
    + unfold last_gn. cbn [rev]. destruct (rev g) eqn:E; reflexivity.
    + rewrite app_assoc. reflexivity.
Qed.

Lemma last_group g gn : g <> [] -> same_group g -> last_gn g gn = group_name g.
Proof.
  intros Hne Hs. unfold last_gn. destruct (rev g) as [|t r] eqn:E.
  - apply (f_equal (@rev test)) in E. rewrite rev_involutive in E. contradiction.
  - unfold same_group in Hs. rewrite Forall_forall in Hs. apply Hs. apply in_rev. rewrite E. left. reflexivity.
Qed.

(* files written for a list of segments, `printed` = text printed before the first of them *)
Fixpoint group_files (gs : list (list test)) (printed : bytes) : list (bytes * bytes) :=
  match gs with
  | [] => []
  | g :: gs' => (createFileName pkg (group_name g), write_group esc pkg (group_state g printed [])) :: group_files gs' (printed ++ tests_printed g)
  end.

Lemma seg_fold g printed F : g <> [] -> same_group g ->
  fold_left jstep (seg_events g) (jmk [] 0 0 [] printed F)
  = jmk [] 0 0 [] (printed ++ tests_printed g) ((createFileName pkg (group_name g), write_group esc pkg (group_state g printed [])) :: F).
Proof.
  intros Hne Hs. destruct g as [|t g']; [contradiction|].
  unfold seg_events.
  change (fold_left jstep (EGroupStart t :: flat_map test_events (t :: g') ++ [EGroupEnd]) (jmk [] 0 0 [] printed F))
    with (fold_left jstep (flat_map test_events (t :: g') ++ [EGroupEnd]) (jmk [] 0 0 [] printed F)).
  rewrite fold_left_app, tests_fold, (last_group (t :: g') [] Hne Hs), app_nil_r, !N.add_0_l.
  reflexivity.
Qed.

Lemma segs_fold gs : forall printed F, Forall (fun g => g <> [] /\ same_group g) gs ->
  fold_left jstep (flat_map seg_events gs) (jmk [] 0 0 [] printed F)
  = jmk [] 0 0 [] (printed ++ flat_map tests_printed gs) (rev (group_files gs printed) ++ F).
Proof.
  induction gs as [|g gs IH]; intros printed F H.
  - cbn. rewrite app_nil_r. reflexivity.
  - inversion H as [|? ? [Hne Hs] Hr]; subst.
    cbn [flat_map]. rewrite fold_left_app, seg_fold by assumption. rewrite IH by exact Hr.
    cbn [group_files rev]. rewrite <- !app_assoc. reflexivity.
Qed.

Theorem run_with_files ts : run_with esc pkg ts = group_files (segments ts) [].
Proof.
  unfold run_with, events_of. rewrite reg_loop_segments.
  change j_init with (jmk [] 0 0 [] [] []). rewrite segs_fold by apply segments_wf.
  cbn [j_files jmk]. rewrite app_nil_r. apply rev_involutive.
Qed.
End WriterFacts.

(* ================= the written file parses to the erased tree ================= *)
Lemma digit_plain d : 48 <= d -> d <= 57 -> plainc d = true.
Proof.
  intros H1 H2. assert (Hc : d < 128) by lia.
  pose proof (forall_bytes (fun c => implb ((48 <=? c) && (c <=? 57)) (plainc c)) eq_refl d Hc) as X. cbv beta in X.
  apply N.leb_le in H1. apply N.leb_le in H2. rewrite H1, H2 in X. exact X.
Qed.
Lemma dec_go_plain fuel : forall n acc, forallb plainc acc = true -> forallb plainc (dec_go fuel n acc) = true.
Proof.
  induction fuel as [|f IH]; intros n acc H; [exact H|].
  cbn [dec_go].
  assert (Hd : forallb plainc ((48 + n mod 10) :: acc) = true).
  { cbn [forallb]. rewrite H, andb_true_r. assert (Hm : n mod 10 < 10) by (apply N.mod_lt; discriminate). revert Hm. generalize (n mod 10). intros m Hm. apply digit_plain; lia. }
  destruct (n / 10 =? 0); [exact Hd | apply IH; exact Hd].
Qed.
Lemma dec_plain n : forallb plainc (dec n) = true.
Proof. apply dec_go_plain. reflexivity. Qed.

Theorem parse_root n attrs kids : ptree_ok (PElem n attrs false kids) = true ->
  xml_parse (L_xml_header ++ [10] ++ print encodeXmlText (PElem n attrs false kids) ++ [10]) = Some (erase (PElem n attrs false kids)).
Proof.
  intro Hok. unfold xml_parse.
  assert (Ep : forall rest, strip_prolog (L_xml_header ++ rest) = Some rest) by reflexivity.
  rewrite Ep.
  cbn [ptree_ok] in Hok. apply andb_true_iff in Hok. destruct Hok as [Hok Hkids].
  apply andb_true_iff in Hok. destruct Hok as [Hok _]. apply andb_true_iff in Hok. destruct Hok as [Hn Ha].
  assert (Hk : Forall parses kids).
  { rewrite forallb_forall in Hkids. apply Forall_forall. intros x Hx. apply parses_all. auto. }
  destruct (name_ok_split _ Hn) as [c [r [En [Ec [Hr Hall]]]]].
  change ([10] ++ print encodeXmlText (PElem n attrs false kids) ++ [10])
    with (10 :: (print encodeXmlText (PElem n attrs false kids) ++ [10])).
  cbn [run_sm]. change (step init_pst 10) with (Some (mk [] None (MText [10] 0))).
  cbn [print].
  change (([60] ++ n ++ flat_map (attr_print encodeXmlText) attrs ++ [62] ++ flat_map (print encodeXmlText) kids ++ [60; 47] ++ n ++ [62]) ++ [10])
    with (60 :: ((n ++ flat_map (attr_print encodeXmlText) attrs ++ [62] ++ flat_map (print encodeXmlText) kids ++ [60; 47] ++ n ++ [62]) ++ [10])).
  cbn [run_sm]. change (step (mk [] None (MText [10] 0)) 60) with (Some (mk [] None MLt)).
  rewrite <- !app_assoc. rewrite run_sm_app.
  assert (E1 : run_sm (mk [] None MLt) n = Some (mk [] None (MOpenName (rev n)))).
  { rewrite En. cbn [run_sm].
    assert (E : step (mk [] None MLt) c = Some (mk [] None (MOpenName [c]))).
    { unfold step. cbn [p_mode p_stack p_root]. rewrite Ec. reflexivity. }
    rewrite E, open_name_chars by exact Hr. reflexivity. }
  rewrite E1, run_sm_app.
  destruct (attrs_all attrs [] None (MOpenName (rev n)) n []) as [m' [Hm' E2]].
  { right. split; [reflexivity|]. exists (rev n). split; [reflexivity | apply rev_involutive]. }
  { exact Ha. }
  { intros; reflexivity. }
  rewrite E2. rewrite app_nil_r in Hm'.
  change ([62] ++ flat_map (print encodeXmlText) kids ++ [60; 47] ++ n ++ [62] ++ [10])
    with (62 :: (flat_map (print encodeXmlText) kids ++ [60; 47] ++ n ++ [62] ++ [10])).
  cbn [run_sm]. rewrite (attrs_mode_gt [] None m' n _ Hm'). rewrite rev_involutive.
  rewrite run_sm_app.
  destruct (parses_kids kids Hk n (decA attrs) [] [] None [] 0%nat) as [b [Hb E3]]; [discriminate|].
  unfold frame in *. rewrite E3.
  change ([60; 47] ++ n ++ [62] ++ [10]) with (60 :: 47 :: (n ++ [62; 10])).
  cbn [run_sm]. rewrite open_lt. cbn [run_sm].
  assert (E4 : forall X, step (mk X None MLt) 47 = Some (mk X None (MCloseName []))) by reflexivity.
  rewrite E4, run_sm_app, close_name_chars by exact Hall. rewrite app_nil_r. cbn [run_sm].
  unfold step at 1. cbn [p_mode p_stack p_root]. cbn [classify N.eqb Pos.eqb]. rewrite rev_involutive.
  unfold close_elem. rewrite bytes_eqb_refl. cbn [add_node].
  reflexivity.
Qed.

(* ================= what the writer emits is within the parser's language ================= *)
Definition fail_ok (f : bytes * N * bytes) : bool := let '(file, _, msg) := f in oktext file && oktext msg.
Definition jnode_ok (n : jnode) : bool :=
  oktext (n_name n) && oktext (n_file n) && match n_failure n with Some f => fail_ok f | None => true end.
Definition jstate_ok (st : jstate) : bool := oktext (j_group st) && forallb jnode_ok (j_nodes st) && oktext (j_stdout st).

Lemma forallb_flat_map {A B} (f : B -> bool) (g : A -> list B) l :
  forallb f (flat_map g l) = forallb (fun x => forallb f (g x)) l.
Proof. induction l as [|x l IH]; [reflexivity|]. cbn. rewrite forallb_app, IH. reflexivity. Qed.

Lemma failure_ptree_ok f : fail_ok f = true -> ptree_ok (failure_ptree Esc f) = true.
Proof.
  destruct f as [[file line] msg]. cbn [fail_ok]. intro H. apply andb_true_iff in H. destruct H as [H1 H2].
  cbn [failure_ptree ptree_ok attrs_ok forallb seg_ok tseg_ok existsb fst].
  rewrite H1, H2, dec_plain. reflexivity.
Qed.

Lemma testcase_ptrees_ok pkg group n : oktext pkg = true -> oktext group = true -> jnode_ok n = true ->
  forallb ptree_ok (testcase_ptrees Esc pkg group n) = true.
Proof.
  intros Hp Hg Hn. unfold jnode_ok in Hn. apply andb_true_iff in Hn. destruct Hn as [Hn Hf].
  apply andb_true_iff in Hn. destruct Hn as [Hname Hfile].
  unfold testcase_ptrees.
  assert (Hk : forallb ptree_ok (nl :: match n_failure n with
                                       | Some f => [failure_ptree Esc f; nl]
                                       | None => if n_ignored n then [PElem L_skipped [] true []; nl] else []
                                       end) = true).
  { destruct (n_failure n) as [f|].
    - cbn [forallb]. rewrite (failure_ptree_ok f Hf). reflexivity.
    - destruct (n_ignored n); reflexivity. }
  remember (nl :: match n_failure n with
                   | Some f => [failure_ptree Esc f; nl]
                   | None => if n_ignored n then [PElem L_skipped [] true []; nl] else []
                   end) as kids eqn:Ek.
  cbn [forallb ptree_ok]. rewrite Hk.
  cbn [attrs_ok forallb seg_ok existsb fst]. rewrite Hp, Hg, Hname, Hfile, !dec_plain.
  destruct pkg; reflexivity.
Qed.

Theorem suite_ptree_ok pkg st : oktext pkg = true -> jstate_ok st = true -> ptree_ok (suite_ptree Esc pkg st) = true.
Proof.
  intros Hp H. unfold jstate_ok in H. apply andb_true_iff in H. destruct H as [H Ho].
  apply andb_true_iff in H. destruct H as [Hg Hn].
  unfold suite_ptree.
  assert (Hk : forallb ptree_ok
                 ([nl; PElem L_properties [] false [nl]; nl] ++
                  flat_map (testcase_ptrees Esc pkg (j_group st)) (rev (j_nodes st)) ++
                  [PElem L_system_out [] false [PText [Esc (j_stdout st)]]; nl; PElem L_system_err [] false []; nl]) = true).
  { rewrite !forallb_app. rewrite forallb_flat_map.
    assert (X : forallb (fun x => forallb ptree_ok (testcase_ptrees Esc pkg (j_group st) x)) (rev (j_nodes st)) = true).
    { apply forallb_forall. intros x Hx. apply testcase_ptrees_ok; try assumption.
      rewrite forallb_forall in Hn. apply Hn. apply in_rev. exact Hx. }
    rewrite X. cbn [forallb ptree_ok tseg_ok]. rewrite Ho. reflexivity. }
  remember ([nl; PElem L_properties [] false [nl]; nl] ++
                  flat_map (testcase_ptrees Esc pkg (j_group st)) (rev (j_nodes st)) ++
                  [PElem L_system_out [] false [PText [Esc (j_stdout st)]]; nl; PElem L_system_err [] false []; nl]) as kids eqn:Ek.
  cbn [ptree_ok]. rewrite Hk.
  cbn [attrs_ok forallb seg_ok existsb fst]. rewrite Hg, !dec_plain. reflexivity.
Qed.

Lemma oktext_app a b : oktext (a ++ b) = oktext a && oktext b.
Proof. apply forallb_app. Qed.

Lemma body_printed_ok b : forallb okstmt b = true -> oktext (body_printed b) = true.
Proof.
  induction b as [|s b IH]; intro H; [reflexivity|].
  cbn [forallb] in H. apply andb_true_iff in H. destruct H as [Hs Hb].
  destruct s; cbn [body_printed okstmt] in *; auto. rewrite oktext_app, Hs. auto.
Qed.
Lemma first_failure_ok b f : forallb okstmt b = true -> first_failure b = Some f -> fail_ok f = true.
Proof.
  induction b as [|s b IH]; intros H E; [discriminate E|].
  cbn [forallb] in H. apply andb_true_iff in H. destruct H as [Hs Hb].
  destruct s as [x|fi l m|fi l m]; cbn [first_failure okstmt] in *; auto;
    injection E as <-; cbn [fail_ok]; apply andb_true_iff in Hs; destruct Hs as [Hs Hm];
    apply andb_true_iff in Hs; destruct Hs as [Hf _]; rewrite Hf, Hm; reflexivity.
Qed.
Lemma jnode_of_ok t : oktest t = true -> jnode_ok (jnode_of t) = true /\ oktext (test_printed t) = true /\ oktext (t_group t) = true.
Proof.
  unfold oktest. rewrite !andb_true_iff. intros [[[[Hg Hn] Hf] Hl] Hb].
  unfold jnode_ok, jnode_of, test_failure, test_printed. cbn [n_name n_file n_failure]. rewrite Hn, Hf.
  destruct (t_ignored t).
  - auto.
  - split; [|split; [apply body_printed_ok; exact Hb | exact Hg]].
    destruct (first_failure (t_body t)) eqn:E; [|reflexivity]. apply (first_failure_ok _ _ Hb E).
Qed.
Lemma tests_printed_ok g : forallb oktest g = true -> oktext (tests_printed g) = true.
Proof.
  induction g as [|t g IH]; intro H; [reflexivity|].
  cbn [forallb] in H. apply andb_true_iff in H. destruct H as [Ht Hg].
  unfold tests_printed. cbn [flat_map]. rewrite oktext_app. destruct (jnode_of_ok t Ht) as [_ [-> _]]. apply IH. exact Hg.
Qed.
Lemma group_state_ok g printed F : forallb oktest g = true -> oktext printed = true -> jstate_ok (group_state g printed F) = true.
Proof.
  intros Hg Hp. unfold jstate_ok, group_state. cbn [j_group j_nodes j_stdout].
  rewrite oktext_app, Hp, (tests_printed_ok g Hg).
  assert (X : forallb jnode_ok (rev (map jnode_of g)) = true).
  { apply forallb_forall. intros x Hx. apply in_rev in Hx. apply in_map_iff in Hx. destruct Hx as [t [<- Ht]].
    rewrite forallb_forall in Hg. apply jnode_of_ok. auto. }
  rewrite X. destruct g as [|t g']; [reflexivity|]. cbn [group_name forallb] in *.
  apply andb_true_iff in Hg. destruct Hg as [Ht _]. destruct (jnode_of_ok t Ht) as [_ [_ ->]]. reflexivity.
Qed.

(* the round trip: the file of a group, parsed, is tree_of *)
Theorem group_roundtrip pkg g printed : oktext pkg = true -> forallb oktest g = true -> oktext printed = true ->
  xml_parse (write_group Esc pkg (group_state g printed [])) = Some (tree_of pkg g printed).
Proof.
  intros Hp Hg Hpr. unfold write_group, tree_of.
  pose proof (suite_ptree_ok pkg (group_state g printed []) Hp (group_state_ok g printed [] Hg Hpr)) as Hok.
  revert Hok. unfold suite_ptree at 1 2 3. intro Hok. apply parse_root. exact Hok.
Qed.

(* ================= the erased tree says what the property demands ================= *)
Local Arguments dec : simpl never.

Definition pelem_named (nm : bytes) (p : ptree) : bool := match p with PElem x _ _ _ => bytes_eqb x nm | PText _ => false end.
Lemma filter_flushK nm K acc : filter (is_elem nm) (flushK K acc) = filter (is_elem nm) K.
Proof. destruct acc; reflexivity. Qed.
Lemma elems_fold nm kids : forall K acc,
  filter (is_elem nm) (flushK (fst (fold_left (absorb erase) kids (K, acc))) (snd (fold_left (absorb erase) kids (K, acc))))
  = rev (map erase (filter (pelem_named nm) kids)) ++ filter (is_elem nm) K.
Proof.
  induction kids as [|p kids IH]; intros K acc.
  - cbn [fold_left fst snd filter map rev app]. apply filter_flushK.
  - cbn [fold_left]. destruct p as [x a sc ks | segs].
    + cbn [absorb fst snd]. rewrite IH. cbn [filter pelem_named].
      change (is_elem nm (erase (PElem x a sc ks))) with (bytes_eqb x nm).
      destruct (bytes_eqb x nm).
      * cbn [map rev]. rewrite filter_flushK, <- app_assoc. reflexivity.
      * rewrite filter_flushK. reflexivity.
    + cbn [absorb fst snd]. rewrite IH. reflexivity.
Qed.
Lemma filter_rev' {A} (f : A -> bool) l : filter f (rev l) = rev (filter f l).
Proof.
  induction l as [|x l IH]; [reflexivity|]. cbn [rev filter]. rewrite filter_app, IH. cbn [filter].
  destruct (f x); cbn [rev]; [reflexivity | apply app_nil_r].
Qed.
Lemma elems_named_erase nm kids : elems_named nm (erase_kids kids) = map erase (filter (pelem_named nm) kids).
Proof.
  unfold elems_named, erase_kids. rewrite filter_rev', elems_fold. cbn [filter]. rewrite app_nil_r. apply rev_involutive.
Qed.
Lemma erase_elem n a sc kids : erase (PElem n a sc kids) = Elem n (decA a) (erase_kids kids).
Proof. reflexivity. Qed.
Lemma text_of_single s : text_of (erase_kids [PText [Esc s]]) = s.
Proof.
  unfold erase_kids. cbn [fold_left absorb fst snd segs_dec flat_map seg_dec]. rewrite !app_nil_r.
  destruct s as [|c s]; [reflexivity|].
  unfold flushK. destruct (rev (c :: s)) eqn:E.
  - apply (f_equal (@rev N)) in E. rewrite rev_involutive in E. discriminate E.
  - rewrite <- E, rev_involutive. cbn. rewrite app_nil_r. reflexivity.
Qed.

Definition tc_elem (pkg group : bytes) (n : jnode) : ptree :=
  match testcase_ptrees Esc pkg group n with p :: _ => p | [] => nl end.
Lemma filter_testcases nm pkg group nodes :
  filter (pelem_named nm) (flat_map (testcase_ptrees Esc pkg group) nodes)
  = if bytes_eqb L_testcase nm then map (tc_elem pkg group) nodes else [].
Proof.
  induction nodes as [|n nodes IH].
  - destruct (bytes_eqb L_testcase nm); reflexivity.
  - cbn [flat_map]. rewrite filter_app, IH. unfold testcase_ptrees at 1. cbn [filter pelem_named nl].
    destruct (bytes_eqb L_testcase nm); reflexivity.
Qed.

Lemma test_failure_not_ignored t f : test_failure t = Some f -> t_ignored t = false.
Proof. unfold test_failure. destruct (t_ignored t); [discriminate | reflexivity]. Qed.

Lemma testcase_ok_erase pkg group t : testcase_ok t (erase (tc_elem pkg group (jnode_of t))) = true.
Proof.
  unfold tc_elem, testcase_ptrees. rewrite erase_elem. unfold jnode_of. cbn [n_name n_file n_line n_failure n_ignored n_checks].
  unfold testcase_ok.
  assert (E1 : forall cls asr, attr_is L_name (decA [(L_classname, cls); (L_name, [Esc (t_name t)]); (L_assertions, asr); (L_time, [Raw L_zero_time]);
                                               (L_file, [Esc (t_file t)]); (L_line, [Raw (dec (t_line t))])]) (t_name t) = true).
  { intros. unfold attr_is. cbn. rewrite app_nil_r. apply bytes_eqb_refl. }
  assert (E2 : forall cls asr, attr_is L_file (decA [(L_classname, cls); (L_name, [Esc (t_name t)]); (L_assertions, asr); (L_time, [Raw L_zero_time]);
                                               (L_file, [Esc (t_file t)]); (L_line, [Raw (dec (t_line t))])]) (t_file t) = true).
  { intros. unfold attr_is. cbn. rewrite app_nil_r. apply bytes_eqb_refl. }
  assert (E3 : forall cls asr, attr_is L_line (decA [(L_classname, cls); (L_name, [Esc (t_name t)]); (L_assertions, asr); (L_time, [Raw L_zero_time]);
                                               (L_file, [Esc (t_file t)]); (L_line, [Raw (dec (t_line t))])]) (dec (t_line t)) = true).
  { intros. unfold attr_is. cbn. rewrite app_nil_r. apply bytes_eqb_refl. }
  rewrite E1, E2, E3. cbn [andb].
  destruct (test_failure t) as [[[file line] msg]|] eqn:Ef.
  - rewrite (test_failure_not_ignored _ _ Ef). cbn. rewrite !app_nil_r.
    unfold attr_is. cbn. apply bytes_eqb_refl.
  - destruct (t_ignored t); reflexivity.
Qed.

Lemma all2_testcases pkg group g : all2 testcase_ok g (map erase (map (tc_elem pkg group) (map jnode_of g))) = true.
Proof.
  induction g as [|t g IH]; [reflexivity|]. cbn [map all2]. rewrite testcase_ok_erase. exact IH.
Qed.

Theorem suite_ok_tree pkg g printed : suite_ok g (printed ++ tests_printed g) (tests_printed g) (tree_of pkg g printed) = true.
Proof.
  unfold tree_of, suite_ptree. rewrite erase_elem.
  remember ([nl; PElem L_properties [] false [nl]; nl] ++
            flat_map (testcase_ptrees Esc pkg (j_group (group_state g printed []))) (rev (j_nodes (group_state g printed []))) ++
            [PElem L_system_out [] false [PText [Esc (j_stdout (group_state g printed []))]]; nl; PElem L_system_err [] false []; nl]) as kids eqn:Ek.
  unfold suite_ok.
  assert (A1 : forall a1 a2 a3 a5 a6 a7, attr_is L_name (decA [(L_errors, a1); (L_failures, a2); (L_hostname, a3); (L_name, [Esc (group_name g)]); (L_tests, a5); (L_time, a6); (L_timestamp, a7)]) (group_name g) = true).
  { intros. unfold attr_is. cbn. rewrite app_nil_r. apply bytes_eqb_refl. }
  assert (A2 : forall a1 a2 a3 a4 a6 a7 x, attr_is L_tests (decA [(L_errors, a1); (L_failures, a2); (L_hostname, a3); (L_name, a4); (L_tests, [Raw x]); (L_time, a6); (L_timestamp, a7)]) x = true).
  { intros. unfold attr_is. cbn. rewrite app_nil_r. apply bytes_eqb_refl. }
  assert (A3 : forall a1 a3 a4 a5 a6 a7 x, attr_is L_failures (decA [(L_errors, a1); (L_failures, [Raw x]); (L_hostname, a3); (L_name, a4); (L_tests, a5); (L_time, a6); (L_timestamp, a7)]) x = true).
  { intros. unfold attr_is. cbn. rewrite app_nil_r. apply bytes_eqb_refl. }
  cbn [group_state j_group j_testCount j_failureCount]. rewrite A1, A2, A3.
  replace (bytes_eqb L_testsuite L_testsuite) with true by reflexivity. cbn [andb].
  rewrite !elems_named_erase. subst kids. rewrite !filter_app, !filter_testcases.
  cbn [group_state j_nodes j_stdout j_group]. rewrite rev_involutive.
  replace (bytes_eqb L_testcase L_testcase) with true by reflexivity.
  replace (bytes_eqb L_testcase L_system_out) with false by reflexivity.
  cbn [filter pelem_named nl app map].
  replace (bytes_eqb L_properties L_testcase) with false by reflexivity.
  replace (bytes_eqb L_system_out L_testcase) with false by reflexivity.
  replace (bytes_eqb L_system_err L_testcase) with false by reflexivity.
  replace (bytes_eqb L_properties L_system_out) with false by reflexivity.
  replace (bytes_eqb L_system_out L_system_out) with true by reflexivity.
  replace (bytes_eqb L_system_err L_system_out) with false by reflexivity.
  cbn [app map]. rewrite app_nil_r, all2_testcases. rewrite erase_elem, text_of_single, bytes_eqb_refl. reflexivity.
Qed.

(* ================= spec ================= *)
Lemma spec_groups_files pkg gs : forall printed,
  oktext pkg = true -> Forall (fun g => forallb oktest g = true) gs -> oktext printed = true ->
  spec_groups pkg gs printed (group_files Esc pkg gs printed) = true.
Proof.
  induction gs as [|g gs IH]; intros printed Hp Hg Hpr; [reflexivity|].
  inversion Hg as [|? ? Hg1 Hg2]; subst.
  cbn [group_files spec_groups]. rewrite createFileName_spec, bytes_eqb_refl.
  rewrite (group_roundtrip pkg g printed Hp Hg1 Hpr), suite_ok_tree. cbn [andb].
  apply IH; try assumption. rewrite oktext_app, Hpr. apply tests_printed_ok. exact Hg1.
Qed.

Lemma segments_oktest ts : forallb oktest ts = true -> Forall (fun g => forallb oktest g = true) (segments ts).
Proof.
  intro H. rewrite <- (segments_concat ts) in H. revert H. generalize (segments ts). intro gs.
  induction gs as [|g gs IH]; intro H; [constructor|].
  cbn [concat] in H. rewrite forallb_app in H. apply andb_true_iff in H. destruct H. constructor; auto.
Qed.

Theorem run_meets_spec s : valid s = true -> spec s (run s) = true.
Proof.
  unfold valid, spec, run. intro H. apply andb_true_iff in H. destruct H as [Hp Ht].
  rewrite run_with_files. apply spec_groups_files; [exact Hp | apply segments_oktest; exact Ht | reflexivity].
Qed.

(* the files of a run, one per segment, each parsing to tree_of *)
Fixpoint trees_of (pkg : bytes) (gs : list (list test)) (printed : bytes) : list (bytes * option node) :=
  match gs with
  | [] => []
  | g :: gs' => (expected_filename pkg (group_name g), Some (tree_of pkg g printed)) :: trees_of pkg gs' (printed ++ tests_printed g)
  end.
Lemma roundtrip_files pkg gs : forall printed,
  oktext pkg = true -> Forall (fun g => forallb oktest g = true) gs -> oktext printed = true ->
  map (fun f => (fst f, xml_parse (snd f))) (group_files Esc pkg gs printed) = trees_of pkg gs printed.
Proof.
  induction gs as [|g gs IH]; intros printed Hp Hg Hpr; [reflexivity|].
  inversion Hg as [|? ? Hg1 Hg2]; subst.
  cbn [group_files trees_of map fst snd]. rewrite createFileName_spec, (group_roundtrip pkg g printed Hp Hg1 Hpr).
  f_equal. apply IH; try assumption. rewrite oktext_app, Hpr. apply tests_printed_ok. exact Hg1.
Qed.
Theorem roundtrip s : valid s = true ->
  map (fun f => (fst f, xml_parse (snd f))) (run s) = trees_of (s_pkg s) (segments (s_tests s)) [].
Proof.
  unfold valid, run. intro H. apply andb_true_iff in H. destruct H as [Hp Ht].
  rewrite run_with_files. apply roundtrip_files; [exact Hp | apply segments_oktest; exact Ht | reflexivity].
Qed.

(* ================= the code before the repair of D14 (names copied into attribute values unescaped) ================= *)
Definition d14_witness : scenario :=
  {| s_pkg := []; s_tests := [{| t_group := [71]; t_name := [34]; t_file := [102]; t_line := 1; t_ignored := false; t_body := [] |}] |}.
Lemma run_old_refuted : ~ (forall s, valid s = true -> spec s (run_old s) = true).
Proof. intro H. specialize (H d14_witness eq_refl). vm_compute in H. discriminate H. Qed.
Lemma run_old_illformed : map (fun f => xml_accepts (snd f)) (run_old d14_witness) = [false].
Proof. vm_compute. reflexivity. Qed.

(* the parser does reject what the unrepaired writer produced: a raw '<', or a '&' that starts no reference, inside a value *)
Lemma value_rejects_lt S R nm A an q acc cr rest : q <> 60 -> run_sm (mk S R (MAttrVal nm A an q acc cr)) (60 :: rest) = None.
Proof.
  intro Hq. cbn [run_sm]. unfold step. cbn [p_mode p_stack p_root]. destruct (N.eqb_spec 60 q); [congruence | reflexivity].
Qed.
Lemma mismatched_close_rejected S R nm rest :
  match S with (fn, _, _) :: _ => fn <> nm | [] => True end ->
  run_sm (mk S R (MCloseName (rev nm))) (62 :: rest) = None.
Proof.
  intro H. cbn [run_sm]. unfold step. cbn [p_mode p_stack p_root]. cbn [classify N.eqb Pos.eqb]. rewrite rev_involutive.
  unfold close_elem. destruct S as [|[[fn fa] K] S']; [reflexivity|].
  destruct (bytes_eqb fn nm) eqn:E; [|reflexivity]. apply bytes_eqb_eq in E. contradiction.
Qed.

(* hypotheses are satisfiable: a run with two groups, a failing, an ignored and a printing test and markup characters everywhere *)
Definition example_run : scenario :=
  {| s_pkg := [112; 38];
     s_tests := [ {| t_group := [71; 60]; t_name := [116; 34]; t_file := [97; 62]; t_line := 10; t_ignored := false;
                     t_body := [SPrint [104; 60; 10]; SFail [98; 38] 5 [109; 38; 13; 93; 93; 62]; SFailStop [99] 6 [110]; SPrint [120]] |};
                  {| t_group := [71; 60]; t_name := [117]; t_file := [97]; t_line := 11; t_ignored := true; t_body := [] |};
                  {| t_group := [72]; t_name := [118]; t_file := [97]; t_line := 12; t_ignored := false; t_body := [] |} ] |}.
Lemma example_valid : valid example_run = true /\ length (run example_run) = 2%nat /\ spec example_run (run example_run) = true.
Proof. vm_compute. auto. Qed.
