(* C08 -- executable model, continued: tests WITH A TEARDOWN under the library's DEFAULT mock failure reporter.
     src/CppUTestExt/MockFailure.cpp        (MockFailureReporter::failTest: "if (!getTestToFail()->hasFailed()) failWith(...)" -- a test
                                             that has already failed is not failed again; failWith leaves the current function)
     src/CppUTest/Utest.cpp                 (Utest::run: setup, body, teardown -- the teardown runs whether or not the body was left
                                             at a failure, and is protected on its own; then the plugins' post actions)
     src/CppUTestExt/MockActualCall.cpp     (MockCheckedActualCall::failTest: the call is CALL_FAILED before the reporter is asked;
                                             the mock is NOT cleared: the expectations, their counters and out-of-order marks and
                                             the failed call stay in mock() when the test body is left)
     src/CppUTestExt/MockSupport.cpp        (MockSupport::failTest: clear() before the reporter is asked)
   A test = body (steps as in C08_Model: mock operations and checks of its own) + teardown (mock().checkExpectations() /
   mock().clear(), on mock() or on a named scope, in any number and order).  The usual idiom is
        TEST_TEARDOWN() { mock().checkExpectations(); mock().clear(); }
   The body is left at its first failure.  The teardown then runs on WHAT THE BODY LEFT IN mock(): a call that failed at once
   (unexpected call / parameter / object) leaves the deviations that are only diagnosed at check time (calls out of order,
   unfulfilled expectations of another scope, incomplete last calls of other scopes) behind, and the check in teardown finds them.
   With the default reporter these are dropped (the test has failed: once).  No proofs in this file. *)
From Coq Require Import ZArith NArith Bool List.
From CppUVerif Require Import lib.CInt lib.Str C08_Model.
Import ListNotations.

(* ---------------------------------------------------------------- the state a FAILING operation leaves behind
   (the reporter leaves the test from inside the mock: whatever was done up to the failTest call stays done) *)
(* checkInputParameter / checkOutputParameter / onObject up to their failTest *)
Definition item_left (it : item) (es : list expn) (c : acall) : list expn * acall :=
  match it with
  | IIn n v => (keep_if (has_input n v) (discard es), set_state c Failed)
  | IOut n buf => (keep_if (has_output n) (discard es), set_state (set_couts c (c_outs c ++ [(n, buf)])) Failed)
  | IObj a => (keep_if (relates_obj a) es, set_state c Failed)
  end.
Fixpoint with_items_left (its : list item) (es : list expn) (c : acall) : list expn * acall :=
  match its with
  | [] => (es, c)
  | it :: r => match with_item it es c with
               | inr _ => item_left it es c
               | inl (es', c') => with_items_left r es' c'
               end
  end.
(* lastActualFunctionCall_->checkExpectations() that fails: expectationsChecked_, CALL_FAILED (finish_last_nl is that) *)
Definition failed_last (m : mock) : mock := fst (finish_last_nl m).

(* MockSupport::actualCall(f).<items>...[returnValue()] left at its failure *)
Definition call_left (fx : bool) (m : mock) (f : name) (its : list item) (want : bool) : mock :=
  match finish_last m with
  | inr _ => failed_last m                                             (* the previous call cannot be finished: it stays, failed *)
  | inl m =>
      let m := with_exps m (m_exps m) None in
      let order := (m_aorder m + 1)%N in
      let c := {| c_name := f; c_order := order; c_state := Succeeded; c_checked := false; c_outs := [] |} in
      let m := {| m_exps := m_exps m; m_aorder := order; m_eorder := m_eorder m; m_strict := m_strict m; m_ignore := m_ignore m;
                  m_enabled := m_enabled m; m_last := None |} in
      match with_name (create fx (m_exps m)) c with
      | inr _ => with_exps m (keep_if (relates f) (create fx (m_exps m))) (Some (set_state c Failed))   (* unexpected / surplus call *)
      | inl (es, c) =>
          match with_items its es c with
          | inr _ => let (es', c') := with_items_left its es c in with_exps m es' (Some c')
          | inl (es, c) => failed_last (with_exps m es (Some c))       (* returnValue() -> checkExpectations() failed *)
          end
      end
  end.
Definition fail_mock (fx : bool) (m : mock) (o : op) : mock :=
  match o with
  | OCall f its want => call_left fx m f its want
  | OCheck => match finish_last m with
              | inr _ => failed_last m
              | inl _ => mock0                                          (* MockSupport::failTest: clear(), then the reporter *)
              end
  | OLeft => failed_last m
  | _ => m
  end.
(* checkExpectationsOfLastActualCall of mock() left at the first call that cannot be finished *)
Fixpoint finish_kids_left (kids : list (N * mock)) : list (N * mock) :=
  match kids with
  | [] => []
  | (t, m) :: r => match finish_last m with
                   | inr _ => (t, failed_last m) :: r
                   | inl m' => (t, m') :: finish_kids_left r
                   end
  end.
Definition finish_all_left (w : world) : world :=
  match finish_last (w_g w) with
  | inr _ => {| w_g := failed_last (w_g w); w_kids := w_kids w |}
  | inl g => {| w_g := g; w_kids := finish_kids_left (w_kids w) |}
  end.
(* the world after `stepw fx w so = inr _` *)
Definition fail_world (fx : bool) (w : world) (so : N * op) : world :=
  let (s, o) := so in
  if (s =? 0)%N then
    match o with
    | OCheck => match finish_all w with inr _ => finish_all_left w | inl _ => world0 end
    | OLeft => finish_all_left w
    | _ => {| w_g := fail_mock fx (w_g w) o; w_kids := w_kids w |}
    end
  else {| w_g := w_g w; w_kids := put_kid s (fail_mock fx (kid s w) o) (w_kids w) |}.

(* ---------------------------------------------------------------- checkExpectations() / clear() with a reporter that RETURNS
   (the default reporter when the test has already failed drops the failure and returns; MockSupportPlugin's records and returns) *)
Definition check_nl (m : mock) : mock * list failure :=
  let (m1, fs) := finish_last_nl m in
  if last_ok m1 && unfulfilled (m_exps m1) then (mock0, fs ++ [history (m_exps m1) FNotFulfilled])
  else if existsb e_ooo (m_exps m1) then (mock0, fs ++ [history (filter e_ooo (m_exps m1)) FOutOfOrder])
  else (m1, fs).
Definition check_world_nl (w : world) : world * list failure :=
  let (w1, fs) := finish_all_nl w in
  if last_ok_all w1 && left_all w1 then (world0, fs ++ [history (all_exps w1) FNotFulfilled])
  else if ooo_all w1 then (world0, fs ++ [history (filter e_ooo (all_exps w1)) FOutOfOrder])
  else (w1, fs).
(* the operations a teardown consists of; anything else: no-op here (valid_runt excludes it) *)
Definition stepw_nl (w : world) (so : N * op) : world * list failure :=
  let (s, o) := so in
  match o with
  | OCheck => if (s =? 0)%N then check_world_nl w
              else let (m, fs) := check_nl (kid s w) in ({| w_g := w_g w; w_kids := put_kid s m (w_kids w) |}, fs)
  | OClear => if (s =? 0)%N then (world0, []) else ({| w_g := w_g w; w_kids := put_kid s mock0 (w_kids w) |}, [])
  | _ => (w, [])
  end.

(* ---------------------------------------------------------------- the mock failure reporter: given getTestToFail()->hasFailed(),
   does failTest deliver the failure (failWith: counted, printed, the current function is left)? *)
Definition reporter_t := bool -> bool.
Definition rep_default : reporter_t := negb.                  (* MockFailureReporter::failTest *)
Definition rep_always : reporter_t := fun _ => true.          (* without the hasFailed() test: refuted in C08_Teardown.v *)

(* the world the body of a test leaves in mock(), however it ended *)
Fixpoint body_world (fx : bool) (w : world) (t : test) : world :=
  match t with
  | [] => w
  | TCheck true :: r => body_world fx w r
  | TCheck false :: _ => w
  | TOp so :: r => match stepw fx w so with
                   | inr _ => fail_world fx w so
                   | inl (w', _) => body_world fx w' r
                   end
  end.

(* the teardown: every operation in turn; a failure is delivered (and the teardown left) or dropped as the reporter decides.
   j = index of the operation in the teardown.  Result: the world left and the failures delivered (index, failure). *)
Fixpoint td_from (rep : reporter_t) (fx : bool) (failed : bool) (w : world) (j : N) (td : list (N * op)) : world * list (N * failure) :=
  match td with
  | [] => (w, [])
  | so :: r =>
      if rep failed then
        match stepw fx w so with
        | inr fl => (fail_world fx w so, [(j, fl)])                       (* failWith: the teardown is left *)
        | inl (w', _) => td_from rep fx failed w' (j + 1)%N r
        end
      else td_from rep fx failed (fst (stepw_nl w so)) (j + 1)%N r         (* failures dropped, the teardown goes on *)
  end.

Record ttest := { tt_body : test; tt_td : list (N * op) }.
(* observed of one test: as tobs, plus the failures delivered while the teardown ran *)
Record xobs := { x_obs : obs; x_own : bool; x_td : list (N * failure); x_total : N }.

(* Utest::run (body, teardown) + the plugin's post action *)
Definition run_one_t (rep : reporter_t) (pl : plugin_t) (fx : bool) (st : rstate) (t : ttest) : rstate * xobs :=
  let (e, a) := body_from fx (rs_world st) 0%N (tt_body t) acc0 in
  let failed := body_failed e in
  let n1 := (rs_failures st + (if failed then 1 else 0))%N in
  let w1 := match e with BDone w | BOwn w => w | BMock _ _ => body_world fx (rs_world st) (tt_body t) end in
  let (w2, tf) := td_from rep fx failed w1 0%N (tt_td t) in
  let n2 := (n1 + N.of_nat (length tf))%N in
  let (w', fs) := pl (failed || negb (is_nil tf)) n2 (Some w2) in
  let n3 := (n2 + N.of_nat (length fs))%N in
  ({| rs_world := w'; rs_failures := n3 |},
   {| x_obs := mk_obs (match e with BMock i fl => Some (i, fl) | _ => None end) (add_effect a (post_effect fs));
      x_own := match e with BOwn _ => true | _ => false end;
      x_td := tf;
      x_total := n3 |}).
Fixpoint run_tests_t (rep : reporter_t) (pl : plugin_t) (fx : bool) (st : rstate) (ts : list ttest) : rstate * list xobs :=
  match ts with
  | [] => (st, [])
  | t :: r => let (st1, o) := run_one_t rep pl fx st t in let (st2, os) := run_tests_t rep pl fx st1 r in (st2, o :: os)
  end.
Definition runs_t_gen (rep : reporter_t) (pl : plugin_t) (ts : list ttest) : list xobs := snd (run_tests_t rep pl true rstate0 ts).
Definition runs_t : list ttest -> list xobs := runs_t_gen rep_default plugin_post.
Definition run_alone_t (t : ttest) : xobs := snd (run_one_t rep_default plugin_post true rstate0 t).

(* ---------------------------------------------------------------- the property over such a test, model-free
   (1) ONCE.  A test that has failed -- at its own check or at a mock operation of its body -- is not failed again: nothing is
       delivered while the teardown runs and nothing by the plugin.  A failure delivered in the teardown is the only one of the
       teardown and the plugin adds nothing.
   (2) every failure observed in the test is counted once in the run's counter, in that test.
   (3) the diagnosis.  A test whose own check fails, or without teardown: as spec_test.  Own checks pass and the teardown begins
       with mock().checkExpectations() (the usual idiom): the test up to that check is the single scenario "its mock operations,
       then mock().checkExpectations()" and is judged by specw (passes the check iff the multisets / sequences agree in every scope;
       first deviation with the matching diagnosis, at the operation of the body or at the check; values of the consumed
       expectations); when that check passes the scenario has passed: no later operation of the teardown (further checks, clears,
       on mock() or a scope) and not the plugin's check may deliver a failure.  Teardowns of another shape (clear first, the check
       of a single scope first): only (1), (2) and the coherence of the values are demanded (model = implementation beyond that). *)
Definition lower (o : xobs) : tobs := {| to_obs := x_obs o; to_own := x_own o; to_total := x_total o |}.
Definition with_fail (o : obs) (f : option (N * failure)) : obs :=
  {| o_fail := f; o_rets := o_rets o; o_outs := o_outs o; o_left := o_left o; o_post := [] |}.
Definition failed_in_body (o : xobs) : bool := x_own o || negb (passed_obs (x_obs o)).
Definition once (o : xobs) : bool :=
  (if failed_in_body o then is_nil (x_td o) && is_nil (o_post (x_obs o)) else true) &&
  match x_td o with [] => true | [_] => is_nil (o_post (x_obs o)) | _ => false end.
Definition failures_in_x (o : xobs) : N := (failures_in (lower o) + N.of_nat (length (x_td o)))%N.
(* the teardown begins with mock().checkExpectations() *)
Definition td_check_first (td : list (N * op)) : bool :=
  match td with (0%N, OCheck) :: _ => true | _ => false end.
Definition spec_td_check (ops : list (N * op)) (o : xobs) : bool :=
  match o_fail (x_obs o), x_td o with
  | Some f, _ => specw (ops ++ [(0%N, OCheck)]) (with_fail (x_obs o) (Some f))
  | None, [] => specw (ops ++ [(0%N, OCheck)]) (with_fail (x_obs o) None)
                && is_nil (o_post (x_obs o))            (* the check passed: the plugin's check of the same mock finds nothing *)
  | None, (j, fl) :: _ =>
      (j =? 0)%N                                        (* the check passed: no later check of the teardown fails *)
      && specw (ops ++ [(0%N, OCheck)]) (with_fail (x_obs o) (Some (N.of_nat (length ops), fl)))
  end.
Definition spec_td_other (ops : list (N * op)) (o : xobs) : bool :=
  coherent ops (x_obs o) &&
  match o_fail (x_obs o) with Some (i, _) => (i <? N.of_nat (length ops))%N | None => true end.
Definition spec_ttest (t : ttest) (prev : N) (o : xobs) : bool :=
  once o &&
  (x_total o =? prev + failures_in_x o)%N &&
  let ops := ops_before (tt_body t) in
  if own_fails (tt_body t) || is_nil (tt_td t) then is_nil (x_td o) && spec_test (tt_body t) prev (lower o)
  else negb (x_own o) && if td_check_first (tt_td t) then spec_td_check ops o else spec_td_other ops o.
Fixpoint spec_runt_from (prev : N) (ts : list ttest) (os : list xobs) : bool :=
  match ts, os with
  | [], [] => true
  | t :: tr, o :: or => spec_ttest t prev o && spec_runt_from (x_total o) tr or
  | _, _ => false
  end.
Definition spec_runt : list ttest -> list xobs -> bool := spec_runt_from 0%N.

(* validity: the body as before; the teardown consists of checkExpectations() / clear() on mock() or a scope *)
Definition td_valid (td : list (N * op)) : bool :=
  forallb (fun so => match snd so with OCheck | OClear => true | _ => false end) td.
Definition ttest_valid (t : ttest) : bool := forallb step_valid (tt_body t) && td_valid (tt_td t).
Definition valid_runt (ts : list ttest) : bool := forallb ttest_valid ts.

(* --- the three kinds of scenario under one roof *)
Inductive scenario_x := XOld (s : scenario) | XRunT (ts : list ttest).
Inductive sobs_x := YOld (o : sobs) | YRunT (os : list xobs).
Definition run_x (s : scenario_x) : sobs_x := match s with XOld s => YOld (run_top s) | XRunT ts => YRunT (runs_t ts) end.
Definition spec_x (s : scenario_x) (o : sobs_x) : bool :=
  match s, o with
  | XOld s, YOld o => spec_top s o
  | XRunT ts, YRunT os => spec_runt ts os
  | _, _ => false
  end.
Definition valid_x (s : scenario_x) : bool := match s with XOld s => valid_top s | XRunT ts => valid_runt ts end.
