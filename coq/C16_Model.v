(* C16 -- executable mirror of JUnitTestOutput (src/CppUTest/JUnitTestOutput.cpp), an XML parser for the subset of XML 1.0
   the writer can emit, and the model-free oracle `spec`.  No proofs here. *)
From Coq Require Import NArith Bool List.
From Coq Require String Ascii.
Import String.StringSyntax.
Delimit Scope string_scope with string.
From CppUVerif Require Import lib.Str gen.Gen_C16 C16_Events.
Import ListNotations.
Local Open Scope N_scope.

Definition B (s : String.string) : bytes := map Ascii.N_of_ascii (String.list_ascii_of_string s).

(* ------------------------------------------------------------------------------------------------------------
   SimpleString::replace(const char* to, const char* with) on byte lists: left-to-right, non-overlapping;
   `skip` = bytes of the current match still to be stepped over (the code's `i += tolen`). *)
Fixpoint replace_go (to wth s : bytes) (skip : nat) : bytes :=
  match s with
  | [] => []
  | c :: r =>
      match skip with
      | S k => replace_go to wth r k
      | O => if is_prefix to (c :: r) then wth ++ replace_go to wth r (pred (length to)) else c :: replace_go to wth r O
      end
  end.
Definition replace (to wth s : bytes) : bytes := match to with [] => s | _ => replace_go to wth s O end.

(* encodeXmlText: the replace passes of the source, in source order (table regenerated from the source) *)
Definition encodeXmlText (s : bytes) : bytes := fold_left (fun acc p => replace (fst p) (snd p) acc) junit_xml_passes s.

(* the per-byte table the passes are proved to collapse to *)
Definition xml_special (c : N) : bool := (c =? 38) || (c =? 34) || (c =? 60) || (c =? 62) || (c =? 13) || (c =? 10).
Definition lit_amp : bytes := Eval vm_compute in B "&amp;"%string.
Definition lit_quot : bytes := Eval vm_compute in B "&quot;"%string.
Definition lit_lt : bytes := Eval vm_compute in B "&lt;"%string.
Definition lit_gt : bytes := Eval vm_compute in B "&gt;"%string.
Definition lit_cr : bytes := Eval vm_compute in B "&#13;"%string.
Definition lit_lf : bytes := Eval vm_compute in B "&#10;"%string.
Definition xml_esc (c : N) : bytes :=
  if c =? 38 then lit_amp else if c =? 34 then lit_quot else if c =? 60 then lit_lt else if c =? 62 then lit_gt
  else if c =? 13 then lit_cr else if c =? 10 then lit_lf else [c].

(* SimpleString::replace(char, char) and encodeFileName (one pass per forbidden character, table from the source) *)
Definition replace_char (to wth : N) (s : bytes) : bytes := map (fun c => if c =? to then wth else c) s.
Definition encodeFileName (s : bytes) : bytes := fold_left (fun acc sym => replace_char sym 95 acc) junit_forbidden s.
Definition lit_cpputest_ : bytes := Eval vm_compute in B "cpputest_"%string.
Definition lit_dotxml : bytes := Eval vm_compute in B ".xml"%string.
Definition createFileName (pkg group : bytes) : bytes :=
  encodeFileName (lit_cpputest_ ++ (match pkg with [] => [] | _ => pkg ++ [95] end) ++ group) ++ lit_dotxml.

(* %d of a non-negative number *)
Fixpoint dec_go (fuel : nat) (n : N) (acc : bytes) : bytes :=
  match fuel with
  | O => acc
  | S f => let d := 48 + n mod 10 in let q := n / 10 in if q =? 0 then d :: acc else dec_go f q (d :: acc)
  end.
Definition dec (n : N) : bytes := dec_go (S (N.size_nat n)) n [].

(* ------------------------------------------------------------------------------------------------------------
   What the writer emits, piece by piece.  A value is a list of segments: Raw = bytes copied as they are (format
   string text, %d), Esc = bytes passed through encodeXmlText before the copy. *)
Inductive seg := Raw (s : bytes) | Esc (s : bytes).
Inductive ptree :=
| PElem (name : bytes) (attrs : list (bytes * list seg)) (selfclose : bool) (kids : list ptree)
| PText (segs : list seg).

Definition seg_print (enc : bytes -> bytes) (x : seg) : bytes := match x with Raw s => s | Esc s => enc s end.
Definition segs_print (enc : bytes -> bytes) (l : list seg) : bytes := flat_map (seg_print enc) l.
Definition attr_print (enc : bytes -> bytes) (a : bytes * list seg) : bytes :=
  [32] ++ fst a ++ [61; 34] ++ segs_print enc (snd a) ++ [34].
Fixpoint print (enc : bytes -> bytes) (p : ptree) : bytes :=
  match p with
  | PText segs => segs_print enc segs
  | PElem name attrs sc kids =>
      [60] ++ name ++ flat_map (attr_print enc) attrs ++
      (if sc then [32; 47; 62]
       else [62] ++ flat_map (print enc) kids ++ [60; 47] ++ name ++ [62])
  end.

(* literals of the format strings *)
Definition L_testsuite := Eval vm_compute in B "testsuite"%string.
Definition L_errors := Eval vm_compute in B "errors"%string.
Definition L_failures := Eval vm_compute in B "failures"%string.
Definition L_hostname := Eval vm_compute in B "hostname"%string.
Definition L_localhost := Eval vm_compute in B "localhost"%string.
Definition L_name := Eval vm_compute in B "name"%string.
Definition L_tests := Eval vm_compute in B "tests"%string.
Definition L_time := Eval vm_compute in B "time"%string.
Definition L_timestamp := Eval vm_compute in B "timestamp"%string.
Definition L_properties := Eval vm_compute in B "properties"%string.
Definition L_testcase := Eval vm_compute in B "testcase"%string.
Definition L_classname := Eval vm_compute in B "classname"%string.
Definition L_assertions := Eval vm_compute in B "assertions"%string.
Definition L_file := Eval vm_compute in B "file"%string.
Definition L_line := Eval vm_compute in B "line"%string.
Definition L_failure := Eval vm_compute in B "failure"%string.
Definition L_message := Eval vm_compute in B "message"%string.
Definition L_type := Eval vm_compute in B "type"%string.
Definition L_AssertionFailedError := Eval vm_compute in B "AssertionFailedError"%string.
Definition L_skipped := Eval vm_compute in B "skipped"%string.
Definition L_system_out := Eval vm_compute in B "system-out"%string.
Definition L_system_err := Eval vm_compute in B "system-err"%string.
Definition L_zero_time := Eval vm_compute in B "0.000"%string.            (* the harness fixes the clock at 0 ms *)
Definition L_time_string := Eval vm_compute in B "2000-01-01T00:00:00"%string.   (* and the time string *)
Definition L_xml_header := Eval vm_compute in B "<?xml version=""1.0"" encoding=""UTF-8"" ?>"%string.
Definition nl : ptree := PText [Raw [10]].

(* per-group result list of the writer *)
Record jnode := { n_name : bytes; n_file : bytes; n_line : N; n_ignored : bool; n_failure : option (bytes * N * bytes); n_checks : N }.
Record jstate := {
  j_nodes : list jnode;            (* newest first: the head is tail_ *)
  j_testCount : N; j_failureCount : N; j_group : bytes;
  j_stdout : bytes;                (* stdOutput_: never reset *)
  j_files : list (bytes * bytes);  (* files written so far, newest first *)
  j_pkg : bytes;                   (* package_: whatever setPackageName stored last (empty at construction) *)
  j_names : list bytes             (* what the createFileName calls made from outside answered, newest first *)
}.
Definition j_init : jstate :=
  {| j_nodes := []; j_testCount := 0; j_failureCount := 0; j_group := []; j_stdout := []; j_files := []; j_pkg := []; j_names := [] |}.

(* calls on the output object from outside the registry's callbacks *)
Inductive op :=
| OSetPkg (p : bytes)       (* setPackageName(p) *)
| OFileName (g : bytes).    (* createFileName(g); the answer is observed *)

(* `esc` tells how a %s attribute value is copied: Esc after the repair of D14, Raw before it *)
Section Writer.
Variable esc : bytes -> seg.
Variable pkg : bytes.

(* writeFailure *)
Definition failure_ptree (f : bytes * N * bytes) : ptree :=
  let '(file, line, msg) := f in
  PElem L_failure [(L_message, [esc file; Raw [58]; Raw (dec line); Raw [58; 32]; Esc msg]); (L_type, [Raw L_AssertionFailedError])] false [nl].

(* one iteration of writeTestCases *)
Definition testcase_ptrees (group : bytes) (n : jnode) : list ptree :=
  [PElem L_testcase
     [(L_classname, [esc pkg; Raw (match pkg with [] => [] | _ => [46] end); esc group]);
      (L_name, [esc (n_name n)]); (L_assertions, [Raw (dec (n_checks n))]); (L_time, [Raw L_zero_time]);
      (L_file, [esc (n_file n)]); (L_line, [Raw (dec (n_line n))])]
     false
     (nl :: match n_failure n with
            | Some f => [failure_ptree f; nl]
            | None => if n_ignored n then [PElem L_skipped [] true []; nl] else []
            end);
   nl].

(* writeTestSuiteSummary, writeProperties, writeTestCases, writeFileEnding *)
Definition suite_ptree (st : jstate) : ptree :=
  PElem L_testsuite
    [(L_errors, [Raw [48]]); (L_failures, [Raw (dec (j_failureCount st))]); (L_hostname, [Raw L_localhost]);
     (L_name, [esc (j_group st)]); (L_tests, [Raw (dec (j_testCount st))]); (L_time, [Raw L_zero_time]);
     (L_timestamp, [esc L_time_string])]
    false
    ([nl; PElem L_properties [] false [nl]; nl] ++
     flat_map (testcase_ptrees (j_group st)) (rev (j_nodes st)) ++
     [PElem L_system_out [] false [PText [Esc (j_stdout st)]]; nl; PElem L_system_err [] false []; nl]).

(* writeTestGroupToFile: header line, suite, final newline *)
Definition write_group (st : jstate) : bytes := L_xml_header ++ [10] ++ print encodeXmlText (suite_ptree st) ++ [10].
End Writer.

(* the callbacks; the package is the member read when the group is written (createFileName, writeTestCases) *)
Section Steps.
Variable esc : bytes -> seg.

Definition junit_step (st : jstate) (e : ev) : jstate :=
  match e with
  | EGroupStart _ => st
  | ETestStart t =>
      {| j_nodes := {| n_name := t_name t; n_file := t_file t; n_line := t_line t; n_ignored := t_ignored t; n_failure := None; n_checks := 0 |}
                    :: j_nodes st;
         j_testCount := j_testCount st + 1; j_failureCount := j_failureCount st; j_group := t_group t;
         j_stdout := j_stdout st; j_files := j_files st; j_pkg := j_pkg st; j_names := j_names st |}
  | EPrint s =>
      {| j_nodes := j_nodes st; j_testCount := j_testCount st; j_failureCount := j_failureCount st; j_group := j_group st;
         j_stdout := j_stdout st ++ s; j_files := j_files st; j_pkg := j_pkg st; j_names := j_names st |}
  | EFailure _ f l m =>
      match j_nodes st with
      | n :: r =>
          match n_failure n with
          | Some _ => st
          | None =>
              {| j_nodes := {| n_name := n_name n; n_file := n_file n; n_line := n_line n; n_ignored := n_ignored n; n_failure := Some (f, l, m);
                               n_checks := n_checks n |} :: r;
                 j_testCount := j_testCount st; j_failureCount := j_failureCount st + 1; j_group := j_group st;
                 j_stdout := j_stdout st; j_files := j_files st; j_pkg := j_pkg st; j_names := j_names st |}
          end
      | [] => st      (* the code dereferences tail_ == NULL here; not reachable from the registry *)
      end
  | ETestEnd c =>
      match j_nodes st with
      | n :: r =>
          {| j_nodes := {| n_name := n_name n; n_file := n_file n; n_line := n_line n; n_ignored := n_ignored n; n_failure := n_failure n;
                           n_checks := c |} :: r;
             j_testCount := j_testCount st; j_failureCount := j_failureCount st; j_group := j_group st;
             j_stdout := j_stdout st; j_files := j_files st; j_pkg := j_pkg st; j_names := j_names st |}
      | [] => st
      end
  | EGroupEnd =>    (* writeTestGroupToFile(); resetTestGroupResult() *)
      {| j_nodes := []; j_testCount := 0; j_failureCount := 0; j_group := [];
         j_stdout := j_stdout st;
         j_files := (createFileName (j_pkg st) (j_group st), write_group esc (j_pkg st) st) :: j_files st;
         j_pkg := j_pkg st; j_names := j_names st |}
  end.

Definition op_step (st : jstate) (o : op) : jstate :=
  match o with
  | OSetPkg p =>
      {| j_nodes := j_nodes st; j_testCount := j_testCount st; j_failureCount := j_failureCount st; j_group := j_group st;
         j_stdout := j_stdout st; j_files := j_files st; j_pkg := p; j_names := j_names st |}
  | OFileName g =>
      {| j_nodes := j_nodes st; j_testCount := j_testCount st; j_failureCount := j_failureCount st; j_group := j_group st;
         j_stdout := j_stdout st; j_files := j_files st; j_pkg := j_pkg st; j_names := createFileName (j_pkg st) g :: j_names st |}
  end.

(* what happens to the output object, in order: callbacks of the registry and calls from outside *)
Inductive jev := JE (e : ev) | JOp (o : op).
Definition jstep (st : jstate) (x : jev) : jstate := match x with JE e => junit_step st e | JOp o => op_step st o end.
End Steps.

(* a test together with the outside calls made just before its printCurrentTestStarted callback *)
Definition otest := (list op * test)%type.

(* the for loop of runAllTests (C16_Events.reg_loop) with the outside calls put in front of each test's callbacks *)
Fixpoint oreg_loop (groupStart : bool) (ts : list otest) : list jev :=
  match ts with
  | [] => []
  | (ops, t) :: rest =>
      (if groupStart then [JE (EGroupStart t)] else []) ++ map JOp ops ++ map JE (test_events t) ++
      (if end_of_group t (map snd rest) then JE EGroupEnd :: oreg_loop true rest else oreg_loop false rest)
  end.
(* post: calls made after runAllTests returned *)
Definition jevents_of (ts : list otest) (post : list op) : list jev := oreg_loop true ts ++ map JOp post.

Definition obs := (list (bytes * bytes) * list bytes)%type.   (* (file name, content); answers of the createFileName calls in call order *)
(* every file the output object opened, in the order of the opens (the same name may occur twice), and the answers: no filters *)
Definition run_with (esc : bytes -> seg) (ts : list otest) (post : list op) : obs :=
  let st := fold_left (jstep esc) (jevents_of ts post) j_init in (rev (j_files st), rev (j_names st)).

(* ------------------------------------------------------------------------------------------------------------
   Runs with filters (-g -sg -xg -xsg -n -sn -xn -xsn, TestRegistry::setGroupFilters / setNameFilters) and -ri.
   TestFilter::match: strict = equality, otherwise SimpleString::contains; invert flips the answer.
   UtestShell::match(target, filters): no filter = everything matches, otherwise ANY filter of the list matches.
   UtestShell::shouldRun = match(group, groupFilters) && match(name, nameFilters). *)
Record tfilter := { f_pat : bytes; f_strict : bool; f_invert : bool }.
Definition filter_match (f : tfilter) (target : bytes) : bool :=
  xorb (f_invert f) (if f_strict f then bytes_eqb target (f_pat f) else contains target (f_pat f)).
Definition filters_match (fs : list tfilter) (target : bytes) : bool :=
  match fs with [] => true | _ => existsb (fun f => filter_match f target) fs end.
Definition selected (gf nf : list tfilter) (t : test) : bool := filters_match gf (t_group t) && filters_match nf (t_name t).
(* TestRegistry::setRunIgnored: runAllTests calls setRunIgnored() on every shell; an IgnoredUtestShell then runs like a plain test *)
Definition arm (ri : bool) (t : test) : test :=
  if ri then {| t_group := t_group t; t_name := t_name t; t_file := t_file t; t_line := t_line t; t_ignored := false; t_body := t_body t |} else t.

(* the for loop of runAllTests with testShouldRun: currentGroupStarted / currentGroupEnded are sent for every stretch of the registry,
   also when none of its tests is selected; a test that is filtered out gets no callback at all (so the outside calls attached to its
   printCurrentTestStarted are never made) *)
Fixpoint freg_loop (sel : test -> bool) (groupStart : bool) (ts : list otest) : list jev :=
  match ts with
  | [] => []
  | (ops, t) :: rest =>
      (if groupStart then [JE (EGroupStart t)] else []) ++
      (if sel t then map JOp ops ++ map JE (test_events t) else []) ++
      (if end_of_group t (map snd rest) then JE EGroupEnd :: freg_loop sel true rest else freg_loop sel false rest)
  end.
Definition fjevents_of (sel : test -> bool) (ts : list otest) (post : list op) : list jev := freg_loop sel true ts ++ map JOp post.

(* the file system the files are written into: a map name -> content kept in the order of the first open; opening an existing
   name for writing REPLACES what was there *)
Definition fs_write (fs : list (bytes * bytes)) (w : bytes * bytes) : list (bytes * bytes) :=
  if existsb (fun e => bytes_eqb (fst e) (fst w)) fs
  then map (fun e => if bytes_eqb (fst e) (fst w) then w else e) fs
  else fs ++ [w].
Definition fs_of_writes (ws : list (bytes * bytes)) : list (bytes * bytes) := fold_left fs_write ws [].
Definition fs_lookup (fn : bytes) (fs : list (bytes * bytes)) : option bytes :=
  match find (fun e => bytes_eqb (fst e) fn) fs with Some e => Some (snd e) | None => None end.

(* every write of a filtered run in the order of the opens, and the answers *)
Definition writes_with (step : jstate -> jev -> jstate) (sel : test -> bool) (ts : list otest) (post : list op) : obs :=
  let st := fold_left step (fjevents_of sel ts post) j_init in (rev (j_files st), rev (j_names st)).
(* what is left at the end: the files that exist and their content *)
Definition frun_with (step : jstate -> jev -> jstate) (sel : test -> bool) (ts : list otest) (post : list op) : obs :=
  let w := writes_with step sel ts post in (fs_of_writes (fst w), snd w).

Record scenario := { s_tests : list otest; s_post : list op;
                     s_ri : bool;                  (* -ri *)
                     s_gf : list tfilter;          (* group filters *)
                     s_nf : list tfilter }.        (* name filters *)
Definition armed (s : scenario) : list otest := map (fun x => (fst x, arm (s_ri s) (snd x))) (s_tests s).
Definition s_sel (s : scenario) : test -> bool := selected (s_gf s) (s_nf s).
Definition run_writes (s : scenario) : obs := writes_with (jstep Esc) (s_sel s) (armed s) (s_post s).
Definition run (s : scenario) : obs := frun_with (jstep Esc) (s_sel s) (armed s) (s_post s).
Definition run_old (s : scenario) : obs := frun_with (jstep Raw) (s_sel s) (armed s) (s_post s).   (* the code before the repair of D14 *)
(* a variant that is NOT the code: resetTestGroupResult leaves group_ as it is ("every test start assigns it anyway") *)
Definition jstep_stale (st : jstate) (x : jev) : jstate :=
  match x with
  | JE EGroupEnd =>
      let st' := junit_step Esc st EGroupEnd in
      {| j_nodes := j_nodes st'; j_testCount := j_testCount st'; j_failureCount := j_failureCount st'; j_group := j_group st;
         j_stdout := j_stdout st'; j_files := j_files st'; j_pkg := j_pkg st'; j_names := j_names st' |}
  | _ => jstep Esc st x
  end.
Definition run_stale (s : scenario) : obs := frun_with jstep_stale (s_sel s) (armed s) (s_post s).
Definition okop (o : op) : bool := match o with OSetPkg p => oktext p | OFileName g => oktext g end.
Definition okotest (x : otest) : bool := forallb okop (fst x) && oktest (snd x).
Definition okfilter (f : tfilter) : bool := oktext (f_pat f).
Definition valid (s : scenario) : bool :=
  forallb okotest (s_tests s) && forallb okop (s_post s) && forallb okfilter (s_gf s) && forallb okfilter (s_nf s).

(* property-level reading: maximal runs of consecutive tests with the same group name, outside calls kept with their test *)
Fixpoint osegments (ts : list otest) : list (list otest) :=
  match ts with
  | [] => []
  | t :: rest =>
      match osegments rest with
      | (n :: g) :: gs => if bytes_eqb (t_group (snd t)) (t_group (snd n)) then (t :: n :: g) :: gs else [t] :: (n :: g) :: gs
      | _ => [[t]]
      end
  end.

(* ------------------------------------------------------------------------------------------------------------
   XML parser for the subset the writer can emit: optional XML declaration, elements, attributes in single or double
   quotes, character data, the five predefined entities and decimal character references.  It rejects: raw '<' and '&' in
   attribute values and text, the closing quote inside a value, "]]>" in text, duplicate attributes, missing white space
   between attributes, mismatched or unbalanced tags, more than one root, non-white-space outside the root, comments,
   CDATA, DOCTYPE, processing instructions, bytes >= 0x80 and control characters.  Line ends are normalised as XML 1.0
   2.11 demands (raw CR LF and CR in text become LF) and attribute values as 3.3.3 demands (raw TAB, LF, CR, CR LF become
   one space); character references are not normalised. *)
Inductive node := Elem (name : bytes) (attrs : list (bytes * bytes)) (kids : list node) | Text (s : bytes).

Inductive cls := KLt | KGt | KAmp | KDq | KSq | KSlash | KEq | KSemi | KRbr | KHash | KSp | KTab | KLf | KCr
               | KLetter | KDigit | KNameP | KOther | KBad.
Definition classify (c : N) : cls :=
  if c =? 60 then KLt else if c =? 62 then KGt else if c =? 38 then KAmp else if c =? 34 then KDq else if c =? 39 then KSq
  else if c =? 47 then KSlash else if c =? 61 then KEq else if c =? 59 then KSemi else if c =? 93 then KRbr
  else if c =? 35 then KHash else if c =? 32 then KSp else if c =? 9 then KTab else if c =? 10 then KLf else if c =? 13 then KCr
  else if ((65 <=? c) && (c <=? 90)) || ((97 <=? c) && (c <=? 122)) || (c =? 95) || (c =? 58) then KLetter
  else if (48 <=? c) && (c <=? 57) then KDigit
  else if (c =? 45) || (c =? 46) then KNameP
  else if (33 <=? c) && (c <=? 127) then KOther
  else KBad.
Definition ws_cls (k : cls) : bool := match k with KSp | KTab | KLf | KCr => true | _ => false end.
Definition all_ws (s : bytes) : bool := forallb (fun c => ws_cls (classify c)) s.
Definition xml_char (c : N) : bool := match classify c with KBad => false | _ => true end.

Definition frame := (bytes * list (bytes * bytes) * list node)%type.     (* open element: name, attributes, children newest first *)
Inductive mode :=
| MText (acc : bytes) (br : nat)                 (* character data: decoded text newest first; br = 1, 2: that many raw ']' just seen,
                                                    3: a raw CR just seen (already turned into LF), 0: otherwise *)
| MTextEnt (acc ent : bytes)                     (* inside &...; *)
| MLt                                            (* after '<' *)
| MOpenName (nm : bytes)                         (* element name, newest first *)
| MAttrs (nm : bytes) (attrs : list (bytes * bytes)) (sp : bool)   (* between attributes (newest first); sp = white space just seen *)
| MAttrName (nm : bytes) (attrs : list (bytes * bytes)) (an : bytes)
| MAttrEq (nm : bytes) (attrs : list (bytes * bytes)) (an : bytes)
| MAttrQuote (nm : bytes) (attrs : list (bytes * bytes)) (an : bytes)
| MAttrVal (nm : bytes) (attrs : list (bytes * bytes)) (an : bytes) (q : N) (acc : bytes) (cr : bool)   (* cr: a raw CR just seen *)
| MAttrEnt (nm : bytes) (attrs : list (bytes * bytes)) (an : bytes) (q : N) (acc ent : bytes)
| MSlash (nm : bytes) (attrs : list (bytes * bytes))
| MCloseName (nm : bytes)
| MCloseWs (nm : bytes).
Record pst := mk { p_stack : list frame; p_root : option node; p_mode : mode }.

(* List.rev is quadratic once extracted (rev l ++ [x]); the two places that reverse a text of unbounded length -- character data and an
   attribute value -- use the linear rev_append (equal to rev: frev_rev in C16_Parse.v) *)
Definition frev (l : bytes) : bytes := rev_append l [].

Definition add_node (stack : list frame) (root : option node) (n : node) : option (list frame * option node) :=
  match stack with
  | (fn, fa, kids) :: r => Some ((fn, fa, n :: kids) :: r, root)
  | [] => match root with None => Some ([], Some n) | Some _ => None end
  end.
Definition flush_text (stack : list frame) (root : option node) (acc : bytes) : option (list frame * option node) :=
  match acc with
  | [] => Some (stack, root)
  | _ => match stack with
         | [] => if all_ws acc then Some (stack, root) else None
         | _ => add_node stack root (Text (frev acc))
         end
  end.

Definition E_amp := Eval vm_compute in B "amp"%string.
Definition E_lt := Eval vm_compute in B "lt"%string.
Definition E_gt := Eval vm_compute in B "gt"%string.
Definition E_quot := Eval vm_compute in B "quot"%string.
Definition E_apos := Eval vm_compute in B "apos"%string.
Fixpoint dec_value (ds : bytes) (acc : N) : option N :=
  match ds with
  | [] => Some acc
  | d :: r => if (48 <=? d) && (d <=? 57) then dec_value r (acc * 10 + (d - 48)) else None
  end.
Definition decode_ent (name : bytes) : option N :=
  if bytes_eqb name E_amp then Some 38 else if bytes_eqb name E_lt then Some 60 else if bytes_eqb name E_gt then Some 62
  else if bytes_eqb name E_quot then Some 34 else if bytes_eqb name E_apos then Some 39
  else match name with
       | 35 :: (_ :: _) as ds => match dec_value ds 0 with Some v => if xml_char v then Some v else None | None => None end
       | _ => None
       end.
Definition ent_cls (k : cls) : bool := match k with KLetter | KDigit | KHash => true | _ => false end.
Definition name_cls (k : cls) : bool := match k with KLetter | KDigit | KNameP => true | _ => false end.
Definition has_attr (an : bytes) (attrs : list (bytes * bytes)) : bool := existsb (fun a => bytes_eqb (fst a) an) attrs.

Definition close_elem (S : list frame) (R : option node) (nm : bytes) : option pst :=
  match S with
  | (fn, fa, kids) :: r =>
      if bytes_eqb fn nm then
        match add_node r R (Elem fn fa (rev kids)) with Some (S', R') => Some (mk S' R' (MText [] 0)) | None => None end
      else None
  | [] => None
  end.

Definition step (st : pst) (c : N) : option pst :=
  let S := p_stack st in
  let R := p_root st in
  let k := classify c in
  match p_mode st with
  | MText acc br =>
      match k with
      | KBad => None
      | KCr => Some (mk S R (MText (10 :: acc) 3))                  (* line-end normalisation: CR LF and CR become LF *)
      | KLf => if Nat.eqb br 3 then Some (mk S R (MText acc 0)) else Some (mk S R (MText (c :: acc) 0))
      | KLt => match flush_text S R acc with Some (S', R') => Some (mk S' R' MLt) | None => None end
      | KAmp => match S with [] => None | _ => Some (mk S R (MTextEnt acc [])) end
      | KGt => if Nat.eqb br 2 then None else Some (mk S R (MText (c :: acc) 0))
      | KRbr => Some (mk S R (MText (c :: acc) (if Nat.eqb br 1 || Nat.eqb br 2 then 2%nat else 1%nat)))
      | _ => Some (mk S R (MText (c :: acc) 0))
      end
  | MTextEnt acc ent =>
      match k with
      | KSemi => match decode_ent (rev ent) with Some ch => Some (mk S R (MText (ch :: acc) 0)) | None => None end
      | _ => if ent_cls k && Nat.ltb (length ent) 8 then Some (mk S R (MTextEnt acc (c :: ent))) else None
      end
  | MLt =>
      match k with
      | KSlash => Some (mk S R (MCloseName []))
      | KLetter => match S, R with [], Some _ => None | _, _ => Some (mk S R (MOpenName [c])) end
      | _ => None
      end
  | MOpenName nm =>
      match k with
      | KGt => Some (mk ((rev nm, [], []) :: S) R (MText [] 0))
      | KSlash => Some (mk S R (MSlash (rev nm) []))
      | _ => if name_cls k then Some (mk S R (MOpenName (c :: nm)))
             else if ws_cls k then Some (mk S R (MAttrs (rev nm) [] true)) else None
      end
  | MAttrs nm attrs sp =>
      match k with
      | KGt => Some (mk ((nm, rev attrs, []) :: S) R (MText [] 0))
      | KSlash => Some (mk S R (MSlash nm attrs))
      | KLetter => if sp then Some (mk S R (MAttrName nm attrs [c])) else None
      | _ => if ws_cls k then Some (mk S R (MAttrs nm attrs true)) else None
      end
  | MAttrName nm attrs an =>
      match k with
      | KEq => if has_attr (rev an) attrs then None else Some (mk S R (MAttrQuote nm attrs (rev an)))
      | _ => if name_cls k then Some (mk S R (MAttrName nm attrs (c :: an)))
             else if ws_cls k then (if has_attr (rev an) attrs then None else Some (mk S R (MAttrEq nm attrs (rev an)))) else None
      end
  | MAttrEq nm attrs an =>
      match k with
      | KEq => Some (mk S R (MAttrQuote nm attrs an))
      | _ => if ws_cls k then Some st else None
      end
  | MAttrQuote nm attrs an =>
      match k with
      | KDq | KSq => Some (mk S R (MAttrVal nm attrs an c [] false))
      | _ => if ws_cls k then Some st else None
      end
  | MAttrVal nm attrs an q acc cr =>
      if c =? q then Some (mk S R (MAttrs nm ((an, frev acc) :: attrs) false))
      else match k with
           | KBad | KLt => None
           | KAmp => Some (mk S R (MAttrEnt nm attrs an q acc []))
           | KCr => Some (mk S R (MAttrVal nm attrs an q (32 :: acc) true))      (* attribute-value normalisation *)
           | KLf => if cr then Some (mk S R (MAttrVal nm attrs an q acc false)) else Some (mk S R (MAttrVal nm attrs an q (32 :: acc) false))
           | KTab => Some (mk S R (MAttrVal nm attrs an q (32 :: acc) false))
           | _ => Some (mk S R (MAttrVal nm attrs an q (c :: acc) false))
           end
  | MAttrEnt nm attrs an q acc ent =>
      match k with
      | KSemi => match decode_ent (rev ent) with Some ch => Some (mk S R (MAttrVal nm attrs an q (ch :: acc) false)) | None => None end
      | _ => if ent_cls k && Nat.ltb (length ent) 8 then Some (mk S R (MAttrEnt nm attrs an q acc (c :: ent))) else None
      end
  | MSlash nm attrs =>
      match k with
      | KGt => match S, R with
               | [], Some _ => None
               | _, _ => match add_node S R (Elem nm (rev attrs) []) with Some (S', R') => Some (mk S' R' (MText [] 0)) | None => None end
               end
      | _ => None
      end
  | MCloseName nm =>
      match k with
      | KGt => close_elem S R (rev nm)
      | _ => if name_cls k then Some (mk S R (MCloseName (c :: nm)))
             else if ws_cls k then Some (mk S R (MCloseWs (rev nm))) else None
      end
  | MCloseWs nm =>
      match k with
      | KGt => close_elem S R nm
      | _ => if ws_cls k then Some st else None
      end
  end.

Fixpoint run_sm (st : pst) (s : bytes) : option pst :=
  match s with
  | [] => Some st
  | c :: r => match step st c with Some st' => run_sm st' r | None => None end
  end.

Definition init_pst : pst := mk [] None (MText [] 0).
Definition finish (st : pst) : option node :=
  match p_mode st, p_stack st, p_root st with
  | MText acc _, [], Some t => if all_ws acc then Some t else None
  | _, _, _ => None
  end.

(* the XML declaration: "<?xml" white-space ... "?>" with no '<' inside *)
Fixpoint skip_decl (s : bytes) : option bytes :=
  match s with
  | [] => None
  | c :: r =>
      if c =? 63 then match r with
                      | d :: r' => if d =? 62 then Some r' else skip_decl r
                      | [] => None
                      end
      else match classify c with KBad | KLt => None | _ => skip_decl r end
  end.
Definition L_decl_open := Eval vm_compute in B "<?xml"%string.
Definition L_pi_open := Eval vm_compute in B "<?"%string.
Definition strip_prolog (s : bytes) : option bytes :=
  if is_prefix L_decl_open s then
    match skipn 5 s with
    | c :: r => if ws_cls (classify c) then skip_decl r else None
    | [] => None
    end
  else if is_prefix L_pi_open s then None else Some s.

Definition xml_parse (s : bytes) : option node :=
  match strip_prolog s with
  | Some r => match run_sm init_pst r with Some st => finish st | None => None end
  | None => None
  end.

(* ------------------------------------------------------------------------------------------------------------
   The property, read off a parsed report (model-free: no writer function is used below). *)
Definition get_attr (k : bytes) (attrs : list (bytes * bytes)) : option bytes :=
  match find (fun a => bytes_eqb (fst a) k) attrs with Some a => Some (snd a) | None => None end.
Definition attr_is (k : bytes) (attrs : list (bytes * bytes)) (v : bytes) : bool :=
  match get_attr k attrs with Some x => bytes_eqb x v | None => false end.
Definition is_elem (nm : bytes) (n : node) : bool := match n with Elem x _ _ => bytes_eqb x nm | Text _ => false end.
Definition elems_named (nm : bytes) (kids : list node) : list node := filter (is_elem nm) kids.
Definition text_of (kids : list node) : bytes := flat_map (fun n => match n with Text s => s | Elem _ _ _ => [] end) kids.

Definition fail_text (f : bytes * N * bytes) : bytes := let '(file, line, msg) := f in file ++ [58] ++ dec line ++ [58; 32] ++ msg.

(* one testcase element against one test: name, file, line; skipped iff ignored; failure iff failed, with file:line: first message *)
Definition testcase_ok (t : test) (n : node) : bool :=
  match n with
  | Elem _ attrs kids =>
      attr_is L_name attrs (t_name t) && attr_is L_file attrs (t_file t) && attr_is L_line attrs (dec (t_line t))
      && Bool.eqb (existsb (is_elem L_skipped) kids) (t_ignored t)
      && match test_failure t, elems_named L_failure kids with
         | None, [] => true
         | Some f, [Elem _ fa _] => attr_is L_message fa (fail_text f)
         | _, _ => false
         end
  | Text _ => false
  end.
Fixpoint all2 {A B} (f : A -> B -> bool) (l : list A) (m : list B) : bool :=
  match l, m with
  | [], [] => true
  | a :: l', b :: m' => f a b && all2 f l' m'
  | _, _ => false
  end.
Definition group_name (g : list test) : bytes := match g with t :: _ => t_group t | [] => [] end.
Definition count_failed (g : list test) : N := N.of_nat (length (filter test_failed g)).

(* the suite element of group g; printed_all = everything printed up to the end of g, printed_own = printed by g's tests
   (the property fixes that the captured output is unescaped faithfully, not which of the two the file carries) *)
Definition suite_ok (g : list test) (printed_all printed_own : bytes) (t : node) : bool :=
  match t with
  | Elem nm attrs kids =>
      bytes_eqb nm L_testsuite
      && attr_is L_name attrs (group_name g)
      && attr_is L_tests attrs (dec (N.of_nat (length g)))
      && attr_is L_failures attrs (dec (count_failed g))
      && all2 testcase_ok g (elems_named L_testcase kids)
      && match elems_named L_system_out kids with
         | [Elem _ _ ok] => bytes_eqb (text_of ok) printed_all || bytes_eqb (text_of ok) printed_own
         | _ => false
         end
  | Text _ => false
  end.

(* file name: cpputest_[package_]group.xml with every character of the forbidden set replaced by '_' *)
Definition expected_filename (pkg group : bytes) : bytes :=
  map (fun c => if existsb (N.eqb c) junit_forbidden then 95 else c)
      (lit_cpputest_ ++ (match pkg with [] => [] | _ => pkg ++ [95] end) ++ group) ++ lit_dotxml.

(* the package after a list of outside calls *)
Fixpoint ops_pkg (pkg : bytes) (ops : list op) : bytes :=
  match ops with [] => pkg | OSetPkg p :: r => ops_pkg p r | OFileName _ :: r => ops_pkg pkg r end.
(* the package at a time = the argument of the latest setPackageName before that time (empty if none).  ops_expect walks
   the outside calls: every createFileName answer must be the name built from the package of that moment; it returns the
   package afterwards and the answers not yet consumed. *)
Fixpoint ops_expect (pkg : bytes) (ops : list op) (names : list bytes) : option (bytes * list bytes) :=
  match ops with
  | [] => Some (pkg, names)
  | OSetPkg p :: r => ops_expect p r names
  | OFileName g :: r =>
      match names with
      | n :: names' => if bytes_eqb n (expected_filename pkg g) then ops_expect pkg r names' else None
      | [] => None
      end
  end.

(* the file of a group is named after the package in force when the group ends (= when the file is written) *)
Fixpoint spec_groups (pkg : bytes) (gs : list (list otest)) (post : list op) (printed : bytes)
                     (files : list (bytes * bytes)) (names : list bytes) : bool :=
  match gs with
  | [] => match files with
          | [] => match ops_expect pkg post names with Some (_, []) => true | _ => false end
          | _ => false
          end
  | og :: gs' =>
      match files with
      | (fn, content) :: fs' =>
          match ops_expect pkg (flat_map fst og) names with
          | Some (pkg', names') =>
              let g := map snd og in
              let printed' := printed ++ tests_printed g in
              bytes_eqb fn (expected_filename pkg' (group_name g))
              && match xml_parse content with Some t => suite_ok g printed' (tests_printed g) t | None => false end
              && spec_groups pkg' gs' post printed' fs' names'
          | None => false
          end
      | [] => false
      end
  end.
(* (spec_groups reads the list of writes of a run without filters: one write per stretch, in order.  It is kept for the theorem about
   the writes; the oracle below reads what is left in the file system at the end.) *)

(* The property over the files that exist at the end.  A stretch = maximal run of consecutive registered tests with the same group
   name (osegments of all registered tests); its group "ran" when at least one of its tests is selected.  gs = the stretches reduced
   to their selected tests (a fully filtered stretch is the empty list).  For every group that ran the file named after the package
   in force at its end and the group must, at the END of the run, hold that group's report: true counts, one test case per selected
   test in run order.  Not demanded (claims): the name is also the name of a LATER stretch -- a later group that ran and maps to the same
   file name (the same group name in two stretches is outside the property's quantifier; "a/b" and "a_b" share a name by the
   property's own naming rule), or a later fully filtered stretch when the group that ran has the empty name (the code writes the
   empty suite of a fully filtered stretch under the name built from the empty group name, cpputest_[package_].xml: the oracle is
   indifferent to that file). *)
Fixpoint later_claims (fn pkg : bytes) (gs : list (list otest)) : bool :=
  match gs with
  | [] => false
  | og :: gs' =>
      let pkg' := ops_pkg pkg (flat_map fst og) in
      bytes_eqb (expected_filename pkg' (group_name (map snd og))) fn || later_claims fn pkg' gs'
  end.
Fixpoint spec_fgroups (pkg : bytes) (gs : list (list otest)) (post : list op) (printed : bytes)
                      (files : list (bytes * bytes)) (names : list bytes) : bool :=
  match gs with
  | [] => match ops_expect pkg post names with Some (_, []) => true | _ => false end
  | og :: gs' =>
      match ops_expect pkg (flat_map fst og) names with
      | Some (pkg', names') =>
          let g := map snd og in
          let printed' := printed ++ tests_printed g in
          match g with
          | [] => true           (* no test of the stretch was selected: nothing is demanded, whatever was written *)
          | _ =>
              let fn := expected_filename pkg' (group_name g) in
              later_claims fn pkg' gs'
              || match fs_lookup fn files with
                 | Some content => match xml_parse content with Some t => suite_ok g printed' (tests_printed g) t | None => false end
                 | None => false
                 end
          end
          && spec_fgroups pkg' gs' post printed' files names'
      | None => false
      end
  end.
(* the stretches of the registry, each reduced to its selected tests (as armed by -ri) *)
Definition sel_segments (s : scenario) : list (list otest) := map (filter (fun x => s_sel s (snd x))) (osegments (armed s)).
Definition spec (s : scenario) (o : obs) : bool := spec_fgroups [] (sel_segments s) (s_post s) [] (fst o) (snd o).

(* acceptance only (used to compare the parser with an independent one on arbitrary byte strings) *)
Definition xml_accepts (s : bytes) : bool := match xml_parse s with Some _ => true | None => false end.

(* ------------------------------------------------------------------------------------------------------------
   Statement-level definitions used by the theorems (not extracted). *)
(* textbook reading of an escaped text: '&' must start one of the seven references, no markup character occurs *)
Definition xml_refs : list (bytes * N) := [(lit_amp, 38); (lit_quot, 34); (lit_lt, 60); (lit_gt, 62); (lit_cr, 13); (lit_lf, 10)].
Definition match_ref (s : bytes) : option (N * nat) :=
  match find (fun e => is_prefix (fst e) s) xml_refs with Some e => Some (snd e, length (fst e)) | None => None end.
Definition markup_char (c : N) : bool := (c =? 60) || (c =? 62) || (c =? 34) || (c =? 13) || (c =? 10).
Fixpoint no_markup (s : bytes) : bool :=
  match s with
  | [] => true
  | c :: r => (if c =? 38 then match match_ref s with Some _ => true | None => false end else negb (markup_char c)) && no_markup r
  end.
Fixpoint unescape_go (s : bytes) (skip : nat) : bytes :=
  match s with
  | [] => []
  | c :: r =>
      match skip with
      | S k => unescape_go r k
      | O => match match_ref (c :: r) with
             | Some (ch, len) => ch :: unescape_go r (pred len)
             | None => c :: unescape_go r O
             end
      end
  end.
Definition unescape (s : bytes) : bytes := unescape_go s O.

(* the tree a conforming parser must build from what the writer emitted *)
Definition seg_dec (x : seg) : bytes := match x with Raw s => s | Esc s => s end.
Definition segs_dec (l : list seg) : bytes := flat_map seg_dec l.
Definition flushK (K : list node) (acc : bytes) : list node := match acc with [] => K | _ => Text (rev acc) :: K end.
Definition absorb (erase : ptree -> node) (st : list node * bytes) (p : ptree) : list node * bytes :=
  match p with
  | PText segs => (fst st, rev (segs_dec segs) ++ snd st)
  | PElem _ _ _ _ => (erase p :: flushK (fst st) (snd st), [])
  end.
Definition decA (attrs : list (bytes * list seg)) : list (bytes * bytes) := map (fun a => (fst a, segs_dec (snd a))) attrs.
Fixpoint erase (p : ptree) : node :=
  match p with
  | PText segs => Text (segs_dec segs)
  | PElem n attrs sc kids => Elem n (decA attrs) (let st := fold_left (absorb erase) kids ([], []) in rev (flushK (fst st) (snd st)))
  end.
Definition erase_kids (kids : list ptree) : list node := let st := fold_left (absorb erase) kids ([], []) in rev (flushK (fst st) (snd st)).

(* the writer's state at the end of group g when `printed` had been printed before the group started *)
Definition jnode_of (t : test) : jnode :=
  {| n_name := t_name t; n_file := t_file t; n_line := t_line t; n_ignored := t_ignored t; n_failure := test_failure t;
     n_checks := if t_ignored t then 0 else snd (body_events t (t_body t)) |}.
Definition group_state (g : list test) (printed : bytes) (files : list (bytes * bytes)) : jstate :=
  {| j_nodes := rev (map jnode_of g); j_testCount := N.of_nat (length g); j_failureCount := count_failed g;
     j_group := group_name g; j_stdout := printed ++ tests_printed g; j_files := files; j_pkg := []; j_names := [] |}.
(* (write_group / suite_ptree take the package as an argument and do not read j_pkg, j_names, j_files) *)

(* statement level: the package after a list of outside calls, and what the createFileName calls among them answer *)
Fixpoint ops_names (pkg : bytes) (ops : list op) : list bytes :=
  match ops with
  | [] => []
  | OSetPkg p :: r => ops_names p r
  | OFileName g :: r => expected_filename pkg g :: ops_names pkg r
  end.
(* tree_of: the report of group g *)
Definition tree_of (pkg : bytes) (g : list test) (printed : bytes) : node := erase (suite_ptree Esc pkg (group_state g printed [])).
