(* C10 -- types of the wiring tables that tools/gen/C10.py regenerates from src/CppUTest/MemoryLeakWarningPlugin.cpp
   (the eleven function pointers behind operator new / delete / malloc / realloc / free and what the installed
   function does).  No proofs in this file. *)
From Coq Require Import List Bool.
Import ListNotations.

(* allocator families of the detector: getCurrentNewAllocator / getCurrentNewArrayAllocator / getCurrentMallocAllocator *)
Inductive fam := FNew | FNewArr | FMalloc.
Definition fam_eqb (a b : fam) : bool :=
  match a, b with FNew, FNew | FNewArr, FNewArr | FMalloc, FMalloc => true | _, _ => false end.

(* the eleven entry points (one function pointer each) *)
Inductive entry :=
| ENew | ENewNothrow | ENewDebug | ENewArr | ENewArrNothrow | ENewArrDebug | EDelete | EDeleteArr
| EMalloc | ERealloc | EFree.
Definition entry_eqb (a b : entry) : bool :=
  match a, b with
  | ENew, ENew | ENewNothrow, ENewNothrow | ENewDebug, ENewDebug | ENewArr, ENewArr | ENewArrNothrow, ENewArrNothrow
  | ENewArrDebug, ENewArrDebug | EDelete, EDelete | EDeleteArr, EDeleteArr | EMalloc, EMalloc | ERealloc, ERealloc
  | EFree, EFree => true
  | _, _ => false
  end.
Definition all_entries : list entry :=
  [ENew; ENewNothrow; ENewDebug; ENewArr; ENewArrNothrow; ENewArrDebug; EDelete; EDeleteArr; EMalloc; ERealloc; EFree].

(* what the installed function does with the detector *)
Inductive action :=
| AAlloc (f : fam)       (* getGlobalDetector()->allocMemory(getCurrent<f>Allocator(), ...) *)
| ARelease (f : fam)     (* invalidateMemory + deallocMemory(getCurrent<f>Allocator(), ...) *)
| ARealloc (f : fam)     (* reallocMemory(getCurrent<f>Allocator(), ...) *)
| APlain.                (* PlatformSpecificMalloc / Realloc / Free: the detector is not involved *)
Definition action_eqb (a b : action) : bool :=
  match a, b with
  | AAlloc f, AAlloc g | ARelease f, ARelease g | ARealloc f, ARealloc g => fam_eqb f g
  | APlain, APlain => true
  | _, _ => false
  end.

(* w_locks: the first statement of the installed function is `MemLeakScopedMutex lock;` and the whole body is its scope *)
Record wrapper := { w_locks : bool; w_action : action }.
Definition wtable := list (entry * wrapper).

Fixpoint wlookup (tb : wtable) (e : entry) : option wrapper :=
  match tb with
  | [] => None
  | (e', w) :: r => if entry_eqb e' e then Some w else wlookup r e
  end.

(* the language-level meaning of each entry point (what the C++ / C standard pairs with what) *)
Definition textbook_action (e : entry) : action :=
  match e with
  | ENew | ENewNothrow | ENewDebug => AAlloc FNew
  | ENewArr | ENewArrNothrow | ENewArrDebug => AAlloc FNewArr
  | EDelete => ARelease FNew
  | EDeleteArr => ARelease FNewArr
  | EMalloc => AAlloc FMalloc
  | ERealloc => ARealloc FMalloc
  | EFree => ARelease FMalloc
  end.

(* a table is a complete thread-safe wiring: every entry point is present once, takes the lock first, and performs the
   detector action that belongs to it *)
Definition entry_ok (tb : wtable) (e : entry) : bool :=
  match wlookup tb e with
  | Some w => w_locks w && action_eqb (w_action w) (textbook_action e)
  | None => false
  end.
Definition wiring_ok (tb : wtable) : bool :=
  Nat.eqb (length tb) (length all_entries) && forallb (entry_ok tb) all_entries.

(* the same actions without any lock (the default overloads) / no detector at all (overloads off) *)
Definition entry_unlocked_same (tb : wtable) (e : entry) : bool :=
  match wlookup tb e with
  | Some w => negb (w_locks w) && action_eqb (w_action w) (textbook_action e)
  | None => false
  end.
Definition entry_plain (tb : wtable) (e : entry) : bool :=
  match wlookup tb e with
  | Some w => negb (w_locks w) && action_eqb (w_action w) APlain
  | None => false
  end.
