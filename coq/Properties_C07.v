(* C07 -- Per-test leak verdict: leaking tests fail, clean ones pass, blame is correct.
   Only statements; every proof is `exact <lemma>` into C07_Proofs.v / C07_Tests.v / C07_Main.v.
   All quantities on the right-hand sides are read off the PROGRAM TEXT (C07_Model: executed, own_failures, asked_ignore,
   declared, leaked; C07_Main: base_of = ordinal of the first allocation of test i, leaks_of = L_i = blocks allocated by the
   executed statements of test i and not released later in test i); `run` is the mirror of the plugin and the detector's table. *)
From Coq Require Import NArith List Bool Permutation.
From CppUVerif Require Import gen.Gen_Common C04_Model C04_Table C07_Model C07_Proofs C07_Tests C07_Main C07_Carry C07_Exact.
Import ListNotations.
Local Open Scope N_scope.

(* before every preTestAction (after k tests and the outside statements that precede test k) no record of the table is stamped
   `checking` (they are `enabled`, or `disabled` when made before the plugin existed), the detector's period is `enabled`,
   totalMemoryLeaks(checking) = 0 *)
Theorem C07_inv_no_checking_between_tests : forall s k, valid s = true ->
  let w := world_before_pre s k in
  Forall (fun n => n_period n <> SChecking) (flat (d_tbl (w_det w))) /\
  d_period (w_det w) = SEnabled /\ t_total PChecking (d_tbl (w_det w)) = 0.
Proof. exact inv_no_checking_between_tests. Qed.
Print Assumptions C07_inv_no_checking_between_tests.

(* test i gets a leak failure iff it passed its own checks, did not ask to ignore leaks, and |L_i| differs from the number it
   declared; it gets at most one, and nothing else is added to its own failures *)
Theorem C07_verdict_iff : forall s i, valid s = true -> (i < length (s_tests s))%nat ->
  let ex := executed (nth i (s_tests s) no_test) in
  let o := nth i (o_tests (run s)) no_item in
  (ti_leak o = 1 <-> own_failures ex = 0 /\ asked_ignore ex = false /\ len (leaks_of s i) <> declared ex) /\
  (ti_leak o = 0 \/ ti_leak o = 1) /\
  ti_fail o = own_failures ex + ti_leak o.
Proof. exact verdict_iff. Qed.
Print Assumptions C07_verdict_iff.

(* the report of a leak failure lists exactly L_i (each block once), with the right total *)
Theorem C07_report_exact : forall s i, valid s = true -> (i < length (s_tests s))%nat ->
  let o := nth i (o_tests (run s)) no_item in
  (ti_leak o = 1 -> Permutation (ti_entries o) (leaks_of s i) /\ ti_total o = len (leaks_of s i) /\
                    ti_many o = false /\ (ti_noleaks o = true <-> leaks_of s i = [])) /\
  (ti_leak o = 0 -> ti_entries o = []).
Proof. exact report_exact. Qed.
Print Assumptions C07_report_exact.

(* a block leaked by test i is never listed for, nor counted in L_j of, a later test j *)
Theorem C07_no_cross_blame : forall s i j, valid s = true -> (i < j)%nat -> (j < length (s_tests s))%nat ->
  forall e, In e (leaks_of s i) ->
    ~ In (fst e) (map fst (ti_entries (nth j (o_tests (run s)) no_item))) /\ ~ In (fst e) (map fst (leaks_of s j)).
Proof. exact no_cross_blame. Qed.
Print Assumptions C07_no_cross_blame.

(* releasing a block the test did not allocate itself (an earlier test's block) does not offset a new leak: L is unchanged *)
Theorem C07_foreign_release_no_offset : forall a b id base, existsb (allocates id) a = false ->
  leaked base (a ++ SFree id :: b) = leaked base (a ++ b).
Proof. exact foreign_release_no_offset. Qed.
Print Assumptions C07_foreign_release_no_offset.

(* ... at the level of whole runs: deleting from the executed statements of one test the release of a block that test had
   not allocated before (an earlier test's block, an outside block, a NULL pointer) changes no test's failures, verdict or report *)
Theorem C07_foreign_release_changes_no_verdict : forall pre P Q t t' tail tail' k k' j A B id,
  executed t = A ++ SFree id :: B -> executed t' = A ++ B -> t_before t = t_before t' ->
  existsb (allocates id) A = false ->
  valid (mkS pre (P ++ t :: Q) tail k) = true -> valid (mkS pre (P ++ t' :: Q) tail' k') = true ->
  (j < length (P ++ t :: Q))%nat ->
  item_same (nth j (o_tests (run (mkS pre (P ++ t :: Q) tail k))) no_item) (nth j (o_tests (run (mkS pre (P ++ t' :: Q) tail' k'))) no_item).
Proof. exact foreign_release_changes_no_verdict. Qed.
Print Assumptions C07_foreign_release_changes_no_verdict.

(* before every preTestAction the plugin's flags are back at their defaults: nothing carries over to the next test *)
Theorem C07_flags_reset : forall s k, valid s = true ->
  let w := world_before_pre s k in w_ignore w = false /\ w_expected w = 0 /\ w_err w = false.
Proof. exact flags_reset. Qed.
Print Assumptions C07_flags_reset.

(* ... at the level of whole runs: two programs that differ only in what ONE test declares (its EXPECT_N_LEAKS /
   IGNORE_ALL_LEAKS_IN_TEST statements, anywhere in its phases) give every OTHER test the same failures, verdict and report *)
Theorem C07_flags_do_not_carry_over : forall pre P Q t t' tail tail' k k' j,
  strip_test t = strip_test t' ->
  valid (mkS pre (P ++ t :: Q) tail k) = true -> valid (mkS pre (P ++ t' :: Q) tail' k') = true ->
  j <> length P -> (j < length (P ++ t :: Q))%nat ->
  item_same (nth j (o_tests (run (mkS pre (P ++ t :: Q) tail k))) no_item) (nth j (o_tests (run (mkS pre (P ++ t' :: Q) tail' k'))) no_item).
Proof. exact flags_do_not_carry_over. Qed.
Print Assumptions C07_flags_do_not_carry_over.

(* a test that failed on its own gets no leak failure, whatever it leaked *)
Theorem C07_already_failed_no_extra : forall s i, valid s = true -> (i < length (s_tests s))%nat ->
  let ex := executed (nth i (s_tests s) no_test) in
  let o := nth i (o_tests (run s)) no_item in
  own_failures ex <> 0 -> ti_leak o = 0 /\ ti_fail o = own_failures ex /\ ti_entries o = [].
Proof. exact already_failed_no_extra. Qed.
Print Assumptions C07_already_failed_no_extra.

(* FinalReport(k) is silent iff the number of blocks obtained since the plugin was created and outstanding at the end is k;
   otherwise it lists exactly those blocks (blocks obtained before the plugin existed -- period `disabled` -- are not its business) *)
Theorem C07_final_report : forall s, valid s = true -> final_good s (run s).
Proof. exact final_report_exact. Qed.
Print Assumptions C07_final_report.

(* the control flow of Utest::run is the sequential execution of the statements the text says are executed *)
Theorem C07_run_body_is_executed : forall w t,
  run_body w t = fold_left step (phase_text t) w /\
  fold_left step (t_ipost t) (run_body (fold_left step (t_ipre t) w) t) = fold_left step (executed t) w.
Proof. exact control_flow. Qed.
Print Assumptions C07_run_body_is_executed.

(* refinement to the text: before every preTestAction the hash table (invariants of C04 intact) holds exactly one record per block
   the executed text has obtained and not released -- `enabled` for those obtained since the plugin exists (ordinals from
   1 + |pre| on, in text order), `disabled` for the older ones -- and the allocation counter is 1 + the number of allocations *)
Theorem C07_table_is_text : forall s k, valid s = true ->
  let d := w_det (world_before_pre s k) in
  Inv (d_tbl d) /\ Permutation (flat (d_tbl d)) (pure_recs (s_pre s) (text_before s k)) /\
  d_seq d = 1 + allocs (s_pre s) + allocs (text_before s k).
Proof. exact table_is_text. Qed.
Print Assumptions C07_table_is_text.

(* the oracle is exactly the property: an observation whose reports were not cut short by the 4096-byte buffer is accepted iff
   every test's failures, verdict and report and the final report are what the program text demands (no validity needed) *)
Theorem C07_spec_exact : forall s o, Forall (fun i => ti_many i = false) (o_tests o) -> o_many o = false ->
  (spec s o = true <->
   o_err o = false /\ o_stray o = 0 /\ items_good (1 + allocs (s_pre s)) (s_tests s) (o_tests o) /\ final_good s o).
Proof. exact spec_exact. Qed.
Print Assumptions C07_spec_exact.

(* the executable oracle used on the implementation's observations accepts every model observation *)
Theorem C07_run_meets_spec : forall s, valid s = true -> spec s (run s) = true.
Proof. exact run_meets_spec. Qed.
Print Assumptions C07_run_meets_spec.
