(* C07 -- Per-test leak verdict: leaking tests fail, clean ones pass, blame is correct.
   Only statements; every proof is `exact <lemma>` into C07_Proofs.v / C07_Tests.v / C07_Main.v.
   All quantities on the right-hand sides are read off the PROGRAM TEXT (C07_Model: executed, own_failures, asked_ignore,
   declared, leaked; C07_Main: base_of = ordinal of the first allocation of test i, leaks_of = L_i = blocks allocated by the
   executed statements of test i and not released later in test i); `run` is the mirror of the plugin and the detector's table. *)
From Coq Require Import NArith List Bool Permutation.
From CppUVerif Require Import gen.Gen_Common C04_Model C04_Table C07_Model C07_Proofs C07_Tests C07_Main C07_Carry C07_Exact.
Import ListNotations.
Local Open Scope N_scope.

(* before every preTestAction (after k tests and the outside statements that precede test k) no record of the table is stamped
   `checking` (they are `enabled`, or `disabled` when made before the plugin existed), the detector's period is `enabled`,
   totalMemoryLeaks(checking) = 0 *)
Theorem C07_inv_no_checking_between_tests : forall s k, valid s = true ->
  let w := world_before_pre s k in
  Forall (fun n => n_period n <> SChecking) (flat (d_tbl (w_det w))) /\
  d_period (w_det w) = SEnabled /\ t_total PChecking (d_tbl (w_det w)) = 0.
Proof. exact inv_no_checking_between_tests. Qed.
Print Assumptions C07_inv_no_checking_between_tests.

(* test i gets a leak failure iff it passed its own checks, did not ask to ignore leaks, and |L_i| differs from the number it
   declared; it gets at most one, and nothing else is added to its own failures *)
Theorem C07_verdict_iff : forall s i, valid s = true -> (i < length (s_tests s))%nat ->
  let ex := executed (nth i (s_tests s) no_test) in
  let o := nth i (o_tests (run s)) no_item in
  (ti_leak o = 1 <-> own_failures ex = 0 /\ asked_ignore ex = false /\ len (leaks_of s i) <> declared ex) /\
  (ti_leak o = 0 \/ ti_leak o = 1) /\
  ti_fail o = own_failures ex + ti_leak o.
Proof. exact verdict_iff. Qed.
Print Assumptions C07_verdict_iff.

(* the report of a leak failure lists exactly L_i (each block once), with the right total *)
Theorem C07_report_exact : forall s i, valid s = true -> (i < length (s_tests s))%nat ->
  let o := nth i (o_tests (run s)) no_item in
  (ti_leak o = 1 -> Permutation (ti_entries o) (leaks_of s i) /\ ti_total o = len (leaks_of s i) /\
                    ti_many o = false /\ (ti_noleaks o = true <-> leaks_of s i = [])) /\
  (ti_leak o = 0 -> ti_entries o = []).
Proof. exact report_exact. Qed.
Print Assumptions C07_report_exact.

(* a block leaked by test i is never listed for, nor counted in L_j of, a later test j *)
Theorem C07_no_cross_blame : forall s i j, valid s = true -> (i < j)%nat -> (j < length (s_tests s))%nat ->
  forall e, In e (leaks_of s i) ->
    ~ In (fst e) (map fst (ti_entries (nth j (o_tests (run s)) no_item))) /\ ~ In (fst e) (map fst (leaks_of s j)).
Proof. exact no_cross_blame. Qed.
Print Assumptions C07_no_cross_blame.

(* releasing a block the test did not allocate itself (an earlier test's block) does not offset a new leak: L is unchanged *)
Theorem C07_foreign_release_no_offset : forall a b id base, existsb (allocates id) a = false ->
  leaked base (a ++ SFree id :: b) = leaked base (a ++ b).
Proof. exact foreign_release_no_offset. Qed.
Print Assumptions C07_foreign_release_no_offset.

(* ... at the level of whole runs: deleting from the executed statements of one test the release of a block that test had
   not allocated before (an earlier test's block, an outside block, a NULL pointer) changes no test's failures, verdict or report *)
Theorem C07_foreign_release_changes_no_verdict : forall pre P Q t t' tail tail' k k' j A B id,
  executed t = A ++ SFree id :: B -> executed t' = A ++ B -> t_before t = t_before t' ->
  existsb (allocates id) A = false ->
  valid (mkS pre (P ++ t :: Q) tail k) = true -> valid (mkS pre (P ++ t' :: Q) tail' k') = true ->
  (j < length (P ++ t :: Q))%nat ->
  item_same (nth j (o_tests (run (mkS pre (P ++ t :: Q) tail k))) no_item) (nth j (o_tests (run (mkS pre (P ++ t' :: Q) tail' k'))) no_item).
Proof. exact foreign_release_changes_no_verdict. Qed.
Print Assumptions C07_foreign_release_changes_no_verdict.

(* before every preTestAction the plugin's flags are back at their defaults: nothing carries over to the next test *)
Theorem C07_flags_reset : forall s k, valid s = true ->
  let w := world_before_pre s k in w_ignore w = false /\ w_expected w = 0 /\ w_err w = false.
Proof. exact flags_reset. Qed.
Print Assumptions C07_flags_reset.

(* ... at the level of whole runs: two programs that differ only in what ONE test declares (its EXPECT_N_LEAKS /
   IGNORE_ALL_LEAKS_IN_TEST statements, anywhere in its phases) give every OTHER test the same failures, verdict and report *)
Theorem C07_flags_do_not_carry_over : forall pre P Q t t' tail tail' k k' j,
  strip_test t = strip_test t' ->
  valid (mkS pre (P ++ t :: Q) tail k) = true -> valid (mkS pre (P ++ t' :: Q) tail' k') = true ->
  j <> length P -> (j < length (P ++ t :: Q))%nat ->
  item_same (nth j (o_tests (run (mkS pre (P ++ t :: Q) tail k))) no_item) (nth j (o_tests (run (mkS pre (P ++ t' :: Q) tail' k'))) no_item).
Proof. exact flags_do_not_carry_over. Qed.
Print Assumptions C07_flags_do_not_carry_over.

(* a test that failed on its own gets no leak failure, whatever it leaked *)
Theorem C07_already_failed_no_extra : forall s i, valid s = true -> (i < length (s_tests s))%nat ->
  let ex := executed (nth i (s_tests s) no_test) in
  let o := nth i (o_tests (run s)) no_item in
  own_failures ex <> 0 -> ti_leak o = 0 /\ ti_fail o = own_failures ex /\ ti_entries o = [].
Proof. exact already_failed_no_extra. Qed.
Print Assumptions C07_already_failed_no_extra.

(* FinalReport(k) is silent iff the number of blocks obtained since the plugin was created and outstanding at the end is k;
   otherwise it lists exactly those blocks (blocks obtained before the plugin existed -- period `disabled` -- are not its business) *)
Theorem C07_final_report : forall s, valid s = true -> final_good s (run s).
Proof. exact final_report_exact. Qed.
Print Assumptions C07_final_report.

(* the control flow of Utest::run is the sequential execution of the statements the text says are executed *)
Theorem C07_run_body_is_executed : forall w t,
  run_body w t = fold_left step (phase_text t) w /\
  fold_left step (t_ipost t) (run_body (fold_left step (t_ipre t) w) t) = fold_left step (executed t) w.
Proof. exact control_flow. Qed.
Print Assumptions C07_run_body_is_executed.

(* refinement to the text: before every preTestAction the hash table (invariants of C04 intact) holds exactly one record per block
   the executed text has obtained and not released -- `enabled` for those obtained since the plugin exists (ordinals from
   1 + |pre| on, in text order), `disabled` for the older ones -- and the allocation counter is 1 + the number of allocations *)
Theorem C07_table_is_text : forall s k, valid s = true ->
  let d := w_det (world_before_pre s k) in
  Inv (d_tbl d) /\ Permutation (flat (d_tbl d)) (pure_recs (s_pre s) (text_before s k)) /\
  d_seq d = 1 + allocs (s_pre s) + allocs (text_before s k).
Proof. exact table_is_text. Qed.
Print Assumptions C07_table_is_text.

(* the oracle is exactly the property: an observation whose reports were not cut short by the 4096-byte buffer is accepted iff
   every test's failures, verdict and report and the final report are what the program text demands (no validity needed) *)
Theorem C07_spec_exact : forall s o, Forall (fun i => ti_many i = false) (o_tests o) -> o_many o = false ->
  (spec s o = true <->
   o_err o = false /\ o_stray o = 0 /\ items_good (1 + allocs (s_pre s)) (s_tests s) (o_tests o) /\ final_good s o).
Proof. exact spec_exact. Qed.
Print Assumptions C07_spec_exact.

(* programs with the runner's plugin only: the oracle accepts every model observation *)
Theorem C07_single_plugin_run_meets_spec : forall s, valid s = true -> spec s (run s) = true.
Proof. exact run_meets_spec. Qed.
Print Assumptions C07_single_plugin_run_meets_spec.

(* --------------------------------------------------------------------------------------------------------------
   SEVERAL MemoryLeakWarningPlugin INSTANCES IN ONE PROCESS (C07_ModelM.v, proofs C07_Multi.v): the runner's plugin plus further
   plugins constructed and destroyed before / between / inside tests, on a private detector or on the runner's ("the global") one;
   firstPlugin_ as state (serial of the object it points to; 0 = the runner's plugin).
   -------------------------------------------------------------------------------------------------------------- *)
From CppUVerif Require Import C07_ModelM C07_Multi.

(* firstPlugin_ is written once: whatever is constructed, destroyed, allocated, run or reported afterwards, it keeps pointing to
   the same object *)
Theorem C07_first_plugin_written_once : forall l x o, x_first x = Some o -> x_first (fold_left aux_step l x) = Some o.
Proof. exact first_written_once. Qed.
Print Assumptions C07_first_plugin_written_once.

(* ... and that object is the first plugin constructed since it was NULL (serial x_next), in any order of later constructions and
   destructions; when the runner's plugin is constructed while it is NULL, it is the runner's plugin for the rest of the process *)
Theorem C07_first_plugin_is_first_constructed :
  (forall l x, x_first x = None -> x_first (fold_left aux_step l x) = if existsb is_new l then Some (x_next x) else None) /\
  (forall l x, x_first x = None -> x_first (fold_left aux_step l (x_main_ctor x)) = Some 0).
Proof. exact (conj first_is_first_constructed main_first_forever). Qed.
Print Assumptions C07_first_plugin_is_first_constructed.

(* EXPECT_N_LEAKS / IGNORE_ALL_LEAKS_IN_TEST reach the object firstPlugin_ points to and nothing else: the runner's plugin when it
   is the first one (no other instance changes); another instance otherwise (the runner's plugin does not notice) *)
Theorem C07_macros_reach_first_plugin :
  (forall st b, is_macro b = true -> x_first (snd st) = Some 0 -> mstep st (MS b) = (step (fst st) b, snd st)) /\
  (forall st b o, is_macro b = true -> x_first (snd st) = Some o -> o <> 0 ->
     existsb (fun i => i_serial i =? o) (x_insts (snd st)) = true ->
     fst (mstep st (MS b)) = fst st /\
     x_insts (snd (mstep st (MS b))) = map (fun i => if i_serial i =? o then with_w i (exec_stmt (i_w i) b) else i) (x_insts (snd st)) /\
     x_err (snd (mstep st (MS b))) = x_err (snd st)).
Proof. exact (conj macro_to_main macro_to_other). Qed.
Print Assumptions C07_macros_reach_first_plugin.

(* the other instances are invisible to the runner's plugin: every test's failures, verdict and report and the final report are
   those of the program without the statements about other instances -- wherever those stand *)
Theorem C07_other_instances_change_no_verdict : forall s, mvalid s = true -> mo_main (mrun s) = run (erase s).
Proof. exact main_is_base_run. Qed.
Print Assumptions C07_other_instances_change_no_verdict.

(* hence the property's table for every test of such a program (EXPECT_N_LEAKS / IGNORE_ALL_LEAKS_IN_TEST count whatever instances
   were constructed or destroyed before) *)
Theorem C07_verdict_iff_with_other_instances : forall s i, mvalid s = true -> (i < length (m_tests s))%nat ->
  let ex := executed (nth i (s_tests (erase s)) no_test) in
  let o := nth i (o_tests (mo_main (mrun s))) no_item in
  (ti_leak o = 1 <-> own_failures ex = 0 /\ asked_ignore ex = false /\ len (leaks_of (erase s) i) <> declared ex) /\
  (ti_leak o = 0 \/ ti_leak o = 1) /\
  ti_fail o = own_failures ex + ti_leak o.
Proof. exact verdict_iff_multi. Qed.
Print Assumptions C07_verdict_iff_with_other_instances.

(* every instance's detector is in period `enabled` from the construction on, whenever none of its preTestActions is pending (in
   particular up to its first preTestAction): at every point p of the run its FinalReport(k) is silent iff the number of blocks
   obtained through its detector since its construction and not released is k, and lists exactly those otherwise *)
Theorem C07_instance_enabled_from_construction : forall s p q al' j t, mvalid s = true -> mtrace s = p ++ q -> tfold [] p = Some al' ->
  find_s tn_slot j al' = Some t -> tn_shared t = false -> tn_win t = None ->
  exists i, find_s i_slot j (x_insts (fold_left aux_step p (x_main_ctor x_init))) = Some i /\
    d_period (w_det (i_w i)) = SEnabled /\
    forall k, let out := leaked 1 (tn_text t) in
      (len out = k -> final_report (i_w i) k = (None, false)) /\
      (len out <> k -> exists l, final_report (i_w i) k = (Some l, false) /\ Permutation (map ent l) out).
Proof. exact instance_enabled. Qed.
Print Assumptions C07_instance_enabled_from_construction.

Theorem C07_new_instance_enabled : forall x j, exists i, find_s i_slot j (x_insts (aux_step x (MNew j false))) = Some i /\
  d_period (w_det (i_w i)) = SEnabled /\ i_shared i = false.
Proof. exact new_instance_enabled. Qed.
Print Assumptions C07_new_instance_enabled.

(* what the further instances report (their postTestAction's failure and report, their FinalReport) is what the text of the
   statements made through THEIR detector demands by the same table; nothing dangles *)
Theorem C07_instances_meet_their_text : forall s, mvalid s = true ->
  mo_err (mrun s) = false /\ spec_insts [] (mtrace s) (mo_sec (mrun s)) = true.
Proof. exact instances_good. Qed.
Print Assumptions C07_instances_meet_their_text.

(* the executable oracle used on the implementation's observations accepts every model observation (programs with any number of
   plugin instances) *)
Theorem C07_run_meets_spec : forall s, mvalid s = true -> mspec s (mrun s) = true.
Proof. exact mrun_meets_mspec. Qed.
Print Assumptions C07_run_meets_spec.

(* --------------------------------------------------------------------------------------------------------------
   THE TRANSLATED SOURCE (gen/Gen_HeapC07.v, regenerated by tools/cxx2heap.py on every run) of the leak plugin's per-test actions and the detector functions they call computes the model's pre_action / post_action / final_report on the heap representation (C07_HeapRep.v)
   -------------------------------------------------------------------------------------------------------------- *)
From CppUVerif Require Import lib.CSem lib.CMem lib.CHeap gen.Gen_HeapC04 gen.Gen_HeapC07 C04_HeapRep C07_HeapRep C07_HeapTable C07_HeapTie.
Local Open Scope Z_scope.
Theorem C07_plugin_layout_is_the_source :
  off_MemoryLeakWarningPlugin_memLeakDetector_ = Z0 /\
  off_MemoryLeakWarningPlugin_ignoreAllWarnings_ = Zpos 1 /\
  off_MemoryLeakWarningPlugin_destroyGlobalDetectorAndTurnOfMemoryLeakDetectionInDestructor_ = Zpos 2 /\
  off_MemoryLeakWarningPlugin_expectedLeaks_ = Zpos 3 /\
  off_MemoryLeakWarningPlugin_failureCount_ = Zpos 4 /\ cells_MemoryLeakWarningPlugin = Zpos 5.
Proof. exact plugin_layout_is_the_source. Qed.
Print Assumptions C07_plugin_layout_is_the_source.

Theorem C07_detector_layout_is_the_source :
  off_MemoryLeakDetector_reporter_ = Z0 /\
  off_MemoryLeakDetector_current_period_ = Zpos 1 /\
  off_MemoryLeakDetector_outputBuffer_ = Zpos 2 /\
  off_MemoryLeakDetector_memoryTable_ = Zpos 3 /\
  cells_MemoryLeakDetectorTable = BinInt.Z.of_N hash_prime /\
  off_MemoryLeakDetector_doAllocationTypeChecking_ = BinInt.Z.add (Zpos 3) (BinInt.Z.of_N hash_prime) /\
  cells_MemoryLeakDetector = Zpos 80 /\
  off_MemoryLeakDetectorNode_period_ = Zpos 6 /\
  off_MemoryLeakDetectorNode_memory_ = Zpos 2 /\
  off_MemoryLeakDetectorNode_next_ = Zpos 8 /\ cells_MemoryLeakDetectorNode = Zpos 9.
Proof. exact detector_layout_is_the_source. Qed.
Print Assumptions C07_detector_layout_is_the_source.

Theorem C07_table_at_is_off :
  forall (h : heap) (bt : nat) (bss : list (list nat)) (t : table),
  table_at h bt bss t -> table_at_off h bt 0 bss t.
Proof. exact table_at_is_off. Qed.
Print Assumptions C07_table_at_is_off.

Theorem C07_src_table_getTotalLeaks_off_spec :
  forall (fuel : nat) (h : heap) (bt o : nat) (bss : list (list nat)) (t : table) (per : period),
  table_at_off h bt o bss t ->
  (forall i : nat, (i < nbuckets)%nat -> (length (nth i t []) < fuel)%nat) ->
  BinInt.Z.lt (BinInt.Z.of_nat (t_count t)) (BinInt.Z.pow (Zpos 2) (Zpos 64)) ->
  (73 < fuel)%nat ->
  src_table_getTotalLeaks fuel h (HPtr bt (BinInt.Z.of_nat o)) (period_code per) =
  FOk (BinInt.Z.of_N (t_total per t)).
Proof. exact src_table_getTotalLeaks_off_spec. Qed.
Print Assumptions C07_src_table_getTotalLeaks_off_spec.

Theorem C07_src_table_getFirstLeak_off_spec :
  forall (fuel : nat) (h : heap) (bt o : nat) (bss : list (list nat)) (t : table) (per : period),
  table_at_off h bt o bss t ->
  (forall i : nat, (i < nbuckets)%nat -> (length (nth i t []) < fuel)%nat) ->
  (73 < fuel)%nat ->
  src_table_getFirstLeak fuel h (HPtr bt (BinInt.Z.of_nat o)) (period_code per) =
  FOk (C04_HeapTable.tptr_first (fun n : node => is_in_period n per) bss t).
Proof. exact src_table_getFirstLeak_off_spec. Qed.
Print Assumptions C07_src_table_getFirstLeak_off_spec.

Theorem C07_src_table_getNextLeak_off_spec :
  forall (fuel : nat) (h : heap) (bt o : nat) (bss : list (list nat)) (t : table) (i k : nat)
  (per : period) (d : node),
  table_at_off h bt o bss t ->
  (i < nbuckets)%nat ->
  (k < length (nth i t []))%nat ->
  hashN (n_addr (nth k (nth i t []) d)) = i ->
  (forall j : nat, (j < nbuckets)%nat -> (length (nth j t []) < fuel)%nat) ->
  (72 - i < fuel)%nat ->
  src_table_getNextLeak fuel h (HPtr bt (BinInt.Z.of_nat o)) (HPtr (nth k (nth i bss []) 0%nat) Z0)
  (period_code per) = FOk (C04_HeapTable.tptr_next (fun n : node => is_in_period n per) i k bss t).
Proof. exact src_table_getNextLeak_off_spec. Qed.
Print Assumptions C07_src_table_getNextLeak_off_spec.

Theorem C07_d_mark_is_map_demote :
  forall st : det, Inv (d_tbl st) -> d_mark st = Some (with_tbl st (map (map demote) (d_tbl st))).
Proof. exact d_mark_is_map_demote. Qed.
Print Assumptions C07_d_mark_is_map_demote.

Theorem C07_src_det_startChecking_spec :
  forall (fuel : nat) (h : heap) (dt : nat) (bss : list (list nat)) (d : det) (evs : list pev)
  (counts : list Z) (ov : Z),
  det_at h dt bss d ->
  src_det_startChecking fuel h evs counts ov (HPtr dt Z0) =
  FOk (tt, set_cell h dt 1 (VInt (Zpos 3)), evs ++ [PClearBuffer], counts, ov) /\
  det_at (set_cell h dt 1 (VInt (Zpos 3))) dt bss (with_period d SChecking).
Proof. exact src_det_startChecking_spec. Qed.
Print Assumptions C07_src_det_startChecking_spec.

Theorem C07_src_det_stopChecking_spec :
  forall (fuel : nat) (h : heap) (dt : nat) (bss : list (list nat)) (d : det) (evs : list pev)
  (counts : list Z) (ov : Z),
  det_at h dt bss d ->
  src_det_stopChecking fuel h evs counts ov (HPtr dt Z0) =
  FOk (tt, set_cell h dt 1 (VInt (Zpos 2)), evs, counts, ov) /\
  det_at (set_cell h dt 1 (VInt (Zpos 2))) dt bss (with_period d SEnabled).
Proof. exact src_det_stopChecking_spec. Qed.
Print Assumptions C07_src_det_stopChecking_spec.

Theorem C07_src_det_totalMemoryLeaks_spec :
  forall (fuel : nat) (h : heap) (dt : nat) (bss : list (list nat)) (d : det) (evs : list pev)
  (counts : list Z) (ov : Z),
  det_at h dt bss d ->
  forall per : period,
  fuel_ok fuel (d_tbl d) ->
  BinInt.Z.lt (BinInt.Z.of_nat (t_count (d_tbl d))) (BinInt.Z.pow (Zpos 2) (Zpos 64)) ->
  src_det_totalMemoryLeaks fuel h evs counts ov (HPtr dt Z0) (period_code per) =
  FOk (BinInt.Z.of_N (t_total per (d_tbl d)), h, evs, counts, ov).
Proof. exact src_det_totalMemoryLeaks_spec. Qed.
Print Assumptions C07_src_det_totalMemoryLeaks_spec.

Theorem C07_src_det_mark_model :
  forall (fuel : nat) (h : heap) (dt : nat) (bss : list (list nat)) (d : det),
  det_at h dt bss d ->
  Inv (d_tbl d) ->
  (t_count (d_tbl d) + 80 < fuel)%nat ->
  exists (h' : heap) (d' : det),
  d_mark d = Some d' /\
  (forall (evs : list pev) (counts : list Z) (ov : Z),
  src_det_markCheckingPeriodLeaksAsNonCheckingPeriod fuel h evs counts ov (HPtr dt Z0) =
  FOk (tt, h', evs, counts, ov)) /\
  det_at h' dt bss d' /\
  length h' = length h /\
  (forall b : nat, ~ In b (concat bss) -> hblock h' b = hblock h b) /\
  (forall b k : nat, k <> 6%nat -> nth_error (hblock h' b) k = nth_error (hblock h b) k).
Proof. exact src_det_mark_model. Qed.
Print Assumptions C07_src_det_mark_model.

Theorem C07_src_plugin_expectLeaksInTest_spec :
  forall (fuel : nat) (h : heap) (pl dt : nat) (bss : list (list nat)) (w : world) (evs : list pev)
  (counts : list Z) (ov : Z) (n : N),
  world_at h pl dt bss w ->
  n < 2 ^ 64 ->
  src_plugin_expectLeaksInTest fuel h evs counts ov (HPtr pl Z0) (BinInt.Z.of_N n) =
  FOk (tt, set_cell h pl 3 (VInt (BinInt.Z.of_N n)), evs, counts, ov) /\
  world_at (set_cell h pl 3 (VInt (BinInt.Z.of_N n))) pl dt bss (exec_stmt w (SExpect n)).
Proof. exact src_plugin_expectLeaksInTest_spec. Qed.
Print Assumptions C07_src_plugin_expectLeaksInTest_spec.

Theorem C07_src_plugin_ignoreAllLeaksInTest_spec :
  forall (fuel : nat) (h : heap) (pl dt : nat) (bss : list (list nat)) (w : world) (evs : list pev)
  (counts : list Z) (ov : Z),
  world_at h pl dt bss w ->
  src_plugin_ignoreAllLeaksInTest fuel h evs counts ov (HPtr pl Z0) =
  FOk (tt, set_cell h pl 1 (VInt (Zpos 1)), evs, counts, ov) /\
  world_at (set_cell h pl 1 (VInt (Zpos 1))) pl dt bss (exec_stmt w SIgnore).
Proof. exact src_plugin_ignoreAllLeaksInTest_spec. Qed.
Print Assumptions C07_src_plugin_ignoreAllLeaksInTest_spec.

Theorem C07_src_plugin_preTestAction_spec :
  forall (fuel : nat) (h : heap) (pl dt : nat) (bss : list (list nat)) (w : world) (evs : list pev)
  (rest : list Z) (ov : Z),
  world_at h pl dt bss w ->
  w_failures w < 2 ^ 64 ->
  exists h' : heap,
  src_plugin_preTestAction fuel h evs (BinInt.Z.of_N (w_failures w) :: rest) ov (HPtr pl Z0) =
  FOk (tt, h', evs ++ [PClearBuffer], rest, ov) /\
  world_at h' pl dt bss (pre_action w) /\
  length h' = length h /\ (forall b : nat, b <> pl -> b <> dt -> hblock h' b = hblock h b).
Proof. exact src_plugin_preTestAction_spec. Qed.
Print Assumptions C07_src_plugin_preTestAction_spec.

Theorem C07_src_plugin_postTestAction_spec :
  forall (fuel : nat) (h : heap) (pl dt : nat) (bss : list (list nat)) (w : world) (evs : list pev)
  (rest : list Z) (ov : Z),
  world_at h pl dt bss w ->
  Inv (d_tbl (w_det w)) ->
  (t_count (d_tbl (w_det w)) + 80 < fuel)%nat ->
  BinInt.Z.lt (BinInt.Z.of_nat (t_count (d_tbl (w_det w)))) (BinInt.Z.pow (Zpos 2) (Zpos 64)) ->
  exists h' : heap,
  src_plugin_postTestAction fuel h evs (BinInt.Z.of_N (w_failures w) :: rest) ov (HPtr pl Z0) =
  FOk (tt, h', evs ++ post_events w ov, post_counts w rest, ov) /\
  world_at h' pl dt bss (fst (post_action w)) /\
  length h' = length h /\
  (forall b : nat, b <> pl -> b <> dt -> ~ In b (concat bss) -> hblock h' b = hblock h b) /\
  (forall b k : nat, In b (concat bss) -> k <> 6%nat -> nth_error (hblock h' b) k = nth_error (hblock h b) k).
Proof. exact src_plugin_postTestAction_spec. Qed.
Print Assumptions C07_src_plugin_postTestAction_spec.

Theorem C07_post_fire_model :
  forall w : world,
  (post_fire w = true <-> (exists l : list node, snd (post_action w) = Some l)) /\
  (post_fire w = false <-> snd (post_action w) = None).
Proof. exact post_fire_model. Qed.
Print Assumptions C07_post_fire_model.

Theorem C07_post_action_world :
  forall w : world,
  Inv (d_tbl (w_det w)) ->
  w_det (fst (post_action w)) =
  {|
  d_tbl := map (map demote) (d_tbl (w_det w));
  d_period := SEnabled;
  d_stage := d_stage (w_det w);
  d_seq := d_seq (w_det w)
  |} /\
  w_ignore (fst (post_action w)) = false /\
  w_expected (fst (post_action w)) = 0 /\ w_fc0 (fst (post_action w)) = w_fc0 w.
Proof. exact post_action_world. Qed.
Print Assumptions C07_post_action_world.

Theorem C07_src_plugin_postTestAction_overloaded :
  forall (fuel : nat) (h : heap) (pl dt : nat) (bss : list (list nat)) (w : world) (evs : list pev)
  (rest : list Z),
  world_at h pl dt bss w ->
  Inv (d_tbl (w_det w)) ->
  (t_count (d_tbl (w_det w)) + 80 < fuel)%nat ->
  BinInt.Z.lt (BinInt.Z.of_nat (t_count (d_tbl (w_det w)))) (BinInt.Z.pow (Zpos 2) (Zpos 64)) ->
  exists h' : heap,
  src_plugin_postTestAction fuel h evs (BinInt.Z.of_N (w_failures w) :: rest) (Zpos 1) (HPtr pl Z0) =
  FOk (tt, h', evs ++ (if post_fire w then [PReport (Zpos 3); PFailure] else []), post_counts w rest, Zpos 1) /\
  world_at h' pl dt bss (fst (post_action w)) /\
  length h' = length h /\
  (forall b : nat, b <> pl -> b <> dt -> ~ In b (concat bss) -> hblock h' b = hblock h b) /\
  (forall b k : nat, In b (concat bss) -> k <> 6%nat -> nth_error (hblock h' b) k = nth_error (hblock h b) k).
Proof. exact src_plugin_postTestAction_overloaded. Qed.
Print Assumptions C07_src_plugin_postTestAction_overloaded.

Theorem C07_post_events_no_failure :
  forall w : world, ~ In PFailure (post_events w Z0).
Proof. exact post_events_no_failure. Qed.
Print Assumptions C07_post_events_no_failure.

Theorem C07_src_plugin_FinalReport_spec :
  forall (fuel : nat) (h : heap) (pl dt : nat) (bss : list (list nat)) (w : world) (evs : list pev)
  (counts : list Z) (ov : Z) (tbd : N),
  world_at h pl dt bss w ->
  (t_count (d_tbl (w_det w)) + 80 < fuel)%nat ->
  BinInt.Z.lt (BinInt.Z.of_nat (t_count (d_tbl (w_det w)))) (BinInt.Z.pow (Zpos 2) (Zpos 64)) ->
  src_plugin_FinalReport fuel h evs counts ov (HPtr pl Z0) (BinInt.Z.of_N tbd) =
  FOk
  (if final_fires w tbd then (Zpos 1, h, evs ++ [PReport (Zpos 2)], counts, ov) else (Z0, h, evs, counts, ov)).
Proof. exact src_plugin_FinalReport_spec. Qed.
Print Assumptions C07_src_plugin_FinalReport_spec.

Theorem C07_final_fires_model :
  forall (w : world) (tbd : N),
  (final_fires w tbd = true <-> (exists l : list node, fst (final_report w tbd) = Some l)) /\
  (final_fires w tbd = false <-> fst (final_report w tbd) = None).
Proof. exact final_fires_model. Qed.
Print Assumptions C07_final_fires_model.

Theorem C07_exw_post_by_theorem :
  exists h' : heap,
  src_plugin_postTestAction 200 exw_heap [] [Z0] (Zpos 1) (HPtr 0 Z0) =
  FOk (tt, h', [PReport (Zpos 3); PFailure], [], Zpos 1) /\ world_at h' 0 1 exw_bss (fst (post_action exw_w)).
Proof. exact exw_post_by_theorem. Qed.
Print Assumptions C07_exw_post_by_theorem.
