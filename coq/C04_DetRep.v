(* C04: how the object heap of the TRANSLATED MemoryLeakDetector::allocMemory / deallocMemory / reallocMemory (gen/Gen_HeapC04D.v)
   represents a detector state of the hand-written model (C04_Model.v: det = table, period, stage, sequence number).
   detector_at extends C07_HeapRep.det_at (which leaves doAllocationTypeChecking_, allocationSequenceNumber_ and
   current_allocation_stage_ unconstrained) with the three cells the allocation paths read and write.  The allocation table is
   EMBEDDED at cell 3 of the detector object: the STORING table functions (src_table_addNewNode, src_table_removeNode) and
   retrieveNode are re-proved here for a table at an offset (C04_HeapTableW.v has them for a table that is a whole block; the
   read-only ones at an offset are in C07_HeapTable.v).  addNewNode is stated for a record whose next_ cell holds ANYTHING (a record
   that has just been initialised by MemoryLeakDetectorNode::init, which does not write next_): raw_cells.
   Also here: getFirstLeakForAllocationStage / getNextLeakForAllocationStage at an offset, "a record block determines its node"
   (node_cells_inj, toff_block_position), what removeNode does to the records that stay (src_table_removeNode_off_kept), the heap grown
   by one block, and the frame facts of detector_at.
   Definitions and table-level facts only; the theorems about the detector functions are in C04_DetTie.v. *)
From Coq Require Import ZArith NArith Bool List Lia.
From CppUVerif Require Import lib.CSem lib.CMem lib.CMemFacts lib.CHeap gen.Gen_Common gen.Gen_HeapC04
  C04_Model C04_HeapRep C04_HeapList C04_HeapListW C04_HeapTable C04_HeapTableW C07_HeapRep C07_HeapTable gen.Gen_HeapC04D.
Import ListNotations.
Local Open Scope Z_scope.

(* ------------------------------------------------------------------ layout *)
(* the cell indices used below (1, 3, 76, 77, 78; 0 .. 8 in a record) are those of the class definitions as clang reports them now *)
Lemma detectorD_layout_is_the_source :
  off_MemoryLeakDetector_reporter_ = 0 /\ off_MemoryLeakDetector_current_period_ = 1 /\ off_MemoryLeakDetector_outputBuffer_ = 2 /\
  off_MemoryLeakDetector_memoryTable_ = 3 /\ cells_MemoryLeakDetectorTable = Z.of_N hash_prime /\
  off_MemoryLeakDetector_doAllocationTypeChecking_ = 3 + Z.of_N hash_prime /\
  off_MemoryLeakDetector_allocationSequenceNumber_ = 77 /\ off_MemoryLeakDetector_current_allocation_stage_ = 78 /\
  off_MemoryLeakDetector_mutex_ = 79 /\ cells_MemoryLeakDetector = 80 /\
  off_MemoryLeakDetectorNode_size_ = 0 /\ off_MemoryLeakDetectorNode_number_ = 1 /\ off_MemoryLeakDetectorNode_memory_ = 2 /\
  off_MemoryLeakDetectorNode_file_ = 3 /\ off_MemoryLeakDetectorNode_line_ = 4 /\ off_MemoryLeakDetectorNode_allocator_ = 5 /\
  off_MemoryLeakDetectorNode_period_ = 6 /\ off_MemoryLeakDetectorNode_allocation_stage_ = 7 /\
  off_MemoryLeakDetectorNode_next_ = 8 /\ cells_MemoryLeakDetectorNode = 9 /\ sizeof_MemoryLeakDetectorNode = 64.
Proof. repeat split; reflexivity. Qed.

(* ------------------------------------------------------------------ a record whose next_ cell holds anything *)
Definition raw_cells (n : node) (v8 : val) : list val :=
  [VInt (Z.of_N (n_size n)); VInt (Z.of_N (n_number n)); VInt (Z.of_N (n_addr n)); VInt (Z.of_N (n_file n)); VInt (Z.of_N (n_line n));
   VInt (Z.of_N (n_kind n)); VInt (stamp_code (n_period n)); VInt (Z.of_N (n_stage n)); v8].
Lemma node_cells_raw n nxt : node_cells n nxt = raw_cells n (VPtr nxt).
Proof. reflexivity. Qed.

Section RawCells.
  Variables (h : heap) (b : nat) (n : node) (v8 : val).
  Hypothesis Hb : hblock h b = raw_cells n v8.
  Lemma raw_padd k : 0 <= k <= 9 -> hpadd h (HPtr b 0) k = Some (HPtr b k).
  Proof.
    intro H. unfold hpadd. rewrite Hb. cbn [raw_cells length Z.of_nat]. cbn [Z.add].
    replace (0 <=? k) with true by (symmetry; apply Z.leb_le; lia).
    replace (k <=? Z.pos (Pos.of_succ_nat 8)) with true by (symmetry; apply Z.leb_le; cbn; lia). reflexivity.
  Qed.
  Lemma raw_load_size : hload_int h (HPtr b 0) = Some (Z.of_N (n_size n)).
  Proof. unfold hload_int, hload. rewrite Hb. reflexivity. Qed.
  Lemma raw_load_key : hload_int h (HPtr b 2) = Some (Z.of_N (n_addr n)).
  Proof. unfold hload_int, hload. rewrite Hb. reflexivity. Qed.
  Lemma raw_load_kind : hload_int h (HPtr b 5) = Some (Z.of_N (n_kind n)).
  Proof. unfold hload_int, hload. rewrite Hb. reflexivity. Qed.
  Lemma raw_store_next q : (b < length h)%nat ->
    exists h', hstore h (HPtr b 8) (VPtr q) = Some h' /\ hblock h' b = node_cells n q /\ length h' = length h /\
               (forall b', b' <> b -> hblock h' b' = hblock h b').
  Proof.
    intro L. exists (upd h b (node_cells n q)). split; [|split; [|split]].
    - unfold hstore. rewrite Hb. replace (Nat.ltb b (length h)) with true by (symmetry; apply Nat.ltb_lt; exact L). reflexivity.
    - apply hblock_upd_same. exact L.
    - apply heap_upd_length.
    - intros b' Hne. apply hblock_upd_other. intro E. apply Hne. symmetry. exact E.
  Qed.
End RawCells.

(* ------------------------------------------------------------------ MemoryLeakDetectorList::addNewNode of a freshly initialised record *)
(* C04_HeapListW.src_list_addNewNode_full with the record's next_ cell unconstrained: node->next_ = head_ overwrites it *)
Theorem src_list_addNewNode_raw : forall fuel h this bs ns b n v8,
  list_at h this bs ns -> node_ok n -> (b < length h)%nat -> ~ In b bs ->
  (match this with HPtr bt _ => b <> bt | HNull => True end) -> hblock h b = raw_cells n v8 ->
  exists h' hd, src_list_addNewNode fuel h this (HPtr b 0) = FOk (tt, h') /\ list_at h' this (b :: bs) (l_add n ns) /\
    length h' = length h /\ hload_ptr h this = Some hd /\ hblock h' b = node_cells n hd /\
    (forall b', b' <> b -> (match this with HPtr bt _ => b' <> bt | HNull => True end) -> hblock h' b' = hblock h b') /\
    match this with
    | HPtr bt i => forall k, (k <> Z.to_nat i)%nat -> nth_error (hblock h' bt) k = nth_error (hblock h bt) k
    | HNull => True
    end.
Proof.
  intros fuel h this bs ns b n v8 [hd [Hl [Hc [Hd [Hok [Hlt Ht]]]]]] Hn Hb Hnin Hne Hbk.
  destruct this as [|bt i]; [destruct Ht|]. destruct Ht as [Htn Htl].
  destruct (raw_store_next h b n v8 Hbk hd Hb) as [h1 [Hs1 [Hb1 [Hlen1 Hfr1]]]].
  assert (Hl1 : hload_ptr h1 (HPtr bt i) = Some hd).
  { rewrite (w_load_same_block h h1 bt i); [exact Hl|]. apply Hfr1. intro E. apply Hne. symmetry. exact E. }
  assert (Htl1 : (bt < length h1)%nat) by (rewrite Hlen1; exact Htl).
  destruct (w_this_store h1 bt i hd (HPtr b 0) Hl1 Htl1) as [h2 [Hs2 [Hl2 [Hlen2 [Hfr2 Hcell2]]]]].
  exists h2, hd. split; [|split; [|split; [|split; [|split; [|split]]]]].
  - unfold src_list_addNewNode. rewrite Hl. cbv beta iota. rewrite (raw_padd _ _ _ _ Hbk 8) by lia. cbv beta iota. rewrite Hs1.
    cbv beta iota. rewrite Hs2. reflexivity.
  - exists (HPtr b 0). split; [exact Hl2|]. split; [|split; [|split; [|split; [|split]]]].
    + unfold l_add. cbn [chain]. split; [reflexivity|]. exists hd. split.
      * rewrite Hfr2 by exact Hne. exact Hb1.
      * apply chain_frame with (h := h); [|exact Hc]. intros x Hx. rewrite Hfr2 by (intro E; subst; exact (Htn Hx)).
        apply Hfr1. intro E. subst. exact (Hnin Hx).
    + constructor; assumption.
    + constructor; assumption.
    + constructor; [rewrite Hlen2, Hlen1; exact Hb|]. apply Forall_forall. intros x Hx. rewrite Hlen2, Hlen1.
      exact (proj1 (Forall_forall _ _) Hlt x Hx).
    + intros [E|Hin]; [apply Hne; exact E | exact (Htn Hin)].
    + rewrite Hlen2, Hlen1. exact Htl.
  - rewrite Hlen2. exact Hlen1.
  - exact Hl.
  - rewrite Hfr2 by exact Hne. exact Hb1.
  - intros b' H1 H2. rewrite Hfr2 by exact H2. apply Hfr1. exact H1.
  - intros k Hk. rewrite (Hcell2 k Hk). rewrite Hfr1; [reflexivity|]. intro E. apply Hne. symmetry. exact E.
Qed.

(* ------------------------------------------------------------------ two lists that agree except at one position *)
Lemma agree_length {A} (l l' : list A) j : (forall k, k <> j -> nth_error l' k = nth_error l k) -> (j < length l)%nat ->
  nth_error l' j <> None -> length l' = length l.
Proof.
  intros Hag Hj Hs.
  assert (H1 : (length l' <= length l)%nat).
  { apply nth_error_None. rewrite Hag by lia. apply nth_error_None. lia. }
  destruct (Nat.eq_dec (length l') (length l)) as [E|E]; [exact E|exfalso].
  destruct (Nat.eq_dec (length l') j) as [Ej|Ej].
  - apply Hs. apply nth_error_None. lia.
  - assert (Hn : nth_error l' (length l') = None) by (apply nth_error_None; lia).
    rewrite Hag in Hn by exact Ej. apply nth_error_None in Hn. lia.
Qed.

(* ------------------------------------------------------------------ table_at_off after one bucket changed *)
(* C04_HeapTableW.table_at_update for a table that starts at cell o of its block *)
Lemma table_at_off_update h h' bt o bss t i bsi' bi' :
  table_at_off h bt o bss t -> (i < nbuckets)%nat ->
  list_at h' (HPtr bt (Z.of_nat (o + i))) bsi' bi' ->
  length h' = length h ->
  (forall b', b' <> bt -> ~ In b' (nth i bss []) -> ~ In b' bsi' -> hblock h' b' = hblock h b') ->
  (forall k, k <> (o + i)%nat -> nth_error (hblock h' bt) k = nth_error (hblock h bt) k) ->
  (forall x, In x bsi' -> forall j, j <> i -> ~ In x (nth j bss [])) ->
  table_at_off h' bt o (tw_set i bsi' bss) (set_b i bi' t) /\ length (hblock h' bt) = length (hblock h bt).
Proof.
  intros [Ht [Hbs [Hbl [Hbt [Hnd [Hnt Hall]]]]]] Hi Hli Hlen Hfr Hcell Hfresh.
  assert (Hli' := Hli). destruct Hli' as [hd [Hl [Hc [Hd [Hok [Hlt [Htn Htl]]]]]]].
  assert (Hbl' : length (hblock h' bt) = length (hblock h bt)).
  { apply (agree_length _ _ (o + i)%nat Hcell); [lia|].
    unfold hload_ptr in Hl. rewrite hload_cell in Hl. unfold cell in Hl. intro Hn. rewrite Hn in Hl. discriminate Hl. }
  split; [|exact Hbl'].
  unfold table_at_off. rewrite tw_set_eq, tw_set_b_eq, !tw_setg_length.
  split; [exact Ht|]. split; [exact Hbs|]. split; [rewrite Hbl'; exact Hbl|]. split; [rewrite Hlen; exact Hbt|]. split.
  { apply tw_set_NoDup; [exact Hnd | exact Hd | exact Hfresh]. }
  split.
  { intro Hin. destruct (tw_set_concat_in bt bss i bsi' Hin) as [H|H]; [exact (Htn H) | exact (Hnt H)]. }
  intros j Hj. destruct (Nat.eq_dec j i) as [->|Hne].
  - rewrite !tw_setg_nth_same by lia. exact Hli.
  - rewrite !tw_setg_nth_other by exact Hne.
    destruct (Hall j Hj) as [hdj [Hlj [Hcj [Hdj [Hokj [Hltj [Htnj Htlj]]]]]]].
    exists hdj. split.
    { rewrite <- Hlj. unfold hload_ptr. rewrite !hload_cell. unfold cell. rewrite Hcell by lia. reflexivity. }
    split.
    { apply chain_frame with (h := h); [|exact Hcj]. intros x Hx. apply Hfr.
      - intro E. subst. apply Hnt. exact (tw_in_nth_concat _ _ _ Hx).
      - intro Hin. exact (tw_concat_disjoint x bss i j Hnd (fun E => Hne (eq_sym E)) Hin Hx).
      - intro Hin. exact (Hfresh x Hin j Hne Hx). }
    split; [exact Hdj|]. split; [exact Hokj|]. split; [rewrite Hlen; exact Hltj|]. split; [exact Htnj | rewrite Hlen; exact Htlj].
Qed.

(* ------------------------------------------------------------------ 1: addNewNode at an offset *)
(* the record may have just been initialised (next_ cell = anything); the only cells written are the record's next_ and the
   head_ cell o + hash of the block that holds the table *)
Theorem src_table_addNewNode_off : forall fuel h bt o bss t b n v8,
  table_at_off h bt o bss t -> node_ok n -> (b < length h)%nat -> ~ In b (concat bss) -> b <> bt ->
  hblock h b = raw_cells n v8 ->
  exists h' hd, src_table_addNewNode fuel h (HPtr bt (Z.of_nat o)) (HPtr b 0) = FOk (tt, h') /\
    table_at_off h' bt o (tw_set (hashN (n_addr n)) (b :: nth (hashN (n_addr n)) bss []) bss) (t_add n t) /\
    length h' = length h /\ length (hblock h' bt) = length (hblock h bt) /\
    hload_ptr h (HPtr bt (Z.of_nat (o + hashN (n_addr n)))) = Some hd /\ hblock h' b = node_cells n hd /\
    (forall b', b' <> b -> b' <> bt -> hblock h' b' = hblock h b') /\
    (forall k, k <> (o + hashN (n_addr n))%nat -> nth_error (hblock h' bt) k = nth_error (hblock h bt) k).
Proof.
  intros fuel h bt o bss t b n v8 Ht Hn Hb Hnin Hne Hbk.
  unfold t_add, get_b. cbv zeta.
  remember (hashN (n_addr n)) as i eqn:Ei.
  assert (Hi : (i < nbuckets)%nat) by (rewrite Ei; apply tw_hashN_lt).
  assert (Ht' := Ht). destruct Ht' as [Hlt [Hlbs [Hbl [Hbt [Hnd [Hnt Hall]]]]]].
  assert (Hnin' : ~ In b (nth i bss [])) by (intro Hin; apply Hnin; exact (tw_in_nth_concat _ _ _ Hin)).
  destruct (src_list_addNewNode_raw fuel h (HPtr bt (Z.of_nat (o + i))) (nth i bss []) (nth i t []) b n v8
              (Hall i Hi) Hn Hb Hnin' Hne Hbk) as [h' [hd [A [B [C [D [E [F G]]]]]]]].
  assert (G' : forall k, k <> (o + i)%nat -> nth_error (hblock h' bt) k = nth_error (hblock h bt) k).
  { intros k Hk. apply G. rewrite Nat2Z.id. exact Hk. }
  destruct (table_at_off_update h h' bt o bss t i (b :: nth i bss []) (l_add n (nth i t [])) Ht Hi B C) as [T L].
  { intros b' H1 _ H3. apply F; [|exact H1]. intro E'. apply H3. left. symmetry. exact E'. }
  { exact G'. }
  { apply tw_fresh; [exact Hnd|]. intros x [E'|Hin]; [right; subst x; exact Hnin | left; exact Hin]. }
  exists h', hd. split.
  { unfold src_table_addNewNode. rewrite (raw_padd _ _ _ _ Hbk 2) by lia. cbv beta iota. rewrite (raw_load_key _ _ _ _ Hbk).
    cbv beta iota. rewrite (tw_hash fuel h (HPtr bt (Z.of_nat o)) (n_addr n) (proj1 Hn)). cbv beta iota. rewrite <- Ei.
    rewrite (toff_padd h bt o bss t i Ht) by lia. cbv beta iota. rewrite A. reflexivity. }
  split; [exact T|]. split; [exact C|]. split; [exact L|]. split; [exact D|]. split; [exact E|]. split; [exact F | exact G'].
Qed.

(* ------------------------------------------------------------------ 2: removeNode at an offset *)
(* C04_HeapTableW.src_table_removeNode_complete for an embedded table; only the bucket of the key is walked *)
Theorem src_table_removeNode_off : forall fuel h bt o bss t a,
  table_at_off h bt o bss t -> (a < 2 ^ 64)%N -> (length (nth (hashN a) t []) < fuel)%nat ->
  exists h' bsi',
    src_table_removeNode fuel h (HPtr bt (Z.of_nat o)) (Z.of_N a) = FOk (ptr_of a (nth (hashN a) bss []) (nth (hashN a) t []), h') /\
    table_at_off h' bt o (tw_set (hashN a) bsi' bss) (snd (t_remove a t)) /\ length h' = length h /\
    length (hblock h' bt) = length (hblock h bt) /\
    (forall b', b' <> bt -> ~ In b' bsi' -> hblock h' b' = hblock h b') /\
    (forall x, In x bsi' <-> In x (nth (hashN a) bss []) /\ ptr_of a (nth (hashN a) bss []) (nth (hashN a) t []) <> HPtr x 0) /\
    (forall b, ptr_of a (nth (hashN a) bss []) (nth (hashN a) t []) = HPtr b 0 -> hblock h' b = hblock h b) /\
    match fst (t_remove a t) with
    | Some n => exists b nxt, ptr_of a (nth (hashN a) bss []) (nth (hashN a) t []) = HPtr b 0 /\
                              In b (nth (hashN a) bss []) /\ hblock h' b = node_cells n nxt
    | None => ptr_of a (nth (hashN a) bss []) (nth (hashN a) t []) = HNull
    end /\
    (forall k, k <> (o + hashN a)%nat -> nth_error (hblock h' bt) k = nth_error (hblock h bt) k).
Proof.
  intros fuel h bt o bss t a Ht Ha Hf. rewrite tw_t_remove_snd, tw_t_remove_fst.
  remember (hashN a) as i eqn:Ei.
  assert (Hi : (i < nbuckets)%nat) by (rewrite Ei; apply tw_hashN_lt).
  assert (Ht' := Ht). destruct Ht' as [Hlt [Hlbs [Hbl [Hbt [Hnd [Hnt Hall]]]]]].
  destruct (src_list_removeNode_complete fuel h (HPtr bt (Z.of_nat (o + i))) (nth i bss []) (nth i t []) a (Hall i Hi) Hf)
    as [h' [bs' [A [B [C [D [E [F [G K]]]]]]]]].
  assert (K' : forall k, k <> (o + i)%nat -> nth_error (hblock h' bt) k = nth_error (hblock h bt) k).
  { intros k Hk. apply K. rewrite Nat2Z.id. exact Hk. }
  destruct (table_at_off_update h h' bt o bss t i bs' (snd (l_remove a (nth i t []))) Ht Hi B C) as [T L].
  { intros b' H1 _ H3. exact (D b' H1 H3). }
  { exact K'. }
  { apply tw_fresh; [exact Hnd|]. intros x Hx. left. exact (proj1 (proj1 (E x) Hx)). }
  exists h', bs'. split.
  { unfold src_table_removeNode. rewrite (tw_hash fuel h (HPtr bt (Z.of_nat o)) a Ha). cbv beta iota. rewrite <- Ei.
    rewrite (toff_padd h bt o bss t i Ht) by lia. cbv beta iota. rewrite A. reflexivity. }
  split; [exact T|]. split; [exact C|]. split; [exact L|]. split; [exact D|]. split; [exact E|]. split; [exact F|].
  split; [exact G | exact K'].
Qed.

(* ------------------------------------------------------------------ 3: retrieveNode at an offset *)
Theorem src_table_retrieveNode_off : forall fuel h bt o bss t a, table_at_off h bt o bss t -> (a < 2 ^ 64)%N ->
  (length (nth (hashN a) t []) < fuel)%nat ->
  src_table_retrieveNode fuel h (HPtr bt (Z.of_nat o)) (Z.of_N a) = FOk (ptr_of a (nth (hashN a) bss []) (nth (hashN a) t [])).
Proof.
  intros fuel h bt o bss t a Ht Ha Hf. unfold src_table_retrieveNode.
  rewrite (src_table_hash_spec fuel h (HPtr bt (Z.of_nat o)) a Ha). pose proof (hashN_lt a) as Hi.
  rewrite (toff_padd h bt o bss t (hashN a) Ht) by lia.
  rewrite (src_list_retrieveNode_spec fuel h _ _ _ a (toff_list h bt o bss t (hashN a) Ht Hi) Hf). reflexivity.
Qed.
(* what that pointer means *)
Theorem toff_retrieve : forall h bt o bss t a, table_at_off h bt o bss t ->
  match t_retrieve a t with
  | Some n => exists b nxt, ptr_of a (nth (hashN a) bss []) (nth (hashN a) t []) = HPtr b 0 /\
                            In b (nth (hashN a) bss []) /\ hblock h b = node_cells n nxt
  | None => ptr_of a (nth (hashN a) bss []) (nth (hashN a) t []) = HNull
  end.
Proof.
  intros h bt o bss t a Ht. unfold t_retrieve, get_b.
  destruct (toff_chain h bt o bss t (hashN a) Ht (hashN_lt a)) as [p Hc].
  exact (w_ptr_of_retrieve a h _ p _ Hc).
Qed.


(* ------------------------------------------------------------------ 4: getFirstLeakForAllocationStage / getNextLeakForAllocationStage at an offset *)
(* C04_HeapTable.v for a table that starts at cell o (C07_HeapTable.v has the period versions) *)
Lemma src_table_getFirstLeakForAllocationStage_loop1_off : forall s h bt o bss t fuel0, table_at_off h bt o bss t ->
  (forall i, (i < nbuckets)%nat -> (length (nth i t []) < fuel0)%nat) ->
  forall r j fuel, (j + r = 73)%nat -> (r < fuel)%nat ->
  src_table_getFirstLeakForAllocationStage_loop1 fuel0 fuel h (HPtr bt (Z.of_nat o)) (Z.of_N s) (Z.of_nat j) =
  tfound 73 (tptr_first (fun n => is_in_stage n s) (skipn j bss) (skipn j t)).
Proof.
  intros s h bt o bss t fuel0 Ht Hf0. pose proof Ht as [Hlt [Hlb _]]. rewrite nbuckets_73 in Hlt, Hlb.
  induction r as [|r IH]; intros j fuel Hj Hf.
  - assert (Hj' : j = 73%nat) by lia. subst j. destruct fuel as [|fuel]; [lia|].
    cbn [src_table_getFirstLeakForAllocationStage_loop1].
    rewrite lt73_false. rewrite (skipn_all2 (n := 73) t), (skipn_all2 (n := 73) bss) by lia. reflexivity.
  - assert (Hj' : (j < 73)%nat) by lia. assert (Hjn : (j < nbuckets)%nat) by (rewrite nbuckets_73; exact Hj').
    destruct fuel as [|fuel]; [lia|]. cbn [src_table_getFirstLeakForAllocationStage_loop1].
    rewrite (lt73_true j Hj'). rewrite (toff_padd h bt o bss t j Ht) by lia.
    rewrite (src_list_getFirstLeakForAllocationStage_spec fuel0 h _ _ _ s (toff_list h bt o bss t j Ht Hjn) (Hf0 j Hjn)).
    rewrite (skipn_cons_nth (A := bucket) [] t j), (skipn_cons_nth [] bss j) by lia. cbn [tptr_first]. cbv beta iota zeta.
    destruct (ptr_first (fun n => is_in_stage n s) (nth j bss []) (nth j t [])) as [|blk c].
    + rewrite z2b_false_null. rewrite (inc_s j Hj'). apply IH; lia.
    + rewrite z2b_true_ptr. reflexivity.
Qed.
Theorem src_table_getFirstLeakForAllocationStage_off : forall fuel h bt o bss t s, table_at_off h bt o bss t ->
  (forall i, (i < nbuckets)%nat -> (length (nth i t []) < fuel)%nat) -> (73 < fuel)%nat ->
  src_table_getFirstLeakForAllocationStage fuel h (HPtr bt (Z.of_nat o)) (Z.of_N s) =
  FOk (tptr_first (fun n => is_in_stage n s) bss t).
Proof.
  intros fuel h bt o bss t s Ht Hf Hfl. unfold src_table_getFirstLeakForAllocationStage. cbv zeta.
  pose proof (src_table_getFirstLeakForAllocationStage_loop1_off s h bt o bss t fuel Ht Hf 73 0 fuel) as E.
  change (Z.of_nat 0) with 0 in E. change (skipn 0 t) with t in E. change (skipn 0 bss) with bss in E. rewrite E by lia.
  unfold tfound. destruct (tptr_first (fun n => is_in_stage n s) bss t); reflexivity.
Qed.
Lemma src_table_getNextLeakForAllocationStage_loop1_off : forall s h bt o bss t fuel0, table_at_off h bt o bss t ->
  (forall i, (i < nbuckets)%nat -> (length (nth i t []) < fuel0)%nat) ->
  forall r j fuel nd, (j + r = 73)%nat -> (r < fuel)%nat ->
  exists st, src_table_getNextLeakForAllocationStage_loop1 fuel0 fuel h (HPtr bt (Z.of_nat o)) (Z.of_N s) (Z.of_nat j) nd =
  tfound st (tptr_first (fun n => is_in_stage n s) (skipn j bss) (skipn j t)).
Proof.
  intros s h bt o bss t fuel0 Ht Hf0. pose proof Ht as [Hlt [Hlb _]]. rewrite nbuckets_73 in Hlt, Hlb.
  induction r as [|r IH]; intros j fuel nd Hj Hf.
  - assert (Hj' : j = 73%nat) by lia. subst j. destruct fuel as [|fuel]; [lia|].
    cbn [src_table_getNextLeakForAllocationStage_loop1].
    rewrite lt73_false. rewrite (skipn_all2 (n := 73) t), (skipn_all2 (n := 73) bss) by lia. eexists. reflexivity.
  - assert (Hj' : (j < 73)%nat) by lia. assert (Hjn : (j < nbuckets)%nat) by (rewrite nbuckets_73; exact Hj').
    destruct fuel as [|fuel]; [lia|]. cbn [src_table_getNextLeakForAllocationStage_loop1].
    rewrite (lt73_true j Hj'). rewrite (toff_padd h bt o bss t j Ht) by lia.
    rewrite (src_list_getFirstLeakForAllocationStage_spec fuel0 h _ _ _ s (toff_list h bt o bss t j Ht Hjn) (Hf0 j Hjn)).
    rewrite (skipn_cons_nth (A := bucket) [] t j), (skipn_cons_nth [] bss j) by lia. cbn [tptr_first]. cbv beta iota zeta.
    destruct (ptr_first (fun n => is_in_stage n s) (nth j bss []) (nth j t [])) as [|blk c].
    + rewrite z2b_false_null. rewrite (inc_u j Hj'). apply IH; lia.
    + rewrite z2b_true_ptr. exists (0, HNull). reflexivity.
Qed.
(* leak = the k-th record of bucket i, which is the bucket of its key *)
Theorem src_table_getNextLeakForAllocationStage_off : forall fuel h bt o bss t i k s d, table_at_off h bt o bss t ->
  (i < nbuckets)%nat -> (k < length (nth i t []))%nat -> hashN (n_addr (nth k (nth i t []) d)) = i ->
  (forall j, (j < nbuckets)%nat -> (length (nth j t []) < fuel)%nat) -> (72 - i < fuel)%nat ->
  src_table_getNextLeakForAllocationStage fuel h (HPtr bt (Z.of_nat o)) (HPtr (nth k (nth i bss []) 0%nat) 0) (Z.of_N s) =
  FOk (tptr_next (fun n => is_in_stage n s) i k bss t).
Proof.
  intros fuel h bt o bss t i k s d Ht Hi Hk Hh Hf Hfl. unfold src_table_getNextLeakForAllocationStage.
  pose proof Hi as Hi'. rewrite nbuckets_73 in Hi'.
  destruct (toff_chain h bt o bss t i Ht Hi) as [p Hc].
  destruct (chain_nth h d _ p _ k Hc Hk) as [nxt [Hb Hc']].
  assert (Hp2 : hpadd h (HPtr (nth k (nth i bss []) 0%nat) 0) 2 = Some (HPtr (nth k (nth i bss []) 0%nat) 2))
    by (apply (node_padd h _ _ nxt 2 Hb); lia).
  rewrite Hp2, (node_memory h _ _ nxt Hb).
  rewrite (src_table_hash_spec fuel h (HPtr bt (Z.of_nat o)) _ (toff_key_small h bt o bss t i k d Ht Hi Hk)), Hh.
  cbv beta iota zeta.
  rewrite (toff_padd h bt o bss t i Ht) by lia.
  rewrite (src_list_getNextLeakForAllocationStage_spec fuel h (HPtr bt (Z.of_nat (o + i))) p _ _ k s Hc Hk (Hf i Hi)).
  cbv beta iota zeta. unfold tptr_next.
  destruct (ptr_first (fun n => is_in_stage n s) (skipn (S k) (nth i bss [])) (skipn (S k) (nth i t []))) as [|blk c].
  - rewrite z2b_false_null. rewrite (inc_u i Hi').
    destruct (src_table_getNextLeakForAllocationStage_loop1_off s h bt o bss t fuel Ht Hf (72 - i) (S i) fuel HNull)
      as [[st1 st2] E]; [lia | lia|].
    rewrite E. unfold tfound.
    destruct (tptr_first (fun n => is_in_stage n s) (skipn (S i) bss) (skipn (S i) t)); reflexivity.
  - rewrite z2b_true_ptr. reflexivity.
Qed.

(* ------------------------------------------------------------------ a record block determines its node and its place *)
Lemma stamp_code_inj s1 s2 : stamp_code s1 = stamp_code s2 -> s1 = s2.
Proof. destruct s1, s2; intro H; try reflexivity; discriminate H. Qed.
(* the eight scalar cells determine the node *)
Lemma node_cells_inj n m x y : (forall k, (k <> 8)%nat -> nth_error (node_cells n x) k = nth_error (node_cells m y) k) -> n = m.
Proof.
  intro H. destruct n as [a1 s1 u1 f1 l1 k1 p1 g1], m as [a2 s2 u2 f2 l2 k2 p2 g2].
  pose proof (H 0%nat ltac:(lia)) as E0. pose proof (H 1%nat ltac:(lia)) as E1. pose proof (H 2%nat ltac:(lia)) as E2.
  pose proof (H 3%nat ltac:(lia)) as E3. pose proof (H 4%nat ltac:(lia)) as E4. pose proof (H 5%nat ltac:(lia)) as E5.
  pose proof (H 6%nat ltac:(lia)) as E6. pose proof (H 7%nat ltac:(lia)) as E7.
  cbn [node_cells nth_error n_size n_number n_addr n_file n_line n_kind n_period n_stage] in *.
  inversion E0 as [F0]. inversion E1 as [F1]. inversion E2 as [F2]. inversion E3 as [F3]. inversion E4 as [F4].
  inversion E5 as [F5]. inversion E6 as [F6]. inversion E7 as [F7].
  apply N2Z.inj in F0, F1, F2, F3, F4, F5, F7. apply stamp_code_inj in F6. subst. reflexivity.
Qed.
Lemma node_cells_eq_inj n m x y : node_cells n x = node_cells m y -> n = m.
Proof. intro H. apply (node_cells_inj n m x y). intros k _. rewrite H. reflexivity. Qed.

(* a block of the table is the k-th block of some bucket i and holds the k-th record of that bucket *)
Lemma toff_block_position h bt o bss t b (d : node) : table_at_off h bt o bss t -> In b (concat bss) ->
  exists i k nxt, (i < nbuckets)%nat /\ (k < length (nth i t []))%nat /\ b = nth k (nth i bss []) 0%nat /\
                  hblock h b = node_cells (nth k (nth i t []) d) nxt.
Proof.
  intros Ht Hin. destruct (tw_in_concat_nth b bss Hin) as [i Hi].
  assert (Hin' : (i < nbuckets)%nat).
  { destruct (Nat.lt_ge_cases i nbuckets) as [L|L]; [exact L|]. destruct Ht as [_ [Hbs _]].
    rewrite nth_overflow in Hi by lia. destruct Hi. }
  destruct (toff_chain h bt o bss t i Ht Hin') as [p Hc].
  destruct (In_nth _ _ 0%nat Hi) as [k [Hk Hb]]. rewrite (chain_length h _ p _ Hc) in Hk.
  destruct (chain_nth h d _ p _ k Hc Hk) as [nxt [Hblk _]].
  exists i, k, nxt. split; [exact Hin'|]. split; [exact Hk|]. split; [symmetry; exact Hb|]. rewrite <- Hb. exact Hblk.
Qed.
(* so a block of the table that held n before an update of other cells still holds n, with some next_ *)
Lemma toff_same_node h h' bt o bss t b n nx : table_at_off h' bt o bss t -> In b (concat bss) -> hblock h b = node_cells n nx ->
  (forall k, (k <> 8)%nat -> nth_error (hblock h' b) k = nth_error (hblock h b) k) -> exists nx', hblock h' b = node_cells n nx'.
Proof.
  intros Ht Hin Hb Hk. destruct (toff_block_position h' bt o bss t b n Ht Hin) as [i [k [nxt [_ [_ [_ Hb']]]]]].
  exists nxt. rewrite Hb'. f_equal. apply (node_cells_inj _ _ nxt nx). intros j Hj. rewrite <- Hb', <- Hb. exact (Hk j Hj).
Qed.

(* removeNode at an offset, what happens to the records that stay: they stay (every block of the old table except the one handed
   back is a block of the new table) and hold the same nodes (only next_ may differ) *)
Theorem src_table_removeNode_off_kept : forall fuel h bt o bss t a,
  table_at_off h bt o bss t -> (a < 2 ^ 64)%N -> (length (nth (hashN a) t []) < fuel)%nat ->
  exists h' bsi',
    src_table_removeNode fuel h (HPtr bt (Z.of_nat o)) (Z.of_N a) = FOk (ptr_of a (nth (hashN a) bss []) (nth (hashN a) t []), h') /\
    table_at_off h' bt o (tw_set (hashN a) bsi' bss) (snd (t_remove a t)) /\ length h' = length h /\
    length (hblock h' bt) = length (hblock h bt) /\
    (forall b', b' <> bt -> ~ In b' bsi' -> hblock h' b' = hblock h b') /\
    (forall x, In x bsi' <-> In x (nth (hashN a) bss []) /\ ptr_of a (nth (hashN a) bss []) (nth (hashN a) t []) <> HPtr x 0) /\
    (forall b, ptr_of a (nth (hashN a) bss []) (nth (hashN a) t []) = HPtr b 0 -> hblock h' b = hblock h b) /\
    match fst (t_remove a t) with
    | Some n => exists b nxt, ptr_of a (nth (hashN a) bss []) (nth (hashN a) t []) = HPtr b 0 /\
                              In b (nth (hashN a) bss []) /\ hblock h' b = node_cells n nxt
    | None => ptr_of a (nth (hashN a) bss []) (nth (hashN a) t []) = HNull
    end /\
    (forall k, k <> (o + hashN a)%nat -> nth_error (hblock h' bt) k = nth_error (hblock h bt) k) /\
    (forall x, In x (concat bss) -> ptr_of a (nth (hashN a) bss []) (nth (hashN a) t []) <> HPtr x 0 ->
               In x (concat (tw_set (hashN a) bsi' bss))) /\
    (forall x n nx, In x (concat (tw_set (hashN a) bsi' bss)) -> hblock h x = node_cells n nx ->
                    exists nx', hblock h' x = node_cells n nx').
Proof.
  intros fuel h bt o bss t a Ht Ha Hf.
  destruct (src_table_removeNode_off fuel h bt o bss t a Ht Ha Hf) as [h' [bsi' [A [T [L [Lb [D [E [F [G K]]]]]]]]]].
  pose proof Ht as [_ [Hlbs [_ [_ [Hnd [Hnt Hall]]]]]].
  pose proof (tw_hashN_lt a) as Hi.
  exists h', bsi'. split; [exact A|]. split; [exact T|]. split; [exact L|]. split; [exact Lb|]. split; [exact D|].
  split; [exact E|]. split; [exact F|]. split; [exact G|]. split; [exact K|]. split.
  - intros x Hx Hp. destruct (tw_in_concat_nth x bss Hx) as [j Hj]. rewrite tw_set_eq.
    destruct (Nat.eq_dec j (hashN a)) as [->|Hne].
    + apply (tw_in_nth_concat x _ (hashN a)). rewrite tw_setg_nth_same by lia. apply (proj2 (E x)). split; assumption.
    + apply (tw_in_nth_concat x _ j). rewrite tw_setg_nth_other by exact Hne. exact Hj.
  - intros x n nx Hx Hb.
    assert (Hxbt : x <> bt).
    { intro Eq. subst x. destruct T as [_ [_ [_ [_ [_ [Hnt' _]]]]]]. exact (Hnt' Hx). }
    destruct (src_list_removeNode_kept_cells fuel h (HPtr bt (Z.of_nat (o + hashN a))) (nth (hashN a) bss []) (nth (hashN a) t []) a
                (Hall _ Hi) Hf) as [h2 [A2 [_ K2]]].
    assert (Eh : h2 = h').
    { unfold src_table_removeNode in A. rewrite (tw_hash fuel h (HPtr bt (Z.of_nat o)) a Ha) in A. cbv beta iota in A.
      rewrite (toff_padd h bt o bss t (hashN a) Ht) in A by lia. cbv beta iota in A. rewrite A2 in A. cbv beta iota in A.
      cbn [finish] in A. inversion A. reflexivity. }
    subst h2.
    apply (toff_same_node h h' bt o _ _ x n nx T Hx Hb).
    destruct (in_dec Nat.eq_dec x bsi') as [Hin|Hnin].
    + assert (Hw : In x (w_bwithout a (nth (hashN a) bss []) (nth (hashN a) t []))).
      { apply w_bwithout_other; [exact (proj1 (proj1 (E x) Hin)) | exact (proj2 (proj1 (E x) Hin))]. }
      exact (K2 x Hw).
    + intros k _. rewrite (D x Hxbt Hnin). reflexivity.
Qed.

(* ------------------------------------------------------------------ facts about the model's t_remove *)
Lemma w_without_absent a : forall ns, l_retrieve a ns = None -> w_without a ns = ns.
Proof.
  induction ns as [|c ns IH]; intro H; [reflexivity|]. cbn [l_retrieve] in H. cbn [w_without].
  destruct (n_addr c =? a)%N; [discriminate H|]. rewrite (IH H). reflexivity.
Qed.
Lemma set_b_same : forall t i, set_b i (nth i t []) t = t.
Proof.
  induction t as [|x r IH]; intros [|i]; cbn [set_b nth]; try reflexivity. rewrite IH. reflexivity.
Qed.
Lemma t_remove_fst_retrieve a t : fst (t_remove a t) = t_retrieve a t.
Proof. rewrite tw_t_remove_fst. unfold t_retrieve, get_b. apply l_remove_fst. Qed.
(* removing a key that is not there leaves the table as it is *)
Lemma t_remove_absent a t : fst (t_remove a t) = None -> snd (t_remove a t) = t.
Proof.
  intro H. rewrite tw_t_remove_fst, l_remove_fst in H. rewrite tw_t_remove_snd, w_remove_eq. cbn [snd].
  rewrite (w_without_absent a _ H). apply set_b_same.
Qed.
Lemma t_remove_pair a t : t_remove a t = (fst (t_remove a t), snd (t_remove a t)).
Proof. destruct (t_remove a t); reflexivity. Qed.
(* the record the model hands back has the key asked for *)
Lemma l_retrieve_key a : forall ns n, l_retrieve a ns = Some n -> n_addr n = a /\ In n ns.
Proof.
  induction ns as [|c ns IH]; intros n H; [discriminate H|]. cbn [l_retrieve] in H.
  destruct (n_addr c =? a)%N eqn:E.
  - inversion H; subst c. split; [apply N.eqb_eq; exact E | left; reflexivity].
  - destruct (IH n H) as [H1 H2]. split; [exact H1 | right; exact H2].
Qed.
Lemma t_remove_key a t n : fst (t_remove a t) = Some n -> n_addr n = a /\ In n (nth (hashN a) t []).
Proof. rewrite tw_t_remove_fst, l_remove_fst. apply l_retrieve_key. Qed.

(* ------------------------------------------------------------------ the heap grown by one block *)
Lemma hblock_app_old (h : heap) x b : (b < length h)%nat -> hblock (h ++ [x]) b = hblock h b.
Proof. intro H. unfold hblock. apply app_nth1. exact H. Qed.
Lemma hblock_app_new (h : heap) x : hblock (h ++ [x]) (length h) = x.
Proof. unfold hblock. apply nth_middle. Qed.

Lemma list_at_frame_le h h' this bs ns : list_at h this bs ns -> (length h <= length h')%nat ->
  hload_ptr h' this = hload_ptr h this -> (forall b, In b bs -> hblock h' b = hblock h b) -> list_at h' this bs ns.
Proof.
  intros [hd [Hl [Hc [Hd [Hok [Hlt Hth]]]]]] Hlen Hld Hfr. exists hd.
  split; [rewrite Hld; exact Hl|]. split; [exact (chain_frame h h' ns hd bs Hfr Hc)|]. split; [exact Hd|]. split; [exact Hok|].
  split.
  - apply Forall_forall. intros x Hx. pose proof (proj1 (Forall_forall _ _) Hlt x Hx) as L. cbv beta in L. lia.
  - destruct this as [|bt i]; [exact Hth|]. destruct Hth as [H1 H2]. split; [exact H1 | lia].
Qed.
Lemma table_at_off_frame_le h h' bt o bss t : table_at_off h bt o bss t -> (length h <= length h')%nat ->
  hblock h' bt = hblock h bt -> (forall b, In b (concat bss) -> hblock h' b = hblock h b) -> table_at_off h' bt o bss t.
Proof.
  intros [Ht [Hbs [Hbl [Hbt [Hnd [Hnt Hall]]]]]] Hlen Hdt Hfr. unfold table_at_off.
  split; [exact Ht|]. split; [exact Hbs|]. split; [rewrite Hdt; exact Hbl|]. split; [lia|].
  split; [exact Hnd|]. split; [exact Hnt|]. intros i Hi.
  apply (list_at_frame_le h h' _ _ _ (Hall i Hi) Hlen).
  - unfold hload_ptr, hload. rewrite Hdt. reflexivity.
  - intros b Hb. apply Hfr. exact (tw_in_nth_concat b bss i Hb).
Qed.

(* every record block of a represented table is a block of the heap *)
Lemma toff_block_lt h bt o bss t b : table_at_off h bt o bss t -> In b (concat bss) -> (b < length h)%nat.
Proof.
  intros Ht Hin. destruct (tw_in_concat_nth b bss Hin) as [j Hj].
  destruct (Nat.lt_ge_cases j nbuckets) as [L|L].
  - destruct (toff_list h bt o bss t j Ht L) as [hd [_ [_ [_ [_ [Hlt _]]]]]]. exact (proj1 (Forall_forall _ _) Hlt b Hj).
  - destruct Ht as [_ [Hbs _]]. rewrite nth_overflow in Hj by lia. destruct Hj.
Qed.

(* the block taken out of bucket i is in no bucket of the new table *)
Lemma removed_not_in (bss : list (list nat)) i bsi' b : NoDup (concat bss) -> In b (nth i bss []) -> ~ In b bsi' ->
  ~ In b (concat (tw_set i bsi' bss)).
Proof.
  intros Hnd Hin Hn Hc. destruct (tw_in_concat_nth b _ Hc) as [j Hj]. rewrite tw_set_eq in Hj.
  assert (Hi : (i < length bss)%nat).
  { destruct (Nat.lt_ge_cases i (length bss)) as [L|L]; [exact L|]. rewrite nth_overflow in Hin by exact L. destruct Hin. }
  destruct (Nat.eq_dec j i) as [->|Hne].
  - rewrite tw_setg_nth_same in Hj by exact Hi. exact (Hn Hj).
  - rewrite tw_setg_nth_other in Hj by exact Hne. exact (tw_concat_disjoint b bss i j Hnd (fun E => Hne (eq_sym E)) Hin Hj).
Qed.

(* ------------------------------------------------------------------ the detector object *)
(* the MemoryLeakDetector object in block dt: 80 cells; current_period_ (1), memoryTable_ (3 .. 75), doAllocationTypeChecking_ (76),
   allocationSequenceNumber_ (77, unsigned int), current_allocation_stage_ (78, unsigned char).  reporter_, outputBuffer_ and
   mutex_ are not read or written by the translated functions and are not constrained.  The model's det carries the table, the
   period, the stage and the sequence number; tc is the type-checking switch of C06. *)
Definition detector_at (h : heap) (dt : nat) (bss : list (list nat)) (d : det) (tc : bool) : Prop :=
  length (hblock h dt) = 80%nat /\
  nth_error (hblock h dt) 1 = Some (VInt (stamp_code (d_period d))) /\
  nth_error (hblock h dt) 76 = Some (VInt (b2z tc)) /\
  nth_error (hblock h dt) 77 = Some (VInt (Z.of_N (d_seq d))) /\
  nth_error (hblock h dt) 78 = Some (VInt (Z.of_N (d_stage d))) /\
  (d_seq d < 2 ^ 32)%N /\ (d_stage d < 256)%N /\
  table_at_off h dt 3 bss (d_tbl d).

(* it is a C07 detector with three more cells pinned down *)
Lemma detector_at_det_at h dt bss d tc : detector_at h dt bss d tc -> det_at h dt bss d.
Proof. intros [H1 [H2 [_ [_ [_ [_ [_ H3]]]]]]]. unfold det_at. split; [exact H1|]. split; [exact H2 | exact H3]. Qed.
Lemma detector_at_table h dt bss d tc : detector_at h dt bss d tc -> table_at_off h dt 3 bss (d_tbl d).
Proof. intros [_ [_ [_ [_ [_ [_ [_ H]]]]]]]. exact H. Qed.
Lemma detector_at_lt h dt bss d tc : detector_at h dt bss d tc -> (dt < length h)%nat.
Proof. intro H. apply detector_at_table in H. destruct H as [_ [_ [_ [H _]]]]. exact H. Qed.
Lemma detector_at_notin h dt bss d tc : detector_at h dt bss d tc -> ~ In dt (concat bss).
Proof. intro H. apply detector_at_table in H. destruct H as [_ [_ [_ [_ [_ [H _]]]]]]. exact H. Qed.

(* loads and address computations in the detector block *)
Lemma blk_padd h b k : 0 <= k <= Z.of_nat (length (hblock h b)) -> hpadd h (HPtr b 0) k = Some (HPtr b k).
Proof. intro H. rewrite (hpadd_lit h b 0 k) by lia. reflexivity. Qed.
Lemma blk_load_int h b k z : 0 <= k -> nth_error (hblock h b) (Z.to_nat k) = Some (VInt z) -> hload_int h (HPtr b k) = Some z.
Proof. intros Hk H. unfold hload_int. rewrite (hload_lit h b k Hk), H. reflexivity. Qed.

(* the same detector with another table: the new heap has the same scalar cells *)
Lemma detector_at_new_table h h' dt bss bss' d tc t' : detector_at h dt bss d tc -> table_at_off h' dt 3 bss' t' ->
  length (hblock h' dt) = length (hblock h dt) ->
  (forall k, (k < 3 \/ 76 <= k)%nat -> nth_error (hblock h' dt) k = nth_error (hblock h dt) k) ->
  detector_at h' dt bss' (with_tbl d t') tc.
Proof.
  intros [H0 [H1 [H2 [H3 [H4 [H5 [H6 _]]]]]]] Ht Hl Hc. unfold detector_at. cbn [with_tbl d_period d_seq d_stage d_tbl].
  rewrite Hl, !Hc by lia. repeat (split; [assumption|]). exact Ht.
Qed.
Lemma with_tbl_same d : with_tbl d (d_tbl d) = d.
Proof. destruct d; reflexivity. Qed.

(* a heap that agrees on the detector block and on the records *)
Lemma detector_at_frame_le h h' dt bss d tc : detector_at h dt bss d tc -> (length h <= length h')%nat ->
  hblock h' dt = hblock h dt -> (forall b, In b (concat bss) -> hblock h' b = hblock h b) -> detector_at h' dt bss d tc.
Proof.
  intros [H0 [H1 [H2 [H3 [H4 [H5 [H6 Ht]]]]]]] Hlen Hdt Hfr. unfold detector_at. rewrite Hdt.
  repeat (split; [assumption|]). exact (table_at_off_frame_le h h' dt 3 bss (d_tbl d) Ht Hlen Hdt Hfr).
Qed.

(* allocationSequenceNumber_++ : the other cells and the table stay *)
Lemma detector_at_set_seq h dt bss d tc s' : detector_at h dt bss d tc -> (s' < 2 ^ 32)%N ->
  detector_at (set_cell h dt 77 (VInt (Z.of_N s'))) dt bss (mkDet (d_tbl d) (d_period d) (d_stage d) s') tc.
Proof.
  intros [H0 [H1 [H2 [H3 [H4 [H5 [H6 Ht]]]]]]] Hs. pose proof Ht as [_ [_ [_ [Hdt [_ [Hnt _]]]]]].
  unfold detector_at. cbn [d_tbl d_period d_stage d_seq]. rewrite set_cell_block_length.
  split; [exact H0|]. split; [rewrite set_cell_nth_other by (right; lia); exact H1|].
  split; [rewrite set_cell_nth_other by (right; lia); exact H2|].
  split. { rewrite set_cell_same by exact Hdt. apply nth_error_upd_same. rewrite H0. lia. }
  split; [rewrite set_cell_nth_other by (right; lia); exact H4|]. split; [exact Hs|]. split; [exact H6|].
  apply (table_at_off_frame h _ dt 3 bss (d_tbl d) Ht); [apply set_cell_length | apply set_cell_block_length | |].
  - intros k Hk. apply set_cell_nth_other. right. rewrite nbuckets_73 in Hk. lia.
  - intros b Hb. apply set_cell_other. intro E. subst b. exact (Hnt Hb).
Qed.

(* a block outside the table and the detector object is rewritten *)
Lemma detector_at_upd_other h dt bss d tc b blk : detector_at h dt bss d tc -> b <> dt -> ~ In b (concat bss) ->
  detector_at (upd h b blk) dt bss d tc.
Proof.
  intros H Hne Hnin. apply (detector_at_frame_le h _ dt bss d tc H).
  - rewrite heap_upd_length. lia.
  - apply hblock_upd_other. exact Hne.
  - intros x Hx. apply hblock_upd_other. intro E. subst x. exact (Hnin Hx).
Qed.
