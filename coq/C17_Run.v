(* C17 -- one test of a run, runs, the command line runner, sessions *)
From Coq Require Import NArith Arith Bool List Lia.
From CppUVerif Require Import gen.Gen_Common C17_Model C17_Proofs C17_Links C17_Chain.
Import ListNotations.

(* ================================================================= small facts *)
Lemma filter_rev' {A} (f : A -> bool) l : filter f (rev l) = rev (filter f l).
Proof.
  induction l as [|a l IH]; [reflexivity|]. cbn [rev filter]. rewrite filter_app, IH. cbn [filter].
  destruct (f a); [reflexivity|]. cbn [rev]. rewrite app_nil_r. reflexivity.
Qed.
Lemma log_ids_rev c : log_ids (rev c) = rev (log_ids c).
Proof. unfold log_ids. rewrite filter_rev', map_rev. reflexivity. Qed.

Lemma sel_sub b y a : In a (sel_acts b y) -> In a (role_acts y).
Proof.
  unfold sel_acts, pre_acts, post_acts, role_acts. destruct b, (p_role y) as [|[|] l|]; intro H; try exact H; destruct H.
Qed.
Lemma sel_actor b x : sel_acts b x <> [] -> is_actor x = true.
Proof.
  unfold sel_acts, pre_acts, post_acts, is_actor. destruct b, (p_role x) as [|[|] l|]; intro H; try reflexivity; exfalso; apply H; reflexivity.
Qed.
Lemma post_actor_no_pre x : sel_acts true x <> [] -> sel_acts false x = [].
Proof.
  unfold sel_acts, pre_acts, post_acts. destruct (p_role x) as [|[|] l|]; intro H; try reflexivity; exfalso; apply H; reflexivity.
Qed.

Lemma forallb_sub {A} (f : A -> bool) l1 l2 : (forall a, In a l1 -> In a l2) -> forallb f l2 = true -> forallb f l1 = true.
Proof. intros Hs H. apply forallb_forall. intros a Ha. rewrite forallb_forall in H. apply H. apply Hs. exact Ha. Qed.

Lemma existsb_sub {A} (f : A -> bool) l1 l2 : (forall a, In a l1 -> In a l2) -> existsb f l2 = false -> existsb f l1 = false.
Proof.
  intros Hs H. destruct (existsb f l1) eqn:E; [|reflexivity]. apply existsb_exists in E. destruct E as [a [Ha Hf]].
  assert (existsb f l2 = true) as E2 by (apply existsb_exists; exists a; split; [apply Hs; exact Ha|exact Hf]).
  rewrite E2 in H. discriminate H.
Qed.

Lemma in_armed b c a : In a (armed_acts b c) -> exists y, In y c /\ In a (sel_acts b y).
Proof.
  unfold armed_acts. intro H. apply in_flat_map in H. destruct H as [y [Hy Ha]]. exists y. split; [exact Hy|].
  destruct (p_on y); [exact Ha|destruct Ha].
Qed.

Lemma ref_test_acts_sub t a : In a (ref_test_acts t) -> In a (stmt_acts t).
Proof.
  unfold ref_test_acts, stmt_acts.
  pose proof (ref_xacts_sub (x_setup t) 0 a) as H1. destruct (ref_xacts 0 (x_setup t)) as [[a1 n1] ok1]. cbn [fst] in H1.
  assert (H2 : In a (fst (fst (if ok1 then ref_xacts n1 (x_body t) else ([], n1, true)))) -> In a (xacts (x_body t))).
  { destruct ok1; [apply ref_xacts_sub|intros []]. }
  destruct (if ok1 then ref_xacts n1 (x_body t) else ([], n1, true)) as [[a2 n2] ok2]. cbn [fst] in H2.
  pose proof (ref_xacts_sub (x_teardown t) n2 a) as H3. destruct (ref_xacts n2 (x_teardown t)) as [[a3 n3] ok3]. cbn [fst] in H3.
  intro H. apply in_app_or in H. destruct H as [H|H]; [apply in_or_app; left; apply H1; exact H|].
  apply in_app_or in H. apply in_or_app. right. apply in_or_app. destruct H as [H|H]; [left; apply H2|right; apply H3]; exact H.
Qed.

(* ================================================================= the statements of a whole test *)
Lemma xexec_test_spec st t :
  s_tbl st = [] ->
  (existsb installs_sp (stmt_acts t) = false \/ existsb is_set (all_stmts (strip t)) = false) ->
  proj (fst (xexec_test st t)) = tb_acts (proj st) (ref_test_acts t) /\
  (s_mem (fst (xexec_test st t)), s_tbl (fst (xexec_test st t)), snd (xexec_test st t)) = exec_test (s_mem st) [] (strip t).
Proof.
  intros Ht Hd. unfold xexec_test, ref_test_acts, exec_test, strip. cbn [t_setup t_body t_teardown].
  (* what the two cases give each phase *)
  assert (Hph : forall ss, (forall a, In a (xacts ss) -> In a (stmt_acts t)) -> (forall s, In s (strip_stmts ss) -> In s (all_stmts (strip t))) ->
                forall st', (existsb is_set (all_stmts (strip t)) = false -> s_tbl st' = []) ->
                existsb installs_sp (xacts ss) = false \/ (s_tbl st' = [] /\ existsb is_set (strip_stmts ss) = false)).
  { intros ss Ha Hs st' Hnil. destruct Hd as [Hd|Hd]; [left; apply (existsb_sub _ _ _ Ha Hd)|right; split; [apply Hnil; exact Hd|apply (existsb_sub _ _ _ Hs Hd)]]. }
  assert (Ha1 : forall a, In a (xacts (x_setup t)) -> In a (stmt_acts t)) by (intros a H; unfold stmt_acts; apply in_or_app; left; exact H).
  assert (Ha2 : forall a, In a (xacts (x_body t)) -> In a (stmt_acts t)) by (intros a H; unfold stmt_acts; apply in_or_app; right; apply in_or_app; left; exact H).
  assert (Ha3 : forall a, In a (xacts (x_teardown t)) -> In a (stmt_acts t)) by (intros a H; unfold stmt_acts; apply in_or_app; right; apply in_or_app; right; exact H).
  assert (Hs1 : forall s, In s (strip_stmts (x_setup t)) -> In s (all_stmts (strip t))) by (intros s H; unfold all_stmts, strip; cbn; apply in_or_app; left; exact H).
  assert (Hs2 : forall s, In s (strip_stmts (x_body t)) -> In s (all_stmts (strip t))) by (intros s H; unfold all_stmts, strip; cbn; apply in_or_app; right; apply in_or_app; left; exact H).
  assert (Hs3 : forall s, In s (strip_stmts (x_teardown t)) -> In s (all_stmts (strip t))) by (intros s H; unfold all_stmts, strip; cbn; apply in_or_app; right; apply in_or_app; right; exact H).
  (* set-free phases keep the empty table *)
  assert (Hkeep : forall ss st', (forall s, In s (strip_stmts ss) -> In s (all_stmts (strip t))) -> s_tbl st' = [] ->
                  existsb is_set (all_stmts (strip t)) = false -> snd (fst (exec_stmts (s_mem st') (s_tbl st') (strip_stmts ss))) = []).
  { intros ss st' Hs Hn Hf. rewrite Hn. apply no_set_keeps_table. apply (existsb_sub _ _ _ Hs Hf). }
  (* setup *)
  destruct (xexec_spec (x_setup t) st 0) as [A1 [A2 [A3 A4]]]; [rewrite Ht; reflexivity|apply Hph; [exact Ha1|exact Hs1|intros _; exact Ht]|].
  pose proof (Hkeep (x_setup t) st Hs1 Ht) as K1. rewrite <- A3 in K1. cbn [fst snd] in K1.
  destruct (xexec st (x_setup t)) as [st2 ok1]. destruct (ref_xacts 0 (x_setup t)) as [[a1 n1] ok1']. cbn [fst snd] in *. subst ok1'.
  rewrite Ht in A3. rewrite <- A3.
  (* body *)
  assert (B : proj (fst (if ok1 then xexec st2 (x_body t) else (st2, true))) =
              tb_acts (proj st2) (fst (fst (if ok1 then ref_xacts n1 (x_body t) else ([], n1, true)))) /\
              snd (if ok1 then xexec st2 (x_body t) else (st2, true)) = snd (if ok1 then ref_xacts n1 (x_body t) else ([], n1, true)) /\
              (s_mem (fst (if ok1 then xexec st2 (x_body t) else (st2, true))), s_tbl (fst (if ok1 then xexec st2 (x_body t) else (st2, true))),
               snd (if ok1 then xexec st2 (x_body t) else (st2, true))) =
              (if ok1 then exec_stmts (s_mem st2) (s_tbl st2) (strip_stmts (x_body t)) else (s_mem st2, s_tbl st2, true)) /\
              length (s_tbl (fst (if ok1 then xexec st2 (x_body t) else (st2, true)))) = snd (fst (if ok1 then ref_xacts n1 (x_body t) else ([], n1, true))) /\
              (existsb is_set (all_stmts (strip t)) = false -> s_tbl (fst (if ok1 then xexec st2 (x_body t) else (st2, true))) = [])).
  { destruct ok1.
    - destruct (xexec_spec (x_body t) st2 n1 A4) as [B1 [B2 [B3 B4]]]; [apply Hph; [exact Ha2|exact Hs2|exact K1]|].
      repeat split; try assumption. intro Hf. pose proof (Hkeep (x_body t) st2 Hs2 (K1 Hf) Hf) as K. rewrite <- B3 in K. exact K.
    - cbn [fst snd]. repeat split; [exact A4|exact K1]. }
  destruct B as [B1 [B2 [B3 [B4 K2]]]].
  destruct (if ok1 then xexec st2 (x_body t) else (st2, true)) as [st3 ok2].
  destruct (if ok1 then ref_xacts n1 (x_body t) else ([], n1, true)) as [[a2 n2] ok2']. cbn [fst snd] in *. subst ok2'.
  rewrite <- B3.
  (* teardown *)
  destruct (xexec_spec (x_teardown t) st3 n2 B4) as [C1 [C2 [C3 C4]]]; [apply Hph; [exact Ha3|exact Hs3|exact K2]|].
  destruct (xexec st3 (x_teardown t)) as [st4 ok3]. destruct (ref_xacts n2 (x_teardown t)) as [[a3 n3] ok3']. cbn [fst snd] in *. subst ok3'.
  rewrite <- C3. split; [|reflexivity].
  rewrite C1, B1, A1, !tb_acts_app. reflexivity.
Qed.

Lemma J_xexec_test c0 st t : J c0 st -> J c0 (fst (xexec_test st t)).
Proof.
  intro H. unfold xexec_test.
  pose proof (J_xexec c0 (x_setup t) st H) as H1. destruct (xexec st (x_setup t)) as [st2 ok1]. cbn [fst] in H1.
  assert (H2 : J c0 (fst (if ok1 then xexec st2 (x_body t) else (st2, true)))) by (destruct ok1; [apply J_xexec|]; exact H1).
  destruct (if ok1 then xexec st2 (x_body t) else (st2, true)) as [st3 ok2]. cbn [fst] in H2.
  pose proof (J_xexec c0 (x_teardown t) st3 H2) as H3. destruct (xexec st3 (x_teardown t)) as [st4 ok3]. exact H3.
Qed.
Lemma T_xexec_test st t : incl (s_T st) (s_T (fst (xexec_test st t))).
Proof.
  unfold xexec_test.
  pose proof (T_xexec (x_setup t) st) as H1. destruct (xexec st (x_setup t)) as [st2 ok1]. cbn [fst] in H1.
  assert (H2 : incl (s_T st2) (s_T (fst (if ok1 then xexec st2 (x_body t) else (st2, true))))) by (destruct ok1; [apply T_xexec|apply incl_refl]).
  destruct (if ok1 then xexec st2 (x_body t) else (st2, true)) as [st3 ok2]. cbn [fst] in H2.
  pose proof (T_xexec (x_teardown t) st3) as H3. destruct (xexec st3 (x_teardown t)) as [st4 ok3]. cbn [fst] in *.
  eapply incl_tran; [exact H1|]. eapply incl_tran; [exact H2|exact H3].
Qed.

(* ================================================================= what validity of a test gives *)
Lemma actor_left_alone c t x : xtest_ok c t = true -> In x c -> is_actor x = true ->
  (forall a, In a (stmt_acts t) -> keeps a x = true) /\
  (forall y, In y c -> p_id y <> p_id x -> forall a, In a (role_acts y) -> keeps a x = true).
Proof.
  unfold xtest_ok. intros H Hx Ha. apply andb_true_iff in H. destruct H as [H _]. apply andb_true_iff in H. destruct H as [_ H].
  rewrite forallb_forall in H. specialize (H x Hx). rewrite Ha in H. cbn [negb orb] in H.
  unfold left_alone in H. apply andb_true_iff in H. destruct H as [H _]. apply andb_true_iff in H. destruct H as [H1 H2].
  rewrite forallb_forall in H1, H2. split; [exact H1|].
  intros y Hy Hne a Hin. specialize (H2 y Hy). apply orb_true_iff in H2. destruct H2 as [H2|H2].
  - apply Nat.eqb_eq in H2. contradiction.
  - rewrite forallb_forall in H2. apply H2. exact Hin.
Qed.

Lemma acts_ready_pre c t r : xtest_ok c t = true -> r_chain r = c -> acts_ready false c r.
Proof.
  intros Hv Hc x Hx Hs. split; [rewrite Hc; exact Hx|].
  intros y Hy Hne. apply forallb_forall. intros a Ha.
  apply (proj2 (actor_left_alone c t x Hv Hx (sel_actor _ _ Hs)) y Hy Hne). apply (sel_sub _ _ _ Ha).
Qed.

(* ================================================================= one test of a valid run *)
Lemma run_xtest_ok st0 t : wf (s_reg st0) -> s_tbl st0 = [] -> xtest_ok (s_chain st0) t = true ->
  s_reg (fst (run_xtest st0 t)) = fst (tb_acts (s_reg st0, []) (test_acts (s_chain st0) t)) /\
  s_tbl (fst (run_xtest st0 t)) = [] /\
  s_mem (fst (run_xtest st0 t)) = fst (ref_test (s_mem st0) (strip t)) /\
  snd (run_xtest st0 t) =
    ITest (snd (ref_test (s_mem st0) (strip t)))
          (filter (unnamed (snd (tb_acts (s_reg st0, []) (test_acts (s_chain st0) t)))) (log_ids (s_chain st0)))
          (filter (unnamed (snd (tb_acts (s_reg st0, []) (test_acts (s_chain st0) t)))) (rev (log_ids (s_chain st0))))
          (fst (ref_test (s_mem st0) (strip t))).
Proof.
  intros Hw Ht Hv. unfold run_xtest.
  set (st := {| s_mem := s_mem st0; s_tbl := s_tbl st0; s_reg := s_reg st0; s_T := [] |}).
  change (s_chain st) with (s_chain st0). set (c0 := s_chain st0) in *.
  assert (HJ : J c0 st) by (split; [exact Hw|intros p Hp _; exact Hp]).
  assert (Hnd : NoDup (map p_id c0)) by (apply (wf_nodup _ Hw)).
  (* ---- the pre walk *)
  pose proof (walk_reg false c0 st [] Hw Hnd (acts_ready_pre c0 t (s_reg st0) Hv eq_refl)) as P1.
  pose proof (J_walk c0 false c0 st [] HJ) as PJ.
  destruct (walk_mem_nil false c0 st [] Ht) as [Pm Pt].
  pose proof (fun Tf => walk_log c0 false c0 st [] Tf HJ (incl_refl _)) as Plog.
  destruct (walk false c0 st []) as [st1 pre]. cbn [fst snd] in *.
  (* ---- the statements *)
  assert (Hd : existsb installs_sp (stmt_acts t) = false \/ existsb is_set (all_stmts (strip t)) = false).
  { unfold xtest_ok in Hv. apply andb_true_iff in Hv. destruct Hv as [_ Hv]. apply orb_true_iff in Hv. destruct Hv as [Hv|Hv].
    - left. unfold sp_stable in Hv. apply andb_true_iff in Hv. destruct Hv as [_ Hv]. apply negb_true_iff in Hv.
      apply (existsb_sub _ (stmt_acts t) (all_acts c0 t)); [|exact Hv]. intros a Ha. unfold all_acts. apply in_or_app. left. exact Ha.
    - right. apply negb_true_iff. exact Hv. }
  destruct (xexec_test_spec st1 t Pt Hd) as [S1 S2].
  pose proof (J_xexec_test c0 st1 t PJ) as SJ. pose proof (T_xexec_test st1 t) as ST.
  destruct (xexec_test st1 t) as [st4 failed]. cbn [fst snd] in *.
  (* the registry before the post walk *)
  assert (R4 : proj st4 = tb_acts (s_reg st0, []) (armed_acts false c0 ++ ref_test_acts t)).
  { rewrite tb_acts_app, S1, P1. reflexivity. }
  (* every plugin that none of the actions so far names is still in the chain *)
  assert (Hstill : forall x, In x c0 -> (forall a, In a (armed_acts false c0 ++ ref_test_acts t) -> keeps a x = true) -> In x (s_chain st4)).
  { intros x Hx Hk. unfold s_chain. change (s_reg st4) with (fst (proj st4)). rewrite R4.
    apply keeps_in_acts; [exact Hx|]. apply forallb_forall. exact Hk. }
  (* ---- the post walk *)
  assert (Hw4 : wf (s_reg st4)) by (apply (proj1 SJ)).
  assert (Hnd' : NoDup (map p_id (rev c0))) by (rewrite map_rev; apply NoDup_rev; exact Hnd).
  assert (Hready : acts_ready true (rev c0) (s_reg st4)).
  { intros x Hx Hs. apply in_rev in Hx. pose proof (sel_actor _ _ Hs) as Hact.
    destruct (actor_left_alone c0 t x Hv Hx Hact) as [L1 L2]. split.
    - apply Hstill; [exact Hx|]. intros a Ha. apply in_app_or in Ha. destruct Ha as [Ha|Ha].
      + destruct (in_armed _ _ _ Ha) as [y [Hy Hay]]. destruct (Nat.eq_dec (p_id y) (p_id x)) as [E|Hne].
        * rewrite (same_id_same c0 y x Hnd Hy Hx E), (post_actor_no_pre x Hs) in Hay. destruct Hay.
        * apply (L2 y Hy Hne). apply (sel_sub _ _ _ Hay).
      + apply L1. apply ref_test_acts_sub. exact Ha.
    - intros y Hy Hne. apply in_rev in Hy. apply forallb_forall. intros a Ha. apply (L2 y Hy Hne). apply (sel_sub _ _ _ Ha). }
  pose proof (walk_reg true (rev c0) st4 [] Hw4 Hnd' Hready) as Q1.
  pose proof (fun Tf => walk_log c0 true (rev c0) st4 [] Tf SJ (fun z Hz => proj2 (in_rev c0 z) Hz)) as Qlog.
  pose proof (T_walk true (rev c0) st4 []) as QT.
  (* memory: restored *)
  assert (Qm : s_mem (fst (walk true (rev c0) st4 [])) = fst (ref_test (s_mem st0) (strip t)) /\ s_tbl (fst (walk true (rev c0) st4 [])) = []).
  { pose proof (test_refines (s_mem st1) (strip t)) as Hr. rewrite <- S2 in Hr. destruct Hr as [Hr1 Hr2].
    rewrite Pm in Hr1. change (s_mem st) with (s_mem st0) in Hr1.
    unfold xtest_ok in Hv. apply andb_true_iff in Hv. destruct Hv as [_ Hv]. apply orb_true_iff in Hv. destruct Hv as [Hv|Hv].
    - unfold sp_stable in Hv. apply andb_true_iff in Hv. destruct Hv as [Hs Hni]. apply negb_true_iff in Hni.
      apply existsb_exists in Hs. destruct Hs as [s [Hs Hss]]. apply andb_true_iff in Hss. destruct Hss as [Hss Hks].
      apply andb_true_iff in Hss. destruct Hss as [Hon Hsp]. rewrite forallb_forall in Hks.
      assert (Hall : forall y a, In y c0 -> In a (role_acts y) -> In a (all_acts c0 t)).
      { intros y a Hy Ha. unfold all_acts. apply in_or_app. right. apply in_flat_map. exists y. split; assumption. }
      rewrite <- Hr1. apply (walk_restores (rev c0) st4 [] (s_mem st4) (s_tbl st4) s).
      + left. split; reflexivity.
      + exact Hw4.
      + exact Hnd'.
      + intros x Hx. apply in_rev in Hx. apply (existsb_sub _ (sel_acts true x) (all_acts c0 t)); [|exact Hni].
        intros a Ha. apply (Hall x a Hx). apply (sel_sub _ _ _ Ha).
      + apply in_rev. rewrite rev_involutive. exact Hs.
      + apply Hstill; [exact Hs|]. intros a Ha. apply Hks. apply in_app_or in Ha. destruct Ha as [Ha|Ha].
        * destruct (in_armed _ _ _ Ha) as [y [Hy Hay]]. apply (Hall y a Hy). apply (sel_sub _ _ _ Hay).
        * unfold all_acts. apply in_or_app. left. apply ref_test_acts_sub. exact Ha.
      + exact Hon.
      + exact Hsp.
      + intros y Hy. apply in_rev in Hy. apply forallb_forall. intros a Ha. apply Hks. apply (Hall y a Hy). apply (sel_sub _ _ _ Ha).
    - apply negb_true_iff in Hv.
      assert (Ht4 : s_tbl st4 = []).
      { pose proof (no_set_test_keeps_table (strip t) (s_mem st1) [] Hv) as Hk. rewrite <- S2 in Hk. exact Hk. }
      destruct (walk_mem_nil true (rev c0) st4 [] Ht4) as [E1 E2]. split; [|exact E2].
      rewrite E1, <- Hr1, Ht4. reflexivity. }
  destruct Qm as [Qm Qt].
  destruct (walk true (rev c0) st4 []) as [st5 post]. cbn [fst snd] in *.
  assert (R5 : proj st5 = tb_acts (s_reg st0, []) (test_acts c0 t)).
  { unfold test_acts. rewrite app_assoc, tb_acts_app, <- R4. exact Q1. }
  assert (R5a : s_reg st5 = fst (tb_acts (s_reg st0, []) (test_acts c0 t))) by (rewrite <- R5; reflexivity).
  assert (R5b : s_T st5 = snd (tb_acts (s_reg st0, []) (test_acts c0 t))) by (rewrite <- R5; reflexivity).
  pose proof (test_refines (s_mem st1) (strip t)) as Hr. rewrite <- S2 in Hr. destruct Hr as [_ Hr2]. rewrite Pm in Hr2.
  change (s_mem st) with (s_mem st0) in Hr2.
  split; [exact R5a|]. split; [exact Qt|]. split; [exact Qm|].
  rewrite Hr2, Qm, <- R5b. f_equal.
  - rewrite (Plog (s_T st5)); [reflexivity|]. eapply incl_tran; [exact ST|exact QT].
  - rewrite (Qlog (s_T st5) (incl_refl _)), log_ids_rev. reflexivity.
Qed.

(* ================================================================= the tests of a valid run *)
(* well-formed registry, empty table, and the links as the code holds them are the chain *)
Definition good (st : state) : Prop := wf (s_reg st) /\ s_tbl st = [] /\ linked (s_reg st).

Lemma run_tests_ok ts : forall st r', good st -> valid_tests (s_reg st) ts = Some r' ->
  s_reg (fst (run_tests st ts)) = r' /\ good (fst (run_tests st ts)) /\
  forall obs, spec_tests (s_reg st) (s_mem st) ts (snd (run_tests st ts) ++ obs) = Some (r', s_mem (fst (run_tests st ts)), obs).
Proof.
  induction ts as [|t ts IH]; intros st r' [Hw [Ht Hl]] Hv; cbn [valid_tests run_tests spec_tests] in *.
  - cbn [fst snd app]. inversion Hv; subst. split; [reflexivity|]. split; [split; [|split]; assumption|]. intro obs. reflexivity.
  - destruct (xtest_ok (r_chain (s_reg st)) t) eqn:Hok; [|discriminate Hv]. cbn [andb] in Hv.
    destruct (acts_ok (s_reg st) (test_acts (r_chain (s_reg st)) t)) eqn:Hao; [|discriminate Hv].
    pose proof (run_xtest_ok st t Hw Ht Hok) as R. unfold s_chain in R. destruct R as [R1 [R2 [R3 R4]]].
    destruct (run_xtest st t) as [st1 it]. cbn [fst snd] in *.
    assert (Hg1 : good st1).
    { split; [rewrite R1; apply (wf_acts _ (s_reg st, [])); exact Hw|]. split; [exact R2|]. rewrite R1. apply linked_acts; assumption. }
    rewrite <- R1 in Hv. destruct (IH st1 r' Hg1 Hv) as [I1 [I2 I3]].
    destruct (run_tests st1 ts) as [st2 its]. cbn [fst snd app] in *.
    split; [exact I1|]. split; [exact I2|]. intro obs. subst it.
    rewrite eqb_reflx, !nat_list_eqb_refl, mem_eqb_refl. cbn [andb].
    rewrite <- R1, <- R3. apply I3.
Qed.

(* ================================================================= sessions *)
Lemma good_do_act st a : good st -> act_ok (s_reg st) a = true ->
  good (do_act st a) /\ s_reg (do_act st a) = reg_act without (s_reg st) a /\ s_mem (do_act st a) = s_mem st.
Proof.
  intros [Hw [Ht Hl]] Hok. split; [split; [|split]|split].
  - cbn [do_act s_reg]. rewrite reg_act_without. apply wf_act. exact Hw.
  - cbn [do_act s_tbl]. rewrite Ht. destruct (installs_sp a); reflexivity.
  - cbn [do_act s_reg]. rewrite reg_act_without. apply linked_act; assumption.
  - cbn [do_act s_reg]. apply reg_act_without.
  - reflexivity.
Qed.

Lemma good_install st p : good st -> p_id p = s_next st -> (is_sp p = false \/ True) -> good (install st p).
Proof.
  intros [Hw [Ht Hl]] Hid _. split; [|split]; cbn [install s_reg s_tbl].
  - apply wf_install; assumption.
  - rewrite Ht. destruct (is_sp p); reflexivity.
  - apply linked_install; assumption.
Qed.

Lemma step_ok st o rest : good st -> valid_from (s_reg st) (o :: rest) = true ->
  good (fst (step st o)) /\ valid_from (s_reg (fst (step st o))) rest = true /\
  forall obs, spec_from (s_reg st) (s_mem st) (o :: rest) (snd (step st o) ++ obs) =
              spec_from (s_reg (fst (step st o))) (s_mem (fst (step st o))) rest obs.
Proof.
  assert (Hread : forall st', good st' -> read_chain (s_reg st') = map p_id (r_chain (s_reg st'))).
  { intros st' [Hw' [_ Hl']]. apply read_linked; assumption. }
  intros Hg Hv. destruct o as [n k|n post acts|id|id|n| |id|t|ts|rep ts]; cbn [valid_from spec_from step fst snd app] in *.
  - destruct (good_do_act st (AInstall n k) Hg eq_refl) as [G [R M]]. rewrite R, M. split; [exact G|]. split; [exact Hv|]. intro obs. reflexivity.
  - assert (G : good (install st (mkp (s_next st) n KPlain (RActor post acts)))) by (apply good_install; [exact Hg|reflexivity|left; reflexivity]).
    split; [exact G|]. split; [exact Hv|]. intro obs. reflexivity.
  - destruct (good_do_act st (AEnable id) Hg eq_refl) as [G [R M]]. rewrite R, M. split; [exact G|]. split; [exact Hv|]. intro obs. reflexivity.
  - destruct (good_do_act st (ADisable id) Hg eq_refl) as [G [R M]]. rewrite R, M. split; [exact G|]. split; [exact Hv|]. intro obs. reflexivity.
  - destruct (good_do_act st (ARemove n) Hg eq_refl) as [G [R M]]. rewrite (Hread _ G), R, M. split; [exact G|]. split; [exact Hv|].
    intro obs. cbn [reg_act reg_set r_chain]. rewrite nat_list_eqb_refl. reflexivity.
  - destruct (good_do_act st AReset Hg eq_refl) as [G [R M]]. rewrite (Hread _ G), R, M. split; [exact G|]. split; [exact Hv|]. intro obs. reflexivity.
  - apply andb_true_iff in Hv. destruct Hv as [Hok Hv].
    destruct (good_do_act st (AReinstall id) Hg Hok) as [G [R M]]. rewrite (Hread _ G), R, M. split; [exact G|]. split; [exact Hv|].
    intro obs. unfold reinst_ok in Hok. cbn [reg_act]. destruct (find_id id (r_out (s_reg st))) as [p|] eqn:Ef; [|discriminate Hok].
    destruct (find_id_some _ _ _ Ef) as [_ Eid]. cbn [reg_set r_chain map]. rewrite Eid, nat_list_eqb_refl. reflexivity.
  - destruct (valid_tests (s_reg st) [t]) as [r'|] eqn:Hvt; [|discriminate Hv].
    destruct (run_tests_ok [t] st r' Hg Hvt) as [R1 [R2 R3]]. cbn [run_tests] in R1, R2, R3.
    destruct (run_xtest st t) as [st1 it]. cbn [fst snd app] in *.
    split; [exact R2|]. split; [rewrite R1; exact Hv|]. intro obs. rewrite (R3 obs), R1. reflexivity.
  - destruct (valid_tests (s_reg st) ts) as [r'|] eqn:Hvt; [|discriminate Hv].
    destruct (run_tests_ok ts st r' Hg Hvt) as [R1 [R2 R3]].
    destruct (run_tests st ts) as [st1 its]. cbn [fst snd] in *.
    split; [exact R2|]. split; [rewrite R1; exact Hv|]. intro obs. rewrite <- app_assoc, (R3 _). cbn [app].
    rewrite (Hread _ R2), R1, nat_list_eqb_refl. reflexivity.
  - apply andb_true_iff in Hv. destruct Hv as [_ Hv].
    set (st0 := install st (runner_plugin (s_next st))) in *.
    assert (G0 : good st0) by (apply good_install; [exact Hg|reflexivity|right; exact I]).
    change (reg_install (s_reg st) (runner_plugin (r_next (s_reg st)))) with (s_reg st0) in *.
    destruct (valid_tests (s_reg st0) (reps rep ts)) as [r'|] eqn:Hvt; [|discriminate Hv].
    apply andb_true_iff in Hv. destruct Hv as [_ Hv].
    destruct (run_tests_ok (reps rep ts) st0 r' G0 Hvt) as [R1 [R2 R3]].
    destruct (run_tests st0 (reps rep ts)) as [st1 its]. cbn [fst snd] in *.
    destruct (good_do_act st1 (ARemove runner_name) R2 eq_refl) as [G [R M]].
    split; [exact G|]. split; [rewrite R, R1; exact Hv|]. intro obs. rewrite <- app_assoc.
    change (s_mem st) with (s_mem st0). rewrite (R3 _). cbn [app].
    rewrite (Hread _ G), R, M, R1. cbn [reg_act reg_set r_chain]. rewrite nat_list_eqb_refl. reflexivity.
Qed.

Lemma run_meets_spec_from ops : forall st, good st -> valid_from (s_reg st) ops = true ->
  spec_from (s_reg st) (s_mem st) ops (run_from st ops) = true.
Proof.
  induction ops as [|o rest IH]; intros st Hg Hv; cbn [run_from]; [reflexivity|].
  destruct (step_ok st o rest Hg Hv) as [G [V S]]. rewrite S. apply IH; assumption.
Qed.

Lemma good_init : good init_state.
Proof. split; [exact wf_init|split; [reflexivity|exact linked_init]]. Qed.

Lemma run_meets_spec s : valid s = true -> spec s (run s) = true.
Proof. intro H. apply (run_meets_spec_from s init_state good_init H). Qed.

(* the table is empty between any two operations of a valid session, and the registry is well-formed *)
Lemma good_prefix s1 : forall st s2, good st -> valid_from (s_reg st) (s1 ++ s2) = true ->
  good (exec_ops st s1) /\ valid_from (s_reg (exec_ops st s1)) s2 = true.
Proof.
  induction s1 as [|o s1 IH]; intros st s2 Hg Hv; cbn [app exec_ops] in *; [split; assumption|].
  destruct (step_ok st o (s1 ++ s2) Hg Hv) as [G [V _]]. apply IH; assumption.
Qed.

Lemma table_empty_between s1 s2 : valid (s1 ++ s2) = true -> s_tbl (exec_ops init_state s1) = [].
Proof. intro H. apply (good_prefix s1 init_state s2 good_init H). Qed.

(* ... the chain holds every object once, and the links as the code holds them are that chain *)
Lemma session_linked s1 s2 : valid (s1 ++ s2) = true ->
  NoDup (map p_id (s_chain (exec_ops init_state s1))) /\ linked (s_reg (exec_ops init_state s1)) /\
  read_chain (s_reg (exec_ops init_state s1)) = map p_id (s_chain (exec_ops init_state s1)).
Proof.
  intro H. destruct (good_prefix s1 init_state s2 good_init H) as [[Hw [_ Hl]] _].
  split; [apply wf_nodup; exact Hw|]. split; [exact Hl|apply read_linked; assumption].
Qed.

(* ... and before every test of every run of a valid session *)
Lemma table_empty_in_run ts1 : forall st t ts2 r', good st -> valid_tests (s_reg st) (ts1 ++ t :: ts2) = Some r' ->
  s_tbl (fst (run_tests st ts1)) = [] /\ xtest_ok (s_chain (fst (run_tests st ts1))) t = true.
Proof.
  induction ts1 as [|t1 ts1 IH]; intros st t ts2 r' [Hw [Ht Hl]] Hv; cbn [app valid_tests run_tests] in *.
  - cbn [fst]. unfold s_chain. destruct (xtest_ok (r_chain (s_reg st)) t) eqn:Hok; [split; [exact Ht|reflexivity]|discriminate Hv].
  - destruct (xtest_ok (r_chain (s_reg st)) t1) eqn:Hok; [|discriminate Hv]. cbn [andb] in Hv.
    destruct (acts_ok (s_reg st) (test_acts (r_chain (s_reg st)) t1)) eqn:Hao; [|discriminate Hv].
    pose proof (run_xtest_ok st t1 Hw Ht Hok) as R. unfold s_chain in R. destruct R as [R1 [R2 _]].
    destruct (run_xtest st t1) as [st1 it]. cbn [fst] in *.
    rewrite <- R1 in Hv.
    assert (Hg1 : good st1).
    { split; [rewrite R1; apply (wf_acts _ (s_reg st, [])); exact Hw|]. split; [exact R2|]. rewrite R1. apply linked_acts; assumption. }
    specialize (IH st1 t ts2 r' Hg1 Hv). destruct (run_tests st1 ts1) as [st2 its]. exact IH.
Qed.

(* ================================================================= the limit, in every session whatsoever *)
Lemma do_act_bounded st a : length (s_tbl st) <= max_set -> length (s_tbl (do_act st a)) <= max_set.
Proof. intro H. cbn [do_act s_tbl]. destruct (installs_sp a); [cbn; lia|exact H]. Qed.
Lemma do_acts_bounded l : forall st, length (s_tbl st) <= max_set -> length (s_tbl (do_acts st l)) <= max_set.
Proof. unfold do_acts. induction l as [|a l IH]; intros st H; cbn [fold_left]; [exact H|]. apply IH. apply do_act_bounded. exact H. Qed.
Lemma turn_bounded b x st : length (s_tbl st) <= max_set -> length (s_tbl (turn b x st)) <= max_set.
Proof. intro H. unfold turn. apply do_acts_bounded. destruct (b && is_sp x); [cbn; lia|exact H]. Qed.
Lemma walk_bounded b sn : forall st lg, length (s_tbl st) <= max_set -> length (s_tbl (fst (walk b sn st lg))) <= max_set.
Proof.
  induction sn as [|x r IH]; intros st lg H; cbn [walk fst]; [exact H|].
  destruct (find_id (p_id x) (s_chain st)) as [q|]; [destruct (p_on q)|]; apply IH; try exact H. apply turn_bounded. exact H.
Qed.
Lemma xexec_bounded ss : forall st, length (s_tbl st) <= max_set -> length (s_tbl (fst (xexec st ss))) <= max_set.
Proof.
  induction ss as [|s r IH]; intros st H; cbn [xexec]; [exact H|]. destruct s as [s|a].
  - pose proof (exec_stmt_bounded (s_mem st) (s_tbl st) s H) as Hs.
    destruct (exec_stmt (s_mem st) (s_tbl st) s) as [[m1 tb1] [|]]; cbn [fst snd] in *; [apply IH|]; exact Hs.
  - apply IH. apply do_act_bounded. exact H.
Qed.
Lemma xexec_test_bounded st t : length (s_tbl st) <= max_set -> length (s_tbl (fst (xexec_test st t))) <= max_set.
Proof.
  intro H. unfold xexec_test.
  pose proof (xexec_bounded (x_setup t) st H) as H1. destruct (xexec st (x_setup t)) as [st2 ok1]. cbn [fst] in H1.
  assert (H2 : length (s_tbl (fst (if ok1 then xexec st2 (x_body t) else (st2, true)))) <= max_set) by (destruct ok1; [apply xexec_bounded|]; exact H1).
  destruct (if ok1 then xexec st2 (x_body t) else (st2, true)) as [st3 ok2]. cbn [fst] in H2.
  pose proof (xexec_bounded (x_teardown t) st3 H2) as H3. destruct (xexec st3 (x_teardown t)) as [st4 ok3]. exact H3.
Qed.
Lemma run_xtest_bounded st t : length (s_tbl st) <= max_set -> length (s_tbl (fst (run_xtest st t))) <= max_set.
Proof.
  intro H. unfold run_xtest.
  set (st' := {| s_mem := s_mem st; s_tbl := s_tbl st; s_reg := s_reg st; s_T := [] |}).
  pose proof (walk_bounded false (s_chain st') st' [] H) as H1. destruct (walk false (s_chain st') st' []) as [st1 pre]. cbn [fst] in H1.
  pose proof (xexec_test_bounded st1 t H1) as H2. destruct (xexec_test st1 t) as [st4 failed]. cbn [fst] in H2.
  pose proof (walk_bounded true (rev (s_chain st')) st4 [] H2) as H3. destruct (walk true (rev (s_chain st')) st4 []) as [st5 post]. exact H3.
Qed.
Lemma run_tests_bounded ts : forall st, length (s_tbl st) <= max_set -> length (s_tbl (fst (run_tests st ts))) <= max_set.
Proof.
  induction ts as [|t ts IH]; intros st H; cbn [run_tests]; [exact H|].
  pose proof (run_xtest_bounded st t H) as H1. destruct (run_xtest st t) as [st1 it]. cbn [fst] in H1.
  specialize (IH st1 H1). destruct (run_tests st1 ts) as [st2 its]. exact IH.
Qed.
Lemma install_bounded st p : length (s_tbl st) <= max_set -> length (s_tbl (install st p)) <= max_set.
Proof. intro H. cbn [install s_tbl]. destruct (is_sp p); [cbn; lia|exact H]. Qed.
Lemma step_bounded st o : length (s_tbl st) <= max_set -> length (s_tbl (fst (step st o))) <= max_set.
Proof.
  intro H. destruct o as [n k|n post acts|id|id|n| |id|t|ts|rep ts]; cbn [step fst]; try (apply do_act_bounded; exact H).
  - apply install_bounded. exact H.
  - pose proof (run_xtest_bounded st t H) as H1. destruct (run_xtest st t) as [st1 it]. exact H1.
  - pose proof (run_tests_bounded ts st H) as H1. destruct (run_tests st ts) as [st1 its]. exact H1.
  - pose proof (run_tests_bounded (reps rep ts) _ (install_bounded st (runner_plugin (s_next st)) H)) as H1.
    destruct (run_tests (install st (runner_plugin (s_next st))) (reps rep ts)) as [st1 its]. cbn [fst] in *. apply do_act_bounded. exact H1.
Qed.
(* in every session whatsoever the table index never passes the capacity *)
Lemma session_bounded ops : forall st, length (s_tbl st) <= max_set -> length (s_tbl (exec_ops st ops)) <= max_set.
Proof. induction ops as [|o r IH]; intros st H; cbn [exec_ops]; [exact H|]. apply IH. apply step_bounded. exact H. Qed.

(* ================================================================= plugins that only record: the plain recursion *)
Definition passive (c : chain) : Prop := forall p, In p c -> p_role p = RRec.

Lemma walk_app b l1 : forall l2 st lg, walk b (l1 ++ l2) st lg = walk b l2 (fst (walk b l1 st lg)) (snd (walk b l1 st lg)).
Proof.
  induction l1 as [|x r IH]; intros l2 st lg; cbn [app walk fst snd]; [reflexivity|].
  destruct (find_id (p_id x) (s_chain st)) as [q|]; [destruct (p_on q)|]; apply IH.
Qed.

Lemma passive_sel b x : p_role x = RRec -> sel_acts b x = [] /\ logs x = true.
Proof. unfold sel_acts, pre_acts, post_acts, logs. intros ->. destruct b; split; reflexivity. Qed.

Lemma walk_passive_pre sn : forall st lg, wf (s_reg st) -> incl sn (s_chain st) -> passive sn ->
  walk false sn st lg = (st, lg ++ pre_all sn).
Proof.
  induction sn as [|x r IH]; intros st lg Hw Hs Hp; cbn [walk pre_all]; [rewrite app_nil_r; reflexivity|].
  unfold s_chain in *. rewrite (find_id_in _ _ (wf_nodup _ Hw) (Hs x (or_introl eq_refl))).
  destruct (passive_sel false x (Hp x (or_introl eq_refl))) as [Es El].
  assert (Hs' : incl r (r_chain (s_reg st))) by (intros z Hz; apply Hs; right; exact Hz).
  assert (Hp' : passive r) by (intros z Hz; apply Hp; right; exact Hz).
  destruct (p_on x).
  - unfold turn. rewrite Es, El. cbn [andb do_acts fold_left]. rewrite IH by assumption. rewrite <- app_assoc. reflexivity.
  - rewrite IH by assumption. reflexivity.
Qed.

Lemma walk_passive_post c : forall st lg, wf (s_reg st) -> incl c (s_chain st) -> passive c ->
  s_reg (fst (walk true (rev c) st lg)) = s_reg st /\ s_T (fst (walk true (rev c) st lg)) = s_T st /\
  (s_mem (fst (walk true (rev c) st lg)), s_tbl (fst (walk true (rev c) st lg)), snd (walk true (rev c) st lg)) =
  (fst (fst (post_all c (s_mem st) (s_tbl st))), snd (fst (post_all c (s_mem st) (s_tbl st))), lg ++ snd (post_all c (s_mem st) (s_tbl st))).
Proof.
  induction c as [|p r IH]; intros st lg Hw Hs Hp; cbn [rev].
  - cbn. rewrite app_nil_r. repeat split.
  - assert (Hs' : incl r (s_chain st)) by (intros z Hz; apply Hs; right; exact Hz).
    assert (Hp' : passive r) by (intros z Hz; apply Hp; right; exact Hz).
    rewrite walk_app. destruct (IH st lg Hw Hs' Hp') as [I1 [I2 I3]].
    destruct (walk true (rev r) st lg) as [st1 lg1]. cbn [fst snd] in *. inversion I3 as [[I3a I3b I3c]]. clear I3.
    cbn [post_all walk]. destruct (post_all r (s_mem st) (s_tbl st)) as [[m1 tb1] l1]. cbn [fst snd] in *.
    unfold s_chain in *. rewrite I1. rewrite (find_id_in _ _ (wf_nodup _ Hw) (Hs p (or_introl eq_refl))).
    destruct (passive_sel true p (Hp p (or_introl eq_refl))) as [Es El].
    destruct (p_on p); cbn [fst snd].
    + unfold turn. rewrite Es, El. cbn [andb do_acts fold_left]. unfold post_action, is_sp.
      destruct (p_kind p); cbn [sp_restore set_mt s_reg s_T s_mem s_tbl fst snd]; rewrite ?I3a, ?I3b, ?app_assoc; repeat split; assumption.
    + rewrite I3a, I3b. repeat split; assumption.
Qed.

Lemma xexec_lift ss : forall st,
  s_reg (fst (xexec st (map XS ss))) = s_reg st /\ s_T (fst (xexec st (map XS ss))) = s_T st /\
  (s_mem (fst (xexec st (map XS ss))), s_tbl (fst (xexec st (map XS ss))), snd (xexec st (map XS ss))) = exec_stmts (s_mem st) (s_tbl st) ss.
Proof.
  induction ss as [|s r IH]; intro st; cbn [map xexec exec_stmts]; [repeat split|].
  destruct (exec_stmt (s_mem st) (s_tbl st) s) as [[m1 tb1] [|]]; [|repeat split].
  destruct (IH (set_mt st m1 tb1)) as [I1 [I2 I3]]. repeat split; assumption.
Qed.

Lemma xexec_test_lift st t :
  s_reg (fst (xexec_test st (lift t))) = s_reg st /\ s_T (fst (xexec_test st (lift t))) = s_T st /\
  (s_mem (fst (xexec_test st (lift t))), s_tbl (fst (xexec_test st (lift t))), snd (xexec_test st (lift t))) = exec_test (s_mem st) (s_tbl st) t.
Proof.
  unfold xexec_test, exec_test, lift. cbn [x_setup x_body x_teardown].
  destruct (xexec_lift (t_setup t) st) as [A1 [A2 A3]]. destruct (xexec st (map XS (t_setup t))) as [st2 ok1]. cbn [fst snd] in *. rewrite <- A3.
  assert (B : s_reg (fst (if ok1 then xexec st2 (map XS (t_body t)) else (st2, true))) = s_reg st /\
              s_T (fst (if ok1 then xexec st2 (map XS (t_body t)) else (st2, true))) = s_T st /\
              (s_mem (fst (if ok1 then xexec st2 (map XS (t_body t)) else (st2, true))), s_tbl (fst (if ok1 then xexec st2 (map XS (t_body t)) else (st2, true))),
               snd (if ok1 then xexec st2 (map XS (t_body t)) else (st2, true))) =
              (if ok1 then exec_stmts (s_mem st2) (s_tbl st2) (t_body t) else (s_mem st2, s_tbl st2, true))).
  { destruct ok1; [|repeat split; assumption]. destruct (xexec_lift (t_body t) st2) as [B1 [B2 B3]]. rewrite B1, B2. repeat split; assumption. }
  destruct B as [B1 [B2 B3]]. destruct (if ok1 then xexec st2 (map XS (t_body t)) else (st2, true)) as [st3 ok2]. cbn [fst snd] in *. rewrite <- B3.
  destruct (xexec_lift (t_teardown t) st3) as [C1 [C2 C3]]. destruct (xexec st3 (map XS (t_teardown t))) as [st4 ok3]. cbn [fst snd] in *. rewrite <- C3.
  rewrite C1, C2. repeat split; assumption.
Qed.

Lemma filter_unnamed_nil l : filter (unnamed []) l = l.
Proof. induction l as [|a l IH]; [reflexivity|]. cbn. rewrite IH. reflexivity. Qed.

(* a test without actions on a chain of recording plugins (any table, any pointer plugin or none): the run of the model is the plain recursion *)
Lemma passive_run_xtest st t : wf (s_reg st) -> passive (s_chain st) ->
  snd (run_xtest st (lift t)) = snd (run_test (s_mem st) (s_tbl st) (s_chain st) t) /\
  s_mem (fst (run_xtest st (lift t))) = fst (fst (run_test (s_mem st) (s_tbl st) (s_chain st) t)) /\
  s_tbl (fst (run_xtest st (lift t))) = snd (fst (run_test (s_mem st) (s_tbl st) (s_chain st) t)) /\
  s_reg (fst (run_xtest st (lift t))) = s_reg st.
Proof.
  intros Hw Hp. unfold run_xtest, run_test.
  set (st' := {| s_mem := s_mem st; s_tbl := s_tbl st; s_reg := s_reg st; s_T := [] |}).
  change (s_chain st') with (s_chain st).
  rewrite (walk_passive_pre (s_chain st) st' [] Hw (incl_refl _) Hp). cbn [app].
  destruct (xexec_test_lift st' t) as [A1 [A2 A3]]. change (s_mem st') with (s_mem st) in A3. change (s_tbl st') with (s_tbl st) in A3.
  destruct (xexec_test st' (lift t)) as [st4 failed]. cbn [fst snd] in *. rewrite <- A3.
  assert (Hw4 : wf (s_reg st4)) by (rewrite A1; exact Hw).
  assert (Hs4 : incl (s_chain st) (s_chain st4)) by (unfold s_chain; rewrite A1; apply incl_refl).
  destruct (walk_passive_post (s_chain st) st4 [] Hw4 Hs4 Hp) as [B1 [B2 B3]].
  destruct (walk true (rev (s_chain st)) st4 []) as [st5 post]. cbn [fst snd app] in *. inversion B3 as [[B3a B3b B3c]]. clear B3.
  destruct (post_all (s_chain st) (s_mem st4) (s_tbl st4)) as [[m2 tb2] lg2]. cbn [fst snd] in *.
  rewrite B2, A2. change (s_T st') with (@nil nat). rewrite !filter_unnamed_nil, B3a, B3b, B1, A1. repeat split.
Qed.

(* ================================================================= the command line runner on any registry *)
Lemma armed_no_actor b c : (forall p, In p c -> is_actor p = false) -> armed_acts b c = [].
Proof.
  intro H. unfold armed_acts. induction c as [|p r IH]; [reflexivity|]. cbn [flat_map]. rewrite IH by (intros q Hq; apply H; right; exact Hq).
  assert (E : sel_acts b p = []).
  { specialize (H p (or_introl eq_refl)). unfold is_actor in H. unfold sel_acts, pre_acts, post_acts. destruct b, (p_role p) as [|[|] l|]; try reflexivity; discriminate H. }
  rewrite E. destruct (p_on p); reflexivity.
Qed.
Lemma role_no_actor c : (forall p, In p c -> is_actor p = false) -> flat_map role_acts c = [].
Proof.
  intro H. induction c as [|p r IH]; [reflexivity|]. cbn [flat_map]. rewrite IH by (intros q Hq; apply H; right; exact Hq).
  specialize (H p (or_introl eq_refl)). unfold is_actor in H. unfold role_acts. destruct (p_role p); try reflexivity. discriminate H.
Qed.
Lemma ref_test_acts_nil t : stmt_acts t = [] -> ref_test_acts t = [].
Proof.
  intro H. destruct (ref_test_acts t) as [|a l] eqn:E; [reflexivity|]. exfalso.
  assert (Hin : In a (stmt_acts t)) by (apply ref_test_acts_sub; rewrite E; left; reflexivity). rewrite H in Hin. destruct Hin.
Qed.

(* whatever plugins the registry holds -- any names, the runner's own plugin name included, pointer plugins or not, enabled or
   not -- a test that does not touch the registry is a valid test of the runner's run and leaves the registry as it is *)
Lemma runner_test_valid r t : (forall p, In p (r_chain r) -> is_actor p = false) -> stmt_acts t = [] ->
  forallb stmt_ok (all_stmts (strip t)) = true ->
  let r1 := reg_install r (runner_plugin (r_next r)) in
  xtest_ok (r_chain r1) t = true /\ fst (tb_acts (r1, []) (test_acts (r_chain r1) t)) = r1 /\ test_acts (r_chain r1) t = [].
Proof.
  intros Hna Hst Hok r1.
  assert (Hna1 : forall p, In p (r_chain r1) -> is_actor p = false).
  { intros p [<-|Hp]; [reflexivity|apply Hna; exact Hp]. }
  split.
  - unfold xtest_ok. rewrite Hok. cbn [andb].
    assert (E1 : forallb (fun x => negb (is_actor x) || left_alone (r_chain r1) t x) (r_chain r1) = true).
    { apply forallb_forall. intros x Hx. rewrite (Hna1 x Hx). reflexivity. }
    rewrite E1. cbn [andb]. apply orb_true_iff. left. unfold sp_stable, all_acts. rewrite Hst, (role_no_actor _ Hna1). cbn [app existsb negb andb].
    rewrite andb_true_r. reflexivity.
  - assert (E : test_acts (r_chain r1) t = []).
    { unfold test_acts. rewrite !(armed_no_actor _ _ Hna1), (ref_test_acts_nil t Hst).
      rewrite (armed_no_actor true (rev (r_chain r1))) by (intros p Hp; apply Hna1; apply in_rev; exact Hp). reflexivity. }
    rewrite E. split; reflexivity.
Qed.

Lemma runner_tests_valid r ts : (forall p, In p (r_chain r) -> is_actor p = false) ->
  (forall t, In t ts -> stmt_acts t = [] /\ forallb stmt_ok (all_stmts (strip t)) = true) ->
  valid_tests (reg_install r (runner_plugin (r_next r))) ts = Some (reg_install r (runner_plugin (r_next r))).
Proof.
  intros Hna Hts. induction ts as [|t ts IH]; cbn [valid_tests]; [reflexivity|].
  destruct (Hts t (or_introl eq_refl)) as [H1 H2]. destruct (runner_test_valid r t Hna H1 H2) as [V [R E]]. cbn zeta in V, R, E.
  rewrite V, R, E. cbn [acts_ok andb]. apply IH. intros t' Ht'. apply Hts. right. exact Ht'.
Qed.

Lemma in_reps rep ts t : In t (reps rep ts) -> In t ts.
Proof.
  unfold reps. induction rep as [|n IH]; cbn [repeat concat]; [intros []|]. intro H. apply in_app_or in H. destruct H as [H|H]; [exact H|apply IH; exact H].
Qed.

Lemma runner_valid r rep ts : 0 < rep -> (forall p, In p (r_chain r) -> is_actor p = false) ->
  (forall t, In t ts -> stmt_acts t = [] /\ forallb stmt_ok (all_stmts (strip t)) = true) ->
  valid_from r [ORunner rep ts] = true.
Proof.
  intros Hrep Hna Hts. cbn [valid_from]. apply Nat.ltb_lt in Hrep. rewrite Hrep. cbn [andb].
  rewrite (runner_tests_valid r (reps rep ts) Hna) by (intros t Ht; apply Hts; apply (in_reps _ _ _ Ht)).
  unfold runner_tail_ok. rewrite orb_true_r. reflexivity.
Qed.

(* ... and every test of that run, whatever it redirects and however it ends, leaves every pointer at its original value *)
Lemma runner_restores st t : good st -> (forall p, In p (s_chain st) -> is_actor p = false) -> stmt_acts t = [] ->
  forallb stmt_ok (all_stmts (strip t)) = true ->
  let st1 := install st (runner_plugin (s_next st)) in
  s_mem (fst (run_xtest st1 t)) = fst (ref_test (s_mem st) (strip t)) /\ s_tbl (fst (run_xtest st1 t)) = [] /\
  s_reg (fst (run_xtest st1 t)) = s_reg st1.
Proof.
  intros Hg Hna Hst Hok st1.
  assert (G1 : good st1) by (apply good_install; [exact Hg|reflexivity|right; exact I]).
  destruct (runner_test_valid (s_reg st) t Hna Hst Hok) as [V [R _]]. cbn zeta in V, R.
  change (reg_install (s_reg st) (runner_plugin (r_next (s_reg st)))) with (s_reg st1) in V, R.
  destruct (run_xtest_ok st1 t (proj1 G1) (proj1 (proj2 G1)) V) as [R1 [R2 [R3 _]]].
  split; [exact R3|]. split; [exact R2|]. rewrite R1. exact R.
Qed.

(* ================================================================= order of installation *)
Lemma install_order l : forall st,
  map p_id (s_chain (exec_ops st (map (fun nk => OInstall (fst nk) (snd nk)) l))) =
  rev (seq (s_next st) (length l)) ++ map p_id (s_chain st).
Proof.
  induction l as [|[n k] l IH]; intro st; cbn [map exec_ops length seq rev app]; [reflexivity|].
  rewrite IH. cbn [step fst]. unfold s_chain, s_next. cbn [do_act s_reg reg_act reg_install r_chain r_next map mkp p_id fst snd].
  rewrite <- app_assoc. reflexivity.
Qed.

(* ================================================================= the hypotheses of the theorems are satisfiable *)
Definition xs (l : list stmt) : list xstmt := map XS l.
Definition ex_test : xtest :=
  {| x_setup := xs [SSet 3 7%N; SWrite 3 8%N]; x_body := xs [SSet 3 9%N; SSet 4 1%N; SAbort; SWrite 5 5%N]; x_teardown := xs [SWrite 6 2%N; SSet 3 0%N] |}.
Definition ex_session : list op :=
  [OInstall 1%N KPlain; OInstall 2%N KSetPtr; OInstall 3%N KPlain; ODisable 0; OTest ex_test; ORemove 1%N; OTest ex_test].
Example ex_valid : valid ex_session = true.
Proof. vm_compute. reflexivity. Qed.
Example ex_run : run ex_session =
  [ITest true [2; 1] [1; 2] (upd init_mem 6 2%N); IChain [2; 1]; ITest true [2; 1] [1; 2] (upd init_mem 6 2%N)].
Proof. vm_compute. reflexivity. Qed.
(* one redirection more than the table holds: the test fails, nothing lies beyond the table, every pointer is back *)
Definition ex_overflow : list op :=
  [OInstall 1%N KSetPtr; OTest {| x_setup := []; x_body := xs (map (fun i => SSet i 7%N) (seq 0 (S max_set))); x_teardown := [] |}].
Example ex_limit : valid ex_overflow = true /\ run ex_overflow = [ITest true [0] [0] init_mem].
Proof. vm_compute. split; reflexivity. Qed.

Definition quiet : xtest := {| x_setup := []; x_body := []; x_teardown := [] |}.
Definition body (l : list xstmt) : xtest := {| x_setup := []; x_body := l; x_teardown := [] |}.
(* a run of four tests on the chain 2 -> 1 -> 0: the first test's body removes the head by name, the third's installs a new
   head: the test after each sees the chain as it then is (the plugin an action names is left out of that test's lists) *)
Definition ex_in_run : list op :=
  [OInstall 1%N KPlain; OInstall 2%N KPlain; OInstall 3%N KPlain;
   ORun [body [XA (ARemove 3%N)]; quiet; body [XA (AInstall 4%N KPlain)]; quiet]].
Example ex_in_run_valid : valid ex_in_run = true.
Proof. vm_compute. reflexivity. Qed.
Example ex_in_run_obs : run ex_in_run =
  [ITest false [1; 0] [0; 1] init_mem; ITest false [1; 0] [0; 1] init_mem;
   ITest false [1; 0] [0; 1] init_mem; ITest false [3; 1; 0] [0; 1; 3] init_mem; IChain [3; 1; 0]].
Proof. vm_compute. reflexivity. Qed.
(* a plugin in the middle of the chain that removes itself from inside its own pre action; another that disables the first
   installed plugin from its post action *)
Definition ex_actors : list op :=
  [OInstall 1%N KPlain; OActor 2%N false [ARemove 2%N]; OActor 3%N true [ADisable 0]; OInstall 4%N KPlain; ORun [quiet; quiet]].
Example ex_actors_valid : valid ex_actors = true.
Proof. vm_compute. reflexivity. Qed.
Example ex_actors_obs : run ex_actors =
  [ITest false [3; 2] [2; 3] init_mem; ITest false [3; 2] [2; 3] init_mem; IChain [3; 2; 0]].
Proof. vm_compute. reflexivity. Qed.
(* the runner on a registry that already holds a disabled pointer plugin and a recording plugin, both under the runner's
   own plugin name: a passing test that redirects twice, a failing one; both run twice (-r2) *)
Definition ex_runner : list op :=
  [OInstall runner_name KSetPtr; ODisable 0; OInstall runner_name KPlain;
   ORunner 2 [body (xs [SSet 0 5%N; SSet 1 6%N; SSet 0 7%N]); body (xs [SSet 1 8%N; SAbort])]].
Example ex_runner_valid : valid ex_runner = true.
Proof. vm_compute. reflexivity. Qed.
Example ex_runner_obs : run ex_runner =
  [ITest false [1] [1] init_mem; ITest true [1] [1] init_mem; ITest false [1] [1] init_mem; ITest true [1] [1] init_mem; IChain []].
Proof. vm_compute. reflexivity. Qed.
Example ex_runner_hyps : 0 < 2 /\ (forall p, In p (r_chain (fst (tb_acts (init_reg, []) [AInstall runner_name KSetPtr; ADisable 0; AInstall runner_name KPlain]))) -> is_actor p = false).
Proof. split; [lia|]. vm_compute. intros p [<-|[<-|[]]]; reflexivity. Qed.

(* ================================================================= order of the plugin actions (plain recursion) *)
Lemma test_order m tb c t :
  match run_test m tb c t with
  | (_, _, ITest _ pre post _) => pre = map p_id (filter p_on c) /\ post = rev pre
  | _ => False
  end.
Proof.
  unfold run_test. destruct (exec_test m tb t) as [[m1 tb1] f].
  pose proof (post_all_log c m1 tb1) as Hl. destruct (post_all c m1 tb1) as [[m2 tb2] lg]. cbn [snd] in Hl.
  split; [apply pre_all_enabled|exact Hl].
Qed.

(* ================================================================= whatever a test does: the plugins it does not name stay *)
Lemma run_xtest_J st t : wf (s_reg st) ->
  wf (s_reg (fst (run_xtest st t))) /\
  forall p, In p (s_chain st) -> ~ In (p_id p) (s_T (fst (run_xtest st t))) -> In p (s_chain (fst (run_xtest st t))).
Proof.
  intro Hw. unfold run_xtest.
  set (st' := {| s_mem := s_mem st; s_tbl := s_tbl st; s_reg := s_reg st; s_T := [] |}).
  change (s_chain st') with (s_chain st).
  assert (HJ : J (s_chain st) st') by (split; [exact Hw|intros p Hp _; exact Hp]).
  pose proof (J_walk (s_chain st) false (s_chain st) st' [] HJ) as H1. destruct (walk false (s_chain st) st' []) as [st1 pre]. cbn [fst] in H1.
  pose proof (J_xexec_test (s_chain st) st1 t H1) as H2. destruct (xexec_test st1 t) as [st4 failed]. cbn [fst] in H2.
  pose proof (J_walk (s_chain st) true (rev (s_chain st)) st4 [] H2) as H3. destruct (walk true (rev (s_chain st)) st4 []) as [st5 post].
  exact H3.
Qed.
Example ex_J : exists p, In p (s_chain (exec_ops init_state [OInstall 1%N KPlain; OInstall 2%N KPlain])) /\
  ~ In (p_id p) (s_T (fst (run_xtest (exec_ops init_state [OInstall 1%N KPlain; OInstall 2%N KPlain]) (body [XA (ARemove 2%N)])))).
Proof. exists (mkp 0 1%N KPlain RRec). vm_compute. split; [right; left; reflexivity|intros [H|[]]; discriminate H]. Qed.
